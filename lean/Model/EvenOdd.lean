/-! C05: the executable even-odd ORACLE that validates every individual call of the polygon clipper.

The clipper (`/repo/xmath/geom/poly`, a float port of the GPC scan-beam algorithm) is NOT modelled.  What is defined
here is the specification side: crossing number of a contour at a point, `inside`, the four Boolean combinators and
the two validators the driver `drv_c05` runs on the operands and on the result returned by the real code:

* `validateLattice N A B R op` — A, B, R are rectilinear with vertices on the integer lattice of `[0,N]²` and the
  Boolean law holds at the centre of each of the `N²` unit cells (`Props/C05.lean` proves that this decides the law at
  EVERY point of every open cell);
* `validatePoints m A B R op pts` — the law holds at each listed sample point that is at least `m` away from every
  edge of A, B and R (sampling; nothing universal follows).

Arithmetic is exact: every IEEE value is a dyadic rational `m·2^e` (`Dy`); all numbers of one call are brought to the
common denominator `2^(-emin)` and the tests are then division-free tests on `Int`.  Core Lean only. -/
namespace EO

structure Pt where
  x : Int
  y : Int
deriving DecidableEq, Repr

abbrev Contour := List Pt
abbrev Polygon := List Contour

/-- consecutive pairs of `l`, the last element being paired with `f` -/
def pairs {α : Type} : List α → α → List (α × α)
  | [], _ => []
  | [a], f => [(a, f)]
  | a :: b :: t, f => (a, b) :: pairs (b :: t) f

/-- the edges of a closed contour (closing edge included) -/
def edgesOf {α : Type} (c : List α) : List (α × α) :=
  match c with
  | [] => []
  | v :: t => pairs (v :: t) v

def allEdges {α : Type} (P : List (List α)) : List (α × α) := P.flatMap edgesOf

/-- does the rightward ray from `p` cross the edge `a → b`?  Division-free form of
    `a.y ≠ b.y ∧ min a.y b.y ≤ p.y < max a.y b.y ∧ p.x < a.x + (p.y - a.y)·(b.x - a.x)/(b.y - a.y)`. -/
def crosses (a b p : Pt) : Bool :=
  if a.y < b.y then
    decide (a.y ≤ p.y ∧ p.y < b.y ∧ (p.x - a.x) * (b.y - a.y) < (p.y - a.y) * (b.x - a.x))
  else if b.y < a.y then
    decide (b.y ≤ p.y ∧ p.y < a.y ∧ (p.y - a.y) * (b.x - a.x) < (p.x - a.x) * (b.y - a.y))
  else false

def crossCount (P : Polygon) (p : Pt) : Nat := (allEdges P).countP (fun e => crosses e.1 e.2 p)

/-- even-odd rule -/
def inside (P : Polygon) (p : Pt) : Bool := crossCount P p % 2 == 1

inductive Op where
  | union | inter | sub | xor
deriving DecidableEq, Repr

def Op.apply : Op → Bool → Bool → Bool
  | .union, a, b => a || b
  | .inter, a, b => a && b
  | .sub, a, b => a && !b
  | .xor, a, b => a != b

/-! ## lattice validator -/

def inSquare (N : Nat) (v : Pt) : Bool := decide (0 ≤ v.x ∧ v.x ≤ N ∧ 0 ≤ v.y ∧ v.y ≤ N)

def rectEdge (e : Pt × Pt) : Bool := e.1.x == e.2.x || e.1.y == e.2.y

/-- all vertices on the lattice of `[0,N]²`, every edge (closing edges included) horizontal or vertical -/
def latticeOK (N : Nat) (P : Polygon) : Bool :=
  P.all (fun c => c.all (inSquare N)) && (allEdges P).all rectEdge

def dbl (v : Pt) : Pt := ⟨2 * v.x, 2 * v.y⟩
def dblPoly (P : Polygon) : Polygon := P.map (fun c => c.map dbl)

/-- centre of the unit cell `[i,i+1]×[j,j+1]` in doubled coordinates -/
def centre2 (i j : Nat) : Pt := ⟨2 * (i : Int) + 1, 2 * (j : Int) + 1⟩

/-- the Boolean law at one point (polygons and point in the same coordinates) -/
def lawAt (A B R : Polygon) (op : Op) (p : Pt) : Bool :=
  inside R p == op.apply (inside A p) (inside B p)

/-! The cell loops work on edge lists computed once per call (`insideE (allEdges P) p` is `inside P p` by definition). -/

def crossCountE (E : List (Pt × Pt)) (p : Pt) : Nat := E.countP (fun e => crosses e.1 e.2 p)
def insideE (E : List (Pt × Pt)) (p : Pt) : Bool := crossCountE E p % 2 == 1
def lawAtE (EA EB ER : List (Pt × Pt)) (op : Op) (p : Pt) : Bool :=
  insideE ER p == op.apply (insideE EA p) (insideE EB p)

theorem insideE_allEdges (P : Polygon) (p : Pt) : insideE (allEdges P) p = inside P p := rfl
theorem lawAtE_allEdges (A B R : Polygon) (op : Op) (p : Pt) :
    lawAtE (allEdges A) (allEdges B) (allEdges R) op p = lawAt A B R op p := rfl

/-- does the edge straddle the horizontal line at ordinate `y` (only such edges can be crossed by a ray at `y`) -/
def straddles (y : Int) (e : Pt × Pt) : Bool :=
  (decide (e.1.y ≤ y) && decide (y < e.2.y)) || (decide (e.2.y ≤ y) && decide (y < e.1.y))

/-- `A2 B2 R2` are the doubled polygons.  Row by row: only the edges that straddle the row's centre line are kept
    (`Lemmas/EvenOdd.lean`, `insideE_filter`: this does not change `insideE`). -/
def cellsOK (N : Nat) (A2 B2 R2 : Polygon) (op : Op) : Bool :=
  let EA := allEdges A2
  let EB := allEdges B2
  let ER := allEdges R2
  (List.range N).all fun (j : Nat) =>
    let y : Int := 2 * (j : Int) + 1
    let ra := EA.filter (straddles y)
    let rb := EB.filter (straddles y)
    let rr := ER.filter (straddles y)
    (List.range N).all fun i => lawAtE ra rb rr op (centre2 i j)

/-- the combined region contains no cell -/
def regionEmpty (N : Nat) (A2 B2 : Polygon) (op : Op) : Bool :=
  let EA := allEdges A2
  let EB := allEdges B2
  (List.range N).all fun (j : Nat) =>
    let y : Int := 2 * (j : Int) + 1
    let ra := EA.filter (straddles y)
    let rb := EB.filter (straddles y)
    (List.range N).all fun i => !(op.apply (insideE ra (centre2 i j)) (insideE rb (centre2 i j)))

/-- `Polygon.Empty` -/
def resultEmpty (R : Polygon) : Bool := R.all List.isEmpty

def validateLattice (N : Nat) (A B R : Polygon) (op : Op) : Bool :=
  latticeOK N A && latticeOK N B && latticeOK N R &&
  cellsOK N (dblPoly A) (dblPoly B) (dblPoly R) op &&
  (!(regionEmpty N (dblPoly A) (dblPoly B) op) || resultEmpty R)

/-- first cell whose centre breaks the law (witness for the report only) -/
def firstBadCell (N : Nat) (A B R : Polygon) (op : Op) : Option (Nat × Nat) :=
  let EA := allEdges (dblPoly A); let EB := allEdges (dblPoly B); let ER := allEdges (dblPoly R)
  (List.range N).findSome? fun (j : Nat) =>
    let y : Int := 2 * (j : Int) + 1
    let ra := EA.filter (straddles y)
    let rb := EB.filter (straddles y)
    let rr := ER.filter (straddles y)
    (List.range N).findSome? fun i => if lawAtE ra rb rr op (centre2 i j) then none else some (i, j)

/-! ## sample-point validator -/

/-- is `p` at least `m` (Euclidean) away from the closed segment `ab`?  Exact, on squared quantities. -/
def farSeg (m : Int) (a b p : Pt) : Bool :=
  let dx := b.x - a.x
  let dy := b.y - a.y
  let px := p.x - a.x
  let py := p.y - a.y
  let t := px * dx + py * dy
  let l2 := dx * dx + dy * dy
  if t ≤ 0 then decide (m * m ≤ px * px + py * py)
  else if l2 ≤ t then decide (m * m ≤ (p.x - b.x) * (p.x - b.x) + (p.y - b.y) * (p.y - b.y))
  else decide (m * m * l2 ≤ (dx * py - dy * px) * (dx * py - dy * px))

/-- `p` keeps the margin `m` from every edge of `P` -/
def clear (m : Int) (P : Polygon) (p : Pt) : Bool := (allEdges P).all fun e => farSeg m e.1 e.2 p

def clearAll (m : Int) (A B R : Polygon) (p : Pt) : Bool := clear m A p && clear m B p && clear m R p

def pointOK (m : Int) (A B R : Polygon) (op : Op) (p : Pt) : Bool :=
  !(clearAll m A B R p) || lawAt A B R op p

def validatePoints (m : Int) (A B R : Polygon) (op : Op) (pts : List Pt) : Bool :=
  pts.all (pointOK m A B R op)

/-- number of sample points that were actually judged -/
def judged (m : Int) (A B R : Polygon) (pts : List Pt) : Nat := pts.countP (clearAll m A B R)

def firstBadPoint (m : Int) (A B R : Polygon) (op : Op) (pts : List Pt) : Option Pt :=
  pts.find? fun p => !(pointOK m A B R op p)

/-! ## "empty when the combined region is empty" for sampled calls

`emptyCert op A B` is an exact, decidable CERTIFICATE that the combined region is empty (`Props/C05.lean`,
`emptyCert_sound`: if it holds, `op` of "inside A" and "inside B" is false at EVERY point).  It recognises: an operand
without edges; identical operands (`Sub`, `Xor`); operands separated by a vertical or a horizontal line (`Intersect`);
`B` the axis-parallel rectangle `[[(x0,y0),(x1,y0),(x1,y1),(x0,y1)]]` that contains every vertex of `A` (`Sub`).
When the certificate holds the result must be empty in the sense of `Polygon.Empty` (no contour has a vertex). -/

def edgeXLe (e f : Pt × Pt) : Bool := decide (max e.1.x e.2.x ≤ min f.1.x f.2.x)
def edgeYLe (e f : Pt × Pt) : Bool := decide (max e.1.y e.2.y ≤ min f.1.y f.2.y)
/-- every edge of `EA` lies left of (below) every edge of `EB` -/
def sepX (EA EB : List (Pt × Pt)) : Bool := EA.all fun e => EB.all fun f => edgeXLe e f
def sepY (EA EB : List (Pt × Pt)) : Bool := EA.all fun e => EB.all fun f => edgeYLe e f

def separated (A B : Polygon) : Bool :=
  let EA := allEdges A
  let EB := allEdges B
  sepX EA EB || sepX EB EA || sepY EA EB || sepY EB EA

def noEdges (P : Polygon) : Bool := (allEdges P).isEmpty

def inRectEdge (x0 y0 x1 y1 : Int) (e : Pt × Pt) : Bool :=
  decide (x0 < e.1.x ∧ e.1.x ≤ x1 ∧ x0 < e.2.x ∧ e.2.x ≤ x1 ∧ y0 ≤ e.1.y ∧ e.1.y ≤ y1 ∧ y0 ≤ e.2.y ∧ e.2.y ≤ y1)

/-- `B` is literally the rectangle `[[(x0,y0),(x1,y0),(x1,y1),(x0,y1)]]`, `x0 < x1`, `y0 < y1`, and every vertex of `A`
    lies in `(x0,x1] × [y0,y1]` -/
def rectCovers (B A : Polygon) : Bool :=
  match B with
  | [[b0, b1, b2, b3]] =>
    decide (b0.y = b1.y ∧ b1.x = b2.x ∧ b2.y = b3.y ∧ b3.x = b0.x ∧ b0.x < b1.x ∧ b1.y < b2.y) &&
    (allEdges A).all (inRectEdge b0.x b0.y b2.x b2.y)
  | _ => false

/-- twice the signed area of the triangle `a b c`: positive when `c` is to the left of the directed line `a → b` -/
def orient (a b c : Pt) : Int := (b.x - a.x) * (c.y - a.y) - (b.y - a.y) * (c.x - a.x)

/-- all vertices of `EA` are on the closed right side of the directed line `u → v` (or on it), all vertices of `EB`
    strictly on its left side -/
def sideOK (u v : Pt) (EA EB : List (Pt × Pt)) : Bool :=
  EA.all (fun e => decide (orient u v e.1 ≤ 0 ∧ orient u v e.2 ≤ 0)) &&
  EB.all (fun f => decide (0 < orient u v f.1 ∧ 0 < orient u v f.2))

/-- the operands are separated by the line through one of their edges (in either direction, either operand on the
    closed side) — e.g. every pair of disjoint convex contours, whether or not their bounding boxes overlap -/
def sepLine (A B : Polygon) : Bool :=
  let EA := allEdges A
  let EB := allEdges B
  (EA ++ EB).any fun e =>
    sideOK e.1 e.2 EA EB || sideOK e.2 e.1 EA EB || sideOK e.1 e.2 EB EA || sideOK e.2 e.1 EB EA

def emptyCert : Op → Polygon → Polygon → Bool
  | .inter, A, B => noEdges A || noEdges B || separated A B || sepLine A B
  | .sub, A, B => noEdges A || decide (A = B) || rectCovers B A
  | .xor, A, B => decide (A = B) || (noEdges A && noEdges B)
  | .union, A, B => noEdges A && noEdges B

def validateEmpty (A B R : Polygon) (op : Op) : Bool := !(emptyCert op A B) || resultEmpty R

/-! ### the general disjointness / containment judgement (exact, executable; soundness NOT machine-proved)

`noContact A B`: no edge of `A` meets an edge of `B` (closed segments: touching and collinear overlap count as meeting),
no vertex of `A` is inside `B` and no vertex of `B` is inside `A`.  Then the regions are disjoint
(`Props/C05.lean`, `noContact_disjoint_Statement` — a topological fact that is stated, not proved, there; proved only for
operands separated by a line, `sepLine`).  `containedIn A B`: the boundaries do not meet, every vertex of `A` is inside
`B` and no vertex of `B` is inside `A`; then `A ⊆ B` (`containedIn_subset_Statement`, likewise unproved).  The validator
uses them in addition to the proved certificate: an Intersect of `noContact` operands and a Sub of `containedIn`
operands must return an empty polygon. -/

def sgn (i : Int) : Int := if 0 < i then 1 else if i < 0 then -1 else 0

def inBox (a b c : Pt) : Bool :=
  decide (min a.x b.x ≤ c.x ∧ c.x ≤ max a.x b.x ∧ min a.y b.y ≤ c.y ∧ c.y ≤ max a.y b.y)

/-- `c` lies on the closed segment `ab` -/
def onSeg (a b c : Pt) : Bool := orient a b c == 0 && inBox a b c

/-- do the closed segments `ab` and `cd` have a point in common -/
def segMeet (a b c d : Pt) : Bool :=
  (sgn (orient a b c) != sgn (orient a b d) && sgn (orient c d a) != sgn (orient c d b)) ||
  onSeg a b c || onSeg a b d || onSeg c d a || onSeg c d b

def boundariesApart (EA EB : List (Pt × Pt)) : Bool :=
  EA.all fun e => EB.all fun f => !(segMeet e.1 e.2 f.1 f.2)

def noContact (A B : Polygon) : Bool :=
  let EA := allEdges A
  let EB := allEdges B
  boundariesApart EA EB && EA.all (fun e => !(insideE EB e.1)) && EB.all (fun f => !(insideE EA f.1))

def containedIn (A B : Polygon) : Bool :=
  let EA := allEdges A
  let EB := allEdges B
  !EA.isEmpty && boundariesApart EA EB && EA.all (fun e => insideE EB e.1) && EB.all (fun f => !(insideE EA f.1))

/-- regions judged empty by the general (unproved) judgement -/
def emptyJudged : Op → Polygon → Polygon → Bool
  | .inter, A, B => noContact A B
  | .sub, A, B => containedIn A B
  | _, _, _ => false

def validateEmptyJudged (A B R : Polygon) (op : Op) : Bool := !(emptyJudged op A B) || resultEmpty R

/-- the validator of a sampled call: the law at the sample points that keep the margin, an empty result whenever the
    region is certified empty (`emptyCert`, proved), and an empty result whenever the exact disjointness / containment
    judgement holds (`emptyJudged`) -/
def validateGeneral (m : Int) (A B R : Polygon) (op : Op) (pts : List Pt) : Bool :=
  validatePoints m A B R op pts && validateEmpty A B R op && validateEmptyJudged A B R op

/-! ## exact numbers: dyadic rationals and IEEE decoding -/

/-- the dyadic rational `m · 2^e` -/
structure Dy where
  m : Int
  e : Int
deriving DecidableEq, Repr

/-- exact value of an IEEE-754 binary bit pattern with `eb` exponent bits and `mb` fraction bits;
    `none` for infinities and NaN -/
def decodeBits (eb mb : Nat) (bits : Nat) : Option Dy :=
  let frac := bits % 2 ^ mb
  let ex := (bits / 2 ^ mb) % 2 ^ eb
  let neg := (bits / 2 ^ (mb + eb)) % 2 == 1
  let bias : Int := 2 ^ (eb - 1) - 1
  if ex == 2 ^ eb - 1 then none
  else
    let (mant, e) : Int × Int :=
      if ex == 0 then ((frac : Int), 1 - bias - mb) else ((2 ^ mb + frac : Nat), (ex : Int) - bias - mb)
    some ⟨if neg then -mant else mant, if mant == 0 then 0 else e⟩

def log2Exact (d : Nat) : Option Nat :=
  if d == 0 then none else if 2 ^ d.log2 == d then some d.log2 else none

/-- `n/d` with `d` a power of two -/
def ratDy (n : Int) (d : Nat) : Option Dy :=
  match log2Exact d with
  | some k => some ⟨n, if n == 0 then 0 else -(k : Int)⟩
  | none => none

/-- the integer `d · 2^(-emin)`; exact when `emin ≤ d.e` -/
def Dy.scaled (d : Dy) (emin : Int) : Int := d.m * 2 ^ (d.e - emin).toNat

/-- the integer value of a dyadic, if it is an integer -/
def Dy.toInt? (d : Dy) : Option Int :=
  if 0 ≤ d.e then some (d.m * 2 ^ d.e.toNat)
  else
    let k : Int := 2 ^ (-d.e).toNat
    if d.m % k == 0 then some (d.m / k) else none

end EO
