/-! C05: the executable even-odd ORACLE that validates every individual call of the polygon clipper.

The clipper (`/repo/xmath/geom/poly`, a float port of the GPC scan-beam algorithm) is NOT modelled.  What is defined
here is the specification side: crossing number of a contour at a point, `inside`, the four Boolean combinators and
the two validators the driver `drv_c05` runs on the operands and on the result returned by the real code:

* `validateLattice N A B R op` — A, B, R are rectilinear with vertices on the integer lattice of `[0,N]²` and the
  Boolean law holds at the centre of each of the `N²` unit cells (`Props/C05.lean` proves that this decides the law at
  EVERY point of every open cell);
* `validatePoints m A B R op pts` — the law holds at each listed sample point that is at least `m` away from every
  edge of A, B and R (sampling; nothing universal follows);
* `pruneOK op A B fa fb` — the flags the clipper's bounding-box pruning step (`identifyNonContributingContours`, seen
  through an overlay) returned for the operands: every flagged contour is separated from every contour of the other
  operand by an axis-parallel line (`Props/C05.lean`, `prune_sound`: dropping them changes the region at no point).

Three stages of the clipper itself ARE transcribed (and compared with the real code through overlays, areas `prune`,
`emit`, `sbt`): `nonContributing` (bounding-box pruning), `generate` (contour emission) and `scanBeamTable` (the
scan-beam tree and its in-order table); so are the library's own point tests `Contour.Contains`,
`Polygon.ContainsEvenOdd`, `Polygon.Contains` (`containsC`, `containsEvenOdd`, `containsAny`; area `contains`).
The local minima table the real code builds is validated, not transcribed (`lmtOK`; area `lmt`).

Arithmetic is exact: every IEEE value is a dyadic rational `m·2^e` (`Dy`); all numbers of one call are brought to the
common denominator `2^(-emin)` and the tests are then division-free tests on `Int`.  Core Lean only. -/
namespace EO

structure Pt where
  x : Int
  y : Int
deriving DecidableEq, Repr

abbrev Contour := List Pt
abbrev Polygon := List Contour

/-- consecutive pairs of `l`, the last element being paired with `f` -/
def pairs {α : Type} : List α → α → List (α × α)
  | [], _ => []
  | [a], f => [(a, f)]
  | a :: b :: t, f => (a, b) :: pairs (b :: t) f

/-- the edges of a closed contour (closing edge included) -/
def edgesOf {α : Type} (c : List α) : List (α × α) :=
  match c with
  | [] => []
  | v :: t => pairs (v :: t) v

def allEdges {α : Type} (P : List (List α)) : List (α × α) := P.flatMap edgesOf

/-- does the rightward ray from `p` cross the edge `a → b`?  Division-free form of
    `a.y ≠ b.y ∧ min a.y b.y ≤ p.y < max a.y b.y ∧ p.x < a.x + (p.y - a.y)·(b.x - a.x)/(b.y - a.y)`. -/
def crosses (a b p : Pt) : Bool :=
  if a.y < b.y then
    decide (a.y ≤ p.y ∧ p.y < b.y ∧ (p.x - a.x) * (b.y - a.y) < (p.y - a.y) * (b.x - a.x))
  else if b.y < a.y then
    decide (b.y ≤ p.y ∧ p.y < a.y ∧ (p.y - a.y) * (b.x - a.x) < (p.x - a.x) * (b.y - a.y))
  else false

def crossCount (P : Polygon) (p : Pt) : Nat := (allEdges P).countP (fun e => crosses e.1 e.2 p)

/-- even-odd rule -/
def inside (P : Polygon) (p : Pt) : Bool := crossCount P p % 2 == 1

inductive Op where
  | union | inter | sub | xor
deriving DecidableEq, Repr

def Op.apply : Op → Bool → Bool → Bool
  | .union, a, b => a || b
  | .inter, a, b => a && b
  | .sub, a, b => a && !b
  | .xor, a, b => a != b

/-! ## lattice validator -/

def inSquare (N : Nat) (v : Pt) : Bool := decide (0 ≤ v.x ∧ v.x ≤ N ∧ 0 ≤ v.y ∧ v.y ≤ N)

def rectEdge (e : Pt × Pt) : Bool := e.1.x == e.2.x || e.1.y == e.2.y

/-- all vertices on the lattice of `[0,N]²`, every edge (closing edges included) horizontal or vertical -/
def latticeOK (N : Nat) (P : Polygon) : Bool :=
  P.all (fun c => c.all (inSquare N)) && (allEdges P).all rectEdge

def dbl (v : Pt) : Pt := ⟨2 * v.x, 2 * v.y⟩
def dblPoly (P : Polygon) : Polygon := P.map (fun c => c.map dbl)

/-- centre of the unit cell `[i,i+1]×[j,j+1]` in doubled coordinates -/
def centre2 (i j : Nat) : Pt := ⟨2 * (i : Int) + 1, 2 * (j : Int) + 1⟩

/-- the Boolean law at one point (polygons and point in the same coordinates) -/
def lawAt (A B R : Polygon) (op : Op) (p : Pt) : Bool :=
  inside R p == op.apply (inside A p) (inside B p)

/-! The cell loops work on edge lists computed once per call (`insideE (allEdges P) p` is `inside P p` by definition). -/

def crossCountE (E : List (Pt × Pt)) (p : Pt) : Nat := E.countP (fun e => crosses e.1 e.2 p)
def insideE (E : List (Pt × Pt)) (p : Pt) : Bool := crossCountE E p % 2 == 1
def lawAtE (EA EB ER : List (Pt × Pt)) (op : Op) (p : Pt) : Bool :=
  insideE ER p == op.apply (insideE EA p) (insideE EB p)

theorem insideE_allEdges (P : Polygon) (p : Pt) : insideE (allEdges P) p = inside P p := rfl
theorem lawAtE_allEdges (A B R : Polygon) (op : Op) (p : Pt) :
    lawAtE (allEdges A) (allEdges B) (allEdges R) op p = lawAt A B R op p := rfl

/-- does the edge straddle the horizontal line at ordinate `y` (only such edges can be crossed by a ray at `y`) -/
def straddles (y : Int) (e : Pt × Pt) : Bool :=
  (decide (e.1.y ≤ y) && decide (y < e.2.y)) || (decide (e.2.y ≤ y) && decide (y < e.1.y))

/-- `A2 B2 R2` are the doubled polygons.  Row by row: only the edges that straddle the row's centre line are kept
    (`Lemmas/EvenOdd.lean`, `insideE_filter`: this does not change `insideE`). -/
def cellsOK (N : Nat) (A2 B2 R2 : Polygon) (op : Op) : Bool :=
  let EA := allEdges A2
  let EB := allEdges B2
  let ER := allEdges R2
  (List.range N).all fun (j : Nat) =>
    let y : Int := 2 * (j : Int) + 1
    let ra := EA.filter (straddles y)
    let rb := EB.filter (straddles y)
    let rr := ER.filter (straddles y)
    (List.range N).all fun i => lawAtE ra rb rr op (centre2 i j)

/-- the combined region contains no cell -/
def regionEmpty (N : Nat) (A2 B2 : Polygon) (op : Op) : Bool :=
  let EA := allEdges A2
  let EB := allEdges B2
  (List.range N).all fun (j : Nat) =>
    let y : Int := 2 * (j : Int) + 1
    let ra := EA.filter (straddles y)
    let rb := EB.filter (straddles y)
    (List.range N).all fun i => !(op.apply (insideE ra (centre2 i j)) (insideE rb (centre2 i j)))

/-- `Polygon.Empty` -/
def resultEmpty (R : Polygon) : Bool := R.all List.isEmpty

def validateLattice (N : Nat) (A B R : Polygon) (op : Op) : Bool :=
  latticeOK N A && latticeOK N B && latticeOK N R &&
  cellsOK N (dblPoly A) (dblPoly B) (dblPoly R) op &&
  (!(regionEmpty N (dblPoly A) (dblPoly B) op) || resultEmpty R)

/-- first cell whose centre breaks the law (witness for the report only) -/
def firstBadCell (N : Nat) (A B R : Polygon) (op : Op) : Option (Nat × Nat) :=
  let EA := allEdges (dblPoly A); let EB := allEdges (dblPoly B); let ER := allEdges (dblPoly R)
  (List.range N).findSome? fun (j : Nat) =>
    let y : Int := 2 * (j : Int) + 1
    let ra := EA.filter (straddles y)
    let rb := EB.filter (straddles y)
    let rr := ER.filter (straddles y)
    (List.range N).findSome? fun i => if lawAtE ra rb rr op (centre2 i j) then none else some (i, j)

/-! ## sample-point validator -/

/-- is `p` at least `m` (Euclidean) away from the closed segment `ab`?  Exact, on squared quantities. -/
def farSeg (m : Int) (a b p : Pt) : Bool :=
  let dx := b.x - a.x
  let dy := b.y - a.y
  let px := p.x - a.x
  let py := p.y - a.y
  let t := px * dx + py * dy
  let l2 := dx * dx + dy * dy
  if t ≤ 0 then decide (m * m ≤ px * px + py * py)
  else if l2 ≤ t then decide (m * m ≤ (p.x - b.x) * (p.x - b.x) + (p.y - b.y) * (p.y - b.y))
  else decide (m * m * l2 ≤ (dx * py - dy * px) * (dx * py - dy * px))

/-- `p` keeps the margin `m` from every edge of `P` -/
def clear (m : Int) (P : Polygon) (p : Pt) : Bool := (allEdges P).all fun e => farSeg m e.1 e.2 p

def clearAll (m : Int) (A B R : Polygon) (p : Pt) : Bool := clear m A p && clear m B p && clear m R p

def pointOK (m : Int) (A B R : Polygon) (op : Op) (p : Pt) : Bool :=
  !(clearAll m A B R p) || lawAt A B R op p

def validatePoints (m : Int) (A B R : Polygon) (op : Op) (pts : List Pt) : Bool :=
  pts.all (pointOK m A B R op)

/-- number of sample points that were actually judged -/
def judged (m : Int) (A B R : Polygon) (pts : List Pt) : Nat := pts.countP (clearAll m A B R)

def firstBadPoint (m : Int) (A B R : Polygon) (op : Op) (pts : List Pt) : Option Pt :=
  pts.find? fun p => !(pointOK m A B R op p)

/-! ## "empty when the combined region is empty" for sampled calls

`emptyCert op A B` is an exact, decidable CERTIFICATE that the combined region is empty (`Props/C05.lean`,
`emptyCert_sound`: if it holds, `op` of "inside A" and "inside B" is false at EVERY point).  It recognises: an operand
without edges; identical operands (`Sub`, `Xor`); operands separated by a vertical or a horizontal line (`Intersect`);
`B` the axis-parallel rectangle `[[(x0,y0),(x1,y0),(x1,y1),(x0,y1)]]` that contains every vertex of `A` (`Sub`).
When the certificate holds the result must be empty in the sense of `Polygon.Empty` (no contour has a vertex). -/

def edgeXLe (e f : Pt × Pt) : Bool := decide (max e.1.x e.2.x ≤ min f.1.x f.2.x)
def edgeYLe (e f : Pt × Pt) : Bool := decide (max e.1.y e.2.y ≤ min f.1.y f.2.y)
/-- every edge of `EA` lies left of (below) every edge of `EB` -/
def sepX (EA EB : List (Pt × Pt)) : Bool := EA.all fun e => EB.all fun f => edgeXLe e f
def sepY (EA EB : List (Pt × Pt)) : Bool := EA.all fun e => EB.all fun f => edgeYLe e f

def separated (A B : Polygon) : Bool :=
  let EA := allEdges A
  let EB := allEdges B
  sepX EA EB || sepX EB EA || sepY EA EB || sepY EB EA

def noEdges (P : Polygon) : Bool := (allEdges P).isEmpty

def inRectEdge (x0 y0 x1 y1 : Int) (e : Pt × Pt) : Bool :=
  decide (x0 < e.1.x ∧ e.1.x ≤ x1 ∧ x0 < e.2.x ∧ e.2.x ≤ x1 ∧ y0 ≤ e.1.y ∧ e.1.y ≤ y1 ∧ y0 ≤ e.2.y ∧ e.2.y ≤ y1)

/-- `B` is literally the rectangle `[[(x0,y0),(x1,y0),(x1,y1),(x0,y1)]]`, `x0 < x1`, `y0 < y1`, and every vertex of `A`
    lies in `(x0,x1] × [y0,y1]` -/
def rectCovers (B A : Polygon) : Bool :=
  match B with
  | [[b0, b1, b2, b3]] =>
    decide (b0.y = b1.y ∧ b1.x = b2.x ∧ b2.y = b3.y ∧ b3.x = b0.x ∧ b0.x < b1.x ∧ b1.y < b2.y) &&
    (allEdges A).all (inRectEdge b0.x b0.y b2.x b2.y)
  | _ => false

/-- twice the signed area of the triangle `a b c`: positive when `c` is to the left of the directed line `a → b` -/
def orient (a b c : Pt) : Int := (b.x - a.x) * (c.y - a.y) - (b.y - a.y) * (c.x - a.x)

/-- all vertices of `EA` are on the closed right side of the directed line `u → v` (or on it), all vertices of `EB`
    strictly on its left side -/
def sideOK (u v : Pt) (EA EB : List (Pt × Pt)) : Bool :=
  EA.all (fun e => decide (orient u v e.1 ≤ 0 ∧ orient u v e.2 ≤ 0)) &&
  EB.all (fun f => decide (0 < orient u v f.1 ∧ 0 < orient u v f.2))

/-- the operands are separated by the line through one of their edges (in either direction, either operand on the
    closed side) — e.g. every pair of disjoint convex contours, whether or not their bounding boxes overlap -/
def sepLine (A B : Polygon) : Bool :=
  let EA := allEdges A
  let EB := allEdges B
  (EA ++ EB).any fun e =>
    sideOK e.1 e.2 EA EB || sideOK e.2 e.1 EA EB || sideOK e.1 e.2 EB EA || sideOK e.2 e.1 EB EA

def emptyCert : Op → Polygon → Polygon → Bool
  | .inter, A, B => noEdges A || noEdges B || separated A B || sepLine A B
  | .sub, A, B => noEdges A || decide (A = B) || rectCovers B A
  | .xor, A, B => decide (A = B) || (noEdges A && noEdges B)
  | .union, A, B => noEdges A && noEdges B

def validateEmpty (A B R : Polygon) (op : Op) : Bool := !(emptyCert op A B) || resultEmpty R

/-! ### the general disjointness / containment judgement (exact, executable; soundness machine-proved)

`noContact A B`: every edge of `A` is APART from every edge of `B` for an elementary reason (`segApart`: the end points of
one are strictly on the same side of the line through the other - for segments that are not on one common line this is
exactly "no point in common"), no edge of `A` starts inside `B` and no edge of `B` starts inside `A`.  Then the regions
are disjoint (`Props/C05.lean`, `noContact_disjoint`, a Jordan-type theorem for the even-odd rule: `inside` does not change
along a segment that is apart from every edge, and the first boundary point hit by the ray from a common point gives the
contradiction).  `containedIn A B`: the boundaries are apart, every edge of `A` starts inside `B` and no edge of `B` starts
inside `A`; then `A ⊆ B` (`containedIn_subset`).  The validator uses them in addition to the certificate `emptyCert`: an
Intersect of `noContact` operands and a Sub of `containedIn` operands must return an empty polygon. -/

def inBox (a b c : Pt) : Bool :=
  decide (min a.x b.x ≤ c.x ∧ c.x ≤ max a.x b.x ∧ min a.y b.y ≤ c.y ∧ c.y ≤ max a.y b.y)

/-- `c` lies on the closed segment `ab` -/
def onSeg (a b c : Pt) : Bool := orient a b c == 0 && inBox a b c

/-- the closed segments `ab` and `cd` are apart: `c`, `d` strictly on the same side of the line `ab`, or `a`, `b` strictly
    on the same side of the line `cd` -/
def segApart (a b c d : Pt) : Bool :=
  decide (0 < orient a b c * orient a b d) || decide (0 < orient c d a * orient c d b)

def boundariesApart (EA EB : List (Pt × Pt)) : Bool :=
  EA.all fun e => EB.all fun f => segApart e.1 e.2 f.1 f.2

def noContact (A B : Polygon) : Bool :=
  let EA := allEdges A
  let EB := allEdges B
  boundariesApart EA EB && EA.all (fun e => !(insideE EB e.1)) && EB.all (fun f => !(insideE EA f.1))

def containedIn (A B : Polygon) : Bool :=
  let EA := allEdges A
  let EB := allEdges B
  !EA.isEmpty && boundariesApart EA EB && EA.all (fun e => insideE EB e.1) && EB.all (fun f => !(insideE EA f.1))

/-- regions judged empty by the general judgement (`Props/C05.lean`, `emptyJudged_sound`) -/
def emptyJudged : Op → Polygon → Polygon → Bool
  | .inter, A, B => noContact A B
  | .sub, A, B => containedIn A B
  | _, _, _ => false

def validateEmptyJudged (A B R : Polygon) (op : Op) : Bool := !(emptyJudged op A B) || resultEmpty R

/-- the validator of a sampled call: the law at the sample points that keep the margin, an empty result whenever the
    region is certified empty (`emptyCert`, proved), and an empty result whenever the exact disjointness / containment
    judgement holds (`emptyJudged`) -/
def validateGeneral (m : Int) (A B R : Polygon) (op : Op) (pts : List Pt) : Bool :=
  validatePoints m A B R op pts && validateEmpty A B R op && validateEmptyJudged A B R op

/-! ## bounding-box pruning of non-contributing contours (`Polygon.identifyNonContributingContours`, polygon.go)

Before the sweep the clipper drops ("prunes") contours that cannot contribute: for Intersect a subject contour whose
bounding box meets no clip contour's box and a clip contour whose box meets no subject contour's box, for Sub only such
clip contours; Union and Xor prune nothing.  `pruneOK op A B fa fb` is the exact check the driver runs on the flags
`fa`, `fb` the REAL function returned for the operands `A`, `B` of a call: every flagged contour is `farFrom` the other
operand, i.e. weakly separated from each of its contours by an axis-parallel line (their exact closed bounding boxes
have no interior point in common), and no flag is set where the operation prunes nothing.  `Props/C05.lean`, `prune_sound`: then
dropping the flagged contours (`keep`) changes the combined region at NO point. -/

/-- the entries of `l` whose flag is not set (entries beyond the flag list are kept) -/
def keep {α : Type} : List Bool → List α → List α
  | _, [] => []
  | [], l => l
  | f :: fs, c :: cs => if f then keep fs cs else c :: keep fs cs

/-- the two contours are (weakly) separated by a vertical or a horizontal line: their closed bounding boxes have no
    interior point in common (they may touch: with the half-open crossing rule no point is inside both contours even
    then, so ANY box test that flags only contours with interior-disjoint boxes is accepted) -/
def sepPts (c d : Contour) : Bool :=
  (c.all fun u => d.all fun v => decide (u.x ≤ v.x)) || (c.all fun u => d.all fun v => decide (v.x ≤ u.x)) ||
  (c.all fun u => d.all fun v => decide (u.y ≤ v.y)) || (c.all fun u => d.all fun v => decide (v.y ≤ u.y))

def farFrom (c : Contour) (Q : Polygon) : Bool := Q.all (sepPts c)

/-- every flagged contour of `P` is far from every contour of `Q` -/
def flaggedFar : List Bool → Polygon → Polygon → Bool
  | f :: fs, c :: cs, Q => (!f || farFrom c Q) && flaggedFar fs cs Q
  | _, _, _ => true

def pruneOK (op : Op) (A B : Polygon) (fa fb : List Bool) : Bool :=
  match op with
  | .inter => flaggedFar fa A B && flaggedFar fb B A
  | .sub => !(fa.any id) && flaggedFar fb B A
  | _ => !(fa.any id) && !(fb.any id)

/-- the trivial-result shortcut at the head of `Polygon.construct` (polygon.go): no contour in either operand, no
    contour in the receiver for Intersect/Sub, no contour in the argument for Intersect -/
def shortCircuit (op : Op) (A B : Polygon) : Bool :=
  (A.isEmpty && B.isEmpty) || (A.isEmpty && (op == .inter || op == .sub)) || (B.isEmpty && op == .inter)

/-! ### the pruning rule as the code writes it (`Contour.Bounds`, `geom.Rect.Intersects`,
    `Polygon.identifyNonContributingContours`), in exact arithmetic

`one` is the number 1 in the (scaled) coordinates of the call.  In exact arithmetic `extent(lo,hi) = 1 + hi - lo` (its
rounding guard never fires), so the box of a contour is the half-open rectangle `[minX, maxX+1) × [minY, maxY+1)`.
`Props/C05.lean`, `nonContributing_sound`: the flags this rule produces always satisfy `pruneOK`.  The driver compares
the flags of the real function with this transcription on the lines whose float arithmetic is exact and reports
agreement as a statistic (a more conservative box test would be just as correct, so a difference is not an alarm). -/

structure Rect where
  x : Int
  y : Int
  w : Int
  h : Int
deriving DecidableEq, Repr

/-- `geom.Rect.Empty` -/
def Rect.isEmpty (r : Rect) : Bool := decide (r.w ≤ 0) || decide (r.h ≤ 0)

/-- `geom.Rect.Intersects` -/
def Rect.intersects (r o : Rect) : Bool :=
  if r.isEmpty || o.isEmpty then false
  else decide (r.x < o.x + o.w) && decide (r.y < o.y + o.h) && decide (r.x + r.w > o.x) && decide (r.y + r.h > o.y)

def minOf (f : Pt → Int) (v : Pt) (t : List Pt) : Int := t.foldl (fun m u => if f u < m then f u else m) (f v)
def maxOf (f : Pt → Int) (v : Pt) (t : List Pt) : Int := t.foldl (fun m u => if f u > m then f u else m) (f v)

/-- `Contour.Bounds` (exact arithmetic): the zero rectangle for a contour without vertices -/
def boundsOf (one : Int) : Contour → Rect
  | [] => ⟨0, 0, 0, 0⟩
  | v :: t =>
    let minX := minOf (·.x) v t
    let minY := minOf (·.y) v t
    ⟨minX, minY, one + maxOf (·.x) v t - minX, one + maxOf (·.y) v t - minY⟩

/-- `Polygon.identifyNonContributingContours` -/
def nonContributing (one : Int) (op : Op) (subj clip : Polygon) : List Bool × List Bool :=
  if (op == .inter || op == .sub) && !subj.isEmpty && !clip.isEmpty then
    let clipNC := clip.map fun c => !(subj.any fun s => (boundsOf one s).intersects (boundsOf one c))
    let subjNC :=
      if op == .inter then subj.map fun s => !(clip.any fun c => (boundsOf one s).intersects (boundsOf one c))
      else subj.map fun _ => false
    (subjNC, clipNC)
  else (subj.map fun _ => false, clip.map fun _ => false)

/-! ## contour emission (`polygonNode.generate`, polygon_node.go) and the scan-beam table (scan_beam_tree.go) -/

def dedupFrom (prev : Pt) : List Pt → List Pt
  | [] => []
  | v :: t => if prev = v then dedupFrom prev t else v :: dedupFrom v t

/-- the vertices of an output chain without those equal to their predecessor (`prev == nil || prev.pt != v.pt`) -/
def dedup : List Pt → List Pt
  | [] => []
  | a :: t => a :: dedupFrom a t

/-- `generate`: every active chain with more than two such vertices becomes a contour, written back to front; the
    others are dropped -/
def generate (chains : List (Bool × List Pt)) : Polygon :=
  chains.filterMap fun ch => if ch.1 && decide (2 < (dedup ch.2).length) then some (dedup ch.2).reverse else none

/-- the check of the area `emit`: `R` (what the real `generate` returned) and the active chains `A` are rectilinear lattice
    polygons of `[0,N]²` and contain the same cell centres (`Props/C05.lean`, `emit_sound`: then the same points
    everywhere).  No emptiness demand: chains that cancel each other are emitted as they are. -/
def sameRegionLattice (N : Nat) (A R : Polygon) : Bool :=
  latticeOK N A && latticeOK N R && cellsOK N (dblPoly A) (dblPoly []) (dblPoly R) .union

/-- the chains `generate` looks at, as they are -/
def activeChains (chains : List (Bool × List Pt)) : Polygon := (chains.filter (·.1)).map (·.2)

/-- the scan-beam tree: a binary search tree of ordinates without duplicates -/
inductive SBT where
  | nil
  | node (l : SBT) (y : Int) (r : SBT)

/-- `scanBeamTree.addToScanBeamTreeAt` -/
def SBT.add : SBT → Int → SBT
  | .nil, y => .node .nil y .nil
  | .node l v r, y => if v > y then .node (l.add y) v r else if v < y then .node l v (r.add y) else .node l v r

/-- `buildScanBeamTableEntries`: in-order walk -/
def SBT.table : SBT → List Int
  | .nil => []
  | .node l v r => l.table ++ v :: r.table

/-- `buildScanBeamTable` after `add` of every ordinate in the given order -/
def scanBeamTable (ys : List Int) : List Int := (ys.foldl SBT.add .nil).table

/-! ## the library's own point tests (`Contour.Contains`, `Polygon.Contains`, `Polygon.ContainsEvenOdd`), exact arithmetic -/

/-- `pt.X <= (pt.Y-cur.Y)*(next.X-cur.X)/(next.Y-cur.Y)+cur.X`, division-free (`next.y ≠ cur.y`) -/
def leXint (cur next pt : Pt) : Bool :=
  if cur.y < next.y then decide ((pt.x - cur.x) * (next.y - cur.y) ≤ (pt.y - cur.y) * (next.x - cur.x))
  else decide ((pt.y - cur.y) * (next.x - cur.x) ≤ (pt.x - cur.x) * (next.y - cur.y))

/-- one term of the loop of `Contour.Contains`: does the edge `cur → next` count at `pt` -/
def containsEdge (cur next pt : Pt) : Bool :=
  let bottom := if cur.y > next.y then next else cur
  let top := if cur.y > next.y then cur else next
  decide (pt.y ≥ bottom.y) && decide (pt.y < top.y) && decide (pt.x < max cur.x next.x) && decide (next.y ≠ cur.y) &&
    (decide (cur.x = next.x) || leXint cur next pt)

/-- `Contour.Contains` -/
def containsC (c : Contour) (pt : Pt) : Bool := (edgesOf c).countP (fun e => containsEdge e.1 e.2 pt) % 2 == 1

/-- `Polygon.ContainsEvenOdd` -/
def containsEvenOdd (P : Polygon) (pt : Pt) : Bool := P.countP (fun c => containsC c pt) % 2 == 1

/-- `Polygon.Contains` -/
def containsAny (P : Polygon) (pt : Pt) : Bool := P.any (fun c => containsC c pt)

/-- `pt` lies on no edge of `P` -/
def offEdges (P : Polygon) (pt : Pt) : Bool := (allEdges P).all fun e => !(onSeg e.1 e.2 pt)

/-! ## the local minima table (`buildLocalMinimaTable`, local_minima_table.go), validated, not transcribed -/

/-- an edge with its lower end first -/
def upEdge (e : Pt × Pt) : Pt × Pt := if e.1.y < e.2.y then e else (e.2, e.1)

def nonHoriz (e : Pt × Pt) : Bool := e.1.y != e.2.y

/-- the check the driver runs on the edges `E` of all bounds of the local minima table the real code built for `P`:
    every edge goes strictly upward and together they are exactly the non-horizontal edges of `P`, lower end first
    (as a multiset).  `Props/C05.lean`, `lmt_sound`: then the edges handed to the sweep have exactly the region of `P`. -/
def lmtOK (P : Polygon) (E : List (Pt × Pt)) : Bool :=
  E.all (fun e => decide (e.1.y < e.2.y)) && E.isPerm (((allEdges P).filter nonHoriz).map upEdge)

/-! ## exact numbers: dyadic rationals and IEEE decoding -/

/-- the dyadic rational `m · 2^e` -/
structure Dy where
  m : Int
  e : Int
deriving DecidableEq, Repr

/-- exact value of an IEEE-754 binary bit pattern with `eb` exponent bits and `mb` fraction bits;
    `none` for infinities and NaN -/
def decodeBits (eb mb : Nat) (bits : Nat) : Option Dy :=
  let frac := bits % 2 ^ mb
  let ex := (bits / 2 ^ mb) % 2 ^ eb
  let neg := (bits / 2 ^ (mb + eb)) % 2 == 1
  let bias : Int := 2 ^ (eb - 1) - 1
  if ex == 2 ^ eb - 1 then none
  else
    let (mant, e) : Int × Int :=
      if ex == 0 then ((frac : Int), 1 - bias - mb) else ((2 ^ mb + frac : Nat), (ex : Int) - bias - mb)
    some ⟨if neg then -mant else mant, if mant == 0 then 0 else e⟩

def log2Exact (d : Nat) : Option Nat :=
  if d == 0 then none else if 2 ^ d.log2 == d then some d.log2 else none

/-- `n/d` with `d` a power of two -/
def ratDy (n : Int) (d : Nat) : Option Dy :=
  match log2Exact d with
  | some k => some ⟨n, if n == 0 then 0 else -(k : Int)⟩
  | none => none

/-- the integer `d · 2^(-emin)`; exact when `emin ≤ d.e` -/
def Dy.scaled (d : Dy) (emin : Int) : Int := d.m * 2 ^ (d.e - emin).toNat

/-- the integer value of a dyadic, if it is an integer -/
def Dy.toInt? (d : Dy) : Option Int :=
  if 0 ≤ d.e then some (d.m * 2 ^ d.e.toNat)
  else
    let k : Int := 2 ^ (-d.e).toNat
    if d.m % k == 0 then some (d.m / k) else none

end EO
