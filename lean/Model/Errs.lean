/-! C11: errs.Append / Count / Message / WrappedErrors / ErrorOrNil / Wrap / WrapTyped / Unwrap on an explicit heap.
    `*errs.Error` nodes live in an array, `next` is an index.  Written branch for branch like errs/errors.go
    (the tree that contains the cursor fix and the isNil fix of `Append`).  Core-only. -/
namespace Errs

/-- a Go `error` interface value as the library can distinguish it -/
inductive Val where
  | nilIface                                          -- the nil interface
  | typedNil                                          -- (*errs.Error)(nil)
  | foreignNil                                        -- a typed-nil pointer of a foreign error type
  | ref (id : Nat)                                    -- a non-nil *errs.Error: a heap cell
  | plain (uid : Nat) (msg : String)                  -- errors.New(msg); `uid` is the pointer identity
  | fwrap (uid : Nat) (msg : String) (inner : Val)    -- a foreign error with `Error() = msg`, `Unwrap() = inner`
deriving DecidableEq, Repr, Inhabited

structure ENode where
  msg : String
  cause : Val := .nilIface
  next : Option Nat := none
  hasStack : Bool := false
  wrapped : Bool := false
deriving DecidableEq, Repr, Inhabited

abbrev Heap := Array ENode

def nextOf (h : Heap) (id : Nat) : Option Nat := (h[id]?).bind (·.next)

/-- the ids visited by `for err != nil { …; err = err.next }` starting at `id` -/
def chain (h : Heap) : Nat → Nat → List Nat
  | 0, _ => []
  | fuel+1, id => id :: (match nextOf h id with | some j => chain h fuel j | none => [])

/-- `for e.next != nil { e = e.next }` -/
def tailOf (h : Heap) : Nat → Nat → Nat
  | 0, id => id
  | fuel+1, id => match nextOf h id with | some j => tailOf h fuel j | none => id

/-- enough fuel for every chain of a heap whose links point forward -/
def fuelOf (h : Heap) : Nat := h.size + 1

def setNext (h : Heap) (id : Nat) (j : Nat) : Heap := h.modify id (fun n => { n with next := some j })

/-- `(*Error).empty` on a non-nil node: `message == "" && stack == nil && cause == nil && next == nil` -/
def nodeEmpty (n : ENode) : Bool := n.msg == "" && !n.hasStack && n.cause == .nilIface && n.next.isNone

/-- `(*Error).empty` (a nil pointer is empty; ids outside the heap stand for nil) -/
def isEmpty (h : Heap) (id : Nat) : Bool := match h[id]? with | some n => nodeEmpty n | none => true

/-- what an error contributes to an aggregate: the node without its link -/
structure Item where
  msg : String
  cause : Val
  hasStack : Bool
  wrapped : Bool
deriving DecidableEq, Repr, Inhabited

def visible (n : ENode) : Option Item :=
  if nodeEmpty n then none else some { msg := n.msg, cause := n.cause, hasStack := n.hasStack, wrapped := n.wrapped }

def itemsAt (h : Heap) (fuel id : Nat) : List Item :=
  (chain h fuel id).filterMap (fun i => (h[i]?).bind visible)

/-- the non-empty errors contained in the aggregate that starts at `id`, in order -/
def items (h : Heap) (id : Nat) : List Item := itemsAt h (fuelOf h) id

/-- library `isNil` on an `error` -/
def isNil : Val → Bool
  | .nilIface | .typedNil | .foreignNil => true
  | _ => false

/-- `err.Error()` of the foreign errors of the model -/
def errorText : Val → String
  | .plain _ m => m
  | .fwrap _ m _ => m
  | _ => ""

/-- `&Error{message: cause.Error(), stack: callStack(), cause: cause, wrapped: true}` -/
def wrapperNode (v : Val) : ENode := { msg := errorText v, cause := v, hasStack := true, wrapped := true }

/-- the copy of a chain: the same nodes, relinked linearly into cells base, base+1, … -/
def freshBlock (base : Nat) : List ENode → List ENode
  | [] => []
  | [n] => [{ n with next := none }]
  | n :: m :: rest => { n with next := some (base + 1) } :: freshBlock (base + 1) (m :: rest)

/-- `n := *typedErr; … copied := *next.next; next.next = &copied …`: copy the chain at `id` into fresh cells;
    returns the new heap and the id of the copy's head -/
def copyChain (h : Heap) (id : Nat) : Heap × Nat :=
  let ids := chain h (fuelOf h) id
  (h ++ (freshBlock h.size (ids.map (fun i => (h[i]?).getD default))).toArray, h.size)

/-- one variadic argument of `Append`: the chain to link (`next`), the new heap and the cells written while building it -/
def argNode (h : Heap) (a : Val) : Heap × Option Nat × List Nat :=
  match a with
  | .ref id =>
    if isEmpty h id then (h, none, [])
    else
      let r := copyChain h id
      (r.1, some r.2, List.range' h.size (r.1.size - h.size - 1))
  | .typedNil => (h, none, [])
  | v => if isNil v then (h, none, []) else (h.push (wrapperNode v), some h.size, [])

/-- the loop over the variadic arguments; `root` is the result so far, `cur` the cursor `e`, `log` the ids of the
    pre-existing or fresh cells whose `next` field was written -/
def appendLoop (h : Heap) (root cur : Option Nat) (log : List Nat) : List Val → Heap × Option Nat × List Nat
  | [] => (h, root, log)
  | a :: as =>
    match argNode h a with
    | (h1, none, _) => appendLoop h1 root cur log as
    | (h1, some n, w) =>
      match cur with
      | none => appendLoop h1 (some n) (some (tailOf h1 (fuelOf h1) n)) (log ++ w) as
      | some e =>
        let h2 := setNext h1 e n
        appendLoop h2 root (some (tailOf h2 (fuelOf h2) n)) (log ++ w ++ [e]) as

/-- `Append(err, errs...)`; result: heap, root (`none` = nil `*Error`), written cells -/
def append (h : Heap) : Val → List Val → Heap × Option Nat × List Nat
  | .ref id, args =>
    if isEmpty h id then appendLoop h none none [] args
    else appendLoop h (some id) (some (tailOf h (fuelOf h) id)) [] args
  | .typedNil, args => appendLoop h none none [] args
  | .nilIface, args => appendLoop h none none [] args   -- nil for no arguments, else Append((*Error)(nil), errs...)
  | v, args =>                                          -- Append(WrapTyped(e), errs...)
    if isNil v then appendLoop h none none [] args
    else appendLoop (h.push (wrapperNode v)) (some h.size) (some h.size) [] args

/-- the `*Error` result as an `error` value -/
def ptrVal : Option Nat → Val
  | some r => .ref r
  | none => .typedNil

/-- `Count` -/
def count (h : Heap) (id : Nat) : Nat := ((chain h (fuelOf h) id).filter (fun i => !isEmpty h i)).length

def msgOf (h : Heap) (id : Nat) : String := match h[id]? with | some n => n.msg | none => ""

/-- `Message` -/
def message (h : Heap) (id : Nat) : String :=
  match nextOf h id with
  | none => msgOf h id
  | some _ =>
    "Multiple (" ++ toString (count h id) ++ ") errors occurred:" ++
      String.join ((chain h (fuelOf h) id).map (fun i => "\n- " ++ msgOf h i))

/-- `WrappedErrors`: a copy of every node of the chain with `next = nil` -/
def wrappedErrors (h : Heap) (id : Nat) : List ENode :=
  (chain h (fuelOf h) id).filterMap (fun i => (h[i]?).map (fun n => { n with next := none }))

/-- `ErrorOrNil` on a `*Error` value -/
def errorOrNil (h : Heap) : Val → Val
  | .ref id => if isEmpty h id then .nilIface else .ref id
  | _ => .nilIface

/-- `errors.As(err, &errorPtr)` with `errorPtr : *errs.Error`: walk the `Unwrap` chain for something assignable -/
def asError : Val → Bool
  | .nilIface => false
  | .typedNil => true
  | .foreignNil => false
  | .ref _ => true
  | .plain _ _ => false
  | .fwrap _ _ inner => asError inner

/-- `Wrap` -/
def wrap (h : Heap) (v : Val) : Heap × Val :=
  if isNil v then (h, .nilIface)
  else if asError v then (h, v)
  else (h.push (wrapperNode v), .ref h.size)

/-- `WrapTyped` (the result is a `*Error`, seen as an `error`) -/
def wrapTyped (h : Heap) (v : Val) : Heap × Val :=
  if isNil v then (h, .typedNil)
  else match v with
    | .ref id => (h, .ref id)
    | v => (h.push (wrapperNode v), .ref h.size)

/-- `errors.Unwrap` on a non-nil value -/
def unwrap (h : Heap) : Val → Val
  | .ref id => match h[id]? with | some n => n.cause | none => .nilIface
  | .fwrap _ _ inner => inner
  | _ => .nilIface

/-- the values visited by `errors.Is`/`errors.As`: `v`, `Unwrap(v)`, … while non-nil -/
def unwrapChain (h : Heap) : Nat → Val → List Val
  | 0, _ => []
  | fuel+1, v => if isNil v then [] else v :: unwrapChain h fuel (unwrap h v)

/-- `New(message)` -/
def new (h : Heap) (m : String) : Heap × Val := (h.push { msg := m, hasStack := true }, .ref h.size)

/-- `NewWithCause(message, cause)`: `if isNil(cause) { cause = nil }` — a typed nil is not a cause -/
def newWithCause (h : Heap) (m : String) (c : Val) : Heap × Val :=
  (h.push { msg := m, hasStack := true, cause := if isNil c then .nilIface else c }, .ref h.size)

/-- `&Error{}` -/
def newEmpty (h : Heap) : Heap × Val := (h.push { msg := "" }, .ref h.size)

/-- `CloneWithPrefixMessage(prefix)`: `revised := *e` — the clone shares the rest of the chain -/
def clone (h : Heap) (v : Val) (pre : String) : Heap × Val :=
  match v with
  | .ref id => match h[id]? with
    | some n => (h.push { n with msg := pre ++ n.msg }, .ref h.size)
    | none => (h, .nilIface)
  | _ => (h, .nilIface)

/-- element `i` of `WrappedErrors()` used as a value of its own: a detached copy (`next = nil`) in a fresh cell -/
def elem (h : Heap) (v : Val) (i : Nat) : Heap × Val :=
  match v with
  | .ref id => match (wrappedErrors h id)[i]? with
    | some n => (h.push n, .ref h.size)
    | none => (h, .nilIface)
  | _ => (h, .nilIface)

/-- the heap invariant as a Boolean: links point forward, stay inside the heap and never reach an empty node
    (`Lemmas/Errs.lean` proves `wfb h = true → WF h`); the model driver evaluates it on every heap it builds -/
def wfb (h : Heap) : Bool :=
  (List.range h.size).all (fun i => match nextOf h i with
    | none => true
    | some j => decide (i < j) && decide (j < h.size) && !isEmpty h j)

end Errs
