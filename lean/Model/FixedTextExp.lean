import Model.FixedTextFloat
/-! C04: the exponent branch of `FromString` (both types), which `Model/FixedText.lean` leaves as the outcome `.exp`:

    ```go
    if strings.ContainsAny(str, "Ee") {          // str: commas already removed
        f, err := strconv.ParseFloat(str, 64)
        if err != nil { return 0, err }
        return From[T](f), nil
    }
    ```

    * `strconv.ParseFloat(t, 64)` enters by its documented contract on the DECIMAL grammar
      `[+-]? (digit+ '.'? digit* | '.' digit+) [eE] [+-]? digit+` (whole string): the float64 nearest to the denoted
      number (ties to even, `GoSem.F64.ofRat`); a result of ±Inf is `ErrRange`, an underflow is ±0 without an error;
      the exponent accumulator saturates as in `strconv.readFloat` (`if e < 10000 { e = e*10 + digit }`).  The two other
      grammars of ParseFloat that a text with an 'e' can reach are modelled too (`readFloatAny`), and so is `strconv.special`
      (`special`: inf / infinity / nan), which ParseFloat consults first (`parseFloatAny`): underscores as digit
      separators (skipped while reading, then judged by `strconv.underscoreOK`, transcribed as `underscoreOK`) and
      hexadecimal floats `0x hexdigits [. hexdigits] p [+-] digits` (an 'e' is then a mantissa digit; the value
      `H·2^(E−4k)` is rounded once, `strconv.atofHex` keeps a sticky bit).  `outsideExp` names these two families: the
      theorems about the VALUE of a literal are stated for the other texts.  Everything else is a syntax error;
      `inf` / `infinity` / `nan` are in the model (`special`); that they contain no `e`, so that a text of this branch
      which begins with one of them has trailing bytes and is a syntax error, is a THEOREM (`special_whole_noExp`), not
      a property of the transcription.
    * `From[T](f)`: the C03 model, `Fixed.F64.fromFloat` (one float product, then Go's float → int64 conversion, which
      is implementation-defined outside the int64 range: `ResX.implDefined`) and `Fixed.F128.fromFloat`
      (`big.Float.Text('f', D+1)` parsed again; `none` = the `big.ErrNaN` panic: `ResX.panic`).

    The driver runs `fromStrX64` / `fromStrX128` on every `parse` line.  Core-only. -/
namespace FixedText

/-- outcome of `FromString` with the exponent branch resolved -/
inductive ResX where
  | ok (raw : Int)
  | err
  | implDefined   -- f64: float → int64 conversion outside the int64 range (Go: implementation-defined)
  | panic         -- f128: `big.Float.SetFloat64(NaN)` panics
deriving DecidableEq, Repr

/-- `strconv.readFloat`, exponent digits: `if e < 10000 { e = e*10 + int(s[i]) - '0' }` -/
def expAcc (ds : Str) : Nat := ds.foldl (fun e c => if e < 10000 then e * 10 + (c - 48) else e) 0

/-- the text before the first 'e' / 'E' and, if there is one, everything behind it -/
def splitExp : Str → Str × Option Str
  | [] => ([], none)
  | c :: t => if c = 69 ∨ c = 101 then ([], some t) else (c :: (splitExp t).1, (splitExp t).2)

/-- the text behind an optional sign -/
def dropSign : Str → Str
  | 45 :: r => r
  | 43 :: r => r
  | r => r

/-- behind an optional sign: `0x` / `0X` (ParseFloat switches to the hexadecimal grammar) -/
def hexPrefixed (t : Str) : Bool :=
  match dropSign t with
  | 48 :: c :: _ => c == 120 || c == 88
  | _ => false

/-- the two families of texts that are not plain decimal exponent literals (hexadecimal floats, underscores) -/
def outsideExp (t : Str) : Bool := hexPrefixed t || t.any (· == 95)

/-- sign and digits of the exponent: `[+-]? digit+` -/
def parseExponent? (ex : Str) : Option Int :=
  match ex with
  | 45 :: r => if r = [] ∨ r.all isDigit = false then none else some (-(expAcc r : Int))
  | 43 :: r => if r = [] ∨ r.all isDigit = false then none else some (expAcc r : Int)
  | r => if r = [] ∨ r.all isDigit = false then none else some (expAcc r : Int)

/-- the decimal exponent grammar: sign, all mantissa digits as one number `N`, number of fraction digits `k`,
    exponent `E`; the value is `±N · 10^(E − k)` -/
def parseExpLit? (t : Str) : Option (Bool × Nat × Nat × Int) :=
  match (splitExp t).2 with
  | none => none
  | some ex =>
    match parseDec? (splitExp t).1, parseExponent? ex with
    | some (neg, N, k), some E => some (neg, N, k, E)
    | _, _ => none

/-- the float64 nearest to `±N · 10^(E − k)` (±0 keeps its sign) -/
def expValue (neg : Bool) (N k : Nat) (E : Int) : Flt :=
  if N = 0 then .fin neg 0 (-1074)
  else if E - k ≥ 0 then GoSem.F64.ofRat neg (N * 10^(E - k).toNat) 1
  else GoSem.F64.ofRat neg N (10^(-(E - k)).toNat)

/-- `strconv.ParseFloat(t, 64)` on a plain decimal exponent text (not `outsideExp`): `none` = an error (syntax, or range: ±Inf) -/
def parseFloatExp (t : Str) : Option Flt :=
  match parseExpLit? t with
  | none => none
  | some (neg, N, k, E) =>
    match expValue neg N k E with
    | .inf _ => none
    | x => some x

/-! ### the rest of `strconv.ParseFloat`'s grammar: underscores and hexadecimal floats -/

def isHexLetter (c : Nat) : Bool := (65 ≤ c && c ≤ 70) || (97 ≤ c && c ≤ 102)
def isHexDigit (c : Nat) : Bool := isDigit c || isHexLetter c
def hexVal (c : Nat) : Nat := if isDigit c then c - 48 else if c ≤ 70 then c - 55 else c - 87
def parseHexDigits (ds : Str) : Nat := ds.foldl (fun acc c => acc * 16 + hexVal c) 0

/-- `strconv.underscoreOK`, the scan: `saw` is 0 = beginning, 1 = digit or base prefix, 2 = underscore, 3 = other -/
def usScan (hex : Bool) : Nat → Str → Bool
  | saw, [] => saw != 2
  | saw, c :: r =>
    if isDigit c || (hex && isHexLetter c) then usScan hex 1 r
    else if c = 95 then (if saw != 1 then false else usScan hex 2 r)
    else if saw = 2 then false
    else usScan hex 3 r

/-- `strconv.underscoreOK`: an underscore only between digits, or between a base prefix (`0b`, `0o`, `0x`) and a digit -/
def underscoreOK (t : Str) : Bool :=
  match dropSign t with
  | 48 :: c :: r =>
    if c = 98 ∨ c = 66 ∨ c = 111 ∨ c = 79 then usScan false 1 r
    else if c = 120 ∨ c = 88 then usScan true 1 r
    else usScan false 0 (48 :: c :: r)
  | s => usScan false 0 s

/-- `readFloat` switches to base 16: behind the optional sign `0x` / `0X` and at least one more byte -/
def hexFloatPrefixed (t : Str) : Bool :=
  match dropSign t with
  | 48 :: c :: _ :: _ => c == 120 || c == 88
  | _ => false

/-- the text before the first 'p' / 'P' and, if there is one, everything behind it -/
def splitP : Str → Str × Option Str
  | [] => ([], none)
  | c :: t => if c = 80 ∨ c = 112 then ([], some t) else (c :: (splitP t).1, (splitP t).2)

/-- exponent digits, underscores skipped (their placement is judged by `underscoreOK`): `[+-]? digit (digit | '_')*` -/
def parseExponentU? (ex : Str) : Option Int :=
  let body := dropSign ex
  let neg := ex.head? = some 45
  match body with
  | [] => none
  | c :: _ =>
    if !isDigit c ∨ (body.all (fun d => isDigit d || d == 95)) = false then none
    else
      let e := expAcc (body.filter (· != 95))
      some (if neg then -(e : Int) else (e : Int))

/-- a hexadecimal float `[+-]? 0x hexdigit* ('.' hexdigit*)? p [+-]? digit+` (underscores skipped): sign, all mantissa
    digits as one number, number of fraction digits, binary exponent -/
def parseHexLit? (t : Str) : Option (Bool × Nat × Nat × Int) :=
  let neg := t.head? = some 45
  match dropSign t with
  | 48 :: _ :: rest =>
    match (splitP rest).2 with
    | none => none                                   -- "must have exponent"
    | some ex =>
      let mant := (splitP rest).1.filter (· != 95)
      let ip := (splitDot mant).1
      let fp := (splitDot mant).2.getD []
      if (ip ++ fp) = [] ∨ (ip ++ fp).all isHexDigit = false then none
      else match parseExponentU? ex with
        | none => none
        | some E => some (neg, parseHexDigits (ip ++ fp), fp.length, E)
  | _ => none

/-- the float64 nearest to `±H · 2^(E − 4k)` -/
def hexValue (neg : Bool) (H k : Nat) (E : Int) : Flt :=
  if H = 0 then .fin neg 0 (-1074)
  else if E - 4 * k ≥ 0 then GoSem.F64.ofRat neg (H * 2^(E - 4 * k).toNat) 1
  else GoSem.F64.ofRat neg H (2^(-(E - 4 * k)).toNat)

/-- the decimal exponent grammar with underscores skipped -/
def parseExpLitU? (t : Str) : Option (Bool × Nat × Nat × Int) :=
  match (splitExp t).2 with
  | none => none
  | some ex =>
    match parseDec? ((splitExp t).1.filter (· != 95)), parseExponentU? ex with
    | some (neg, N, k), some E => some (neg, N, k, E)
    | _, _ => none

def finiteOrErr : Flt → Option Flt
  | .inf _ => none
  | x => some x

/-- `strconv.readFloat` + conversion on ANY text (decimal, underscores, hexadecimal); ±Inf by overflow is `ErrRange` -/
def readFloatAny (t : Str) : Option Flt :=
  if hexFloatPrefixed t then
    (if t.any (· == 95) && !underscoreOK t then none
     else match parseHexLit? t with
      | none => none
      | some (neg, H, k, E) => finiteOrErr (hexValue neg H k E))
  else if t.any (· == 95) then
    (if !underscoreOK t then none
     else match parseExpLitU? t with
      | none => none
      | some (neg, N, k, E) => finiteOrErr (expValue neg N k E))
  else parseFloatExp t

/-! ### where `strconv.ParseFloat` is NOT the correctly rounded conversion (observed, Go 1.23)

`strconv`'s slow path (`decimal.set`, taken when the Eisel-Lemire fast path cannot decide, e.g. on exact results) stores 800
digits and sets the decimal point to the number of STORED digits: a decimal mantissa with more than 800 digits in front of the
point (leading zeros not counted) is then read too small by a power of ten — `ParseFloat("1" + 800 zeros + "e-800")` is 0.1.
The model does not reproduce this; `longMantissa` names the texts, the driver and the harness both print `long` for them, and
the theorems about the VALUE of an exponent literal carry `longMantissa t = false`. -/

/-- number of bytes in front of the decimal point of a decimal mantissa (sign, underscores and leading zeros not counted) -/
def intDigits (t : Str) : Nat :=
  let mant := ((splitExp (dropSign t)).1).filter (· != 95)
  ((splitDot mant).1.dropWhile (· == 48)).length

def longMantissa (t : Str) : Bool := !hexFloatPrefixed t && decide (intDigits t > 800)

/-! ### `strconv.special`: the texts "inf", "infinity", "nan" (any case; a sign only in front of the infinities)

`atof64` asks `special(s)` FIRST; it returns the value and the number `n` of bytes it matched, and `ParseFloat` turns
`n ≠ len(s)` into a syntax error.  These are the only texts for which `ParseFloat` returns an infinity WITHOUT an error, or a
NaN — the two floats whose `From[T]` is not a number (f64: implementation-defined conversion, f128: `big.ErrNaN` panic). -/

/-- `if 'A' <= c && c <= 'Z' { c += 'a' - 'A' }` -/
def lowerAZ (c : Nat) : Nat := if 65 ≤ c ∧ c ≤ 90 then c + 32 else c

/-- `strconv.commonPrefixLenIgnoreCase(s, prefix)` (`prefix` is lower case) -/
def commonPrefixLen : Str → Str → Nat
  | c :: s, d :: p => if lowerAZ c = d then commonPrefixLen s p + 1 else 0
  | _, _ => 0

def infinityTxt : Str := [105, 110, 102, 105, 110, 105, 116, 121]   -- "infinity"
def nanTxt : Str := [110, 97, 110]                                   -- "nan"

/-- `if 3 < n && n < 8 { n = 3 }` -/
def infLen (n : Nat) : Nat := if 3 < n ∧ n < 8 then 3 else n

/-- the `case 'i', 'I'` body: "inf" or "infinity" in front of `s` (a longer partial match counts as "inf") -/
def specialInf (neg : Bool) (nsign : Nat) (s : Str) : Option (Flt × Nat) :=
  let n := infLen (commonPrefixLen s infinityTxt)
  if n = 3 ∨ n = 8 then some (.inf neg, nsign + n) else none

/-- `strconv.special(s)`: value and number of bytes matched; a sign falls through to the infinity case only -/
def special (t : Str) : Option (Flt × Nat) :=
  match t with
  | [] => none
  | c :: r =>
    if c = 43 ∨ c = 45 then specialInf (c = 45) 1 r
    else if c = 105 ∨ c = 73 then specialInf false 0 (c :: r)
    else if c = 110 ∨ c = 78 then (if commonPrefixLen (c :: r) nanTxt = 3 then some (.nan, 3) else none)
    else none

/-- `strconv.ParseFloat(t, 64)` on ANY text: `none` = an error.  A special value must be the whole text. -/
def parseFloatAny (t : Str) : Option Flt :=
  match special t with
  | some (x, n) => if n = t.length then some x else none
  | none => readFloatAny t

/-- the exponent branch of `f64.FromString[T]` on the comma-free text -/
def expBranch64 (mult : Int) (t : Str) : ResX :=
  match parseFloatAny t with
  | none => .err
  | some x =>
    match Fixed.F64.fromFloat mult x with
    | .ok v => .ok v
    | .implDefined => .implDefined

/-- the exponent branch of `f128.FromString[T]` on the comma-free text -/
def expBranch128 (places : Nat) (mult : Int) (t : Str) : ResX :=
  match parseFloatAny t with
  | none => .err
  | some x =>
    match Fixed.F128.fromFloat mult places x with
    | some v => .ok v
    | none => .panic

/-- `f64.FromString[T]`, every branch -/
def fromStrX64 (places : Nat) (mult : Int) (s : Str) : ResX :=
  match fromStr64 places mult s with
  | .ok v => .ok v
  | .err => .err
  | .exp => expBranch64 mult (stripCommas s)

/-- `f128.FromString[T]`, every branch -/
def fromStrX128 (places : Nat) (mult : Int) (s : Str) : ResX :=
  match fromStr128 places mult s with
  | .ok v => .ok v
  | .err => .err
  | .exp => expBranch128 places mult (stripCommas s)

/-- `UnmarshalText` / `UnmarshalJSON` -/
def unmarshalX64 (places : Nat) (mult : Int) (s : Str) : ResX := fromStrX64 places mult (unquote s)
def unmarshalX128 (places : Nat) (mult : Int) (s : Str) : ResX := fromStrX128 places mult (unquote s)

end FixedText
