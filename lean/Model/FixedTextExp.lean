import Model.FixedTextFloat
/-! C04: the exponent branch of `FromString` (both types), which `Model/FixedText.lean` leaves as the outcome `.exp`:

    ```go
    if strings.ContainsAny(str, "Ee") {          // str: commas already removed
        f, err := strconv.ParseFloat(str, 64)
        if err != nil { return 0, err }
        return From[T](f), nil
    }
    ```

    * `strconv.ParseFloat(t, 64)` enters by its documented contract on the DECIMAL grammar
      `[+-]? (digit+ '.'? digit* | '.' digit+) [eE] [+-]? digit+` (whole string): the float64 nearest to the denoted
      number (ties to even, `GoSem.F64.ofRat`); a result of ±Inf is `ErrRange`, an underflow is ±0 without an error;
      the exponent accumulator saturates as in `strconv.readFloat` (`if e < 10000 { e = e*10 + digit }`).  Every other
      text is a syntax error — except the two families that reach other grammars of ParseFloat and are left OUTSIDE the
      model (`outsideExp`): a `0x` / `0X` prefix behind the optional sign (hexadecimal floats) and texts containing an
      underscore (digit separators).  `inf` / `infinity` / `nan` contain no `e`, so a text of this branch that begins
      with one of them has trailing bytes and is a syntax error like any other.
    * `From[T](f)`: the C03 model, `Fixed.F64.fromFloat` (one float product, then Go's float → int64 conversion, which
      is implementation-defined outside the int64 range: `ResX.implDefined`) and `Fixed.F128.fromFloat`
      (`big.Float.Text('f', D+1)` parsed again; `none` = the `big.ErrNaN` panic: `ResX.panic`).

    The driver runs `fromStrX64` / `fromStrX128` on every `parse` line.  Core-only. -/
namespace FixedText

/-- outcome of `FromString` with the exponent branch resolved -/
inductive ResX where
  | ok (raw : Int)
  | err
  | implDefined   -- f64: float → int64 conversion outside the int64 range (Go: implementation-defined)
  | panic         -- f128: `big.Float.SetFloat64(NaN)` panics
  | outside       -- hexadecimal float or underscore separators: not modelled
deriving DecidableEq, Repr

/-- `strconv.readFloat`, exponent digits: `if e < 10000 { e = e*10 + int(s[i]) - '0' }` -/
def expAcc (ds : Str) : Nat := ds.foldl (fun e c => if e < 10000 then e * 10 + (c - 48) else e) 0

/-- the text before the first 'e' / 'E' and, if there is one, everything behind it -/
def splitExp : Str → Str × Option Str
  | [] => ([], none)
  | c :: t => if c = 69 ∨ c = 101 then ([], some t) else (c :: (splitExp t).1, (splitExp t).2)

/-- behind an optional sign: `0x` / `0X` (ParseFloat switches to the hexadecimal grammar) -/
def hexPrefixed (t : Str) : Bool :=
  let body := match t with
    | 45 :: r => r
    | 43 :: r => r
    | r => r
  match body with
  | 48 :: c :: _ => c == 120 || c == 88
  | _ => false

/-- the two families of texts that are not modelled -/
def outsideExp (t : Str) : Bool := hexPrefixed t || t.any (· == 95)

/-- sign and digits of the exponent: `[+-]? digit+` -/
def parseExponent? (ex : Str) : Option Int :=
  match ex with
  | 45 :: r => if r = [] ∨ r.all isDigit = false then none else some (-(expAcc r : Int))
  | 43 :: r => if r = [] ∨ r.all isDigit = false then none else some (expAcc r : Int)
  | r => if r = [] ∨ r.all isDigit = false then none else some (expAcc r : Int)

/-- the decimal exponent grammar: sign, all mantissa digits as one number `N`, number of fraction digits `k`,
    exponent `E`; the value is `±N · 10^(E − k)` -/
def parseExpLit? (t : Str) : Option (Bool × Nat × Nat × Int) :=
  match (splitExp t).2 with
  | none => none
  | some ex =>
    match parseDec? (splitExp t).1, parseExponent? ex with
    | some (neg, N, k), some E => some (neg, N, k, E)
    | _, _ => none

/-- the float64 nearest to `±N · 10^(E − k)` (±0 keeps its sign) -/
def expValue (neg : Bool) (N k : Nat) (E : Int) : Flt :=
  if N = 0 then .fin neg 0 (-1074)
  else if E - k ≥ 0 then GoSem.F64.ofRat neg (N * 10^(E - k).toNat) 1
  else GoSem.F64.ofRat neg N (10^(-(E - k)).toNat)

/-- `strconv.ParseFloat(t, 64)` on a text that is not `outsideExp`: `none` = an error (syntax, or range: ±Inf) -/
def parseFloatExp (t : Str) : Option Flt :=
  match parseExpLit? t with
  | none => none
  | some (neg, N, k, E) =>
    match expValue neg N k E with
    | .inf _ => none
    | x => some x

/-- the exponent branch of `f64.FromString[T]` on the comma-free text -/
def expBranch64 (mult : Int) (t : Str) : ResX :=
  if outsideExp t then .outside
  else match parseFloatExp t with
    | none => .err
    | some x =>
      match Fixed.F64.fromFloat mult x with
      | .ok v => .ok v
      | .implDefined => .implDefined

/-- the exponent branch of `f128.FromString[T]` on the comma-free text -/
def expBranch128 (places : Nat) (mult : Int) (t : Str) : ResX :=
  if outsideExp t then .outside
  else match parseFloatExp t with
    | none => .err
    | some x =>
      match Fixed.F128.fromFloat mult places x with
      | some v => .ok v
      | none => .panic

/-- `f64.FromString[T]`, every branch -/
def fromStrX64 (places : Nat) (mult : Int) (s : Str) : ResX :=
  match fromStr64 places mult s with
  | .ok v => .ok v
  | .err => .err
  | .exp => expBranch64 mult (stripCommas s)

/-- `f128.FromString[T]`, every branch -/
def fromStrX128 (places : Nat) (mult : Int) (s : Str) : ResX :=
  match fromStr128 places mult s with
  | .ok v => .ok v
  | .err => .err
  | .exp => expBranch128 places mult (stripCommas s)

/-- `UnmarshalText` / `UnmarshalJSON` -/
def unmarshalX64 (places : Nat) (mult : Int) (s : Str) : ResX := fromStrX64 places mult (unquote s)
def unmarshalX128 (places : Nat) (mult : Int) (s : Str) : ResX := fromStrX128 places mult (unquote s)

end FixedText
