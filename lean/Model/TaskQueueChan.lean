/-! C15: vocabulary of the channel-protocol tie.  `go/cmd/c15facts` reads the Go source of package `taskqueue` (and
    `errs.Recovery`) of the working tree on every run and writes what it finds in these terms to
    `Generated/C15Facts.lean`; `Lemmas/TaskQueueChan.lean` says, in the same terms, what the rules of the model
    (`TQ.next`, `TQW.tnext`) do to the channels, and `Props/C15Chan.lean` confronts the two.  Core-only. -/
namespace TQChan

/-- the channels of the queue, named by what the API does with them: `in_` is the channel `Submit` sends on, `done` the
    one `Shutdown` receives from, `tasks` the one a worker goroutine receives from, `ready` the one it sends on;
    `other` = a channel class that is none of these, `unresolved` = an operand the extractor could not resolve -/
inductive Chan where
  | in_ | done | tasks | ready | other | unresolved
deriving DecidableEq, Repr

/-- goroutine roles: `new_` / `submit` / `shutdown` = the code reachable by static calls from the exported `New`,
    `Submit`, `Shutdown` on the caller's goroutine; `dispatcher` = the goroutine started from `new_`; `worker` = the
    goroutine started from the dispatcher; `extra` = any other started goroutine -/
inductive Role where
  | new_ | submit | shutdown | dispatcher | worker | extra | unknown
deriving DecidableEq, Repr

/-- kinds of channel operation: `…Sel` = a case of a `select` with other communication cases and no `default`,
    `…NB` = a case of a `select` with a `default` (non-blocking) -/
inductive Kind where
  | send | sendSel | sendNB | recv | recvSel | recvNB | rangeRecv | close
deriving DecidableEq, Repr

/-- multiplicity of a `go` statement on the path from the entry of its role: executed exactly once; under a condition;
    once per iteration of a loop that runs exactly `Workers` times (counting up or down, or ranging over the count); in
    some other loop; anything else; `unclassified` = in a loop whose header reads the Workers field in a way the extractor
    does not recognise — no statement is made about such a loop (it is listed in the evidence) -/
inductive Mult where
  | once | cond | perWorker | loop | other | unclassified
deriving DecidableEq, Repr

/-- capacity of a `make(chan …, e)`: `e = ncpu·runtime.NumCPU() + workers·q.workers + const`; `known = false` if `e` is
    not of that form -/
structure Cap where
  ncpu : Nat
  workers : Nat
  const : Nat
  known : Bool
deriving DecidableEq, Repr

/-- the value of a capacity on a machine with `n` CPUs for a queue with `w` workers -/
def Cap.value (cap : Cap) (n w : Nat) : Nat := cap.ncpu * n + cap.workers * w + cap.const

/-- an event of a straight-line role: a channel operation, or the dynamic call of a `Task` value (`underRecovery`: a
    `defer errs.Recovery(<handler field>)` precedes the call, unconditionally, in the same function) -/
inductive Ev where
  | op (k : Kind) (c : Chan)
  | taskCall (underRecovery : Bool)
deriving DecidableEq, Repr

end TQChan
