/-! C18 (and the rectangle layer of C07): transcription of `xmath/geom` `Point`, `Rect`, `Insets`, `Matrix` and of
    `xmath/geom/poly` `Contour`/`Polygon` `Contains`/`ContainsEvenOdd`/`Bounds`/`Transform`.

    Every definition is polymorphic in the coordinate type and only uses the operations of the Go source
    (`+ - * /`, comparisons, the `min`/`max` builtins).  The model driver runs them at `Int` (Go `int`) and at core
    Lean's exact `Rat` (Go `float64` on inputs for which every float operation is exact); the lemmas are proved for any
    linearly ordered commutative ring / field and are instantiated at exactly these two types in `Props/C18.lean`.
    Core-only. -/
namespace Geom

structure Point (α : Type) where
  x : α
  y : α
deriving Repr

structure Rect (α : Type) where
  x : α
  y : α
  w : α
  h : α
deriving Repr

/-- `geom.Insets` -/
structure Insets (α : Type) where
  top : α
  left : α
  bottom : α
  right : α

/-- `geom.Matrix` (field names of the source) -/
structure Matrix (α : Type) where
  scaleX : α
  skewX : α
  transX : α
  skewY : α
  scaleY : α
  transY : α
deriving Repr

section Ordered
variable {α : Type} [Add α] [Sub α] [LE α] [LT α] [Max α] [Min α] [OfNat α 0] [DecidableLE α] [DecidableLT α]

/-- `Rect[T]{}` -/
def Rect.zero : Rect α := ⟨0, 0, 0, 0⟩

/-- `Rect.Empty` -/
def Rect.empty (r : Rect α) : Bool := decide (r.w ≤ 0) || decide (r.h ≤ 0)
/-- `Rect.Right` -/
def Rect.right (r : Rect α) : α := r.x + r.w
/-- `Rect.Bottom` -/
def Rect.bottom (r : Rect α) : α := r.y + r.h
def Rect.topLeft (r : Rect α) : Point α := ⟨r.x, r.y⟩
def Rect.topRight (r : Rect α) : Point α := ⟨r.right, r.y⟩
def Rect.bottomRight (r : Rect α) : Point α := ⟨r.right, r.bottom⟩
def Rect.bottomLeft (r : Rect α) : Point α := ⟨r.x, r.bottom⟩

/-- `Point.In` (half open) -/
def Point.inRect (p : Point α) (r : Rect α) : Bool :=
  if r.empty then false
  else decide (r.x ≤ p.x) && decide (r.y ≤ p.y) && decide (p.x < r.right) && decide (p.y < r.bottom)

/-- `Rect.Contains` (the code as it is now: edge-wise comparison, no `-1`) -/
def Rect.contains (r i : Rect α) : Bool :=
  if r.empty || i.empty then false
  else decide (r.x ≤ i.x) && decide (r.y ≤ i.y) && decide (i.right ≤ r.right) && decide (i.bottom ≤ r.bottom)

/-- `Rect.Intersects` -/
def Rect.intersects (r o : Rect α) : Bool :=
  if r.empty || o.empty then false
  else decide (r.x < o.right) && decide (r.y < o.bottom) && decide (r.right > o.x) && decide (r.bottom > o.y)

/-- `Rect.Intersect` -/
def Rect.intersect (r o : Rect α) : Rect α :=
  if r.empty || o.empty then Rect.zero
  else
    let x := max r.x o.x
    let y := max r.y o.y
    let w := min r.right o.right - x
    let h := min r.bottom o.bottom - y
    if decide (w ≤ 0) || decide (h ≤ 0) then Rect.zero else ⟨x, y, w, h⟩

/-- `Rect.Union` -/
def Rect.union (r o : Rect α) : Rect α :=
  let e1 := r.empty
  let e2 := o.empty
  if e1 && e2 then Rect.zero
  else if e1 then o
  else if e2 then r
  else
    let x := min r.x o.x
    let y := min r.y o.y
    ⟨x, y, max r.right o.right - x, max r.bottom o.bottom - y⟩

/-- `Rect.Expand` -/
def Rect.expand (r : Rect α) (pt : Point α) : Rect α :=
  if decide (r.w < 0) || decide (r.h < 0) then ⟨pt.x, pt.y, 0, 0⟩
  else
    let x := min r.x pt.x
    let y := min r.y pt.y
    ⟨x, y, max r.right pt.x - x, max r.bottom pt.y - y⟩

/-- `Insets.Width` / `Insets.Height` -/
def Insets.width (i : Insets α) : α := i.left + i.right
def Insets.height (i : Insets α) : α := i.top + i.bottom

/-- `Rect.Inset` -/
def Rect.inset (r : Rect α) (i : Insets α) : Rect α :=
  ⟨r.x + i.left, r.y + i.top, max (r.w - i.width) 0, max (r.h - i.height) 0⟩

end Ordered

/-- `Rect.CenterX/CenterY`, parametrised by the halving of the coordinate type (`/ 2`: truncating for Go `int`) -/
def Rect.centerX {α : Type} [Add α] (half : α → α) (r : Rect α) : α := r.x + half r.w
def Rect.centerY {α : Type} [Add α] (half : α → α) (r : Rect α) : α := r.y + half r.h

section Ring
variable {α : Type} [Add α] [Sub α] [Mul α] [Neg α] [OfNat α 0] [OfNat α 1]

/-- `NewIdentityMatrix` -/
def Matrix.identity : Matrix α := ⟨1, 0, 0, 0, 1, 0⟩
/-- `NewTranslationMatrix` -/
def Matrix.newTranslation (tx ty : α) : Matrix α := ⟨1, 0, tx, 0, 1, ty⟩
/-- `NewScaleMatrix` -/
def Matrix.newScale (sx sy : α) : Matrix α := ⟨sx, 0, 0, 0, sy, 0⟩
/-- `NewRotationMatrix`, with `s = Sin(radians)`, `c = Cos(radians)` supplied -/
def Matrix.newRotation (s c : α) : Matrix α := ⟨c, -s, 0, s, c, 0⟩

/-- `Matrix.Translate` -/
def Matrix.translate (m : Matrix α) (tx ty : α) : Matrix α :=
  ⟨m.scaleX, m.skewX, m.transX + tx, m.skewY, m.scaleY, m.transY + ty⟩

/-- `Matrix.Scale` -/
def Matrix.scale (m : Matrix α) (sx sy : α) : Matrix α :=
  ⟨m.scaleX * sx, m.skewX * sx, m.transX * sx, m.skewY * sy, m.scaleY * sy, m.transY * sy⟩

/-- `Matrix.Rotate`, with `s = Sin(radians)`, `c = Cos(radians)` supplied -/
def Matrix.rotate (m : Matrix α) (s c : α) : Matrix α :=
  ⟨m.scaleX * c - s * m.skewY, m.skewX * c - s * m.scaleY, m.transX * c - s * m.transY,
   m.scaleX * s + m.skewY * c, m.skewX * s + m.scaleY * c, m.transX * s + m.transY * c⟩

/-- `Matrix.Multiply` -/
def Matrix.multiply (m o : Matrix α) : Matrix α :=
  ⟨m.scaleX * o.scaleX + m.skewY * o.skewX,
   m.skewX * o.scaleX + m.scaleY * o.skewX,
   m.transX * o.scaleX + m.transY * o.skewX + o.transX,
   m.scaleX * o.skewY + m.skewY * o.scaleY,
   m.skewX * o.skewY + m.scaleY * o.scaleY,
   m.transX * o.skewY + m.transY * o.scaleY + o.transY⟩

/-- `Matrix.TransformPoint` -/
def Matrix.transformPoint (m : Matrix α) (p : Point α) : Point α :=
  ⟨m.scaleX * p.x + m.skewX * p.y + m.transX, m.skewY * p.x + m.scaleY * p.y + m.transY⟩

end Ring

/-! ### Contours and polygons (`xmath/geom/poly`) -/
abbrev Contour (α : Type) := List (Point α)
abbrev Polygon (α : Type) := List (Contour α)

section Poly
variable {α : Type} [Add α] [Sub α] [Mul α] [Div α] [LE α] [LT α] [Max α] [Min α] [OfNat α 0] [OfNat α 1]
  [DecidableLE α] [DecidableLT α] [DecidableEq α]

/-- the five-conjunct test of the loop body of `Contour.Contains` for the edge `cur → next` -/
def edgeHit (pt cur next : Point α) : Bool :=
  let bottom := if cur.y > next.y then next else cur
  let top := if cur.y > next.y then cur else next
  decide (pt.y ≥ bottom.y) && decide (pt.y < top.y) && decide (pt.x < max cur.x next.x) && !decide (next.y = cur.y) &&
    (decide (cur.x = next.x) || decide (pt.x ≤ (pt.y - cur.y) * (next.x - cur.x) / (next.y - cur.y) + cur.x))

/-- the edges `(c[i], c[(i+1) % len c])` in order -/
def Contour.edges (c : Contour α) : List (Point α × Point α) := c.zip (c.drop 1 ++ c.take 1)

/-- the `count` of `Contour.Contains` -/
def Contour.crossings (c : Contour α) (pt : Point α) : Nat := (Contour.edges c).countP (fun e => edgeHit pt e.1 e.2)

/-- `Contour.Contains` -/
def Contour.contains (c : Contour α) (pt : Point α) : Bool := Contour.crossings c pt % 2 == 1

/-- one step of the min/max loop of `Contour.Bounds`: state `(minX, minY, maxX, maxY)` -/
def boundsStep (s : α × α × α × α) (p : Point α) : α × α × α × α :=
  let maxX := if p.x > s.2.2.1 then p.x else s.2.2.1
  let minX := if p.x < s.1 then p.x else s.1
  let maxY := if p.y > s.2.2.2 then p.y else s.2.2.2
  let minY := if p.y < s.2.1 then p.y else s.2.1
  (minX, minY, maxX, maxY)

/-- `Contour.Bounds`.  The source starts the loop from `(MaxValue, MaxValue, MinValue, MinValue)`; the model starts it
    from the first vertex, which is the same for coordinates within `[MinValue, MaxValue]` (all finite floats). -/
def Contour.bounds (c : Contour α) : Rect α :=
  match c with
  | [] => Rect.zero
  | p :: _ =>
    let s := c.foldl boundsStep (p.x, p.y, p.x, p.y)
    ⟨s.1, s.2.1, 1 + s.2.2.1 - s.1, 1 + s.2.2.2 - s.2.1⟩

/-- `Polygon.Bounds` -/
def Polygon.bounds (p : Polygon α) : Rect α :=
  match p with
  | [] => Rect.zero
  | c :: cs => cs.foldl (fun b c => b.union (Contour.bounds c)) (Contour.bounds c)

/-- `Polygon.Contains` -/
def Polygon.contains (p : Polygon α) (pt : Point α) : Bool := p.any (fun c => Contour.contains c pt)

/-- `Polygon.ContainsEvenOdd` -/
def Polygon.containsEvenOdd (p : Polygon α) (pt : Point α) : Bool :=
  p.countP (fun c => Contour.contains c pt) % 2 == 1

end Poly

/-- `Polygon.Transform` (the result; the operand is a value and cannot change) -/
def Polygon.transform {α : Type} [Add α] [Mul α] (p : Polygon α) (m : Matrix α) : Polygon α :=
  p.map (fun c => c.map (fun v => m.transformPoint v))

/-- halving of the two run-time coordinate types: Go `int` division truncates, `float64` division by 2 is exact -/
def halfInt (a : Int) : Int := Int.tdiv a 2
def halfRat (a : Rat) : Rat := a / 2

end Geom
