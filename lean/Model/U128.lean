import Generated.Facts
/-! C01: transcription of `xmath/num/uint128.go` (every exported arithmetic / ordering / bit method of `num.Uint128`
    and the three private division kernels).  Core Lean only.

    Conventions
    * a Go `uint64` is a `BitVec 64` (`W`); wrap-around `+ - *` are the `BitVec` operations;
    * Go shifts `x << n`, `x >> n` with an unsigned count are `x <<< n`, `x >>> n` with a `Nat` count (a count ≥ 64
      gives 0 in both worlds);
    * `math/bits` functions are modelled by their documented contracts (`add64`, `sub64`, `mul64`, `len64`, `clz`,
      `ctz`, `popcount`);
    * Go `int` / `uint` results and arguments (`Cmp`, `BitLen`, `Bit(i int)`, shift counts …) are `Int` / `Nat`;
    * an explicit `panic(divByZero)` is the result `Res.panic`; every other function is total and has no panic
      constructor in its type. -/

structure U128 where
  hi : BitVec 64
  lo : BitVec 64
deriving DecidableEq, Repr

namespace U128
abbrev W := BitVec 64

/-- result of an operation that may panic -/
inductive Res (α : Type) where
  | ok (v : α)
  | panic
deriving DecidableEq, Repr

def toNat (u : U128) : Nat := u.hi.toNat * 2^64 + u.lo.toNat
def ofNat (n : Nat) : U128 := ⟨BitVec.ofNat 64 (n / 2^64), BitVec.ofNat 64 n⟩
def bv (u : U128) : BitVec 128 := u.hi ++ u.lo

/-! ## `math/bits` by contract -/

/-- `bits.Add64(x, y, carry)` = (sum, carryOut) -/
def add64 (x y c : W) : W × W := (x + y + c, BitVec.ofNat 64 ((x.toNat + y.toNat + c.toNat) / 2^64))
/-- `bits.Sub64(x, y, borrow)` = (diff, borrowOut) -/
def sub64 (x y b : W) : W × W := (x - y - b, if x.toNat < y.toNat + b.toNat then 1#64 else 0#64)
/-- `bits.Mul64(x, y)` = (hi, lo) -/
def mul64 (x y : W) : W × W := (BitVec.ofNat 64 (x.toNat * y.toNat / 2^64), x * y)
/-- `bits.Len64`: minimum number of bits required to represent x; 0 for x = 0 -/
def len64 (x : W) : Nat := if x.toNat = 0 then 0 else Nat.log2 x.toNat + 1
/-- `bits.LeadingZeros64` = 64 − Len64 -/
def clz (x : W) : Nat := 64 - len64 x
def ctzAux : Nat → Nat → Nat
  | 0, _ => 0
  | f+1, x => if x % 2 = 1 then 0 else ctzAux f (x / 2) + 1
/-- `bits.TrailingZeros64`: number of trailing zero bits; 64 for x = 0 -/
def ctz (x : W) : Nat := if x.toNat = 0 then 64 else ctzAux 64 x.toNat
def popAux : Nat → Nat → Nat
  | 0, _ => 0
  | f+1, x => x % 2 + popAux f (x / 2)
/-- `bits.OnesCount64` -/
def popcount (x : W) : Nat := popAux 64 x.toNat

def mask32 : W := 0xffffffff#64
def bit32 : W := 4294967296#64

/-! ## constructors, conversions, predicates -/

def from64 (v : W) : U128 := ⟨0#64, v⟩
def isZero (u : U128) : Bool := u.hi ||| u.lo = 0#64
def signBit : W := 0x8000000000000000#64
def isInt128 (u : U128) : Bool := u.hi &&& signBit = 0#64
def isUint64 (u : U128) : Bool := u.hi = 0#64
def asUint64 (u : U128) : W := u.lo

/-! ## add / sub -/

def add (u n : U128) : U128 :=
  let (lo, c) := add64 u.lo n.lo 0#64
  let (hi, _) := add64 u.hi n.hi c
  ⟨hi, lo⟩
def addW (u : U128) (n : W) : U128 := let (lo, c) := add64 u.lo n 0#64; ⟨u.hi + c, lo⟩
def sub (u n : U128) : U128 :=
  let (lo, b) := sub64 u.lo n.lo 0#64
  let (hi, _) := sub64 u.hi n.hi b
  ⟨hi, lo⟩
def subW (u : U128) (n : W) : U128 := let (lo, b) := sub64 u.lo n 0#64; ⟨u.hi - b, lo⟩
def inc (u : U128) : U128 := let (lo, c) := add64 u.lo 1#64 0#64; ⟨u.hi + c, lo⟩
def dec (u : U128) : U128 := let (lo, b) := sub64 u.lo 1#64 0#64; ⟨u.hi - b, lo⟩

/-! ## comparisons -/

def cmp (u n : U128) : Int :=
  if u.hi = n.hi then (if u.lo.toNat > n.lo.toNat then 1 else if u.lo.toNat < n.lo.toNat then -1 else 0)
  else if u.hi.toNat > n.hi.toNat then 1 else -1
def cmpW (u : U128) (n : W) : Int :=
  if u.hi.toNat > 0 ∨ u.lo.toNat > n.toNat then 1 else if u.lo.toNat < n.toNat then -1 else 0
def greaterThan (u n : U128) : Bool := u.hi.toNat > n.hi.toNat || (u.hi = n.hi && u.lo.toNat > n.lo.toNat)
def greaterThanW (u : U128) (n : W) : Bool := u.hi.toNat > 0 || u.lo.toNat > n.toNat
def greaterThanOrEqual (u n : U128) : Bool := u.hi.toNat > n.hi.toNat || (u.hi = n.hi && u.lo.toNat ≥ n.lo.toNat)
def greaterThanOrEqualW (u : U128) (n : W) : Bool := u.hi.toNat > 0 || u.lo.toNat ≥ n.toNat
def equal (u n : U128) : Bool := u.hi = n.hi && u.lo = n.lo
def equalW (u : U128) (n : W) : Bool := u.hi = 0#64 && u.lo = n
def lessThan (u n : U128) : Bool := u.hi.toNat < n.hi.toNat || (u.hi = n.hi && u.lo.toNat < n.lo.toNat)
def lessThanW (u : U128) (n : W) : Bool := u.hi = 0#64 && u.lo.toNat < n.toNat
def lessThanOrEqual (u n : U128) : Bool := u.hi.toNat < n.hi.toNat || (u.hi = n.hi && u.lo.toNat ≤ n.lo.toNat)
def lessThanOrEqualW (u : U128) (n : W) : Bool := u.hi = 0#64 && u.lo.toNat ≤ n.toNat

/-! ## bit queries -/

def bitLen (u : U128) : Nat := if u.hi ≠ 0#64 then len64 u.hi + 64 else len64 u.lo
def onesCount (u : U128) : Nat := popcount u.hi + popcount u.lo
/-- `Bit(i int) uint` -/
def bit (u : U128) (i : Int) : Nat :=
  if i < 0 ∨ i > 127 then 0
  else if i < 64 then ((u.lo >>> i.toNat) &&& 1#64).toNat
  else ((u.hi >>> (i - 64).toNat) &&& 1#64).toNat
/-- `SetBit(i int, b uint)` -/
def setBit (u : U128) (i : Int) (b : Nat) : U128 :=
  if i < 0 ∨ i > 127 then u
  else if b = 0 then
    if i ≥ 64 then ⟨u.hi &&& ~~~(1#64 <<< (i - 64).toNat), u.lo⟩ else ⟨u.hi, u.lo &&& ~~~(1#64 <<< i.toNat)⟩
  else
    if i ≥ 64 then ⟨u.hi ||| (1#64 <<< (i - 64).toNat), u.lo⟩ else ⟨u.hi, u.lo ||| (1#64 <<< i.toNat)⟩
def leadingZeros (u : U128) : Nat := if u.hi = 0#64 then clz u.lo + 64 else clz u.hi
def trailingZeros (u : U128) : Nat := if u.lo = 0#64 then ctz u.hi + 64 else ctz u.lo

/-! ## bitwise -/

def not (u : U128) : U128 := ⟨~~~u.hi, ~~~u.lo⟩
def and (u n : U128) : U128 := ⟨u.hi &&& n.hi, u.lo &&& n.lo⟩
def andW (u : U128) (n : W) : U128 := ⟨0#64, u.lo &&& n⟩
def andNot (u n : U128) : U128 := ⟨u.hi &&& ~~~n.hi, u.lo &&& ~~~n.lo⟩
/-- `AndNot64` takes a `Uint128` in the source and uses only its low word -/
def andNot64 (u n : U128) : U128 := ⟨u.hi, u.lo &&& ~~~n.lo⟩
def or (u n : U128) : U128 := ⟨u.hi ||| n.hi, u.lo ||| n.lo⟩
def orW (u : U128) (n : W) : U128 := ⟨u.hi, u.lo ||| n⟩
def xor (u n : U128) : U128 := ⟨u.hi ^^^ n.hi, u.lo ^^^ n.lo⟩
def xorW (u : U128) (n : W) : U128 := ⟨u.hi, u.lo ^^^ n⟩

/-! ## shifts (count is a Go `uint`) -/

/-- Go `x << n` / `x >> n` on a `uint64` with an arbitrary unsigned count: 0 once the count reaches 64 (the same
    value as the `BitVec` shift, lemmas `shl_eq` / `shr_eq`; spelled out so that huge counts are not materialised) -/
def shl (x : W) (n : Nat) : W := if n < 64 then x <<< n else 0#64
def shr (x : W) (n : Nat) : W := if n < 64 then x >>> n else 0#64

def leftShift (u : U128) (n : Nat) : U128 :=
  if n = 0 then u
  else if n > 64 then ⟨shl u.lo (n - 64), 0#64⟩
  else if n < 64 then ⟨u.hi <<< n ||| u.lo >>> (64 - n), u.lo <<< n⟩
  else ⟨u.lo, 0#64⟩
def rightShift (u : U128) (n : Nat) : U128 :=
  if n = 0 then u
  else if n > 64 then ⟨0#64, shr u.hi (n - 64)⟩
  else if n < 64 then ⟨u.hi >>> n, u.lo >>> n ||| u.hi <<< (64 - n)⟩
  else ⟨0#64, u.hi⟩

/-! ## multiplication -/

def mul (u n : U128) : U128 :=
  let (hi, lo) := mul64 u.lo n.lo
  ⟨hi + u.hi * n.lo + u.lo * n.hi, lo⟩
def mulW (u : U128) (n : W) : U128 :=
  let x0 := u.lo &&& mask32
  let x1 := u.lo >>> 32
  let y0 := n &&& mask32
  let y1 := n >>> 32
  let t := x1 * y0 + (x0 * y0) >>> 32
  ⟨x1 * y1 + t >>> 32 + ((t &&& mask32) + x0 * y1) >>> 32 + u.hi * n, u.lo * n⟩

/-! ## division kernels -/

/-- one `goto` correction loop of `divmod128by64` (`loop1` / `loop2`) as a fuelled recursion.  Each round adds
    `vn1 ≥ 2^31` to `rhat` and continues only while `rhat < 2^32`, so two rounds are the maximum (fuel 4 is never
    exhausted: lemma `corrLoop_fuel`). `unx` is the digit or-ed into `right` (`un1` resp. `un0`). -/
def corrLoop (vn1 vn0 unx : W) : Nat → W → W → W → W → W
  | 0, q, _, _, _ => q
  | fuel+1, q, rhat, left, right =>
    if q.toNat ≥ bit32.toNat ∨ left.toNat > right.toNat then
      if (rhat + vn1).toNat < bit32.toNat then
        corrLoop vn1 vn0 unx fuel (q - 1#64) (rhat + vn1) (left - vn0) ((rhat + vn1) <<< 32 ||| unx)
      else q - 1#64
    else q

/-- `divmod128by64`: Knuth D on 32-bit digits (`u.hi < n` is the caller's obligation) -/
def divmod128by64 (u : U128) (n : W) (nLeading0 : Nat) : W × W :=
  let n := n <<< nLeading0
  let vn1 := n >>> 32
  let vn0 := n &&& mask32
  let u : U128 := if nLeading0 > 0 then ⟨u.hi <<< nLeading0 ||| u.lo >>> (64 - nLeading0), u.lo <<< nLeading0⟩ else u
  let un1 := u.lo >>> 32
  let un0 := u.lo &&& mask32
  let q1 := u.hi / vn1
  let rhat := u.hi % vn1
  let left := q1 * vn0
  let right := rhat <<< 32 + un1
  let q1 := corrLoop vn1 vn0 un1 4 q1 rhat left right
  let un21 := u.hi <<< 32 + (un1 - q1 * n)
  let q0 := un21 / vn1
  let rhat := un21 % vn1
  let left := q0 * vn0
  let right := rhat <<< 32 ||| un0
  let q0 := corrLoop vn1 vn0 un0 4 q0 rhat left right
  (q1 <<< 32 ||| q0, (un21 <<< 32 + (un0 - q0 * n)) >>> nLeading0)

/-- `divmod128by128`: 128/64 when the divisor fits a word, otherwise estimate from the top words, decrement,
    multiply back, one correction -/
def divmod128by128 (u n : U128) (nHiLeading0 nLoLeading0 : Nat) : U128 × U128 :=
  if n.hi = 0#64 then
    if u.hi.toNat < n.lo.toNat then
      let qr := divmod128by64 u n.lo nLoLeading0
      (⟨0#64, qr.1⟩, ⟨0#64, qr.2⟩)
    else
      let qr := divmod128by64 ⟨u.hi % n.lo, u.lo⟩ n.lo nLoLeading0
      (⟨u.hi / n.lo, qr.1⟩, ⟨0#64, qr.2⟩)
  else
    let q0 := (divmod128by64 (rightShift u 1) (leftShift n nHiLeading0).hi nLoLeading0).1
    let q0 := q0 >>> (63 - nHiLeading0)
    let q0 := if q0 ≠ 0#64 then q0 - 1#64 else q0
    let q : U128 := ⟨0#64, q0⟩
    let r := sub u (mul q n)
    if cmp r n ≥ 0 then (inc q, sub r n) else (q, r)

/-- one round of the `for` loop of `divmod128bin` before the `shift <= 0` test -/
def binStep (u n q : U128) : U128 × U128 :=
  if greaterThanOrEqual u n then (sub u n, ⟨q.hi, q.lo ||| 1#64⟩) else (u, q)

/-- the `for` loop of `divmod128bin`, recursion on the (non-negative) `shift` -/
def binLoop : Nat → U128 → U128 → U128 → U128 × U128
  | 0, u, n, q => ((binStep u n q).2, (binStep u n q).1)
  | shift+1, u, n, q => binLoop shift (binStep u n q).1 (rightShift n 1) (leftShift (binStep u n q).2 1)

/-- `divmod128bin`: `shift := int(byLeading0 - uLeading0)`.  Every caller guarantees `uLeading0 ≤ byLeading0`
    (the dividend is greater than the divisor), so the `uint` subtraction does not wrap and `shift ≥ 0`. -/
def divmod128bin (u n : U128) (uLeading0 byLeading0 : Nat) : U128 × U128 :=
  let shift := byLeading0 - uLeading0
  binLoop shift u (leftShift n shift) ⟨0#64, 0#64⟩

/-- `divBinaryShiftThreshold`, read from the source on every run -/
def threshold : Nat := Facts.num_divBinaryShiftThreshold.toNat

/-! ## division entry points (three separate copies in the source, three separate transcriptions) -/

def zero : U128 := ⟨0#64, 0#64⟩
def one : U128 := ⟨0#64, 1#64⟩

def divMod (u n : U128) : Res (U128 × U128) :=
  if n.hi = 0#64 ∧ n.lo = 0#64 then .panic
  else if n.hi = 0#64 ∧ n.lo = 1#64 then .ok (u, zero)
  else if n.hi = 0#64 ∧ u.hi = 0#64 then .ok (⟨0#64, u.lo / n.lo⟩, ⟨0#64, u.lo % n.lo⟩)
  else
    let nLoLeading0 := if n.hi = 0#64 then clz n.lo else 0
    let nHiLeading0 := if n.hi = 0#64 then 64 else clz n.hi
    let nLeading0 := if n.hi = 0#64 then clz n.lo + 64 else clz n.hi
    let nTrailing0 := trailingZeros n
    if nLeading0 + nTrailing0 = 127 then .ok (rightShift u nTrailing0, and (dec n) u)
    else if cmp u n < 0 then .ok (zero, u)
    else if cmp u n = 0 then .ok (one, zero)
    else
      let uLeading0 := leadingZeros u
      if nLeading0 - uLeading0 > threshold then .ok (divmod128by128 u n nHiLeading0 nLoLeading0)
      else .ok (divmod128bin u n uLeading0 nLeading0)

def div (u n : U128) : Res U128 :=
  if n.hi = 0#64 ∧ n.lo = 0#64 then .panic
  else if n.hi = 0#64 ∧ n.lo = 1#64 then .ok u
  else if n.hi = 0#64 ∧ u.hi = 0#64 then .ok ⟨u.hi, u.lo / n.lo⟩
  else
    let nLoLeading0 := if n.hi = 0#64 then clz n.lo else 0
    let nHiLeading0 := if n.hi = 0#64 then 64 else clz n.hi
    let nLeading0 := if n.hi = 0#64 then clz n.lo + 64 else clz n.hi
    let nTrailing0 := trailingZeros n
    if nLeading0 + nTrailing0 = 127 then .ok (rightShift u nTrailing0)
    else if cmp u n < 0 then .ok zero
    else if cmp u n = 0 then .ok one
    else
      let uLeading0 := leadingZeros u
      if nLeading0 - uLeading0 > threshold then .ok (divmod128by128 u n nHiLeading0 nLoLeading0).1
      else .ok (divmod128bin u n uLeading0 nLeading0).1

def mod (u n : U128) : Res U128 :=
  if n.hi = 0#64 ∧ n.lo = 0#64 then .panic
  else if n.hi = 0#64 ∧ n.lo = 1#64 then .ok zero
  else if n.hi = 0#64 ∧ u.hi = 0#64 then .ok ⟨u.hi, u.lo % n.lo⟩
  else
    let nLoLeading0 := if n.hi = 0#64 then clz n.lo else 0
    let nHiLeading0 := if n.hi = 0#64 then 64 else clz n.hi
    let nLeading0 := if n.hi = 0#64 then clz n.lo + 64 else clz n.hi
    let nTrailing0 := trailingZeros n
    if nLeading0 + nTrailing0 = 127 then .ok (and (dec n) u)
    else if cmp u n < 0 then .ok u
    else if cmp u n = 0 then .ok zero
    else
      let uLeading0 := leadingZeros u
      if nLeading0 - uLeading0 > threshold then .ok (divmod128by128 u n nHiLeading0 nLoLeading0).2
      else .ok (divmod128bin u n uLeading0 nLeading0).2

def divModW (u : U128) (n : W) : Res (U128 × U128) :=
  if n = 0#64 then .panic
  else if n = 1#64 then .ok (u, zero)
  else if u.hi = 0#64 then .ok (⟨0#64, u.lo / n⟩, ⟨0#64, u.lo % n⟩)
  else
    let nLoLeading0 := clz n
    let nLeading0 := nLoLeading0 + 64
    let nTrailing0 := ctz n
    if nLeading0 + nTrailing0 = 127 then .ok (rightShift u nTrailing0, andW u (n - 1#64))
    else if cmpW u n < 0 then .ok (zero, u)
    else if cmpW u n = 0 then .ok (one, zero)
    else
      let uLeading0 := leadingZeros u
      if nLeading0 - uLeading0 > threshold then
        if u.hi.toNat < n.toNat then
          let qr := divmod128by64 u n nLoLeading0
          .ok (⟨0#64, qr.1⟩, ⟨0#64, qr.2⟩)
        else
          let qr := divmod128by64 ⟨u.hi % n, u.lo⟩ n nLoLeading0
          .ok (⟨u.hi / n, qr.1⟩, ⟨0#64, qr.2⟩)
      else .ok (divmod128bin u ⟨0#64, n⟩ uLeading0 nLeading0)

def divW (u : U128) (n : W) : Res U128 :=
  if n = 0#64 then .panic
  else if n = 1#64 then .ok u
  else if u.hi = 0#64 then .ok ⟨u.hi, u.lo / n⟩
  else
    let nLoLeading0 := clz n
    let nLeading0 := nLoLeading0 + 64
    let nTrailing0 := ctz n
    if nLeading0 + nTrailing0 = 127 then .ok (rightShift u nTrailing0)
    else if cmpW u n < 0 then .ok zero
    else if cmpW u n = 0 then .ok one
    else
      let uLeading0 := leadingZeros u
      if nLeading0 - uLeading0 > threshold then
        if u.hi.toNat < n.toNat then .ok ⟨0#64, (divmod128by64 u n nLoLeading0).1⟩
        else .ok ⟨u.hi / n, (divmod128by64 ⟨u.hi % n, u.lo⟩ n nLoLeading0).1⟩
      else .ok (divmod128bin u ⟨0#64, n⟩ uLeading0 nLeading0).1

def modW (u : U128) (n : W) : Res U128 :=
  if n = 0#64 then .panic
  else if n = 1#64 then .ok zero
  else if u.hi = 0#64 then .ok ⟨u.hi, u.lo % n⟩
  else
    let nLoLeading0 := clz n
    let nLeading0 := nLoLeading0 + 64
    let nTrailing0 := ctz n
    if nLeading0 + nTrailing0 = 127 then .ok (andW u (n - 1#64))
    else if cmpW u n < 0 then .ok u
    else if cmpW u n = 0 then .ok zero
    else
      let uLeading0 := leadingZeros u
      if nLeading0 - uLeading0 > threshold then
        let u' : U128 := if u.hi.toNat ≥ n.toNat then ⟨u.hi % n, u.lo⟩ else u
        .ok ⟨0#64, (divmod128by64 u' n nLoLeading0).2⟩
      else .ok (divmod128bin u ⟨0#64, n⟩ uLeading0 nLeading0).2

end U128
