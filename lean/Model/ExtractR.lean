import Model.Extract
/-! C19: the RESOLVING file system.  The kernel follows symbolic links: in every component of a path but the last
    always, in the last one where the system call does (`stat`, `open` without `O_NOFOLLOW`; not `lstat`, `mkdir`,
    `symlink`, `link`).  `walk` is that resolution on the node table of `Model/Extract.lean` (the table holds the whole
    tree from `/`, so "outside the destination" is simply every path that is not at or below the root: absolute link
    targets and `..` climb there).  The primitives `mkdirR`, `osMkdirAll` (Go's `os.MkdirAll`, transcribed), `openWriteR`,
    `symlinkR`, `linkR` act at the PHYSICAL place `walk` arrives at; `ensureNoSymlinksR` is `internal.EnsureNoSymlinks`
    with its `Lstat` calls; `tarOneG` / `zipOneG` are the loop bodies of the two extractors over these primitives, with
    the guard calls switchable (`guarded = true` is the code, `false` the extractor before commit ddf9a1e).

    The model driver executes `tarExtractR` / `zipExtractR`.  `Lemmas/ExtractREq.lean` proves that with the guard every
    call acts at its lexical path, so that they coincide with the lexical `tarExtract` / `zipExtract` of
    `Model/Extract.lean` (about which the bulk of the theorems is proved) on every well-formed tree whose destination
    is not below a symbolic link; without the guard they do not (`Props/C19.lean`, `guardless_escapes`). -/
namespace Ex

inductive Errno | enoent | enotdir | eloop
deriving DecidableEq, Repr

/-- the result of resolving a path -/
inductive Res
  | found (q : P) (n : Nd)   -- it denotes the existing node `n`, which lives at the physical path `q`
  | missing (q : P)          -- nothing there; its directory exists, a new node would live at the physical path `q`
  | err (e : Errno)
deriving DecidableEq, Repr

/-- kernel path resolution from the directory `cur` over the remaining components `comps`.  `followLast`: follow a
    symbolic link in the last component too.  `links` is the number of symbolic links that may still be followed
    (`MAXSYMLINKS` = 40 per resolution: the 41st gives `ELOOP`); `fuel` makes the recursion structural (one unit
    per step, see `walkFuel`).  Running out of fuel is reported as `ELOOP` too and so cannot be told from a real one.
    No theorem is affected: wherever a theorem uses `walk` (under `RInv` after the guard) `walk_lex` /
    `lstatR_lex` / `statR_lex` (Lemmas/ExtractREq.lean) PROVE that `walkFuel` suffices — the result is a look-up, never
    the fuel case; only the differential area `dstlinkm` could see a false `ELOOP`, and only for a resolution of more
    than `length + 4096` steps (40 links with very long targets), which it does not generate. -/
def walk (fs : FS) (followLast : Bool) (links : Nat) : Nat → P → List Comp → Res
  | 0, _, _ => .err .eloop
  | fuel+1, cur, comps =>
    match fs.get cur with
    | some (.dir m) =>
      (match comps with
       | [] => .found cur (.dir m)
       | c :: rest =>
         if c = [] ∨ c = [46] then walk fs followLast links fuel cur rest
         else if c = [46, 46] then walk fs followLast links fuel cur.dropLast rest
         else
           match fs.get (cur ++ [c]) with
           | none => if rest = [] then .missing (cur ++ [c]) else .err .enoent
           | some (.symlink t) =>
             if rest = [] ∧ followLast = false then .found (cur ++ [c]) (.symlink t)
             else if t = [] then .err .enoent
             else if links = 0 then .err .eloop
             else walk fs followLast (links - 1) fuel (if t.head? = some 47 then [] else cur) (splitSlash t ++ rest)
           | some (.file i) => if rest = [] then .found (cur ++ [c]) (.file i) else .err .enotdir
           | some (.dir _) => walk fs followLast links fuel (cur ++ [c]) rest)
    | some _ => .err .enotdir
    | none => .err .enoent

/-- the path itself and 4096 further steps (a path of `PATH_MAX` bytes has at most 2048 components; a resolution that
    traverses more than `length + 4096` components in total — only possible with 40 links to very long targets — is
    reported as `ELOOP` too) -/
def walkFuel (p : P) : Nat := p.length + 4096

/-- `MAXSYMLINKS` -/
def maxLinks : Nat := 40

def lstatR (fs : FS) (p : P) : Res := walk fs false maxLinks (walkFuel p) [] p
def statR (fs : FS) (p : P) : Res := walk fs true maxLinks (walkFuel p) [] p

/-- `mkdir(2)`: does not follow a link in the last component (`EEXIST`) -/
def mkdirR (fs : FS) (p : P) (mode : Nat) : Option FS :=
  match lstatR fs p with
  | .missing q => some (fs.put q (.dir mode))
  | _ => none

/-- Go's `os.MkdirAll(p, mode)`: `Stat` (fast path), else `MkdirAll(parent)`, `Mkdir`, and on failure `Lstat` -/
def mkdirAllR (fs : FS) (mode : Nat) : Nat → P → Option FS
  | 0, _ => none
  | k+1, p =>
    match statR fs p with
    | .found _ (.dir _) => some fs
    | .found _ _ => none                                   -- ENOTDIR
    | _ =>
      if p = [] then none else
      match mkdirAllR fs mode k p.dropLast with
      | none => none
      | some fs1 =>
        match mkdirR fs1 p mode with
        | some fs2 => some fs2
        | none =>
          match lstatR fs1 p with
          | .found _ (.dir _) => some fs1
          | _ => none

def osMkdirAll (fs : FS) (p : P) (mode : Nat) : Option FS := mkdirAllR fs mode (p.length + 1) p

/-- `os.OpenFile(p, O_CREATE|O_WRONLY|O_TRUNC, mode)` + write + close: follows a link in the last component -/
def openWriteR (fs : FS) (p : P) (mode : Nat) (data : List Nat) : Option FS :=
  match statR fs p with
  | .found _ (.file ino) => some { fs with inodes := setData fs.inodes ino data }
  | .missing q =>
    some (({ fs with inodes := fs.inodes.push { data := data, mode := mode } }).put q (.file fs.inodes.size))
  | _ => none                                              -- EISDIR, ENOENT, ENOTDIR, ELOOP

/-- `os.Symlink(target, p)` -/
def symlinkR (fs : FS) (target : List Nat) (p : P) : Option FS :=
  if target = [] then none
  else match lstatR fs p with
    | .missing q => some (fs.put q (.symlink target))
    | _ => none

/-- `os.Link(target, p)` = `linkat(…, 0)`: neither name is followed in its last component (a link to a symbolic link
    is a second name of the link itself) -/
def linkR (fs : FS) (target p : P) : Option FS :=
  match lstatR fs target with
  | .found _ (.file ino) =>
    (match lstatR fs p with
     | .missing q => some (fs.put q (.file ino))
     | _ => none)
  | .found _ (.symlink t) =>
    (match lstatR fs p with
     | .missing q => some (fs.put q (.symlink t))
     | _ => none)
  | _ => none

/-- the loop of `internal.EnsureNoSymlinks`: `cur = filepath.Join(cur, part)`, `Lstat(cur)`; `IsNotExist` ends the walk
    with success, any other error and a symbolic link with failure -/
def guardLoopR (fs : FS) : P → List Comp → Bool
  | _, [] => true
  | cur, part :: rest =>
    match lstatR fs (cleanStep cur part) with
    | .missing _ => true
    | .err .enoent => true
    | .err _ => false
    | .found _ (.symlink _) => false
    | .found _ _ => guardLoopR fs (cleanStep cur part) rest

/-- length of the common prefix of two paths -/
def commonLen : P → P → Nat
  | a :: s, b :: t => if a = b then commonLen s t + 1 else 0
  | _, _ => 0

/-- `strings.Split(filepath.Rel(root, p), "/")` for clean absolute paths: `.` if they are equal, else one `..` for every
    component of the root beyond the common prefix, then what is left of `p` (for `p` below the root: its components
    below the root) -/
def relParts (root p : P) : List Comp :=
  if p = root then [[46]]
  else List.replicate (root.length - commonLen root p) [46, 46] ++ p.drop (commonLen root p)

/-- `internal.EnsureNoSymlinks(root, p)`, any two clean absolute paths (the extractors only pass a `p` at or below the
    root, where the parts are `.` or the components below it: `relParts_of_prefix`) -/
def ensureNoSymlinksR (fs : FS) (root p : P) : Bool :=
  guardLoopR fs root (relParts root p)

/-- one iteration of tar `ExtractWithMask` over the resolving primitives; `guarded = false` leaves both guard calls out -/
def tarOneG (guarded : Bool) (fs : FS) (root : P) (mask : Nat) (e : Entry) : FS × Bool :=
  if e.kind = .corrupt then (fs, false) else
  let path := cleanJoin root e.name
  if !lexOK root path (e.kind == .dir) then (fs, false)
  else if guarded && !ensureNoSymlinksR fs root path then (fs, false)
  else match e.kind with
    | .reg =>
      match osMkdirAll fs path.dropLast (0o755 &&& mask) with
      | none => (fs, false)
      | some fs1 =>
        match openWriteR fs1 path (perm e.mode &&& mask) e.data with
        | none => (fs1, false)
        | some fs2 => (fs2, !e.short)
    | .link =>
      match osMkdirAll fs path.dropLast (0o755 &&& mask) with
      | none => (fs, false)
      | some fs1 =>
        let target := cleanJoin root e.link
        if !lexOK root target false then (fs1, false)
        else if guarded && !ensureNoSymlinksR fs1 root target then (fs1, false)
        else match linkR fs1 target path with
          | none => (fs1, false)
          | some fs2 => (fs2, true)
    | .symlink =>
      match osMkdirAll fs path.dropLast (0o755 &&& mask) with
      | none => (fs, false)
      | some fs1 =>
        match symlinkR fs1 e.link path with
        | none => (fs1, false)
        | some fs2 => (fs2, true)
    | .dir =>
      match osMkdirAll fs path (perm e.mode &&& mask) with
      | none => (fs, false)
      | some fs1 => (fs1, true)
    | _ => (fs, true)

/-- one iteration of zip `ExtractWithMask` over the resolving primitives -/
def zipOneG (guarded : Bool) (fs : FS) (root : P) (mask : Nat) (e : Entry) : FS × Bool :=
  let path := cleanJoin root e.name
  if !lexOK root path (e.kind == .dir) then (fs, false)
  else if guarded && !ensureNoSymlinksR fs root path then (fs, false)
  else match e.kind with
    | .symlink =>
      if e.short then (fs, false) else
      match osMkdirAll fs path.dropLast (0o755 &&& mask) with
      | none => (fs, false)
      | some fs1 =>
        match symlinkR fs1 e.link path with
        | none => (fs1, false)
        | some fs2 => (fs2, true)
    | .dir =>
      match osMkdirAll fs path (perm e.mode &&& mask) with
      | none => (fs, false)
      | some fs1 => (fs1, true)
    | .corrupt => (fs, false)                      -- f.Open() fails (unsupported method, bad local header): nothing is created
    | _ =>
      match osMkdirAll fs path.dropLast (0o755 &&& mask) with
      | none => (fs, false)
      | some fs1 =>
        match openWriteR fs1 path (perm e.mode &&& mask) e.data with
        | none => (fs1, false)
        | some fs2 => (fs2, !e.short)

/-- the extractors of the repository: the guard is called -/
def tarOneR (fs : FS) (root : P) (mask : Nat) (e : Entry) : FS × Bool := tarOneG true fs root mask e
def zipOneR (fs : FS) (root : P) (mask : Nat) (e : Entry) : FS × Bool := zipOneG true fs root mask e

def tarExtractR (fs : FS) (root : P) (mask : Nat) (es : List Entry) : FS × Bool :=
  extractWith (fun fs e => tarOneR fs root mask e) fs es
def zipExtractR (fs : FS) (root : P) (mask : Nat) (es : List Entry) : FS × Bool :=
  extractWith (fun fs e => zipOneR fs root mask e) fs es

/-- tar / zip `ExtractWithMask(r, dst, mask)` with the destination AS THE CALLER SPELLS IT (relative, unclean, …) and
    the working directory of the process: `root, err := filepath.Abs(dst)`, then the loop -/
def tarExtractWithMaskAt (fs : FS) (cwd : P) (dst : List Nat) (mask : Nat) (es : List Entry) : FS × Bool :=
  tarExtractR fs (absPath cwd dst) mask es
def zipExtractWithMaskAt (fs : FS) (cwd : P) (dst : List Nat) (mask : Nat) (es : List Entry) : FS × Bool :=
  zipExtractR fs (absPath cwd dst) mask es

/-- the same with `os.Getwd` able to fail: `if err != nil { return errs.Wrap(err) }` after `filepath.Abs` — an error
    before anything is looked at or created -/
def tarExtractWithMaskFrom (fs : FS) (cwd : Option P) (dst : List Nat) (mask : Nat) (es : List Entry) : FS × Bool :=
  match absPath? cwd dst with
  | none => (fs, false)
  | some root => tarExtractR fs root mask es
def zipExtractWithMaskFrom (fs : FS) (cwd : Option P) (dst : List Nat) (mask : Nat) (es : List Entry) : FS × Bool :=
  match absPath? cwd dst with
  | none => (fs, false)
  | some root => zipExtractR fs root mask es

/-! ### the exported wrappers (as in `Model/Extract.lean`, over the resolving loops) -/

def tarExtractDefaultR (fs : FS) (root : P) (es : List Entry) : FS × Bool := tarExtractR fs root defaultMask es
def zipExtractDefaultR (fs : FS) (root : P) (es : List Entry) : FS × Bool := zipExtractR fs root defaultMask es
def tarExtractArchiveWithMaskR (opened : Bool) (fs : FS) (root : P) (mask : Nat) (es : List Entry) : FS × Bool :=
  if opened then tarExtractR fs root mask es else (fs, false)
def zipExtractArchiveWithMaskR (opened : Bool) (fs : FS) (root : P) (mask : Nat) (es : List Entry) : FS × Bool :=
  if opened then zipExtractR fs root mask es else (fs, false)
def tarExtractArchiveR (opened : Bool) (fs : FS) (root : P) (es : List Entry) : FS × Bool :=
  tarExtractArchiveWithMaskR opened fs root defaultMask es
def zipExtractArchiveR (opened : Bool) (fs : FS) (root : P) (es : List Entry) : FS × Bool :=
  zipExtractArchiveWithMaskR opened fs root defaultMask es

/-! ### the copy step of `extractFile` (both packages) as system calls: `OpenFile`, `write`*, deferred `Close` -/

/-- faults of the destination side during one extraction: `writeLimit = some k` — no file can grow beyond `k` bytes
    (the `write(2)` that would cross the limit writes up to it, the next one fails: `EFBIG` / `ENOSPC`); `closeFails` —
    the paths (as handed to `OpenFile`) whose `close(2)` fails after all writes succeeded (`EIO`, a deferred write-back
    error) -/
structure Faults where
  writeLimit : Option Nat := none
  closeFails : List P := []

/-- `os.OpenFile(p, O_CREATE|O_WRONLY|O_TRUNC, mode)`: the file (followed through a link in the last component) is there
    and empty; the descriptor is its inode -/
def openTruncR (fs : FS) (p : P) (mode : Nat) : Option (FS × Nat) :=
  match statR fs p with
  | .found _ (.file ino) => some ({ fs with inodes := setData fs.inodes ino [] }, ino)
  | .missing q =>
    some ((({ fs with inodes := fs.inodes.push { data := [], mode := mode } }).put q (.file fs.inodes.size)), fs.inodes.size)
  | _ => none

/-- the `write(2)` calls of `io.Copy` on a descriptor: afterwards the file holds `written` -/
def writeFd (fs : FS) (ino : Nat) (written : List Nat) : FS := { fs with inodes := setData fs.inodes ino written }

/-- `io.Copy(file, r)`: the bytes that reach the file and whether it returns an error — the reader's error after its
    readable bytes (`readErr`), or the failing `write` at the limit, whichever comes first -/
def ioCopy (payload : List Nat) (readErr : Bool) (limit : Option Nat) : List Nat × Bool :=
  match limit with
  | some k => if payload.length > k then (payload.take k, true) else (payload, readErr)
  | none => (payload, readErr)

/-- the deferred `if closeErr := file.Close(); closeErr != nil && err == nil { err = closeErr }`: is the result an error -/
def deferredClose (copyErr closeErr : Bool) : Bool := if closeErr && !copyErr then true else copyErr

/-- `extractFile` after its `MkdirAll`: open, copy, close; the Bool is "no error" -/
def extractFileR (flt : Faults) (fs1 : FS) (path : P) (mode : Nat) (payload : List Nat) (readErr : Bool) : FS × Bool :=
  match openTruncR fs1 path mode with
  | none => (fs1, false)
  | some (fs2, fd) =>
    let c := ioCopy payload readErr flt.writeLimit
    (writeFd fs2 fd c.1, !deferredClose c.2 (flt.closeFails.contains path))

/-- one iteration of tar `ExtractWithMask` with the copy step of `extractFile` as system calls and destination-side faults -/
def tarOneF (flt : Faults) (fs : FS) (root : P) (mask : Nat) (e : Entry) : FS × Bool :=
  if e.kind = .corrupt then (fs, false) else
  let path := cleanJoin root e.name
  if !lexOK root path (e.kind == .dir) then (fs, false)
  else if !ensureNoSymlinksR fs root path then (fs, false)
  else match e.kind with
    | .reg =>
      match osMkdirAll fs path.dropLast (0o755 &&& mask) with
      | none => (fs, false)
      | some fs1 => extractFileR flt fs1 path (perm e.mode &&& mask) e.data e.short
    | .link =>
      match osMkdirAll fs path.dropLast (0o755 &&& mask) with
      | none => (fs, false)
      | some fs1 =>
        let target := cleanJoin root e.link
        if !lexOK root target false then (fs1, false)
        else if !ensureNoSymlinksR fs1 root target then (fs1, false)
        else match linkR fs1 target path with
          | none => (fs1, false)
          | some fs2 => (fs2, true)
    | .symlink =>
      match osMkdirAll fs path.dropLast (0o755 &&& mask) with
      | none => (fs, false)
      | some fs1 =>
        match symlinkR fs1 e.link path with
        | none => (fs1, false)
        | some fs2 => (fs2, true)
    | .dir =>
      match osMkdirAll fs path (perm e.mode &&& mask) with
      | none => (fs, false)
      | some fs1 => (fs1, true)
    | _ => (fs, true)

/-- one iteration of zip `ExtractWithMask`, likewise -/
def zipOneF (flt : Faults) (fs : FS) (root : P) (mask : Nat) (e : Entry) : FS × Bool :=
  let path := cleanJoin root e.name
  if !lexOK root path (e.kind == .dir) then (fs, false)
  else if !ensureNoSymlinksR fs root path then (fs, false)
  else match e.kind with
    | .symlink =>
      if e.short then (fs, false) else
      match osMkdirAll fs path.dropLast (0o755 &&& mask) with
      | none => (fs, false)
      | some fs1 =>
        match symlinkR fs1 e.link path with
        | none => (fs1, false)
        | some fs2 => (fs2, true)
    | .dir =>
      match osMkdirAll fs path (perm e.mode &&& mask) with
      | none => (fs, false)
      | some fs1 => (fs1, true)
    | .corrupt => (fs, false)
    | _ =>
      match osMkdirAll fs path.dropLast (0o755 &&& mask) with
      | none => (fs, false)
      | some fs1 => extractFileR flt fs1 path (perm e.mode &&& mask) e.data e.short

def tarExtractF (flt : Faults) (fs : FS) (root : P) (mask : Nat) (es : List Entry) : FS × Bool :=
  extractWith (fun fs e => tarOneF flt fs root mask e) fs es
def zipExtractF (flt : Faults) (fs : FS) (root : P) (mask : Nat) (es : List Entry) : FS × Bool :=
  extractWith (fun fs e => zipOneF flt fs root mask e) fs es


/-- the exported forms over the loops with faults (with `flt = {}` they are the forms above: `Ex.faultless_*`) -/
def tarExtractWithMaskFromF (flt : Faults) (fs : FS) (cwd : Option P) (dst : List Nat) (mask : Nat) (es : List Entry) : FS × Bool :=
  match absPath? cwd dst with
  | none => (fs, false)
  | some root => tarExtractF flt fs root mask es
def zipExtractWithMaskFromF (flt : Faults) (fs : FS) (cwd : Option P) (dst : List Nat) (mask : Nat) (es : List Entry) : FS × Bool :=
  match absPath? cwd dst with
  | none => (fs, false)
  | some root => zipExtractF flt fs root mask es
def tarExtractDefaultF (flt : Faults) (fs : FS) (root : P) (es : List Entry) : FS × Bool := tarExtractF flt fs root defaultMask es
def zipExtractDefaultF (flt : Faults) (fs : FS) (root : P) (es : List Entry) : FS × Bool := zipExtractF flt fs root defaultMask es
def tarExtractArchiveWithMaskF (flt : Faults) (opened : Bool) (fs : FS) (root : P) (mask : Nat) (es : List Entry) : FS × Bool :=
  if opened then tarExtractF flt fs root mask es else (fs, false)
def zipExtractArchiveWithMaskF (flt : Faults) (opened : Bool) (fs : FS) (root : P) (mask : Nat) (es : List Entry) : FS × Bool :=
  if opened then zipExtractF flt fs root mask es else (fs, false)
def tarExtractArchiveF (flt : Faults) (opened : Bool) (fs : FS) (root : P) (es : List Entry) : FS × Bool :=
  tarExtractArchiveWithMaskF flt opened fs root defaultMask es
def zipExtractArchiveF (flt : Faults) (opened : Bool) (fs : FS) (root : P) (es : List Entry) : FS × Bool :=
  zipExtractArchiveWithMaskF flt opened fs root defaultMask es

end Ex
