/-! # A generic small-step model of operations bracketed by one mutex.  Core-only.

Threads share a state `σ`.  Every thread runs a list of operations (its *program*); every operation is executed as

    acquire(mutex) ; micro-step ; micro-step ; … ; release(mutex)

where the micro-steps are the atomic actions of the operation on the shared state (syscalls, field updates, …).  The
scheduler picks ANY enabled thread at each step; a thread that wants to acquire while the mutex is held is not enabled.

## How to instantiate

Give a `Mutex.Sys σ Op κ ρ`:

* `σ`  the shared state (for the log rotator: directory + `file != nil` + `size`),
* `Op` the operations (method calls with their arguments),
* `κ`  the local control state of a thread inside the bracket (program counter + locals),
* `ρ`  the result an operation returns,
* `start op`   the control state right after `Lock()`,
* `micro k s`  one atomic micro-step: new control state and new shared state,
* `done k`     `some r` when the operation is at its `Unlock(); return r`.

If an operation is one atomic action use `Sys.atomic f` (`f : Op → σ → ρ × σ`).  Then `Lemmas/MutexLin.lean` gives, for
EVERY schedule (`Mutex.exec S true (Mutex.init s₀ progs) sch = some c`):

* `Mutex.linearizable`        the log of finished operations (in the order in which they acquired the mutex) is a valid
                              one-at-a-time execution from `s₀`, every thread's results are the results of that execution,
                              the acquisition order respects every thread's program order, and the shared state is the
                              sequential one whenever the mutex is free;
* `Mutex.linearizable_fun`    the same against a sequential reference function `run : Op → σ → ρ × σ` of your model, once
                              you have shown `Runs S (S.start op) s (run op s).1 (run op s).2` (the micro-steps compute `run`)
                              on an invariant of your choice;
* `Mutex.linearizable_complete` the form for runs in which every thread has finished;
* `Mutex.mutual_exclusion`, `Mutex.progress` (some thread is enabled until all are done);
* `Mutex.schedule_bounded` / `schedule_bounded_programs`: once you have shown that every operation, started in any
  state, finishes within `bound op` micro-steps (`RunsN`, the counted `Runs`), every schedule is at most
  `Σ (bound op + 2)` steps long — no schedule runs for ever;
* `Mutex.SeqRuns.det`, `Mutex.Runs.det` (results and final state are functions of the operations, so "equal to the
  sequential execution" is meaningful), `Mutex.runs_atomic` for `Sys.atomic`.

The same machine with `lock := false` (acquire never blocks) is the model WITHOUT the bracket; use it for concrete
counter-example schedules. -/
namespace Mutex

/-- the micro-step semantics of the operations -/
structure Sys (σ Op κ ρ : Type) where
  start : Op → κ
  micro : κ → σ → κ × σ
  done : κ → Option ρ

/-- an operation that is a single atomic action -/
def Sys.atomic {σ Op ρ : Type} (f : Op → σ → ρ × σ) : Sys σ Op (Sum Op ρ) ρ where
  start := Sum.inl
  micro := fun k s => match k with
    | .inl op => (.inr (f op s).1, (f op s).2)
    | .inr r => (.inr r, s)
  done := fun k => match k with
    | .inl _ => none
    | .inr r => some r

/-- one thread: the operations still to be called, the operation in progress (inside the bracket) with its control
    state, and the results of the finished operations, oldest first -/
structure Thread (Op κ ρ : Type) where
  todo : List Op
  cur : Option (Op × κ)
  res : List ρ

/-- a configuration; `acq` and `log` are ghost fields: the acquisitions so far (thread, operation) and the finished
    operations with their results, both oldest first -/
structure Config (σ Op κ ρ : Type) where
  shared : σ
  holder : Option Nat
  threads : Nat → Thread Op κ ρ
  acq : List (Nat × Op)
  log : List (Nat × Op × ρ)

def upd {α : Type} (f : Nat → α) (t : Nat) (v : α) : Nat → α := fun i => if i = t then v else f i

variable {σ Op κ ρ : Type}

/-- initial configuration: thread `t` is to run `progs t` (finitely many threads: `progs t = []` for the others) -/
def init (s₀ : σ) (progs : Nat → List Op) : Config σ Op κ ρ :=
  { shared := s₀, holder := none, threads := fun t => { todo := progs t, cur := none, res := [] }, acq := [], log := [] }

/-- thread `t` takes one step; `none` = `t` is not enabled (finished, or blocked on the held mutex).
    `lock = false` is the machine without the bracket: acquire never blocks. -/
def step (S : Sys σ Op κ ρ) (lock : Bool) (c : Config σ Op κ ρ) (t : Nat) : Option (Config σ Op κ ρ) :=
  match (c.threads t).cur with
  | none =>
    match (c.threads t).todo with
    | [] => none
    | op :: rest =>
      if lock && c.holder.isSome then none
      else some { c with
        holder := some t,
        threads := upd c.threads t { c.threads t with todo := rest, cur := some (op, S.start op) },
        acq := c.acq ++ [(t, op)] }
  | some (op, k) =>
    match S.done k with
    | some r => some { c with
        holder := none,
        threads := upd c.threads t { c.threads t with cur := none, res := (c.threads t).res ++ [r] },
        log := c.log ++ [(t, op, r)] }
    | none => some { c with
        shared := (S.micro k c.shared).2,
        threads := upd c.threads t { c.threads t with cur := some (op, (S.micro k c.shared).1) } }

/-- run a schedule (the list of thread ids chosen by the scheduler); `none` = the schedule picks a thread that is not
    enabled at that point, i.e. it is not a schedule of the system -/
def exec (S : Sys σ Op κ ρ) (lock : Bool) : Config σ Op κ ρ → List Nat → Option (Config σ Op κ ρ)
  | c, [] => some c
  | c, t :: ts =>
    match step S lock c t with
    | none => none
    | some c' => exec S lock c' ts

/-- big-step: from control state `k` and shared state `s` the micro-steps finish with result `r` in state `s'` -/
inductive Runs (S : Sys σ Op κ ρ) : κ → σ → ρ → σ → Prop where
  | fin {k s r} : S.done k = some r → Runs S k s r s
  | step {k s r s'} : S.done k = none → Runs S (S.micro k s).1 (S.micro k s).2 r s' → Runs S k s r s'

/-- the micro-steps taken so far inside a bracket -/
inductive Reach (S : Sys σ Op κ ρ) : κ → σ → κ → σ → Prop where
  | refl {k s} : Reach S k s k s
  | tail {k s k' s'} : Reach S k s k' s' → S.done k' = none → Reach S k s (S.micro k' s').1 (S.micro k' s').2

/-- a log of (thread, operation, result) is a valid one-at-a-time execution from `s` to `s'` -/
inductive SeqRuns (S : Sys σ Op κ ρ) : σ → List (Nat × Op × ρ) → σ → Prop where
  | nil {s} : SeqRuns S s [] s
  | cons {s s' s'' t op r l} : Runs S (S.start op) s r s' → SeqRuns S s' l s'' → SeqRuns S s ((t, op, r) :: l) s''

/-- forget the results of a log -/
def strip (l : List (Nat × Op × ρ)) : List (Nat × Op) := l.map fun x => (x.1, x.2.1)

/-- the operations of thread `t` in a list of acquisitions, in order -/
def opsOf (t : Nat) (l : List (Nat × Op)) : List Op := (l.filter fun x => x.1 == t).map (·.2)

/-- the results of thread `t` in a log, in order -/
def resOf (t : Nat) (l : List (Nat × Op × ρ)) : List ρ := (l.filter fun x => x.1 == t).map (·.2.2)

/-- sequential reference execution with a function `run` (state threaded through, results collected) -/
def seqExec (run : Op → σ → ρ × σ) : σ → List (Nat × Op) → List (Nat × Op × ρ) × σ
  | s, [] => ([], s)
  | s, (t, op) :: l =>
    (((t, op, (run op s).1) :: (seqExec run (run op s).2 l).1), (seqExec run (run op s).2 l).2)

/-- every thread is finished and outside the bracket -/
def AllDone (c : Config σ Op κ ρ) : Prop := ∀ t, (c.threads t).todo = [] ∧ (c.threads t).cur = none

end Mutex
