import Model.Notifier
/-! C17: `RegisterFromNotifier` between SEVERAL notifiers, each with its own mutex.  Core Lean only.

`Model/NotifierConc.lean` models one notifier and its mutex; there `RegisterFromNotifier` appears as two separate
brackets (`copyOut` on the source, `mergeIn` on the destination).  This file models the whole call on a world of notifiers
with one lock per notifier, at the granularity of lock operations:

    n.RegisterFromNotifier(m) =  if n == m return
                                 m.lock.Lock() ; copy := m's three maps ; m.lock.Unlock()      -- "To avoid a potential
                                 n.lock.Lock() ; merge copy into n      ; n.lock.Unlock()      --  deadlock, we make a copy"

(`mergeProg`).  A goroutine's program is a list of instructions `Instr`; `lock l` is enabled only while lock `l` is free;
the scheduler is arbitrary (`exec`).  `nestedProg` is the variant the source comment warns about — the destination's lock
taken while the source's is still held —, NOT the code: two goroutines merging in opposite directions dead-lock
(`C17.nested_merge_deadlocks`), while programs that hold at most one lock at a time never do (`C17.merge_never_deadlocks`). -/
namespace NtM
open Nt

/-- the maps of a notifier copied into goroutine-local variables -/
structure Copy where
  prod : PMap := []
  names : NMap := []
  batch : List Nat := []

/-- the other notifier as seen through the copy -/
def Copy.toNSt (c : Copy) : NSt := { prod := c.prod, names := c.names, batch := c.batch }

inductive Instr where
  | lock (l : Nat)
  | unlock (l : Nat)
  /-- copy the three maps of notifier `m` into the local variables -/
  | copyOut (m : Nat)
  /-- the three merge loops on notifier `n`, from the local copy -/
  | mergeIn (n : Nat)
  /-- the merge loops on `n` reading notifier `m` directly (only in the nested variant) -/
  | mergeDirect (n m : Nat)
deriving DecidableEq

structure Thread where
  prog : List Instr
  copy : Copy := {}

structure Conf where
  w : World
  /-- lock of notifier `l` ↦ the goroutine holding it -/
  held : Nat → Option Nat
  threads : Nat → Thread

def upd {α : Type} (f : Nat → α) (t : Nat) (v : α) : Nat → α := fun i => if i = t then v else f i

def init (w : World) (progs : Nat → List Instr) : Conf :=
  { w := w, held := fun _ => none, threads := fun t => { prog := progs t } }

/-- goroutine `t` executes its next instruction; `none`: finished, or blocked on a held lock -/
def step (c : Conf) (t : Nat) : Option Conf :=
  match (c.threads t).prog with
  | [] => none
  | .lock l :: rest =>
    match c.held l with
    | some _ => none
    | none => some { c with held := upd c.held l (some t), threads := upd c.threads t { (c.threads t) with prog := rest } }
  | .unlock l :: rest =>
    some { c with held := upd c.held l none, threads := upd c.threads t { (c.threads t) with prog := rest } }
  | .copyOut m :: rest =>
    some { c with threads := upd c.threads t (Thread.mk rest (Copy.mk (c.w m).prod (c.w m).names (c.w m).batch)) }
  | .mergeIn n :: rest =>
    some { c with w := c.w.set n (mergeFrom (c.w n) (c.threads t).copy.toNSt),
                  threads := upd c.threads t { (c.threads t) with prog := rest } }
  | .mergeDirect n m :: rest =>
    some { c with w := c.w.set n (mergeFrom (c.w n) (c.w m)),
                  threads := upd c.threads t { (c.threads t) with prog := rest } }

def exec : Conf → List Nat → Option Conf
  | c, [] => some c
  | c, t :: ts =>
    match step c t with
    | none => none
    | some c' => exec c' ts

/-- `n.RegisterFromNotifier(m)` as in the source: never two locks at a time -/
def mergeProg (n m : Nat) : List Instr :=
  if n = m then [] else [.lock m, .copyOut m, .unlock m, .lock n, .mergeIn n, .unlock n]

/-- the variant without the copy (NOT the code): the destination's lock is taken inside the source's bracket -/
def nestedProg (n m : Nat) : List Instr :=
  if n = m then [] else [.lock m, .lock n, .mergeDirect n m, .unlock n, .unlock m]

/-- an instruction that is neither `lock` nor `unlock` -/
def Instr.isAct : Instr → Bool
  | .lock _ => false
  | .unlock _ => false
  | _ => true

/-- `ok none p`: `p` holds at most one lock at a time — it is a sequence of brackets `lock l; actions; unlock l`;
    `ok (some l) p`: `p` is the rest of such a program from inside a bracket on lock `l` -/
def ok : Option Nat → List Instr → Bool
  | none, [] => true
  | some _, [] => false
  | none, .lock l :: rest => ok (some l) rest
  | none, _ :: _ => false
  | some l, .unlock l' :: rest => l' == l && ok none rest
  | some _, .lock _ :: _ => false
  | some l, _ :: rest => ok (some l) rest

/-- one-lock-at-a-time programs -/
abbrev OneAtATime (p : List Instr) : Bool := ok none p

/-- everybody has finished -/
def AllDone (c : Conf) : Prop := ∀ t, (c.threads t).prog = []

end NtM
