import Model.Geom
/-! C18, extension of `Model/Geom.lean` (kept in a file of its own so that the C07 modules that read `Model/Geom.lean`
    are not rebuilt): the remaining loop-free methods of `xmath/geom` `Point`, `Size`, `Rect` that the harness calls,
    `Polygon.Empty`, `Clone`, and `Contour.Bounds` / `Polygon.Bounds` written exactly as the source has them — the
    min/max loop started from `(MaxValue, MaxValue, MinValue, MinValue)` and the sizes computed by `extent` with its
    guard.  Operations that differ between Go `int` and `float64` (`/`, `Floor`, `Ceil`) are parameters, like `half`
    in `Model/Geom.lean`.  Core-only. -/
namespace Geom

/-- `geom.Size` -/
structure Size (α : Type) where
  w : α
  h : α
deriving Repr

section Arith
variable {α : Type} [Add α] [Sub α] [Mul α] [Neg α]

/-- `Point.Add` -/
def Point.add (p q : Point α) : Point α := ⟨p.x + q.x, p.y + q.y⟩
/-- `Point.Sub` -/
def Point.sub (p q : Point α) : Point α := ⟨p.x - q.x, p.y - q.y⟩
/-- `Point.Mul` -/
def Point.mul (p : Point α) (v : α) : Point α := ⟨p.x * v, p.y * v⟩
/-- `Point.Div` (`dv` is the division of the coordinate type) -/
def Point.divBy (dv : α → α → α) (p : Point α) (v : α) : Point α := ⟨dv p.x v, dv p.y v⟩
/-- `Point.Neg` -/
def Point.neg (p : Point α) : Point α := ⟨-p.x, -p.y⟩
/-- `Point.Dot` -/
def Point.dot (p q : Point α) : α := p.x * q.x + p.y * q.y
/-- `Point.Cross` -/
def Point.cross (p q : Point α) : α := p.x * q.y - p.y * q.x
/-- `Point.Floor` / `Point.Ceil` (`f` is `xmath.Floor` resp. `xmath.Ceil` of the coordinate type) -/
def Point.mapBoth (f : α → α) (p : Point α) : Point α := ⟨f p.x, f p.y⟩

/-- `Size.Add` -/
def Size.add (s t : Size α) : Size α := ⟨s.w + t.w, s.h + t.h⟩
/-- `Size.Sub` -/
def Size.sub (s t : Size α) : Size α := ⟨s.w - t.w, s.h - t.h⟩
/-- `Size.Mul` -/
def Size.mul (s : Size α) (v : α) : Size α := ⟨s.w * v, s.h * v⟩
/-- `Size.Div` -/
def Size.divBy (dv : α → α → α) (s : Size α) (v : α) : Size α := ⟨dv s.w v, dv s.h v⟩
/-- `Size.Floor` / `Size.Ceil` -/
def Size.mapBoth (f : α → α) (s : Size α) : Size α := ⟨f s.w, f s.h⟩

end Arith

section Ord
variable {α : Type} [Add α] [Sub α] [Neg α] [LE α] [LT α] [Max α] [Min α] [OfNat α 0] [OfNat α 1]
  [DecidableLE α] [DecidableLT α]

/-- `xmath.Abs` (default branch; `math.Abs` agrees with it on every value the model runs) -/
def absOf (x : α) : α := if x < 0 then -x else x

/-- `xmath.EqualWithin` -/
def equalWithin (a b tol : α) : Bool := decide (absOf (a - b) ≤ tol)

/-- `Point.EqualWithin` -/
def Point.equalWithin (p q : Point α) (tol : α) : Bool := Geom.equalWithin p.x q.x tol && Geom.equalWithin p.y q.y tol

/-- `Size.Min` -/
def Size.min (s t : Size α) : Size α := ⟨Min.min s.w t.w, Min.min s.h t.h⟩
/-- `Size.Max` -/
def Size.max (s t : Size α) : Size α := ⟨Max.max s.w t.w, Max.max s.h t.h⟩

/-- `Size.ConstrainForHint` -/
def Size.constrainForHint (s hint : Size α) : Size α :=
  let w := if decide (hint.w ≥ 1) && decide (s.w > hint.w) then hint.w else s.w
  let h := if decide (hint.h ≥ 1) && decide (s.h > hint.h) then hint.h else s.h
  ⟨w, h⟩

/-- `Rect.Center` -/
def Rect.center (half : α → α) (r : Rect α) : Point α := ⟨r.centerX half, r.centerY half⟩

/-- `Rect.Align`: the origin floored, the SIZE ceiled (as the source has it) -/
def Rect.align (fl cl : α → α) (r : Rect α) : Rect α := ⟨fl r.x, fl r.y, cl r.w, cl r.h⟩

end Ord

/-- `Polygon.Empty` -/
def Polygon.empty {α : Type} (p : Polygon α) : Bool :=
  match p with
  | [] => true
  | _ => p.all (fun c => c.isEmpty)

/-- `Contour.Clone` / `Polygon.Clone`: the values (that the copy shares no storage is checked on the Go side) -/
def Contour.clone {α : Type} (c : Contour α) : Contour α := c
def Polygon.clone {α : Type} (p : Polygon α) : Polygon α := p.map Contour.clone

section BoundsSrc
variable {α : Type} [Add α] [Sub α] [LE α] [LT α] [Max α] [Min α] [OfNat α 0] [OfNat α 1]
  [DecidableLE α] [DecidableLT α]

/-- `extent` of `poly/contour.go`: `1+hi-lo`, replaced by `widen lo hi` (the source's `Nextafter` search) when the sum
    `lo+size` does not exceed `hi`.  `Lemmas/GeomExt.lean` proves that the guard never fires in exact arithmetic. -/
def extent (widen : α → α → α) (lo hi : α) : α :=
  let size := 1 + hi - lo
  if !decide (hi < lo + size) then widen lo hi else size

/-- `Contour.Bounds` as the source has it: the loop starts from `(maxV, maxV, minV, minV)` =
    `(MaxValue, MaxValue, MinValue, MinValue)`. -/
def Contour.boundsSrc (maxV minV : α) (widen : α → α → α) (c : Contour α) : Rect α :=
  match c with
  | [] => Rect.zero
  | _ =>
    let s := c.foldl boundsStep (maxV, maxV, minV, minV)
    ⟨s.1, s.2.1, extent widen s.1 s.2.2.1, extent widen s.2.1 s.2.2.2⟩

/-- `Polygon.Bounds` over `Contour.boundsSrc` -/
def Polygon.boundsSrc (maxV minV : α) (widen : α → α → α) (p : Polygon α) : Rect α :=
  match p with
  | [] => Rect.zero
  | c :: cs => cs.foldl (fun b c => b.union (Contour.boundsSrc maxV minV widen c)) (Contour.boundsSrc maxV minV widen c)

end BoundsSrc

section WidenSrc
variable {α : Type} [Add α] [Sub α] [LT α] [DecidableLT α]

/-- the loop of the guarded branch of `extent`: at most `fuel` further widenings while `hi` is still not below
    `lo + size` -/
def widenLoop (next : α → α) (lo hi : α) : Nat → α → α
  | 0, size => size
  | n + 1, size => if !decide (hi < lo + size) then widenLoop next lo hi n (next size) else size

/-- the guarded branch of `extent` as the source has it (`next` is `Nextafter(·, MaxValue)`):
    `size = Nextafter(hi, limit) - lo; for i := 0; i < 4 && !(hi < lo+size); i++ { size = Nextafter(size, limit) }` -/
def widenSrc (next : α → α) (lo hi : α) : α := widenLoop next lo hi 4 (next hi - lo)

end WidenSrc

/-- `math.MaxFloat64` as a `Float` -/
def maxF64 : Float := Float.ofBits 0x7FEFFFFFFFFFFFFF

/-- `math.Nextafter(x, math.MaxFloat64)` on IEEE doubles, written like the Go source: NaN stays, `x == y` stays, zero goes
    to the smallest subnormal, otherwise the bit pattern moves by one -/
def nextUpF64 (x : Float) : Float :=
  if x.isNaN then x
  else if x == maxF64 then x
  else if x == 0 then Float.ofBits 1
  else if (decide (maxF64 > x)) == (decide (x > 0)) then Float.ofBits (x.toBits + 1)
  else Float.ofBits (x.toBits - 1)

/-! the parameters at the two run-time types -/
/-- Go `int` division truncates towards zero -/
def divInt (a b : Int) : Int := Int.tdiv a b
def divRat (a b : Rat) : Rat := a / b
/-- `xmath.Floor` / `xmath.Ceil`: the identity on integer types -/
def floorRat (a : Rat) : Rat := (Rat.floor a : Int)
def ceilRat (a : Rat) : Rat := (Rat.ceil a : Int)
/-- `math.MaxFloat64` = (2^53 - 1) * 2^971 -/
def maxFloat64 : Rat := ((2 ^ 53 - 1) * 2 ^ 971 : Nat)

end Geom
