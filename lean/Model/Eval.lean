/-! C09: executable model of `eval.Evaluator` (parse / processOperand / processOperator / processFunction / processTree /
    evaluateOperand / replaceVariables / NextArg) on byte lists (bytes as `Nat`).  Core-only.

    Positions are zippers: `pre` is the reversed prefix `expression[:i]`, `rest` the suffix `expression[i:]`
    (`i = pre.length`).  Every Go stack access that could index out of range yields `R.panic`; a scan step that would
    not advance the index (only possible with an empty operator symbol, where the Go loop spins forever) also yields
    `R.panic`.  `Props/C09.lean` proves that neither happens. -/
namespace Eval

abbrev Bytes := List Nat

/-- `eval.Operator`: symbol, precedence, `Evaluate != nil`, `EvaluateUnary != nil` -/
structure Op where
  sym : Bytes
  prec : Nat
  bin : Bool
  un : Bool
deriving DecidableEq, Repr

def symBytes (s : String) : Bytes := (s.toList.flatMap String.utf8EncodeChar).map UInt8.toNat

/-- the operator table from the generated facts `(symbol, precedence, hasBinary, hasUnary)`, order preserved -/
def opsOf (tbl : List (String × Nat × Bool × Bool)) : List Op :=
  tbl.map fun x => ⟨symBytes x.1, x.2.1, x.2.2.1, x.2.2.2⟩

def LP : Bytes := [40]
def RP : Bytes := [41]
def MINUS : Bytes := [45]
def PLUS : Bytes := [43]

inductive R (α : Type) where
  | ok (a : α)
  | err
  | panic
deriving Repr

def isDigit (c : Nat) : Bool := 48 ≤ c && c ≤ 57
/-- the four bytes skipped by the scan loop of `parse` -/
def isScanSpace (c : Nat) : Bool := c == 32 || c == 9 || c == 10 || c == 13

/-! ### strings.TrimSpace on bytes (UTF-8 decoding of the Unicode White_Space runes) -/
def isAsciiSpace (c : Nat) : Bool := c == 32 || (9 ≤ c && c ≤ 13)

/-- number of bytes of a white-space rune at the head of the list (0 = none) -/
def leadSpace : Bytes → Nat
  | [] => 0
  | c :: t =>
    if isAsciiSpace c then 1
    else if c < 128 then 0
    else if c == 0xC2 then (match t with | d :: _ => if d == 0x85 || d == 0xA0 then 2 else 0 | [] => 0)
    else if c == 0xE1 then (match t with | d :: e :: _ => if d == 0x9A && e == 0x80 then 3 else 0 | _ => 0)
    else if c == 0xE2 then
      (match t with
       | d :: e :: _ =>
         if d == 0x80 && ((0x80 ≤ e && e ≤ 0x8A) || e == 0xA8 || e == 0xA9 || e == 0xAF) then 3
         else if d == 0x81 && e == 0x9F then 3 else 0
       | _ => 0)
    else if c == 0xE3 then (match t with | d :: e :: _ => if d == 0x80 && e == 0x80 then 3 else 0 | _ => 0)
    else 0

/-- the same for the *reversed* string (last rune, `utf8.DecodeLastRuneInString`) -/
def trailSpace : Bytes → Nat
  | [] => 0
  | c :: t =>
    if isAsciiSpace c then 1
    else if c < 128 then 0
    else match t with
      | d :: t' =>
        if d == 0xC2 && (c == 0x85 || c == 0xA0) then 2
        else match t' with
          | e :: _ =>
            if e == 0xE1 && d == 0x9A && c == 0x80 then 3
            else if e == 0xE2 && d == 0x80 && ((0x80 ≤ c && c ≤ 0x8A) || c == 0xA8 || c == 0xA9 || c == 0xAF) then 3
            else if e == 0xE2 && d == 0x81 && c == 0x9F then 3
            else if e == 0xE3 && d == 0x80 && c == 0x80 then 3
            else 0
          | [] => 0
      | [] => 0

def trimWith (f : Bytes → Nat) : Nat → Bytes → Bytes
  | 0, s => s
  | fuel+1, s => if f s = 0 then s else trimWith f fuel (s.drop (f s))

def trimLeft (s : Bytes) : Bytes := trimWith leadSpace s.length s
def trimRight (s : Bytes) : Bytes := (trimWith trailSpace s.length s.reverse).reverse
/-- `strings.TrimSpace` -/
def trimSpace (s : Bytes) : Bytes := trimRight (trimLeft s)

/-! ### Operator.match and nextOperator -/

/-- a byte that can be part of a name (`endsNumericLiteral`: letters, `_`, `$`, `#`, bytes ≥ 0x80) -/
def isNameByte (c : Nat) : Bool :=
  c == 95 || c == 36 || c == 35 || 128 ≤ c || (97 ≤ c && c ≤ 122) || (65 ≤ c && c ≤ 90)

/-- `endsNumericLiteral(expression, last)` on the reversed prefix that starts with the byte at `last`: walking back over
    digits and decimal points reaches the start of the expression or a byte that cannot be part of a name -/
def endsNumeric : Bytes → Bool
  | [] => true
  | ch :: t => if isDigit ch || ch == 46 then endsNumeric t else !isNameByte ch

/-- "Hack to allow signed exponents" (`1.2e-2`, `1e+2`, `2.5E-1`): the two bytes before the position are a digit and
    `e` or `E`, and the digit is the end of a numeric literal (in a name such as `$a1e` the `e` is no exponent marker) -/
def expHack : Bytes → Bool
  | c :: d :: t => (c == 101 || c == 69) && isDigit d && endsNumeric (d :: t)
  | _ => false

/-- `Operator.match(expression, start, len(expression))` at the position `(pre, rest)` -/
def Op.matchAt (o : Op) (pre rest : Bytes) : Bool :=
  o.sym.isPrefixOf rest && !((o.sym == MINUS || o.sym == PLUS) && expHack pre)

/-- the first operator of the table (in table order) that matches here -/
def firstMatch (ops : List Op) (pre rest : Bytes) : Option Op := ops.find? (fun o => o.matchAt pre rest)

/-- `nextOperator(expression, start, nil)`: the bytes passed over, the operator found, and its position -/
def nextOperator (ops : List Op) : Bytes → Bytes → Option (Bytes × Op × Bytes × Bytes)
  | _, [] => none
  | pre, c :: t =>
    match firstMatch ops pre (c :: t) with
    | some o => some ([], o, pre, c :: t)
    | none =>
      match nextOperator ops (c :: pre) t with
      | some (sk, o, p, r) => some (c :: sk, o, p, r)
      | none => none

/-- move `n` bytes forward -/
def advance : Nat → Bytes → Bytes → Bytes × Bytes
  | 0, pre, rest => (pre, rest)
  | _+1, pre, [] => (pre, [])
  | n+1, pre, c :: t => advance n (c :: pre) t

/-! ### the two stacks -/

/-- `expressionOperand` / `parsedFunction` / `expressionTree`; `nil` is Go's nil `any` -/
inductive Node where
  | nil
  | operand (un : Option Op) (v : Bytes)
  | func (un : Option Op) (name : Bytes) (args : Bytes)
  | tree (l r : Node) (op : Option Op) (un : Option Op)
deriving DecidableEq, Repr

def Node.isNil : Node → Bool
  | .nil => true
  | _ => false

/-- `expressionOperator` -/
structure OpEntry where
  op : Op
  un : Option Op
deriving DecidableEq, Repr

/-- `operandStack`, `operatorStack` (head = top) -/
structure St where
  opds : List Node := []
  ops : List OpEntry := []
deriving Repr

/-- `processTree` -/
def processTree (st : St) : R St :=
  let right := match st.opds with | x :: _ => x | [] => Node.nil
  let o1 := st.opds.tail
  let left := match o1 with | x :: _ => x | [] => Node.nil
  let o2 := o1.tail
  match st.ops with
  | [] => .panic            -- e.operatorStack[len(e.operatorStack)-1] with an empty stack
  | e :: rest => .ok ⟨.tree left right (some e.op) none :: o2, rest⟩

/-- `for stackOp != nil && p(stackOp) { e.processTree(); stackOp = top-or-nil }`; the fuel is the stack height + 1 -/
def reduceWhile (p : OpEntry → Bool) : Nat → St → R St
  | 0, _ => .panic
  | fuel+1, st =>
    match st.ops with
    | [] => .ok st
    | e :: _ =>
      if p e then
        match processTree st with
        | .ok st' => reduceWhile p fuel st'
        | .err => .err
        | .panic => .panic
      else .ok st

/-- `processOperand`: the stack effect -/
def pushOperand (st : St) (un : Option Op) (text : Bytes) : St := { st with opds := .operand un text :: st.opds }

/-- `case "("` -/
def pushEntry (st : St) (op : Op) (un : Option Op) : St := { st with ops := ⟨op, un⟩ :: st.ops }

/-- `case ")"` -/
def closeParen (st : St) : R St :=
  match reduceWhile (fun e => e.op.sym != LP) (st.ops.length + 1) st with
  | .err => .err
  | .panic => .panic
  | .ok st =>
    match st.ops with
    | [] => .err                                  -- "invalid expression"
    | e :: rest =>
      if e.op.sym != LP then .err
      else
        match e.un with
        | none => .ok { st with ops := rest }
        | some u =>
          match st.opds with
          | [] => .err                            -- (the check added together with the unary fix)
          | x :: t => .ok ⟨.tree x .nil none (some u) :: t, rest⟩

/-- `default:` precedence reduction, then push -/
def pushBinary (st : St) (op : Op) (un : Option Op) : R St :=
  match reduceWhile (fun e => e.op.prec ≥ op.prec) (st.ops.length + 1) st with
  | .err => .err
  | .panic => .panic
  | .ok st => .ok (pushEntry st op un)

/-- the stack part of `processFunction` -/
def callFunction (fns : List Bytes) (st : St) (args : Bytes) : R St :=
  match st.opds with
  | [] => .err                                    -- "invalid stack"
  | .operand un v :: rest =>
    if fns.contains v then .ok { st with opds := .func un v args :: rest } else .err
  | _ :: _ => .err                                -- "unexpected operand stack value"

/-- the `for parens > 0` loop of `processFunction`, entered at `next+1`; `acc` = bytes passed so far.
    Result: `expression[opIndex+1:next]`, the last operator, its position. -/
def captureArgs (ops : List Op) : Nat → Nat → Bytes → Bytes → Bytes → R (Bytes × Op × Bytes × Bytes)
  | 0, _, _, _, _ => .panic
  | fuel+1, parens, pre, rest, acc =>
    match nextOperator ops pre rest with
    | none => .err                                -- "function not closed"
    | some (sk, o, p, r) =>
      let parens' := if o.sym == LP then parens + 1 else if o.sym == RP then parens - 1 else parens
      if parens' = 0 then .ok (acc ++ sk, o, p, r)
      else
        match r with
        | [] => .err
        | c :: t => captureArgs ops fuel parens' (c :: p) t (acc ++ sk ++ [c])

/-- `processOperator`: new position, the operator last consumed, new stacks -/
def processOperator (ops : List Op) (fns : List Bytes) (pre rest : Bytes) (st : St) (op : Op) (hv : Bool)
    (un : Option Op) : R (Bytes × Bytes × Op × St) :=
  if hv && op.sym == LP then
    match rest with
    | [] => .err
    | c :: t =>
      match captureArgs ops (t.length + 1) 1 (c :: pre) t [] with
      | .err => .err
      | .panic => .panic
      | .ok (args, o, p, r) =>
        match callFunction fns st args with
        | .err => .err
        | .panic => .panic
        | .ok st' => .ok ((advance o.sym.length p r).1, (advance o.sym.length p r).2, o, st')
  else
    match (if op.sym == LP then R.ok (pushEntry st op un)
           else if op.sym == RP then closeParen st
           else pushBinary st op un) with
    | .err => .err
    | .panic => .panic
    | .ok st' => .ok ((advance op.sym.length pre rest).1, (advance op.sym.length pre rest).2, op, st')

/-- what one iteration of the scan loop (at a byte that is not skipped) decides -/
inductive Next where
  | done (r : R St)
  | cont (pre rest : Bytes) (st : St) (hv : Bool) (un : Option Op)

/-- the part of an iteration after the operand (if any) has been pushed: `if opIndex == i { … }` -/
def operatorPhase (ops : List Op) (fns : List Bytes) (pre rest : Bytes) (op : Op) (st : St) (hv : Bool)
    (un : Option Op) : Next :=
  if op.un && !hv then
    match un with
    | some _ => .done .err                         -- "consecutive unary operators are not allowed"
    | none => .cont (advance op.sym.length pre rest).1 (advance op.sym.length pre rest).2 st hv (some op)
  else
    match processOperator ops fns pre rest st op hv un with
    | .err => .done .err
    | .panic => .done .panic
    | .ok (p, r, last, st') => .cont p r st' (last.sym == RP) none

/-- one iteration of the loop of `parse` at the non-blank byte `c` -/
def scanStep (ops : List Op) (fns : List Bytes) (pre : Bytes) (c : Nat) (t : Bytes) (st : St) (hv : Bool)
    (un : Option Op) : Next :=
  match nextOperator ops pre (c :: t) with
  | none =>                                          -- opIndex == -1
    if trimSpace (c :: t) = [] then .done .err else .done (.ok (pushOperand st un (trimSpace (c :: t))))
  | some (sk, op, p, r) =>
    if sk = [] then operatorPhase ops fns p r op st hv un
    else if trimSpace sk = [] then .done .err        -- "expression is invalid"
    else operatorPhase ops fns p r op (pushOperand st un (trimSpace sk)) true none

/-- the loop of `parse`.  `.panic` in the last line = the index did not advance (the Go loop would not terminate). -/
def parseLoop (ops : List Op) (fns : List Bytes) (pre rest : Bytes) (st : St) (hv : Bool) (un : Option Op) : R St :=
  match rest with
  | [] => .ok st
  | c :: t =>
    if isScanSpace c then parseLoop ops fns (c :: pre) t st hv un
    else
      match scanStep ops fns pre c t st hv un with
      | .done r => r
      | .cont p r st' hv' un' =>
        if r.length < (c :: t).length then parseLoop ops fns p r st' hv' un' else .panic
termination_by rest.length
decreasing_by
  · simp
  · assumption

/-- `parse` (the stacks are reset first, whatever the evaluator held before) -/
def parse (ops : List Op) (fns : List Bytes) (s : Bytes) : R St := parseLoop ops fns [] s {} false none

/-- `for len(e.operatorStack) != 0 { e.processTree() }` -/
def finish : Nat → St → R St
  | 0, _ => .panic
  | fuel+1, st =>
    match st.ops with
    | [] => .ok st
    | _ :: _ =>
      match processTree st with
      | .ok st' => finish fuel st'
      | .err => .err
      | .panic => .panic

/-- `parse`, the final reduction, and the operand on top (`none`: the operand stack is empty, `Evaluate` returns "") -/
def parseTop (ops : List Op) (fns : List Bytes) (s : Bytes) : R (Option Node) :=
  match parse ops fns s with
  | .err => .err
  | .panic => .panic
  | .ok st =>
    match finish (st.ops.length + 1) st with
    | .err => .err
    | .panic => .panic
    | .ok st' => .ok st'.opds.head?

/-! ### NextArg, replaceVariables -/

def nextArgGo (parens : Int) : Bytes → Option (Bytes × Bytes)
  | [] => none
  | c :: t =>
    if c == 40 then (nextArgGo (parens + 1) t).map (fun x => (c :: x.1, x.2))
    else if c == 41 then (nextArgGo (parens - 1) t).map (fun x => (c :: x.1, x.2))
    else if c == 44 && parens == 0 then some ([], t)
    else (nextArgGo parens t).map (fun x => (c :: x.1, x.2))

/-- `NextArg` -/
def nextArg (args : Bytes) : Bytes × Bytes :=
  match nextArgGo 0 args with
  | some x => x
  | none => (args, [])

def isVarChar (i c : Nat) : Bool :=
  c == 95 || c == 46 || c == 35 || (65 ≤ c && c ≤ 90) || (97 ≤ c && c ≤ 122) || (i != 0 && 48 ≤ c && c ≤ 57)

/-- the variable name after a `$` and the text after it -/
def varName : Nat → Bytes → Bytes × Bytes
  | _, [] => ([], [])
  | i, c :: t => if isVarChar i c then (c :: (varName (i + 1) t).1, (varName (i + 1) t).2) else ([], c :: t)

/-- text before and after the first `$` -/
def splitDollar : Bytes → Option (Bytes × Bytes)
  | [] => none
  | c :: t => if c == 36 then some ([], t) else (splitDollar t).map (fun x => (c :: x.1, x.2))

/-- `replaceVariables`; `resolve = none` is a nil Resolver.  Fuel: three rounds per `$` (an answer may itself name a variable: chains of up to three hops are followed as the
    Go loop does, which re-scans the substituted text; a resolver that answers
    with text containing `$` makes the Go loop run on; such resolvers are outside the property) -/
def replaceVars (resolve : Option (Bytes → Bytes)) : Nat → Bytes → R Bytes
  | 0, s => if splitDollar s = none then .ok s else .panic
  | fuel+1, s =>
    match splitDollar s with
    | none => .ok s
    | some (before, after) =>
      match resolve with
      | none => .err
      | some f =>
        if (varName 0 after).1 = [] then .err
        else if trimSpace (f (varName 0 after).1) = [] then .err
        else replaceVars resolve fuel (before ++ f (varName 0 after).1 ++ (varName 0 after).2)

def replaceVariables (resolve : Option (Bytes → Bytes)) (s : Bytes) : R Bytes :=
  replaceVars resolve (s.count 36 * 3 + 2 + 1) s

/-! ### evaluateOperand with symbolic operators: a binary operator yields "(l op r)", a unary one "(op x)",
    a function `name[arg;arg]` after evaluating each argument with a fresh evaluator -/

def paren1 (u : Op) (x : Bytes) : Bytes := [40] ++ u.sym ++ [32] ++ x ++ [41]
def paren2 (o : Op) (a b : Bytes) : Bytes := [40] ++ a ++ [32] ++ o.sym ++ [32] ++ b ++ [41]

/-- `if op.unaryOp != nil && op.unaryOp.EvaluateUnary != nil { return EvaluateUnary(v) }; return v` -/
def applyUn : Option Op → Bytes → Bytes
  | some u, v => if u.un then paren1 u v else v
  | none, v => v

/-- the symbolic function: `for arguments != "" { arg, arguments = NextArg(arguments); EvaluateNew(arg) }` -/
def evalArgs (ev : Bytes → R Bytes) : Nat → Bytes → R (List Bytes)
  | 0, _ => .panic
  | fuel+1, args =>
    if args = [] then .ok []
    else
      match ev (nextArg args).1 with
      | .err => .err
      | .panic => .panic
      | .ok v =>
        match evalArgs ev fuel (nextArg args).2 with
        | .err => .err
        | .panic => .panic
        | .ok vs => .ok (v :: vs)

def joinSemi : List Bytes → Bytes
  | [] => []
  | [x] => x
  | x :: y :: t => x ++ [59] ++ joinSemi (y :: t)

/-- `evaluateOperand`; `none` = Go's `nil, nil` -/
def evalNode (ev : Bytes → R Bytes) (rv : Bytes → R Bytes) : Node → R (Option Bytes)
  | .nil => .ok none
  | .operand un v =>
    match rv v with
    | .err => .err
    | .panic => .panic
    | .ok x => .ok (some (applyUn un x))
  | .func un name args =>
    match rv args with
    | .err => .err
    | .panic => .panic
    | .ok s =>
      match evalArgs ev (s.length + 1) s with
      | .err => .err
      | .panic => .panic
      | .ok vs => .ok (some (applyUn un (name ++ [91] ++ joinSemi vs ++ [93])))
  | .tree l r op un =>
    match evalNode ev rv l with
    | .err => .err
    | .panic => .panic
    | .ok lv =>
      match evalNode ev rv r with
      | .err => .err
      | .panic => .panic
      | .ok rv' =>
        if !l.isNil && !r.isNil then
          match op with
          | none => .panic                          -- op.op.Evaluate on a nil operator
          | some o =>
            if !o.bin then .err                     -- "operator does not have Evaluate function defined"
            else
              match lv, rv' with
              | some a, some b => .ok (some (applyUn un (paren2 o a b)))
              | _, _ => .err                        -- not reachable: a non-nil node never evaluates to nil
        else
          match (if r.isNil then lv else rv') with
          | none => .err                            -- "expression is invalid"
          | some x =>
            match un.filter (·.un) with
            | some u => .ok (some (paren1 u x))     -- op.unaryOp.EvaluateUnary(v)
            | none =>
              match op.filter (·.un) with
              | some o => .ok (some (paren1 o x))   -- op.op.EvaluateUnary(v)
              | none => .ok (some x)

/-- `Evaluate` with symbolic operators; `depth` bounds the nesting of `EvaluateNew` through function arguments -/
def evaluate (ops : List Op) (fns : List Bytes) (resolve : Option (Bytes → Bytes)) : Nat → Bytes → R Bytes
  | 0, _ => .panic
  | depth+1, s =>
    match parseTop ops fns s with
    | .err => .err
    | .panic => .panic
    | .ok none => .ok []
    | .ok (some top) =>
      match evalNode (evaluate ops fns resolve depth) (replaceVariables resolve) top with
      | .err => .err
      | .panic => .panic
      | .ok none => .err
      | .ok (some v) => .ok v

/-! ### the state of an `Evaluator` between calls

    An `Evaluator` value is its two stacks (Resolver, Operators and Functions are the parameters).  `Evaluate` leaves
    them as they are when it returns: after a successful call the operand stack still holds the tree, after a
    rejected expression whatever had been pushed when the error was found.  The next `parse` starts with
    `e.operandStack = nil; e.operatorStack = nil`. -/

/-- the first two statements of `parse` -/
def St.reset (st : St) : St := { st with opds := [], ops := [] }

/-- `parse` on an evaluator that still holds `old` from its previous call -/
def parseOn (ops : List Op) (fns : List Bytes) (old : St) (s : Bytes) : R St :=
  parseLoop ops fns [] s old.reset false none

/-- the same WITHOUT the two reset statements — not what the code does; `C09.reset_is_needed` shows a leftover
    operand changing a later result -/
def parseOnNoReset (ops : List Op) (fns : List Bytes) (old : St) (s : Bytes) : R St :=
  parseLoop ops fns [] s old false none

/-! ### the stacks a REJECTED `parse` leaves behind (`R.err` carries no stacks): every error exit of `parse`,
    `processOperator`, `processFunction`, with the mutations the Go code has made by then -/

/-- `case ")"` when it returns an error: the reductions are done; the `(` entry is already popped when the
    operand for its unary operator turns out to be missing -/
def closeParenL (st : St) : St :=
  match reduceWhile (fun e => e.op.sym != LP) (st.ops.length + 1) st with
  | .ok st' =>
    (match st'.ops with
     | [] => st'
     | e :: rest => if e.op.sym != LP then st' else { st' with ops := rest })
  | _ => st

/-- `processFunction` when it returns an error: the name operand is already popped when the function turns out to be
    undefined -/
def callFunctionL (fns : List Bytes) (st : St) : St :=
  match st.opds with
  | .operand _ v :: rest => if fns.contains v then st else { st with opds := rest }
  | _ => st

/-- `processOperator` when it returns an error -/
def processOperatorL (ops : List Op) (fns : List Bytes) (pre rest : Bytes) (st : St) (op : Op) (hv : Bool) : St :=
  if hv && op.sym == LP then
    match rest with
    | [] => st
    | c :: t =>
      match captureArgs ops (t.length + 1) 1 (c :: pre) t [] with
      | .ok _ => callFunctionL fns st
      | _ => st
  else if op.sym == RP then closeParenL st else st

/-- one iteration of the scan loop when it ends the parse with an error: the operand before the operator (if any) is
    already pushed -/
def scanStepL (ops : List Op) (fns : List Bytes) (pre : Bytes) (c : Nat) (t : Bytes) (st : St) (hv : Bool)
    (un : Option Op) : St :=
  match nextOperator ops pre (c :: t) with
  | none => st
  | some (sk, op, p, r) =>
    if sk = [] then (if op.un && !hv then st else processOperatorL ops fns p r st op hv)
    else if trimSpace sk = [] then st
    else (if op.un && !true then st else processOperatorL ops fns p r (pushOperand st un (trimSpace sk)) op true)

/-- the stacks when the loop of `parse` returns — with the result of `parseLoop` when that is a state
    (`parseLoopL_ok`), with what an error exit leaves otherwise -/
def parseLoopL (ops : List Op) (fns : List Bytes) (pre rest : Bytes) (st : St) (hv : Bool) (un : Option Op) : St :=
  match rest with
  | [] => st
  | c :: t =>
    if isScanSpace c then parseLoopL ops fns (c :: pre) t st hv un
    else
      match scanStep ops fns pre c t st hv un with
      | .done (.ok st') => st'
      | .done _ => scanStepL ops fns pre c t st hv un
      | .cont p r st' hv' un' =>
        if r.length < (c :: t).length then parseLoopL ops fns p r st' hv' un' else st'
termination_by rest.length
decreasing_by
  · simp
  · assumption

/-- the stacks a rejected `parse` leaves on an evaluator that held `old` -/
def leftoverOn (ops : List Op) (fns : List Bytes) (old : St) (s : Bytes) : St :=
  parseLoopL ops fns [] s old.reset false none

/-- … WITHOUT the two reset statements -/
def leftoverOnNoReset (ops : List Op) (fns : List Bytes) (old : St) (s : Bytes) : St :=
  parseLoopL ops fns [] s old false none

/-- `Evaluate` on a used evaluator: the stacks left behind, and the result.  `prs` is `parseOn` (or, for the
    counter-example, `parseOnNoReset`), `lft` the stacks a rejected parse leaves (`leftoverOn` / `leftoverOnNoReset`); nested `EvaluateNew` calls are on fresh evaluators (`evaluate … depth`) -/
def evaluateWith (prs : St → Bytes → R St) (lft : St → Bytes → St) (ops : List Op) (fns : List Bytes)
    (resolve : Option (Bytes → Bytes)) (depth : Nat) (old : St) (s : Bytes) : St × R Bytes :=
  match prs old s with
  | .err => (lft old s, .err)
  | .panic => (lft old s, .panic)
  | .ok st =>
    match finish (st.ops.length + 1) st with
    | .err => (st, .err)
    | .panic => (st, .panic)
    | .ok st' =>
      (st', match st'.opds.head? with
        | none => .ok []
        | some top =>
          match evalNode (evaluate ops fns resolve depth) (replaceVariables resolve) top with
          | .err => .err
          | .panic => .panic
          | .ok none => .err
          | .ok (some v) => .ok v)

/-- the nesting budget the driver gives `Evaluate` (the Go code has none): enough for every resolver whose answers
    are at most 32 bytes longer than `$name` (`C09.evaluate_no_panic_driver`); for any other `$`-free resolver some
    finite budget suffices (`C09.evaluate_no_panic`) -/
def driverBudget (s : Bytes) : Nat := s.length * 33 + 1

/-- `Evaluate` on the evaluator the driver keeps from line to line -/
def evaluateReuse (ops : List Op) (fns : List Bytes) (resolve : Option (Bytes → Bytes)) (old : St) (s : Bytes) :
    St × R Bytes :=
  evaluateWith (parseOn ops fns) (leftoverOn ops fns) ops fns resolve (driverBudget s) old s

/-- the variant without the reset -/
def evaluateNoReset (ops : List Op) (fns : List Bytes) (resolve : Option (Bytes → Bytes)) (old : St) (s : Bytes) :
    St × R Bytes :=
  evaluateWith (parseOnNoReset ops fns) (leftoverOnNoReset ops fns) ops fns resolve (driverBudget s) old s

/-- the tree with the variables of operands and argument texts substituted (what the value pass walks) -/
def substNode (rv : Bytes → R Bytes) : Node → R Node
  | .nil => .ok .nil
  | .operand un v =>
    match rv v with
    | .ok x => .ok (.operand un x)
    | .err => .err
    | .panic => .panic
  | .func un name args =>
    match rv args with
    | .ok x => .ok (.func un name x)
    | .err => .err
    | .panic => .panic
  | .tree l r op un =>
    match substNode rv l with
    | .err => .err
    | .panic => .panic
    | .ok l' =>
      match substNode rv r with
      | .err => .err
      | .panic => .panic
      | .ok r' => .ok (.tree l' r' op un)

end Eval
