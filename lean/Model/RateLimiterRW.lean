import Model.RateLimiter
import Model.RWMutex
/-! C16: the calls of the limiter that are ONE bracket of `controller.lock` — `Cap`, `LastUsed`, `Closed` (taken with
    `RLock`), `Use`, `Limiter.New`, `SetCap`, child `Close` and the body of a tick (taken with `Lock`) — as operations of
    the readers-writer machine `Model/RWMutex.lean`: several readers may be inside their brackets at the same time, a
    writer only alone.  (Root `Close` is two brackets of two goroutines with a channel hand-over between them; it is the
    business of `RL.Step`.)  `callRun` is the sequential reference — every call through `RL.exec`, every result computed as
    the driver `drv_c16` computes its output; `callSys` executes `Use` in TWO micro-steps, as the code does: first the
    tests and the decision `available >= amount` (reads only), then the charge or the append to the queue (writes).
    Core-only. -/
namespace RL

inductive Call
  | cap (l : Nat) (ap : Bool) | lastUsed (l : Nat) | closed (l : Nat)
  | use (l : Nat) (amt : Int) | newChild (p : Nat) (c : Int) | closeChild (l : Nat) | setCap (l : Nat) (c : Int) | tick
deriving Repr, DecidableEq

inductive Ret
  | num (n : Nat) | flag (b : Bool) | answer (a : Option Ans) | made (b : Bool) | unit
deriving Repr, DecidableEq

/-- the calls that take the lock in read mode (`RLock`) -/
def Call.isRead : Call → Bool
  | .cap _ _ | .lastUsed _ | .closed _ => true
  | _ => false

/-- what `Use` reports at once: the answer already on the channel, if any -/
def useResult (s s' : S) : Ret := .answer ((s'.answered.find? (fun x => x.1 == s.nextReq)).map (·.2))

/-- the sequential reference: one whole call on a state in which nobody holds the lock -/
def callRun : Call → S → Ret × S
  | .cap l ap, s => (.num (capOf s l ap), s)
  | .lastUsed l, s => (.num (s.last l), s)
  | .closed l, s => (.flag (s.closed l), s)
  | .use l amt, s => (useResult s (exec s (.use l amt)), exec s (.use l amt))
  | .newChild p c, s => (.made ((exec s (.newChild p c)).n != s.n), exec s (.newChild p c))
  | .closeChild l, s => (.unit, if l = 0 then s else exec s (.close l))
  | .setCap l c, s => (.unit, exec s (.setCap l c))
  | .tick, s => (.unit, exec s .tick)

/-- control state of a goroutine inside its bracket -/
inductive PC
  | start (c : Call)
  | useDecided (l : Nat) (amt : Int) (fit : Bool)   -- `Use` after its tests: `available >= amount` was `fit`
  | ret (r : Ret)

/-- `Use` gets as far as computing `available` (limiter.go:190): a limiter of the tree, a positive amount, the limiter
    open, the amount within the smallest cap of the chain -/
def useReachesDecision (s : S) (l : Nat) (amt : Int) : Bool :=
  decide (l < s.n) && decide (0 < amt) && decide (s.holder = .free) && !s.closed l && decide (amt.toNat ≤ capOf s l true)

def callMicro : PC → S → PC × S
  | .start (.use l amt), s =>
    if useReachesDecision s l amt then (.useDecided l amt (fits s.cap s.used (s.chain l) amt.toNat), s)
    else (.ret (callRun (.use l amt) s).1, (callRun (.use l amt) s).2)
  | .start c, s => (.ret (callRun c s).1, (callRun c s).2)
  | .useDecided l amt fit, s =>
    let s' := if fit then doUseGrant s l amt.toNat else doUseWait s l amt.toNat
    (.ret (useResult s s'), s')
  | .ret r, s => (.ret r, s)

def callSys : Mutex.Sys S Call PC Ret where
  start := .start
  micro := callMicro
  done := fun k => match k with | .ret r => some r | _ => none

/-! ### the read-lock window run by the driver (area `burst`, lines `rwin`)

The harness takes `controller.lock` in READ mode itself (white box), makes the read-only calls from other goroutines while
it is inside — they must all return: readers overlap —, starts one writing call and sees it kept out, releases its read
lock and lets the writer finish.  The driver runs the same schedule on the readers-writer machine: thread 0 is the
harness' own read bracket (a `Closed()` on the root), threads `1..k` the readers, thread `k+1` the writer. -/

abbrev RWCfg := RW.Config S Call PC Ret

/-- thread `t` runs until it is not enabled any more (kept out by the lock, or finished), at most `fuel` steps -/
def rwRunThread (c : RWCfg) (t : Nat) : Nat → RWCfg
  | 0 => c
  | fuel + 1 =>
    match RW.step callSys Call.isRead c t with
    | none => c
    | some c' => rwRunThread c' t fuel

def rwProgsOf (reads : List Call) (w : Call) : Nat → List Call :=
  fun t => if t = 0 then [.closed 0] else if t ≤ reads.length then [reads.getD (t - 1) (.closed 0)]
           else if t = reads.length + 1 then [w] else []

structure RWOut where
  reads : List (List Ret)   -- what each reader returned while the harness was inside its own read bracket
  blocked : Bool            -- the writer was kept out while a reader was inside
  wres : List Ret           -- what the writer returned in the end
  cfg : RWCfg

def rwWindow (s : S) (reads : List Call) (w : Call) : RWOut :=
  let k := reads.length
  let c0 : RWCfg := RW.init s (rwProgsOf reads w)
  let c1 := rwRunThread c0 0 1
  let c2 := (List.range k).foldl (fun c i => rwRunThread c (i + 1) 4) c1
  let blocked := (RW.step callSys Call.isRead c2 (k + 1)).isNone
  let c3 := rwRunThread c2 0 4
  let c4 := rwRunThread c3 (k + 1) 6
  { reads := (List.range k).map (fun i => (c2.threads (i + 1)).res), blocked := blocked,
    wres := (c4.threads (k + 1)).res, cfg := c4 }

/-! ### the answer channels

`Use` makes `done := make(chan error, 1)` and every answer is a send on it.  The model keeps no channel objects: the values
sent on the channel of request `id` are the entries `(id, _)` of the history field `answered` — the worst case, a caller
that never receives.  `answerChanCap` is a lower bound of `cap()` of the channel the code returns (lines `chancap` of area `burst`: the
code's channel must have room for at least the one answer; a larger buffer is the implementation's business); `C16.every_send_finds_room` shows that each send finds the channel empty. -/

/-- the capacity of the channel returned by `Use` (limiter.go:169) -/
def answerChanCap : Nat := 1

/-- the number of values sent so far on the answer channel of request `id` -/
def chanLoad (s : S) (id : Nat) : Nat := (s.answered.map (·.1)).count id

end RL
