import Driver.Proto
import Model.ExtractR
open Proto Ex

/-! Driver of C19.  One line = one sandbox + one archive:
      `tar|zip <mask octal> <item>*`
    items (fields separated by `:`; names are hex, `-` = empty):
      `i:d:<rel>:<mode>`                      pre-existing directory (relative to the sandbox `T`)
      `i:f:<rel>:<mode>:<seed>:<len>`         pre-existing file with pattern content
      `i:s:<rel>:<target>`                    pre-existing symbolic link
      `i:h:<rel>:<rel of an existing file>`   pre-existing hard link
      `v:<k>`                                 which exported function is called: (absent) ExtractWithMask; `x` Extract;
                                              `a` ExtractArchive and `am` ExtractArchiveWithMask on the archive written
                                              to a file; `missing` / `cut` = ExtractArchive(WithMask: mask word non-zero
                                              selects it) on a path that does not exist / a file cut to 100 bytes
      `dl:<k>`                                the destination is a symbolic link: the sandbox's `dst/…` is created as
                                              `real/…` and `dst -> real` (k=1), `-> /tmp/@T@/real` (2), `-> ./real/` (3),
                                              `-> mid -> real` (4), `-> ../@T@/real` (5), a chain of 40 links (6: followed) or 41 (7:
                                              `ELOOP`); area dstlinkm: the resolving
                                              model follows the link as the kernel does
      `dp:<k>`                                the destination is `T/p/dst`: `p` does not exist (k=1; the sandbox's `dst/…`
                                              items are dropped), `p -> q` a link to a real directory holding `dst/…`
                                              (2), `p -> m -> q` (3), `p -> /tmp/@T@/q` (4)
      `cw:<dir>` `dd:<dst>`                   the destination as the caller spells it (`dd`, any string: relative, with
                                              dots and repeated separators, absolute; `@T@` is the sandbox's name) and the
                                              working directory of the process (`cw`, relative to the sandbox): the root
                                              is `Ex.absPath` of the two (area dstform)
      `cg:1`                                  the working directory is gone (the process stands in a directory that was
                                              removed: `os.Getwd` fails): a relative `dd` is an error before anything
                                              happens, an absolute one works (`Ex.absPath?`; only with `ExtractWithMask`)
      `cf:<rel>`                              close fault: `close` of the file extracted at `dst/<rel>` fails (area
                                              closefault: the payload is complete, the entry still is an error)
      `r:2`                                   the archive is extracted twice into the same destination (`ok,err` …)
      `w:<n>`                                 write fault: during the extraction no file can grow beyond n bytes (the
                                              write of a longer payload stops after n bytes with an error)
      `e:<k>:<name>:<mode>:<seed>:<len>:<present>:<link>`   archive entry;
          tar k = r d s l o (other type flag) x (unreadable header); zip k = f d s
          present < len: tar = the stream ends after `present` payload bytes, zip = first payload byte flipped (CRC error);
          zip symlink: present = 0 means the payload (= the target) is corrupt
    The destination is `T/dst`.  Output: `ok|err` and the whole tree below `T`, sorted by path.
    A line `guard 0 <i: items>* gr:<root> gp:<path>` calls the guard alone (see `guardLine`). -/

def tmpC : Comp := [116, 109, 112]
def tC : Comp := [64, 84, 64]
def sandbox : P := [tmpC, tC]
def dstRoot : P := sandbox ++ [[100, 115, 116]]

def fs0 : FS := { nodes := [([], .dir 0o755), ([tmpC], .dir 0o1777), (sandbox, .dir 0o700)] }

def pattern (seed len : Nat) : List Nat := (List.range len).map fun i => (seed + i * 7 + i / 251) % 256

def flip0 : List Nat → List Nat
  | [] => []
  | b :: t => (b ^^^ 255) :: t

def octNat? (s : String) : Option Nat :=
  if s.isEmpty then none else
  s.toList.foldl (fun acc c => match acc with
    | some a => if '0' ≤ c ∧ c ≤ '7' then some (a * 8 + (c.toNat - 48)) else none
    | none => none) (some 0)

def octStr (n : Nat) : String := String.ofList (Nat.toDigits 8 n)

def relPath (b : List Nat) : P := (splitSlash b).filter (· ≠ [])

def fnv (l : List Nat) : Nat :=
  (l.foldl (fun (h : UInt32) b => (h ^^^ b.toUInt32) * 16777619) 2166136261).toNat

/-- where the sandbox's `dst/…` physically lives: `real/…` when `dst` is a link (`dl`), `q/dst/…` when the destination
    is `p/dst` with `p` a link to `q` (`dp` ≥ 2); with `dp:1` (`p` missing) it cannot exist (`none`) -/
def placeRel (dl : Bool) (dp : Nat) (p : P) : Option P :=
  match p with
  | c :: t =>
    if c == [100, 115, 116] then
      if dl then some ([114, 101, 97, 108] :: t)
      else if dp == 1 then none
      else if dp ≥ 2 then some ([113] :: c :: t)
      else some (c :: t)
    else some (c :: t)
  | [] => some []

def applyInit (dl : Bool) (dp : Nat) (fs : FS) (f : List String) : Option FS :=
  let place := fun (b : List Nat) => placeRel dl dp (relPath b)
  -- items below a destination that cannot exist are skipped
  let skipped := match f with
    | "i" :: _ :: rel :: _ => (match hexBytes? rel with | some r => (place r).isNone | none => false)
    | _ => false
  let skippedTarget := match f with
    | ["i", "h", _, tgt] => (match hexBytes? tgt with | some r => (place r).isNone | none => false)
    | _ => false
  if skipped || skippedTarget then some fs else
  let relPath := fun (b : List Nat) => (place b).getD []
  match f with
  | ["i", "d", rel, mode] => do
    let r ← hexBytes? rel; let m ← octNat? mode
    pure (fs.put (sandbox ++ relPath r) (.dir m))
  | ["i", "f", rel, mode, seed, len] => do
    let r ← hexBytes? rel; let m ← octNat? mode; let s ← seed.toNat?; let n ← len.toNat?
    pure (({ fs with inodes := fs.inodes.push { data := pattern s n, mode := m } }).put (sandbox ++ relPath r) (.file fs.inodes.size))
  | ["i", "s", rel, tgt] => do
    let r ← hexBytes? rel; let t ← hexBytes? tgt
    pure (fs.put (sandbox ++ relPath r) (.symlink t))
  | ["i", "h", rel, tgt] => do
    let r ← hexBytes? rel; let t ← hexBytes? tgt
    match fs.get (sandbox ++ relPath t) with
    | some (.file ino) => pure (fs.put (sandbox ++ relPath r) (.file ino))
    | _ => none
  | _ => none

def parseEntry (zip : Bool) (f : List String) : Option Entry :=
  match f with
  | ["e", k, name, mode, seed, len, present, link] => do
    let nm ← hexBytes? name; let m ← octNat? mode; let s ← seed.toNat?; let n ← len.toNat?
    let pr ← present.toNat?; let lk ← hexBytes? link
    let short := pr < n
    if zip then
      let kind ← (match k with
        | "f" => some (zipKind false false nm) | "d" => some (zipKind false true nm) | "s" => some (zipKind true false nm)
        | _ => none)
      -- archive/zip writes an entry whose name ends in a slash without a payload
      if nm.getLast? == some 47 then pure { kind := kind, name := nm, mode := m } else
      -- a file entry whose central-directory size is one more ("L": the reader reports the missing byte after the
      -- whole payload) or one less ("S": the reader refuses the first chunk, nothing is written) than its payload
      -- an entry that cannot be opened: compression method 99 ("M" / length field 99 of a symlink entry), local file
      -- header destroyed ("H" / 98); directory entries are never opened
      if (k == "f" && kind == .reg && (lk == [77] || lk == [72])) || (k == "s" && kind == .symlink && (n == 99 || n == 98)) then
        pure { kind := .corrupt, name := nm, mode := m } else
      if k == "f" && kind == .reg && lk == [76] then
        pure { kind := kind, name := nm, mode := m, data := pattern s n, short := true } else
      if k == "f" && kind == .reg && lk == [83] then
        pure { kind := kind, name := nm, mode := m, data := [], short := true } else
      let short := short && k != "d"
      let data := if short then flip0 (pattern s n) else pattern s n
      -- a symlink entry's payload is its target; a corrupt one (present = 0) cannot be read
      let short := if kind == .symlink then (pr == 0 && lk != []) else short
      pure { kind := kind, name := nm, mode := m, data := data, short := short, link := lk }
    else
      let kind ← (match k with
        | "r" => some Kind.reg | "d" => some Kind.dir | "s" => some Kind.symlink | "l" => some Kind.link
        | "o" => some Kind.other | "c" => some Kind.other | "b" => some Kind.other | "n" => some Kind.other
        | "g" => some Kind.other | "x" => some Kind.corrupt | _ => none)
      -- the reader hands a PAX global header over under the name the writer gave it
      let nm := if k == "g" then "GlobalHead.0.0".toUTF8.toList.map (·.toNat) else nm
      -- archive/tar's writer refuses a regular, fifo or device entry whose name ends in a slash
      if (kind == .reg || kind == .other) && k != "g" && nm.getLast? == some 47 then none else
      let data := if kind == .reg then (pattern s n).take pr else []
      pure { kind := kind, name := nm, mode := m, data := data, short := (kind == .reg && short), link := lk }
  | _ => none

def cmpBytes : List Nat → List Nat → Bool      -- a ≤ b, bytewise
  | [], _ => true
  | _ :: _, [] => false
  | a :: s, b :: t => if a < b then true else if a > b then false else cmpBytes s t

def relText (p : P) : List Nat :=
  match p.drop sandbox.length with
  | [] => []
  | c :: t => c ++ t.flatMap (fun d => 47 :: d)

def dump (fs : FS) : String :=
  let below := fs.nodes.filter fun (p, _) => sandbox.length < p.length && p.take sandbox.length == sandbox
  let arr := (below.map fun (p, n) => (relText p, n)).toArray.qsort (fun a b => cmpBytes a.1 b.1 && a.1 != b.1)
  let l := arr.toList
  let groupOf (ino : Nat) : Nat :=
    (l.findIdx? fun (_, n) => match n with | .file i => i == ino | _ => false).getD 0
  let items := l.map fun (t, n) =>
    match n with
    | .dir m => bytesHex t ++ ":d:" ++ octStr m
    | .symlink tg => bytesHex t ++ ":s:" ++ bytesHex tg
    | .file ino =>
      match fs.inodes[ino]? with
      | some nd => bytesHex t ++ ":f:" ++ octStr nd.mode ++ ":" ++ toString nd.data.length ++ ":" ++ natToHex (fnv nd.data)
                     ++ ":g" ++ toString (groupOf ino)
      | none => bytesHex t ++ ":f:?"
  " ".intercalate items

/-- area guard: `guard 0 <i: items>* gr:<root> gp:<path>` — the sandbox, then `internal.EnsureNoSymlinks(T/root, T/path)`
    alone (`Ex.ensureNoSymlinksR`, any pair of clean absolute paths); output `ok|err` and the (unchanged) tree -/
def guardLine (items : List String) : String :=
  let argOf (pre : String) : Option (List Nat) :=
    match (items.filter (·.startsWith pre)).getLast? with
    | some w => hexBytes? (w.drop pre.length).toString
    | none => none
  match argOf "gr:", argOf "gp:" with
  | some gr, some gp =>
    let inits := items.filter (fun w => !w.startsWith "gr:" && !w.startsWith "gp:")
    let rec go (fs : FS) : List String → Option FS
      | [] => some fs
      | w :: ws =>
        let f := w.splitOn ":"
        match f with
        | "i" :: _ => (match applyInit false 0 fs f with | some fs' => go fs' ws | none => none)
        | _ => none
    match go fs0 inits with
    | none => "bad-op"
    | some fs =>
      let ok := ensureNoSymlinksR fs (sandbox ++ relPath gr) (sandbox ++ relPath gp)
      (if ok then "ok" else "err") ++ (let d := dump fs; if d.isEmpty then "" else " " ++ d)
  | _, _ => "bad-op"

def step (_ : Unit) (line : String) : Unit × String :=
  let out :=
    match words line with
    | "guard" :: _ :: items => guardLine items
    | fmt :: mask :: items =>
      if fmt != "tar" && fmt != "zip" then "bad-op" else
      match octNat? mask with
      | none => "bad-op"
      | some mk =>
        let zip := fmt == "zip"
        let via := (items.filter (·.startsWith "v:")).getLast?.getD "v:"
        let twice := items.contains "r:2"
        let dlItem := (items.filter (·.startsWith "dl:")).getLast?.getD ""
        let dl := dlItem != ""
        let dpItem := (items.filter (·.startsWith "dp:")).getLast?.getD ""
        let dp : Nat := ((dpItem.drop 3).toString.toNat?).getD 0
        let argOf (pre : String) : Option (List Nat) :=
          match (items.filter (·.startsWith pre)).getLast? with
          | some w => hexBytes? (w.drop pre.length).toString
          | none => none
        let dd := argOf "dd:"
        let cw := (argOf "cw:").getD []
        let cf := argOf "cf:"
        let gone := items.contains "cg:1"
        let cwdOpt : Option P := if gone then none else some (sandbox ++ relPath cw)
        let items := items.filter (fun w => !w.startsWith "v:" && !w.startsWith "r:" && !w.startsWith "dl:" && !w.startsWith "dp:"
          && !w.startsWith "dd:" && !w.startsWith "cw:" && !w.startsWith "cf:" && !w.startsWith "cg:")
        if !["v:", "v:x", "v:a", "v:am", "v:missing", "v:cut"].contains via then "bad-op" else
        if gone && (via != "v:" || dd.isNone) then "bad-op" else
        let rec go (fs : FS) (es : List Entry) (lim : Option Nat) : List String → Option (FS × List Entry × Option Nat)
          | [] => some (fs, es.reverse, lim)
          | w :: ws =>
            let f := w.splitOn ":"
            match f with
            | "i" :: _ => match applyInit dl dp fs f with | some fs' => go fs' es lim ws | none => none
            | "e" :: _ => match parseEntry zip f with | some e => go fs (e :: es) lim ws | none => none
            | ["w", n] => match n.toNat? with | some k => go fs es (some k) ws | none => none
            | _ => none
        match go fs0 [] none items with
        | none => "bad-op"
        | some (fs, es, lim) =>
          let bytes (t : String) : List Nat := t.toUTF8.toList.map (·.toNat)
          let fs :=
            if dlItem == "dl:2" then fs.put dstRoot (.symlink (bytes "/tmp/@T@/real"))
            else if dlItem == "dl:3" then fs.put dstRoot (.symlink (bytes "./real/"))
            else if dlItem == "dl:4" then
              (fs.put (sandbox ++ [bytes "mid"]) (.symlink (bytes "real"))).put dstRoot (.symlink (bytes "mid"))
            else if dlItem == "dl:5" then fs.put dstRoot (.symlink (bytes "../@T@/real"))
            else if dlItem == "dl:6" || dlItem == "dl:7" then
              -- dst -> c1 -> c2 -> … -> real: 40 links in all (followed) or 41 (ELOOP)
              let n := if dlItem == "dl:6" then 40 else 41
              let fs := (List.range (n - 1)).foldl (fun fs i =>
                let tg := if i + 2 == n then "real" else "c" ++ toString (i + 2)
                fs.put (sandbox ++ [bytes ("c" ++ toString (i + 1))]) (.symlink (bytes tg))) fs
              fs.put dstRoot (.symlink (bytes "c1"))
            else if dl then fs.put dstRoot (.symlink (bytes "real")) else fs
          -- dp:<k>: the destination is T/p/dst; p is missing (1), a link to the directory q (2), a link to m -> q (3),
          -- an absolute link to q (4)
          let pP := sandbox ++ [bytes "p"]
          let fs :=
            if dp ≥ 2 then
              let fs := fs.put (sandbox ++ [bytes "q"]) (.dir 0o755)
              if dp == 3 then (fs.put (sandbox ++ [bytes "m"]) (.symlink (bytes "q"))).put pP (.symlink (bytes "m"))
              else if dp == 4 then fs.put pP (.symlink (bytes "/tmp/@T@/q"))
              else fs.put pP (.symlink (bytes "q"))
            else fs
          let dstRoot := if dp ≥ 1 then pP ++ [bytes "dst"] else dstRoot
          -- the destination as spelled, from the working directory T/<cw>: `filepath.Abs`
          let dstRoot := match dd with
            | some d => (absPath? cwdOpt d).getD []
            | none => dstRoot
          -- destination-side faults: the write limit (`w:`) and the path whose close fails (`cf:`) go to the model's
          -- copy step (`Ex.extractFileR`: open, write*, deferred close), nothing is done to the entries here
          let flt : Faults := { writeLimit := lim,
                                closeFails := match cf with | some c => [dstRoot ++ relPath c] | none => [] }
          -- a tar file cut inside its first header opens, then the reader rejects the header; a cut zip file has no
          -- central directory and does not open
          let es := if via == "v:cut" && !zip then [{ kind := .corrupt, name := [] }] else es
          let opened := !(via == "v:missing" || (via == "v:cut" && zip))
          let run (fs : FS) : FS × Bool :=
            match via, zip with
            | "v:x", false => tarExtractDefaultF flt fs dstRoot es
            | "v:x", true => zipExtractDefaultF flt fs dstRoot es
            | "v:a", false => tarExtractArchiveF flt true fs dstRoot es
            | "v:a", true => zipExtractArchiveF flt true fs dstRoot es
            | "v:am", false => tarExtractArchiveWithMaskF flt true fs dstRoot mk es
            | "v:am", true => zipExtractArchiveWithMaskF flt true fs dstRoot mk es
            | "v:", false => (match dd with
                | some d => tarExtractWithMaskFromF flt fs cwdOpt d mk es   -- `filepath.Abs` inside
                | none => tarExtractF flt fs dstRoot mk es)
            | "v:", true => (match dd with
                | some d => zipExtractWithMaskFromF flt fs cwdOpt d mk es
                | none => zipExtractF flt fs dstRoot mk es)
            | _, false => if mk == 0 then tarExtractArchiveF flt opened fs dstRoot es else tarExtractArchiveWithMaskF flt opened fs dstRoot mk es
            | _, true => if mk == 0 then zipExtractArchiveF flt opened fs dstRoot es else zipExtractArchiveWithMaskF flt opened fs dstRoot mk es
          let word (b : Bool) := if b then "ok" else "err"
          let r := run fs
          -- `r:2`: the same archive is extracted a second time into what the first run left
          let (fin, res) := if twice then (let r2 := run r.1; (r2.1, word r.2 ++ "," ++ word r2.2)) else (r.1, word r.2)
          res ++ (let d := dump fin; if d.isEmpty then "" else " " ++ d)
    | _ => "bad-op"
  ((), out)

def main : IO Unit := Proto.run step ()
