import Driver.Proto
import Model.Conv128
import Model.Conv128Fmt
import Model.Conv128Load
open Proto Conv GoSem

def hex16 (n : Nat) : String :=
  let s := natToHex n
  String.ofList (List.replicate (16 - s.length) '0') ++ s

def pairStr (hi lo : BitVec 64) : String := hex16 hi.toNat ++ ":" ++ hex16 lo.toNat
def uStr (u : U128) : String := pairStr u.hi u.lo
def iStr (i : I128) : String := pairStr i.hi i.lo

def parsePair? (s : String) : Option (BitVec 64 × BitVec 64) :=
  match s.splitOn ":" with
  | [a, b] => match hexToNat? a, hexToNat? b with
    | some x, some y => if x < 2^64 ∧ y < 2^64 then some (BitVec.ofNat 64 x, BitVec.ofNat 64 y) else none
    | _, _ => none
  | _ => none

def f64Str (f : F64) : String := if f.isNaN then "nan" else hex16 f.toBits
def parseF64? (s : String) : Option F64 :=
  match hexToNat? s with
  | some n => if n < 2^64 then some (F64.decode n) else none
  | none => none

def bytesToChars (l : List Nat) : List Char := l.map Char.ofNat
def b2s (b : Bool) : String := if b then "1" else "0"
def intHex (z : Int) : String := (if z < 0 then "-" else "") ++ natToHex z.natAbs

def cvU (c : Cv U128) : String := match c with | .ok u => uStr u | .implDefined => "impl-defined"
def cvI (c : Cv I128) : String := match c with | .ok u => iStr u | .implDefined => "impl-defined"

def sentinelHi : BitVec 64 := 0xdeadbeefdeadbeef#64
def sentinelLo : BitVec 64 := 0x0123456789abcdef#64

def parseBig? (sign mag : String) : Option Int :=
  match hexToNat? mag with
  | some n => some (if sign == "-" then -(n : Int) else n)
  | none => none

def f64op (op : String) (a b : F64) (an : Nat) : String :=
  match op with
  | "add" => f64Str (F64.add a b)
  | "sub" => f64Str (F64.sub a b)
  | "mul" => f64Str (F64.mul a b)
  | "div" => f64Str (F64.div a b)
  | "mod" => f64Str (F64.mod a b)
  | "neg" => f64Str (F64.neg a)
  | "ofu64" => f64Str (F64.ofNat an)
  | "ofi64" => f64Str (F64.ofInt (BitVec.ofNat 64 an).toInt)
  | "tou64" => (match F64.toU64 a with | .ok v => hex16 v | .implDefined => "impl-defined")
  | "toi64" => (match F64.toI64 a with | .ok v => hex16 (BitVec.ofInt 64 v).toNat | .implDefined => "impl-defined")
  | "cmp" => b2s (F64.le a b) ++ b2s (F64.lt a b) ++ b2s (F64.eq a b) ++ b2s (F64.ne a b) ++ b2s (F64.ge a b) ++ b2s (F64.gt a b)
  | "nextz" => f64Str (F64.nextTowardZero a)
  | _ => "bad-op"

def rep (n : Nat) (s : String) : String := " ".intercalate (List.replicate n s)

/-! word-level `big.Int` lines (area `words`): every line is answered for both sizes of `big.Word`; the check keeps the
    segment of the word size the harness was built for (`W64 …` on amd64, `W32 …` on the GOARCH=386 build) -/
def wordsStr (ws : List Nat) : String := if ws.isEmpty then "-" else ",".intercalate (ws.map natToHex)
def bothW (f : Nat → String) : String := "W32 " ++ f 32 ++ " ;; W64 " ++ f 64
def parseMag? (sign mag : String) : Option (Bool × Nat) :=
  match hexToNat? mag with
  | some n => some (sign == "-" && n != 0, n)
  | none => none
def signStr (neg : Bool) : String := if neg then "-" else "+"

/-! area `format`: `<type> format <hi:lo> <flags> <width|-> <precision|-> <verb>` -/
def parseFlags? (s : String) : Option FmtState :=
  if s == "." then some ⟨false, false, false, false, false, none, none⟩
  else if s.toList.all (fun c => c == 'p' || c == 'm' || c == 's' || c == 'b' || c == 'z') then
    some ⟨s.toList.contains 'p', s.toList.contains 'm', s.toList.contains 's', s.toList.contains 'b', s.toList.contains 'z',
      none, none⟩
  else none
def parseOptNat? (s : String) : Option (Option Nat) := if s == "-" then some none else s.toNat?.map some
def charsHex (l : List Char) : String := bytesHex (l.map Char.toNat)

/-- the answer to a `format` line: the text twice (Format called directly, fmt.Sprintf) and what Sscanf with the same
    verb reads back from it (`Scan` on the token) -/
def formatLine (args : List String) (fmtOf : FmtState → Char → Option (List Char)) (scanOf : List Char → Char → Option String) :
    String :=
  match args with
  | [fl, w, p, vb] =>
    (match parseFlags? fl, parseOptNat? w, parseOptNat? p, vb.toList with
     | some st, some w, some p, [verb] =>
       (match fmtOf { st with width := w, prec := p } verb with
        | none => "unsupported"
        | some text =>
          rep 2 (charsHex text) ++ " " ++
            (match scanOf (fmtToken text) verb with | some r => "ok:" ++ r | none => "err"))
     | _, _, _, _ => "bad-op")
  | _ => "bad-op"

def bigFloatStr (x : Int) (r : Nat × Int) : String :=
  toString r.1 ++ " " ++ intHex r.2 ++ " " ++ (if r.2 == x then "Exact" else if r.2 < x then "Below" else "Above") ++ " true"

/-- what the callback / the scan state delivers: `ok` = the text, `none` = nothing stored (the empty string), `err` = failure -/
def delivered? (mode : String) (t : String) : Option (Option (List Char)) :=
  match hexBytes? t with
  | some bs => if mode == "ok" then some (some (bytesToChars bs)) else if mode == "none" then some (some []) else if mode == "err" then some none else none
  | none => none

def stepU (op : String) (args : List String) : String :=
  match op, args with
  | "fromfloat", [b] => (match parseF64? b with | some f => cvU (U128.fromFloat64 f) | none => "bad-op")
  | "asfloat", [p] => (match parsePair? p with | some (h, l) => f64Str (U128.asFloat64 ⟨h, l⟩) | none => "bad-op")
  | "fromstring", [t] =>
    (match hexBytes? t with
     | some bs =>
       let s := bytesToChars bs
       (match U128.fromString s with | some v => "ok " ++ uStr v | none => "err") ++ " " ++ uStr (U128.fromStringNoCheck s)
     | none => "bad-op")
  | "scan", [vb, t] =>
    (match hexBytes? t, vb.toList with
     | some bs, [verb] =>
       (match U128.scan (bytesToChars bs) verb with
        | some v => "ok " ++ uStr v ++ " " ++ uStr v
        | none => "err " ++ uStr U128.zero)
     | _, _ => "bad-op")
  | "unmarshal", [t] =>
    (match hexBytes? t with
     | some bs =>
       let r := U128.unmarshal ⟨sentinelHi, sentinelLo⟩ (bytesToChars bs)
       rep 3 (b2s r.2 ++ "/" ++ uStr r.1)
     | none => "bad-op")
  | "frombig", [sg, m] => (match parseBig? sg m with | some z => uStr (U128.fromBigInt z) | none => "bad-op")
  | "format", p :: rest =>
    (match parsePair? p with
     | some (h, l) => formatLine rest (fun st v => U128.format st v ⟨h, l⟩) (fun t v => (U128.scan t v).map uStr)
     | none => "bad-op")
  | "yamlcb", [mode, t] =>
    (match delivered? mode t with
     | some cb => let r := U128.unmarshalYAML ⟨sentinelHi, sentinelLo⟩ cb; b2s r.2 ++ "/" ++ uStr r.1
     | none => "bad-op")
  | "scantok", [mode, vb, t] =>
    (match delivered? mode t, vb.toList with
     | some tok, [verb] => let r := U128.scanInto ⟨sentinelHi, sentinelLo⟩ tok verb; b2s r.2 ++ "/" ++ uStr r.1
     | _, _ => "bad-op")
  | "float64m", [p] =>
    (match parsePair? p with
     | some (h, l) => (match U128.float64Method ⟨h, l⟩ with | none => "err" | some _ => "ok")
     | none => "bad-op")
  | "asbigfloat", [p] =>
    (match parsePair? p with
     | some (h, l) => bigFloatStr (U128.asBigInt ⟨h, l⟩) (U128.asBigFloat ⟨h, l⟩)
     | none => "bad-op")
  | "bigfloat64", [p] =>
    (match parsePair? p with
     | some (h, l) => bigFloatStr (U128.asBigInt ⟨h, l⟩) (bigFloatSetInt64 (U128.asBigInt ⟨h, l⟩))
     | none => "bad-op")
  | "frombigw", [sg, m] =>
    (match parseMag? sg m with
     | some (neg, n) => bothW fun W => let ws := natToWords W n; wordsStr ws ++ " " ++ uStr (U128.fromBigIntW W neg ws)
     | none => "bad-op")
  | "tobigw", [p, _, dm] =>
    (match parsePair? p, hexToNat? dm with
     | some (h, l), some d => bothW fun W => "+ " ++ wordsStr (U128.toBigIntW W (natToWords W d) ⟨h, l⟩)
     | _, _ => "bad-op")
  | "asbig", [p] => (match parsePair? p with | some (h, l) => intHex (U128.asBigInt ⟨h, l⟩) | none => "bad-op")
  | "str", [p] => (match parsePair? p with | some (h, l) => rep 4 (String.ofList (U128.toString ⟨h, l⟩)) | none => "bad-op")
  | "narrow", [p] =>
    (match parsePair? p with
     | some (h, l) =>
       let u : U128 := ⟨h, l⟩
       b2s u.isInt128 ++ " " ++ iStr u.asInt128 ++ " " ++ b2s u.isUint64 ++ " " ++ hex16 u.asUint64.toNat ++ " " ++
         (match u.int64 with | some v => "ok:" ++ hex16 v.toNat | none => "err")
     | none => "bad-op")
  | "from64", [v] => (match hexToNat? v with | some n => uStr (U128.from64 (BitVec.ofNat 64 n)) | none => "bad-op")
  | "comps", [p] =>
    (match parsePair? p with
     | some (h, l) => pairStr h l ++ " " ++ pairStr h l ++ " " ++ b2s (h == 0#64 && l == 0#64)
     | none => "bad-op")
  | _, _ => "bad-op"

def stepI (op : String) (args : List String) : String :=
  match op, args with
  | "fromfloat", [b] => (match parseF64? b with | some f => cvI (I128.fromFloat64 f) | none => "bad-op")
  | "asfloat", [p] => (match parsePair? p with | some (h, l) => f64Str (I128.asFloat64 ⟨h, l⟩) | none => "bad-op")
  | "fromstring", [t] =>
    (match hexBytes? t with
     | some bs =>
       let s := bytesToChars bs
       (match I128.fromString s with | some v => "ok " ++ iStr v | none => "err") ++ " " ++ iStr (I128.fromStringNoCheck s)
     | none => "bad-op")
  | "scan", [vb, t] =>
    (match hexBytes? t, vb.toList with
     | some bs, [verb] =>
       (match I128.scan (bytesToChars bs) verb with
        | some v => "ok " ++ iStr v ++ " " ++ iStr v
        | none => "err " ++ iStr I128.zero)
     | _, _ => "bad-op")
  | "unmarshal", [t] =>
    (match hexBytes? t with
     | some bs =>
       let r := I128.unmarshal ⟨sentinelHi, sentinelLo⟩ (bytesToChars bs)
       rep 3 (b2s r.2 ++ "/" ++ iStr r.1)
     | none => "bad-op")
  | "frombig", [sg, m] => (match parseBig? sg m with | some z => iStr (I128.fromBigInt z) | none => "bad-op")
  | "format", p :: rest =>
    (match parsePair? p with
     | some (h, l) => formatLine rest (fun st v => I128.format st v ⟨h, l⟩) (fun t v => (I128.scan t v).map iStr)
     | none => "bad-op")
  | "yamlcb", [mode, t] =>
    (match delivered? mode t with
     | some cb => let r := I128.unmarshalYAML ⟨sentinelHi, sentinelLo⟩ cb; b2s r.2 ++ "/" ++ iStr r.1
     | none => "bad-op")
  | "scantok", [mode, vb, t] =>
    (match delivered? mode t, vb.toList with
     | some tok, [verb] => let r := I128.scanInto ⟨sentinelHi, sentinelLo⟩ tok verb; b2s r.2 ++ "/" ++ iStr r.1
     | _, _ => "bad-op")
  | "float64m", [p] =>
    (match parsePair? p with
     | some (h, l) => (match I128.float64Method ⟨h, l⟩ with | none => "err" | some _ => "ok")
     | none => "bad-op")
  | "asbigfloat", [p] =>
    (match parsePair? p with
     | some (h, l) => bigFloatStr (I128.asBigInt ⟨h, l⟩) (I128.asBigFloat ⟨h, l⟩)
     | none => "bad-op")
  | "bigfloat64", [p] =>
    (match parsePair? p with
     | some (h, l) => bigFloatStr (I128.asBigInt ⟨h, l⟩) (bigFloatSetInt64 (I128.asBigInt ⟨h, l⟩))
     | none => "bad-op")
  | "frombigw", [sg, m] =>
    (match parseMag? sg m with
     | some (neg, n) => bothW fun W => let ws := natToWords W n; wordsStr ws ++ " " ++ iStr (I128.fromBigIntW W neg ws)
     | none => "bad-op")
  | "tobigw", [p, _, dm] =>
    (match parsePair? p, hexToNat? dm with
     | some (h, l), some d =>
       bothW fun W => let r := I128.toBigIntW W (natToWords W d) ⟨h, l⟩; signStr r.1 ++ " " ++ wordsStr r.2
     | _, _ => "bad-op")
  | "asbig", [p] => (match parsePair? p with | some (h, l) => intHex (I128.asBigInt ⟨h, l⟩) | none => "bad-op")
  | "str", [p] => (match parsePair? p with | some (h, l) => rep 4 (String.ofList (I128.toString ⟨h, l⟩)) | none => "bad-op")
  | "narrow", [p] =>
    (match parsePair? p with
     | some (h, l) =>
       let i : I128 := ⟨h, l⟩
       b2s i.isUint128 ++ " " ++ uStr i.asUint128 ++ " " ++ b2s i.isInt64 ++ " " ++ hex16 i.asInt64.toNat ++ " " ++
         b2s i.isUint64 ++ " " ++ hex16 i.asUint64.toNat ++ " " ++
         (match i.int64 with | some v => "ok:" ++ hex16 v.toNat | none => "err")
     | none => "bad-op")
  | "from64", [v] => (match hexToNat? v with | some n => iStr (I128.from64 (BitVec.ofNat 64 n)) | none => "bad-op")
  | "fromu64", [v] => (match hexToNat? v with | some n => iStr (I128.fromUint64 (BitVec.ofNat 64 n)) | none => "bad-op")
  | "comps", [p] =>
    (match parsePair? p with
     | some (h, l) => pairStr h l ++ " " ++ pairStr h l ++ " " ++ b2s (h == 0#64 && l == 0#64)
     | none => "bad-op")
  | "abs", [p] => (match parsePair? p with | some (h, l) => uStr (I128.absUint128 ⟨h, l⟩) | none => "bad-op")
  | _, _ => "bad-op"

def step (_ : Unit) (line : String) : Unit × String :=
  let out :=
    match words line with
    | "u" :: op :: args => stepU op args
    | "i" :: op :: args => stepI op args
    | ["f64op", op, a, b] =>
      (match hexToNat? a, hexToNat? b with
       | some x, some y => if x < 2^64 ∧ y < 2^64 then f64op op (F64.decode x) (F64.decode y) x else "bad-op"
       | _, _ => "bad-op")
    | ["consts"] =>
      if constsComputed == constsLiteral then " ".intercalate (constsLiteral.map f64Str) else "model-constants-disagree"
    | _ => "bad-op"
  ((), out)

def main : IO Unit := Proto.run step ()
