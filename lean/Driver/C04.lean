import Driver.Proto
import Model.FixedText
import Model.FixedTextFloat
import Model.FixedTextExp
import Generated.Facts
open Proto FixedText

/-- configuration `D<i>`: the i-th entry of the table generated from the source -/
def cfg? (d : String) : Option (Nat × Int) :=
  match d.toNat? with
  | some i => if i = 0 then none else Facts.fixedConfigs[i - 1]?
  | none => none

def txt (s : Str) : String := if s.isEmpty then "-" else String.ofList (s.map Char.ofNat)

def resStr : Res → String
  | .ok v => "ok:" ++ toString v
  | .err => "err"
  | .exp => "exp"

/-- `impl` = float → int64 conversion out of range -/
def resXStr : ResX → String
  | .ok v => "ok:" ++ toString v
  | .err => "err"
  | .implDefined => "impl"
  | .panic => "panic"

/-- texts of the exponent branch on which strconv itself is not correctly rounded (Model/FixedTextExp.lean, `longMantissa`):
    both sides print `long` -/
def viewX (s : Str) (r : ResX) : String :=
  if !s.isEmpty && hasExp (stripCommas s) && longMantissa (stripCommas s) then "long" else resXStr r

def target? : String → Option Target
  | "i8" => some ⟨8, true⟩ | "i16" => some ⟨16, true⟩ | "i32" => some ⟨32, true⟩ | "i64" => some ⟨64, true⟩
  | "int" => some ⟨64, true⟩
  | "u8" => some ⟨8, false⟩ | "u16" => some ⟨16, false⟩ | "u32" => some ⟨32, false⟩ | "u64" => some ⟨64, false⟩
  | "uint" => some ⟨64, false⟩ | "uptr" => some ⟨64, false⟩
  | _ => none

/-- wire format of a float of the target width: the IEEE bit pattern in hex -/
def fltHex (bits : Nat) (x : Flt) : String :=
  if bits == 32 then natToHex (Fixed.encode32 x) else natToHex (GoSem.F64.toBits x)

def fltOfHex? (bits : Nat) (h : String) : Option Flt :=
  match hexToNat? h with
  | some n => if bits == 32 then (if n < 2^32 then some (Fixed.decode32 n) else none)
              else (if n < 2^64 then some (GoSem.F64.decode n) else none)
  | none => none

def step (_ : Unit) (line : String) : Unit × String :=
  let out :=
    match words line with
    | ["val", ty, d, raw] =>
      match cfg? d, raw.toInt? with
      | some (places, mult), some r =>
        let parse := if ty == "128" then fromStr128 places mult else fromStr64 places mult
        let forms := [if ty == "128" then toStr128 mult r else toStr mult r, toStrSign mult r, comma mult r,
          commaSign mult r]
        " ".intercalate (forms.map txt ++ forms.map (fun f => resStr (parse f)) ++ ["lib-ok"])
      | _, _ => "bad-op"
    | ["cfg", _, d] =>
      match cfg? d with
      | some (places, mult) => toString places ++ " " ++ toString mult
      | none => "bad-op"
    | ["ext", _, d, which] =>
      match cfg? d with
      | some (_, mult) =>
        let r : Int := if which == "min" then -(2^127) else 2^127 - 1
        toString r ++ " " ++ txt (toStr128 mult r)
      | none => "bad-op"
    | ["commai", v] =>
      match v.toInt? with
      | some z => bytesHex (commaNum (intStr z))
      | none => "bad-op"
    | ["pf", b, h] =>
      match b.toNat?, hexBytes? h with
      | some bits, some t => fltHex bits (parseFloatGo bits t)
      | _, _ => "bad-op"
    | ["pfx", h] =>
      match hexBytes? h with
      | some t =>
        -- domain of the model: texts with e/E (the exponent branch) and texts that begin, behind an optional sign, like a
        -- special value; plain decimals without an exponent are `parseFloatGo`'s (op `pf`)
        let dom := hasExp t || (match dropSign t with | c :: _ => c == 105 || c == 73 || c == 110 || c == 78 | [] => false)
        if hasExp t && longMantissa t then "long"
        else if dom then (match parseFloatAny t with | some x => natToHex (GoSem.F64.toBits x) | none => "err") else "n/a"
      | none => "bad-op"
    | ["ff", b, h] =>
      match b.toNat? with
      | some bits =>
        match fltOfHex? bits h with
        | some x => bytesHex (formatFloatGo bits x)
        | none => "bad-op"
      | none => "bad-op"
    | ["cfm", ty, d, raw, b] =>
      match cfg? d, raw.toInt?, b.toNat? with
      | some (_, mult), some r, some bits =>
        let a := if ty == "128" then asF128 bits mult r else asF64 bits mult r
        let c := if ty == "128" then checkedAsF128 bits mult r else checkedAsF64 bits mult r
        fltHex bits a ++ " " ++ (match c with | some v => "ok:" ++ fltHex bits v | none => "nofit")
      | _, _, _ => "bad-op"
    | ["parse", ty, d, h] =>
      match cfg? d, hexBytes? h with
      | some (places, mult), some s =>
        if ty == "128" then viewX s (fromStrX128 places mult s) ++ " " ++ viewX (unquote s) (unmarshalX128 places mult s) ++ " lib-ok"
        else viewX s (fromStrX64 places mult s) ++ " " ++ viewX (unquote s) (unmarshalX64 places mult s) ++ " lib-ok"
      | _, _ => "bad-op"
    | ["unq", h] =>
      match hexBytes? h with
      | some s => bytesHex (unquote s)
      | none => "bad-op"
    | ["comma", h] =>
      match hexBytes? h with
      | some s => bytesHex (commaNum s)
      | none => "bad-op"
    | ["as", ty, d, raw, tg] =>
      match cfg? d, raw.toInt?, target? tg with
      | some (_, mult), some r, some t =>
        let a := if ty == "128" then as128 mult t r else as64 mult t r
        let c := if ty == "128" then checkedAs128 mult t r else checkedAs64 mult t r
        toString a ++ " " ++ (match c with | some v => "ok:" ++ toString v | none => "nofit")
      | _, _, _ => "bad-op"
    | _ => "bad-op"
  ((), out)

def main : IO Unit := Proto.run step ()
