import Driver.Proto
import Model.Eval
import Model.EvalFixed
import Model.EvalFloat
import Generated.Facts
open Proto Eval

/-! Model driver of C09.
    `s <hex>`      structure pass: `Evaluate` with symbolic operators on the evaluator kept across lines -> `ok <hex>` | `err`
    `f <hex>`      the same with the float operator table / function names
    `t <hex>`      value pass: the parse tree (variables substituted by the fixed literal resolver) in prefix form
    `a <hex>`      NextArg -> `<hex> <hex>`
    `d s` / `d f`  the two stacks the reused evaluator holds after the calls so far (`Eval.St`: after an accepted call the
                   reduced stacks, after a rejected parse `Eval.leftoverOn`) -> `D <operands, top first> | <operators>`
    `x <k> <z> <hex>`  value pass of the FIXED evaluator, computed by the model (`Model/EvalFixed.lean`): configuration
                   `fixed.Dk`, divideByZeroReturnsZero = z, variables from the literal table ->
                   `n <raw>` | `b true` | `b false` | `s <hex>` | `err` | `opaque` (depends on float64 arithmetic)
    `y <bits> <z> <hex>`  value pass of the FLOAT evaluators, computed by the model (`Model/EvalFloat.lean` over the
                   IEEE-754 arithmetic of `Model/EvalSoftFloat.lean`): `NewFloatEvaluator[float<bits>](resolver, z)`
                   -> `n <bit pattern>` | `n nan` | `n 0` (a zero of either sign: the property does not constrain the sign
                   of a zero result) | `b …` | `s <hex>` | `err` | `opaque` (outside the model) -/

def fixedOps : List Op := opsOf Facts.fixedOperators
def floatOps : List Op := opsOf Facts.floatOperators
def fixedFns : List Bytes := Facts.fixedFunctions.map symBytes
def floatFns : List Bytes := Facts.floatFunctions.map symBytes

/-- structure pass resolver: `$name` -> `@name` -/
def structResolve (name : Bytes) : Bytes := 64 :: name

/-- value pass resolver (the harness uses the same table) -/
def valueResolve (name : Bytes) : Bytes :=
  if name = symBytes "x" then symBytes "2"
  else if name = symBytes "y" then symBytes "3"
  else if name = symBytes "z" then symBytes "0"
  else if name = symBytes "h" then symBytes "0.5"
  else if name = symBytes "n" then symBytes "-4"
  else if name = symBytes "foo.bar" then symBytes "7"
  else if name = symBytes "a_1" then symBytes "1.25"
  else if name = symBytes "sp" then symBytes " 6 "
  -- every kind of literal a resolver may answer with (hardening pass; go/cmd/c09/walk.go holds the same table)
  else if name = symBytes "e" then symBytes "1e-2"
  else if name = symBytes "neg" then symBytes "-3"
  else if name = symBytes "big" then symBytes "123456789012345678901234567890"
  else if name = symBytes "ws" then symBytes "  "
  else if name = symBytes "str" then symBytes "abc"
  else if name = symBytes "expr" then symBytes "22 + 2"
  else if name = symBytes "bool" then symBytes "true"
  else if name = symBytes "paren" then symBytes "(1)"
  else if name = symBytes "comma" then symBytes "1,2"
  else if name = symBytes "inf" then symBytes "Inf"
  else if name = symBytes "max4" then symBytes "922337203685477.5807"
  else if name = symBytes "tiny" then symBytes "0.00001"
  else if name = symBytes "fn" then symBytes "abs(-1)"
  else if name = symBytes "mid" then symBytes "16777217.000000001"
  -- names ending in digit+e: the `-` after them is an operator, not an exponent sign
  else if name = symBytes "a1e" then symBytes "5"
  else if name = symBytes "r2e" then symBytes "3"
  else if name = symBytes "x.1e" then symBytes "7"
  else if name = symBytes "a#1e" then symBytes "9"
  else if name = symBytes "rate" then symBytes "1.5"
  else if name = symBytes "A1e" then symBytes "4"
  else if name = symBytes "A1E" then symBytes "4"
  -- terminating chains: the answer names another variable (the Go loop re-scans the substituted text)
  else if name = symBytes "ch" then symBytes "$x"
  else if name = symBytes "ch2" then symBytes "$ch"
  else []

def optSym : Option Op → String
  | none => "_"
  | some o => bytesHex o.sym

def showNode : Node → String
  | .nil => "N"
  | .operand un v => "O " ++ optSym un ++ " " ++ bytesHex v
  | .func un name args => "F " ++ optSym un ++ " " ++ bytesHex name ++ " " ++ bytesHex args
  | .tree l r op un => "T " ++ optSym op ++ " " ++ optSym un ++ " " ++ showNode l ++ " " ++ showNode r

/-- a node of the operand stack as the white-box dump of the harness prints it (a call has no name there: Go keeps
    the function value) -/
def showNodeD : Node → String
  | .nil => "N"
  | .operand un v => "O " ++ optSym un ++ " " ++ bytesHex v
  | .func un _ args => "F " ++ optSym un ++ " " ++ bytesHex args
  | .tree l r op un => "T " ++ optSym op ++ " " ++ optSym un ++ " " ++ showNodeD l ++ " " ++ showNodeD r

/-- the two stacks, top first -/
def showSt (st : St) : String :=
  "D " ++ " ; ".intercalate (st.opds.map showNodeD) ++ " | " ++
    " ; ".intercalate (st.ops.map fun e => bytesHex e.op.sym ++ " " ++ optSym e.un)

def showR : R Bytes → String
  | .ok v => "ok " ++ bytesHex v
  | .err => "err"
  | .panic => "panic"

/-- the driver keeps the state of the TWO reused evaluators of the harness (fixed table, float table) -/
abbrev DSt := St × St

def step (st : DSt) (line : String) : DSt × String :=
  match words line with
  | ["s", h] =>
    match hexBytes? h with
    | some s => let (st', r) := evaluateReuse fixedOps fixedFns (some structResolve) st.1 s; ((st', st.2), showR r)
    | none => (st, "bad-op")
  | ["f", h] =>
    match hexBytes? h with
    | some s => let (st', r) := evaluateReuse floatOps floatFns (some structResolve) st.2 s; ((st.1, st'), showR r)
    | none => (st, "bad-op")
  | ["t", h] =>
    match hexBytes? h with
    | some s =>
      match parseTop fixedOps fixedFns s with
      | .err => (st, "err")
      | .panic => (st, "panic")
      | .ok none => (st, "empty")
      | .ok (some top) =>
        match substNode (replaceVariables (some valueResolve)) top with
        | .ok n => (st, showNode n)
        | .err => (st, "err")
        | .panic => (st, "panic")
    | none => (st, "bad-op")
  | ["a", h] =>
    match hexBytes? h with
    | some s => (st, bytesHex (nextArg s).1 ++ " " ++ bytesHex (nextArg s).2)
    | none => (st, "bad-op")
  | ["x", k, z, h] =>
    match hexBytes? h, k.toNat?, EvalFixed.cfg? (k.toNat?.getD 0) (z == "1") with
    | some s, some _, some c =>
      (st, match EvalFixed.evaluate c fixedOps fixedFns (some valueResolve) (driverBudget s + 1) s with
        | .ok (.num raw) => "n " ++ toString raw
        | .ok (.bool b) => if b then "b true" else "b false"
        | .ok (.str t) => "s " ++ bytesHex t
        | .err => "err"
        | .panic => "panic"
        | .outside => "opaque")
    | _, _, _ => (st, "bad-op")
  | ["y", b, z, h] =>
    match hexBytes? h, (if b == "64" then some SoftFloat.f64 else if b == "32" then some SoftFloat.f32 else none) with
    | some s, some fm =>
      (st, match EvalFloat.evaluate ⟨fm, z == "1"⟩ floatOps floatFns (some valueResolve) (driverBudget s + 1) s with
        | .ok (.num x) => if SoftFloat.isNaN fm x then "n nan" else if SoftFloat.isZero fm x then "n 0" else "n " ++ toString x
        | .ok (.bool b) => if b then "b true" else "b false"
        | .ok (.str t) => "s " ++ bytesHex t
        | .err => "err"
        | .panic => "panic"
        | .outside => "opaque")
    | _, _ => (st, "bad-op")
  | ["d", "s"] => (st, showSt st.1)
  | ["d", "f"] => (st, showSt st.2)
  | ["reset"] => (({}, {}), "reset")
  | _ => (st, "bad-op")

def main : IO Unit := Proto.run step ({}, {})
