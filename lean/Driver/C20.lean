import Driver.Proto
import Model.NatSort
import Model.NatSortGo
open Proto NatSort

/-- one character per outcome of a comparison (used by the `row` lines) -/
def sign (i : Int) : Char := if i < 0 then '<' else if i = 0 then '=' else '>'

/-- `row ci p sa sb c1`: the 256 outcomes of comparing `p ++ [c1] ++ sa` with `p ++ [c2] ++ sb` for every byte `c2`,
    even `c2` through the index-level transcription and odd `c2` through the chunk-level model (they are proved
    equal: `C20.go_transcription_refines`) -/
def row (ci : Bool) (p sa sb : List Nat) (c1 : Nat) : String :=
  let a := p ++ c1 :: sa
  let aA := a.toArray
  String.ofList ((List.range 256).map fun c2 =>
    let b := p ++ c2 :: sb
    if c2 % 2 = 0 then sign (NatSortGo.naturalCmpA aA b.toArray ci) else sign (naturalCmp a b ci))

def step (_ : Unit) (line : String) : Unit × String :=
  let out :=
    match words line with
    | ["cmp", ci, a, b] =>
      -- the index-level, statement-for-statement transcription of the Go function (Model/NatSortGo.lean)
      match hexBytes? a, hexBytes? b with
      | some x, some y => toString (NatSortGo.naturalCmpA x.toArray y.toArray (ci == "1"))
      | _, _ => "bad-op"
    | ["less", ci, a, b] =>
      -- the chunk-level model the order theorems are stated about (Model/NatSort.lean)
      match hexBytes? a, hexBytes? b with
      | some x, some y => toString (naturalLess x y (ci == "1"))
      | _, _ => "bad-op"
    | ["row", ci, p, sa, sb, c] =>
      match hexBytes? p, hexBytes? sa, hexBytes? sb, hexBytes? c with
      | some p, some sa, some sb, some [c1] => row (ci == "1") p sa sb c1
      | _, _, _, _ => "bad-op"
    | "sorta" :: ws =>
      match ws.mapM hexBytes? with
      | some l => " ".intercalate ((sortAsc l).map bytesHex)
      | none => "bad-op"
    | "sortd" :: ws =>
      match ws.mapM hexBytes? with
      | some l => " ".intercalate ((sortDesc l).map bytesHex)
      | none => "bad-op"
    | _ => "bad-op"
  ((), out)

def main : IO Unit := Proto.run step ()
