import Driver.Proto
import Model.NatSort
open Proto NatSort

def step (_ : Unit) (line : String) : Unit × String :=
  let out :=
    match words line with
    | ["cmp", ci, a, b] =>
      match hexBytes? a, hexBytes? b with
      | some x, some y => toString (naturalCmp x y (ci == "1"))
      | _, _ => "bad-op"
    | ["less", ci, a, b] =>
      match hexBytes? a, hexBytes? b with
      | some x, some y => toString (naturalLess x y (ci == "1"))
      | _, _ => "bad-op"
    | "sorta" :: ws =>
      match ws.mapM hexBytes? with
      | some l => " ".intercalate ((sortAsc l).map bytesHex)
      | none => "bad-op"
    | "sortd" :: ws =>
      match ws.mapM hexBytes? with
      | some l => " ".intercalate ((sortDesc l).map bytesHex)
      | none => "bad-op"
    | _ => "bad-op"
  ((), out)

def main : IO Unit := Proto.run step ()
