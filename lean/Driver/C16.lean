import Driver.Proto
import Model.RateLimiter
import Model.RateLimiterInt
import Model.RateLimiterWindow
import Model.RateLimiterRW
open Proto RL

/-! Model driver of C16.  Area `burst`: one history = `reset <rootCap>` followed by calls of the exported API made in
    lock step with the ticks (`tick` = exactly one tick of the ticker goroutine).  All outputs are read off the state
    of `RL.exec` (the answers from the history field `answered`). -/

def ansStr : Ans → String
  | .ok => "nil"
  | .errNeg => "err-neg"
  | .errCap => "err-cap"
  | .errClosed => "err-closed"

/-- the answers added by the last step, in request order -/
def newAnswers (s s' : S) : String :=
  let fresh := s'.answered.take (s'.answered.length - s.answered.length)
  let sorted := fresh.mergeSort (fun a b => a.1 ≤ b.1)
  " ".intercalate (sorted.map fun a => "r" ++ toString a.1 ++ "=" ++ ansStr a.2)

def perLimiter (s : S) (f : Nat → String) : String := ",".intercalate ((List.range s.n).map f)

def glue (ws : List String) : String := " ".intercalate (ws.filter (fun w => !w.isEmpty))

/-- `rate.New`, `Limiter.New` and `SetCap` are given any Go `int`; the clamp `max(capacity, 0)` is the model's
    (`RL.clampCap`, applied by `RL.initGo` and by the plans of `RL.exec`), not the driver's. -/
structure DS where
  s : S
  /-- black-box mode (`reset <cap> bb`, fed by the check when the harness had to be built without the white-box
      overlay): the harness observes ticks through a hidden capacity-1 child of the root (model limiter 1) — per `tick`:
      `Use(1)` twice on it, `SetCap(0)`, the tick, `SetCap(1)` — and the model performs the same calls.  Script handle
      `k ≥ 1` is model limiter `k + 1`; the hidden limiter and its requests are not printed. -/
  bb : Bool := false
  hid : List Nat := []

def DS.vis (d : DS) (s : S) : Nat := if d.bb then s.n - 1 else s.n
def DS.mid (d : DS) (k : Nat) : Nat := if d.bb && k ≥ 1 then k + 1 else k
def DS.perLim (d : DS) (s : S) (f : Nat → String) : String :=
  ",".intercalate ((List.range (d.vis s)).map fun k => f (d.mid k))
def DS.answers (d : DS) (s s' : S) : String :=
  let fresh := (s'.answered.take (s'.answered.length - s.answered.length)).filter (fun a => !d.hid.contains a.1)
  let sorted := fresh.mergeSort (fun a b => a.1 ≤ b.1)
  " ".intercalate (sorted.map fun a => "r" ++ toString a.1 ++ "=" ++ ansStr a.2)

def DS.capStr (d : DS) (l : Nat) (ap : Bool) : String := toString (capOf d.s l ap)

/-- the decision of `Use` computed a second time on machine ints (`RL.useDecI`: the state as Go `int`s, every intermediate
    with wrap-around, independent of `fits` / `effCap`) and the decision the model takes (`RL.useDecN`, which `RL.exec`
    acts on: `C16.machine_int_decisions_are_the_models`); a transcription error in either shows as a difference -/
def machineIntAgrees (s : S) (l : Nat) (amt : Int) : Bool :=
  useDecI (fun x => (s.cap x : Int)) (fun x => (s.used x : Int)) s.closed (s.chain l) l amt == useDecN s l amt

/-- the whole state of the tree after a call, as the white-box harness prints it (`go/overlay/c16_rate_dump.go`):
    capacity, used (open limiters only), last and closed flag of every limiter, and the waiting queue in order as
    limiter:amount (requests on closed limiters left out) -/
def dumpState (s : S) : String :=
  "c=" ++ perLimiter s (fun x => toString (s.cap x)) ++
  " u=" ++ perLimiter s (fun x => if s.closed x then "-" else toString (s.used x)) ++
  " l=" ++ perLimiter s (fun x => toString (s.last x)) ++
  " x=" ++ perLimiter s (fun x => if s.closed x then "1" else "0") ++
  " q=" ++ ",".intercalate ((s.waiting.filter (fun r => !s.closed r.lim)).map
              (fun r => toString r.lim ++ ":" ++ toString r.amt))

/-! ### area `window`: all interleavings of the tick the goroutine has already received with up to three calls -/

inductive WOp
  | use (l : Nat) (a : Int) | new (p c : Nat) | setcap (l c : Nat) | close (l : Nat)

/-- the steps of one call, in program order -/
def threadOf (s : S) : WOp → List Micro
  | .use l a => if a < 0 then [.useNeg] else [.apiLock, .use l a.toNat]
  | .new p c => [.apiLock, .newChild p c]
  | .setcap l c => [.apiLock, .setCap l c]
  | .close l =>
    if l = 0 then (if s.closed 0 || s.cpc != .idle then [.apiLock, .apiRead]
                   else [.closeLock, .closeMark, .closeUnlock, .doneReceived])
    else [.apiLock, .closeChild l]

-- the exploration of all interleavings is `RL.explore` (Model/RateLimiterWindow.lean; `C16.window_outcomes_are_runs`,
-- `C16.window_exploration_is_complete`)

def windowOutcome (s s' : S) (ops : List WOp) : String :=
  let useId := s.nextReq
  let hasUse := ops.any fun o => match o with | .use _ _ => true | _ => false
  let perOp := ops.filterMap fun o =>
    match o with
    | .use _ _ =>
      some ("u=" ++ (match s'.answered.find? (fun x => x.1 == useId) with | some x => ansStr x.2 | none => "pending"))
    | .new _ _ => some (if s'.n > s.n then "n=ok" else "n=nil")
    | _ => none
  let fresh := (s'.answered.take (s'.answered.length - s.answered.length)).filter (fun x => !(hasUse && x.1 == useId))
  let sorted := fresh.mergeSort (fun a b => a.1 ≤ b.1)
  glue (["window"] ++ perOp ++ sorted.map (fun a => "r" ++ toString a.1 ++ "=" ++ ansStr a.2) ++
        ["closed=" ++ perLimiter s' (fun x => if s'.closed x then "1" else "0"),
         "last=" ++ perLimiter s' (fun x => toString (s'.last x)),
         "cap=" ++ perLimiter s' (fun x => toString (s'.cap x))])

def splitOps (ws : List String) : List (List String) :=
  (ws.foldl (fun (acc : List (List String)) w =>
    if w == ";" then [] :: acc else match acc with | [] => [[w]] | h :: t => (h ++ [w]) :: t) [[]]).reverse.filter
      (fun l => !l.isEmpty)

def parseWOp (s : S) : List String → Option WOp
  | ["use", l, a] => match l.toNat?, a.toInt? with | some l, some a => if l < s.n then some (.use l a) else none | _, _ => none
  | ["new", p, c] => match p.toNat?, c.toInt? with | some p, some c => if p < s.n then some (.new p (clampCap c)) else none | _, _ => none
  | ["setcap", l, c] => match l.toNat?, c.toInt? with | some l, some c => if l < s.n then some (.setcap l (clampCap c)) else none | _, _ => none
  | ["close", l] => match l.toNat? with | some l => if l < s.n then some (.close l) else none | none => none
  | _ => none

/-- only nil / error is compared, not which error -/
def collapseErr (o : String) : String :=
  ((o.replace "err-neg" "err").replace "err-cap" "err").replace "err-closed" "err" |>.replace "err-other" "err"

/-- one `window` line: the set of outcomes of all interleavings; the outcome observed by the harness selects the
    interleaving the history continues from -/
def windowStep (d : DS) (ws0 : List String) : Option DS × String :=
  let s := d.s
  -- `… => <outcome observed by the harness>` (appended by the check): continue from the interleaving that happened
  let ws := ws0.takeWhile (· != "=>")
  let seen := collapseErr (" ".intercalate ((ws0.dropWhile (· != "=>")).drop 1))
  if s.tpc != .sel then (some d, "no-ticker") else
  match (splitOps ws).mapM (parseWOp s) with
  | none => (some d, "bad-op")
  | some ops =>
    let uses := (ops.filter fun o => match o with | .use _ _ => true | _ => false).length
    let news := (ops.filter fun o => match o with | .new _ _ => true | _ => false).length
    let roots := (ops.filter fun o => match o with | .close 0 => true | _ => false).length
    if uses > 1 || news > 1 || roots > 1 || ops.length > 3 || ops.isEmpty then (some d, "bad-op") else
    let s0 := micro s .tickFires
    let rootClose := roots == 1 && !s.closed 0 && s.cpc == .idle
    let ticker : List Micro := [.tickLock, .tickRuns, .tickUnlock] ++ (if rootClose then [.drainLock, .drain, .drainUnlock] else [])
    -- (root `Close` may also win against a tick that is only ABOUT to fire: then `done` is received at the `select`
    -- and no tick is served any more)
    let finals := explore 64 s0 (ticker :: ops.map (threadOf s)) ++
      (if rootClose then explore 64 s ([.drainLock, .drain, .drainUnlock] :: ops.map (threadOf s)) else [])
    let outs := finals.map fun o => match o with | some s' => windowOutcome s s' ops | none => "stuck"
    let outs := (outs.eraseDups).mergeSort (fun a b => a ≤ b)
    let full (s' : S) : String :=
      if (seen.splitOn " # ").length > 1 then windowOutcome s s' ops ++ " # " ++ dumpState s' else windowOutcome s s' ops
    let matching := finals.find? fun o => match o with | some s' => collapseErr (full s') == seen | none => false
    match matching with
    | some (some s') => (some { d with s := s' }, windowOutcome s s' ops)
    | _ =>
      -- nothing observed (or not an allowed outcome): print the allowed set, continue from its first element
      let pick := finals.find? fun o => match o with | some s' => windowOutcome s s' ops == outs.headD "" | none => false
      let d' := match pick with | some (some s') => { d with s := s' } | _ => d
      (some d', "window-set " ++ " || ".intercalate outs)

/-! ### lines `rwin r ; r ; … | w`: the read-lock window, run on the readers-writer machine (`RL.rwWindow`) -/

def parseRead (d : DS) : List String → Option Call
  | ["cap", l, ap] => match l.toNat? with | some l => if l < d.vis d.s then some (.cap (d.mid l) (ap == "1")) else none | none => none
  | ["last", l] => match l.toNat? with | some l => if l < d.vis d.s then some (.lastUsed (d.mid l)) else none | none => none
  | ["closed", l] => match l.toNat? with | some l => if l < d.vis d.s then some (.closed (d.mid l)) else none | none => none
  | _ => none

def parseWrite (d : DS) : List String → Option Call
  | ["use", l, a] => match l.toNat?, a.toInt? with | some l, some a => if l < d.vis d.s && a ≥ 0 then some (.use (d.mid l) a) else none | _, _ => none
  | ["setcap", l, c] => match l.toNat?, c.toInt? with | some l, some c => if l < d.vis d.s then some (.setCap (d.mid l) c) else none | _, _ => none
  | ["new", p, c] => match p.toNat?, c.toInt? with | some p, some c => if p < d.vis d.s then some (.newChild (d.mid p) c) else none | _, _ => none
  | ["close", l] => match l.toNat? with | some l => if l < d.vis d.s && l != 0 then some (.closeChild (d.mid l)) else none | none => none
  | _ => none

def retStr (nextReq : Nat) : Ret → String
  | .num n => toString n
  | .flag b => toString b
  | .answer (some a) => "r" ++ toString nextReq ++ " " ++ ansStr a
  | .answer none => "r" ++ toString nextReq ++ " pending"
  | .made b => if b then "n=ok" else "n=nil"
  | .unit => ""

def rwinStep (d : DS) (ws : List String) : Option DS × String :=
  let rs := splitOps (ws.takeWhile (· != "|"))
  let w := (ws.dropWhile (· != "|")).drop 1
  match rs.mapM (parseRead d), parseWrite d w with
  | some reads, some wc =>
    let o := rwWindow d.s reads wc
    (some { d with s := o.cfg.shared },
     glue (["rwin"] ++ o.reads.map (fun r => " ".intercalate (r.map (retStr d.s.nextReq))) ++
           ["blocked=" ++ (if o.blocked then "1" else "0")] ++ o.wres.map (retStr d.s.nextReq)))
  | _, _ => (some d, "bad-op")

def step (st : Option DS) (line : String) : Option DS × String :=
  match words line, st with
  | ["reset", c], _ =>
    match c.toInt? with
    | some c => (some { s := initGo c }, "reset")
    | none => (st, "bad-op")
  | ["reset", c, "bb"], _ =>
    match c.toInt? with
    | some c => (some { s := exec (initGo c) (.newChild 0 1), bb := true }, "reset")
    | none => (st, "bad-op")
  | _, none => (none, "bad-op")
  | ["new", p, c], some d =>
    let s := d.s
    match p.toNat?, c.toInt? with
    | some p, some c =>
      if p < d.vis s then
        let s' := exec s (.newChild (d.mid p) c)
        if s'.n = s.n then (some { d with s := s' }, "nil") else (some { d with s := s' }, "ok " ++ toString (d.vis s))
      else (st, "bad-handle")
    | _, _ => (st, "bad-op")
  | ["use", l, a], some d =>
    let s := d.s
    match l.toNat?, a.toInt? with
    | some l, some a =>
      if l < d.vis s then
        let s' := exec s (.use (d.mid l) a)
        let out := match s'.answered.find? (fun x => x.1 == s.nextReq) with
          | some x => ansStr x.2
          | none => "pending"
        let out := if machineIntAgrees s (d.mid l) a then out else out ++ " machine-int-decision-differs"
        (some { d with s := s' }, "r" ++ toString s.nextReq ++ " " ++ out)
      else (st, "bad-handle")
    | _, _ => (st, "bad-op")
  | ["chancap", l], some d =>
    -- `cap()` of the channel `Use(-1)` returns (the call is answered before the lock is taken and changes nothing)
    let s := d.s
    match l.toNat? with
    | some l =>
      if l < d.vis s then
        (some { d with s := exec s (.use (d.mid l) (-1)) }, "r" ++ toString s.nextReq ++ (if answerChanCap ≥ 1 then " room-for-the-answer" else " cap=" ++ toString answerChanCap))
      else (st, "bad-handle")
    | none => (st, "bad-op")
  | "window" :: _mode :: ws, some d => if d.bb then (st, "window-skipped") else windowStep d ws
  | "rwin" :: ws, some d => if d.bb then (st, "window-skipped") else rwinStep d ws
  | ["tick"], some d =>
    let s := d.s
    if s.tpc = .sel then
      if d.bb then
        -- the harness' black-box observation of the tick, performed on the model as well
        let s1 := exec (exec s (.use 1 1)) (.use 1 1)
        let d := { d with hid := s.nextReq :: (s.nextReq + 1) :: d.hid }
        let s2 := exec (exec (exec s1 (.setCap 1 0)) .tick) (.setCap 1 1)
        (some { d with s := s2 }, glue ["tick", d.answers s s2, "last=" ++ d.perLim s2 (fun x => toString (s2.last x))])
      else
        let s' := exec s .tick
        (some { d with s := s' }, glue ["tick", d.answers s s', "last=" ++ d.perLim s' (fun x => toString (s'.last x))])
    else (st, "no-ticker")
  | ["close", l], some d =>
    let s := d.s
    match l.toNat? with
    | some l =>
      if l < d.vis s then
        let s' := exec s (.close (d.mid l))
        (some { d with s := s' }, glue ["close", d.answers s s',
                        "closed=" ++ d.perLim s' (fun x => if s'.closed x then "1" else "0")])
      else (st, "bad-handle")
    | none => (st, "bad-op")
  | ["cap", l, ap], some d =>
    match l.toNat? with
    | some l => if l < d.vis d.s then (st, d.capStr (d.mid l) (ap == "1")) else (st, "bad-handle")
    | none => (st, "bad-op")
  | ["setcap", l, c], some d =>
    match l.toNat?, c.toInt? with
    | some l, some c =>
      if l < d.vis d.s then (some { d with s := exec d.s (.setCap (d.mid l) c) }, "ok") else (st, "bad-handle")
    | _, _ => (st, "bad-op")
  | ["last", l], some d =>
    match l.toNat? with
    | some l => if l < d.vis d.s then (st, toString (d.s.last (d.mid l))) else (st, "bad-handle")
    | none => (st, "bad-op")
  | ["closed", l], some d =>
    match l.toNat? with
    | some l => if l < d.vis d.s then (st, toString (d.s.closed (d.mid l))) else (st, "bad-handle")
    | none => (st, "bad-op")
  | _, _ => (st, "bad-op")

/-- every executed call is followed by the state dump (behind ` # `); the check drops it when the harness could not print
    one (black-box builds) -/
def stepDump (st : Option DS) (line : String) : Option DS × String :=
  match step st line with
  | (some d, out) =>
    if out == "reset" || out == "bad-op" || out == "bad-handle" || out == "window-skipped" || d.bb then (some d, out)
    else (some d, out ++ " # " ++ dumpState d.s)
  | r => r

def main : IO Unit := Proto.run stepDump none
