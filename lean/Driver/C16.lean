import Driver.Proto
import Model.RateLimiter
open Proto RL

/-! Model driver of C16.  Area `burst`: one history = `reset <rootCap>` followed by calls of the exported API made in
    lock step with the ticks (`tick` = exactly one tick of the ticker goroutine).  All outputs are read off the state
    of `RL.exec` (the answers from the history field `answered`). -/

def ansStr : Ans → String
  | .ok => "nil"
  | .errNeg => "err-neg"
  | .errCap => "err-cap"
  | .errClosed => "err-closed"

/-- the answers added by the last step, in request order -/
def newAnswers (s s' : S) : String :=
  let fresh := s'.answered.take (s'.answered.length - s.answered.length)
  let sorted := fresh.mergeSort (fun a b => a.1 ≤ b.1)
  " ".intercalate (sorted.map fun a => "r" ++ toString a.1 ++ "=" ++ ansStr a.2)

def perLimiter (s : S) (f : Nat → String) : String := ",".intercalate ((List.range s.n).map f)

def glue (ws : List String) : String := " ".intercalate (ws.filter (fun w => !w.isEmpty))

/-- `rate.New`, `Limiter.New` and `SetCap` store `max(capacity, 0)`: a negative argument (`New(-1)`,
    `SetCap(math.MinInt)`) is the capacity 0 of the model (capacities are `Nat`), and `Cap()` reports 0 for it. -/
structure DS where
  s : S

def DS.capStr (d : DS) (l : Nat) (ap : Bool) : String := toString (capOf d.s l ap)

def step (st : Option DS) (line : String) : Option DS × String :=
  match words line, st with
  | ["reset", c], _ =>
    match c.toInt? with
    | some c => (some ⟨init c.toNat⟩, "reset")
    | none => (st, "bad-op")
  | _, none => (none, "bad-op")
  | ["new", p, c], some d =>
    let s := d.s
    match p.toNat?, c.toInt? with
    | some p, some c =>
      if p < s.n then
        let s' := exec s (.newChild p c.toNat)
        if s'.n = s.n then (some { d with s := s' }, "nil") else (some ⟨s'⟩, "ok " ++ toString s.n)
      else (st, "bad-handle")
    | _, _ => (st, "bad-op")
  | ["use", l, a], some d =>
    let s := d.s
    match l.toNat?, a.toInt? with
    | some l, some a =>
      if l < s.n then
        let s' := exec s (.use l a)
        let out := match s'.answered.find? (fun x => x.1 == s.nextReq) with
          | some x => ansStr x.2
          | none => "pending"
        (some { d with s := s' }, "r" ++ toString s.nextReq ++ " " ++ out)
      else (st, "bad-handle")
    | _, _ => (st, "bad-op")
  | ["tick"], some d =>
    let s := d.s
    if s.tpc = .sel then
      let s' := exec s .tick
      (some { d with s := s' }, glue ["tick", newAnswers s s', "last=" ++ perLimiter s' (fun x => toString (s'.last x))])
    else (st, "no-ticker")
  | ["close", l], some d =>
    let s := d.s
    match l.toNat? with
    | some l =>
      if l < s.n then
        let s' := exec s (.close l)
        (some { d with s := s' }, glue ["close", newAnswers s s',
                        "closed=" ++ perLimiter s' (fun x => if s'.closed x then "1" else "0")])
      else (st, "bad-handle")
    | none => (st, "bad-op")
  | ["cap", l, ap], some d =>
    match l.toNat? with
    | some l => if l < d.s.n then (st, d.capStr l (ap == "1")) else (st, "bad-handle")
    | none => (st, "bad-op")
  | ["setcap", l, c], some d =>
    match l.toNat?, c.toInt? with
    | some l, some c =>
      if l < d.s.n then (some { d with s := exec d.s (.setCap l c.toNat) }, "ok") else (st, "bad-handle")
    | _, _ => (st, "bad-op")
  | ["last", l], some d =>
    match l.toNat? with
    | some l => if l < d.s.n then (st, toString (d.s.last l)) else (st, "bad-handle")
    | none => (st, "bad-op")
  | ["closed", l], some d =>
    match l.toNat? with
    | some l => if l < d.s.n then (st, toString (d.s.closed l)) else (st, "bad-handle")
    | none => (st, "bad-op")
  | _, _ => (st, "bad-op")

def main : IO Unit := Proto.run step none
