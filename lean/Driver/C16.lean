import Driver.Proto
import Model.RateLimiter
open Proto RL

/-! Model driver of C16.  Area `burst`: one history = `reset <rootCap>` followed by calls of the exported API made in
    lock step with the ticks (`tick` = exactly one tick of the ticker goroutine).  All outputs are read off the state
    of `RL.exec` (the answers from the history field `answered`). -/

def ansStr : Ans → String
  | .ok => "nil"
  | .errNeg => "err-neg"
  | .errCap => "err-cap"
  | .errClosed => "err-closed"

/-- the answers added by the last step, in request order -/
def newAnswers (s s' : S) : String :=
  let fresh := s'.answered.take (s'.answered.length - s.answered.length)
  let sorted := fresh.mergeSort (fun a b => a.1 ≤ b.1)
  " ".intercalate (sorted.map fun a => "r" ++ toString a.1 ++ "=" ++ ansStr a.2)

def perLimiter (s : S) (f : Nat → String) : String := ",".intercalate ((List.range s.n).map f)

def glue (ws : List String) : String := " ".intercalate (ws.filter (fun w => !w.isEmpty))

/-- Negative capacities (`New(-1)`, `SetCap(math.MinInt)`) are run through the model by the reduction
    `capacity ↦ max capacity 0`: every decision of the code compares an amount ≥ 1 with `capacity - used` or with
    `capacity`, and both are < 1 for a negative capacity exactly as for capacity 0.  Only `Cap()` shows the raw value, so
    the driver keeps the raw capacities (in creation order) next to the model state. -/
structure DS where
  s : S
  raw : List Int

def DS.rawOf (d : DS) (x : Nat) : Int := d.raw.getD x 0

def DS.setRaw (d : DS) (l : Nat) (c : Int) : DS := { d with raw := d.raw.set l c }

/-- `Cap(apply)`: the model's `capOf` whenever no negative capacity is involved, the same minimum over the raw values
    otherwise -/
def DS.capStr (d : DS) (l : Nat) (ap : Bool) : String :=
  if (d.s.chain l).all (fun x => decide (0 ≤ d.rawOf x)) then toString (capOf d.s l ap)
  else if ap then toString ((d.s.chain l).foldl (fun m x => min m (d.rawOf x)) (d.rawOf l))
  else toString (d.rawOf l)

def step (st : Option DS) (line : String) : Option DS × String :=
  match words line, st with
  | ["reset", c], _ =>
    match c.toInt? with
    | some c => (some ⟨init c.toNat, [c]⟩, "reset")
    | none => (st, "bad-op")
  | _, none => (none, "bad-op")
  | ["new", p, c], some d =>
    let s := d.s
    match p.toNat?, c.toInt? with
    | some p, some c =>
      if p < s.n then
        let s' := exec s (.newChild p c.toNat)
        if s'.n = s.n then (some { d with s := s' }, "nil") else (some ⟨s', d.raw ++ [c]⟩, "ok " ++ toString s.n)
      else (st, "bad-handle")
    | _, _ => (st, "bad-op")
  | ["use", l, a], some d =>
    let s := d.s
    match l.toNat?, a.toInt? with
    | some l, some a =>
      if l < s.n then
        let s' := exec s (.use l a)
        let out := match s'.answered.find? (fun x => x.1 == s.nextReq) with
          | some x => ansStr x.2
          | none => "pending"
        (some { d with s := s' }, "r" ++ toString s.nextReq ++ " " ++ out)
      else (st, "bad-handle")
    | _, _ => (st, "bad-op")
  | ["tick"], some d =>
    let s := d.s
    if s.tpc = .sel then
      let s' := exec s .tick
      (some { d with s := s' }, glue ["tick", newAnswers s s', "last=" ++ perLimiter s' (fun x => toString (s'.last x))])
    else (st, "no-ticker")
  | ["close", l], some d =>
    let s := d.s
    match l.toNat? with
    | some l =>
      if l < s.n then
        let s' := exec s (.close l)
        (some { d with s := s' }, glue ["close", newAnswers s s',
                        "closed=" ++ perLimiter s' (fun x => if s'.closed x then "1" else "0")])
      else (st, "bad-handle")
    | none => (st, "bad-op")
  | ["cap", l, ap], some d =>
    match l.toNat? with
    | some l => if l < d.s.n then (st, d.capStr l (ap == "1")) else (st, "bad-handle")
    | none => (st, "bad-op")
  | ["setcap", l, c], some d =>
    match l.toNat?, c.toInt? with
    | some l, some c =>
      if l < d.s.n then (some ((DS.setRaw { d with s := exec d.s (.setCap l c.toNat) } l c)), "ok") else (st, "bad-handle")
    | _, _ => (st, "bad-op")
  | ["last", l], some d =>
    match l.toNat? with
    | some l => if l < d.s.n then (st, toString (d.s.last l)) else (st, "bad-handle")
    | none => (st, "bad-op")
  | ["closed", l], some d =>
    match l.toNat? with
    | some l => if l < d.s.n then (st, toString (d.s.closed l)) else (st, "bad-handle")
    | none => (st, "bad-op")
  | _, _ => (st, "bad-op")

def main : IO Unit := Proto.run step none
