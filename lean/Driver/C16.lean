import Driver.Proto
import Model.RateLimiter
open Proto RL

/-! Model driver of C16.  Area `burst`: one history = `reset <rootCap>` followed by calls of the exported API made in
    lock step with the ticks (`tick` = exactly one tick of the ticker goroutine).  All outputs are read off the state
    of `RL.exec` (the answers from the history field `answered`). -/

def ansStr : Ans → String
  | .ok => "nil"
  | .errNeg => "err-neg"
  | .errCap => "err-cap"
  | .errClosed => "err-closed"

/-- the answers added by the last step, in request order -/
def newAnswers (s s' : S) : String :=
  let fresh := s'.answered.take (s'.answered.length - s.answered.length)
  let sorted := fresh.mergeSort (fun a b => a.1 ≤ b.1)
  " ".intercalate (sorted.map fun a => "r" ++ toString a.1 ++ "=" ++ ansStr a.2)

def perLimiter (s : S) (f : Nat → String) : String := ",".intercalate ((List.range s.n).map f)

def glue (ws : List String) : String := " ".intercalate (ws.filter (fun w => !w.isEmpty))

def step (st : Option S) (line : String) : Option S × String :=
  match words line, st with
  | ["reset", c], _ =>
    match c.toNat? with
    | some c => (some (init c), "reset")
    | none => (st, "bad-op")
  | _, none => (none, "bad-op")
  | ["new", p, c], some s =>
    match p.toNat?, c.toNat? with
    | some p, some c =>
      if p < s.n then
        let s' := exec s (.newChild p c)
        if s'.n = s.n then (some s', "nil") else (some s', "ok " ++ toString s.n)
      else (st, "bad-handle")
    | _, _ => (st, "bad-op")
  | ["use", l, a], some s =>
    match l.toNat?, a.toInt? with
    | some l, some a =>
      if l < s.n then
        let s' := exec s (.use l a)
        let out := match s'.answered.find? (fun x => x.1 == s.nextReq) with
          | some x => ansStr x.2
          | none => "pending"
        (some s', "r" ++ toString s.nextReq ++ " " ++ out)
      else (st, "bad-handle")
    | _, _ => (st, "bad-op")
  | ["tick"], some s =>
    if s.tpc = .sel then
      let s' := exec s .tick
      (some s', glue ["tick", newAnswers s s', "last=" ++ perLimiter s' (fun x => toString (s'.last x))])
    else (st, "no-ticker")
  | ["close", l], some s =>
    match l.toNat? with
    | some l =>
      if l < s.n then
        let s' := exec s (.close l)
        (some s', glue ["close", newAnswers s s',
                        "closed=" ++ perLimiter s' (fun x => if s'.closed x then "1" else "0")])
      else (st, "bad-handle")
    | none => (st, "bad-op")
  | ["cap", l, ap], some s =>
    match l.toNat? with
    | some l => if l < s.n then (st, toString (capOf s l (ap == "1"))) else (st, "bad-handle")
    | none => (st, "bad-op")
  | ["setcap", l, c], some s =>
    match l.toNat?, c.toNat? with
    | some l, some c => if l < s.n then (some (exec s (.setCap l c)), "ok") else (st, "bad-handle")
    | _, _ => (st, "bad-op")
  | ["last", l], some s =>
    match l.toNat? with
    | some l => if l < s.n then (st, toString (s.last l)) else (st, "bad-handle")
    | none => (st, "bad-op")
  | ["closed", l], some s =>
    match l.toNat? with
    | some l => if l < s.n then (st, toString (s.closed l)) else (st, "bad-handle")
    | none => (st, "bad-op")
  | _, _ => (st, "bad-op")

def main : IO Unit := Proto.run step none
