import Driver.Proto
import Model.Geom
open Proto Geom

/-! Model driver of C18.  Numbers on the wire: Go `int` as decimal, `float64` as the exact rational `n/d` (or `n`). -/
namespace DrvC18

def parseRat? (s : String) : Option Rat :=
  match s.splitOn "/" with
  | [n] => n.toInt?.map (fun i => (i : Rat))
  | [n, d] => match n.toInt?, d.toNat? with
    | some i, some k => if k = 0 then none else some (mkRat i k)
    | _, _ => none
  | _ => none

def ratStr (q : Rat) : String := if q.den = 1 then toString q.num else toString q.num ++ "/" ++ toString q.den

def boolStr (b : Bool) : String := if b then "true" else "false"

def rectStr {α : Type} (f : α → String) (r : Rect α) : String := f r.x ++ " " ++ f r.y ++ " " ++ f r.w ++ " " ++ f r.h
def ptStr {α : Type} (f : α → String) (p : Point α) : String := f p.x ++ " " ++ f p.y
def matStr (m : Matrix Rat) : String :=
  " ".intercalate ([m.scaleX, m.skewX, m.transX, m.skewY, m.scaleY, m.transY].map ratStr)

/-- the rectangle operations, shared by both coordinate types -/
def rectOp {α : Type} [Add α] [Sub α] [LE α] [LT α] [Max α] [Min α] [OfNat α 0] [DecidableLE α] [DecidableLT α]
    (half : α → α) (f : α → String) (op : String) (v : List α) : String :=
  match v with
  | [ax, ay, aw, ah, bx, b_y, bw, bh] =>
    let a : Rect α := ⟨ax, ay, aw, ah⟩
    let b : Rect α := ⟨bx, b_y, bw, bh⟩
    match op with
    | "contains" => boolStr (a.contains b)
    | "intersects" => boolStr (a.intersects b)
    | "intersect" => rectStr f (a.intersect b)
    | "union" => rectStr f (a.union b)
    | "in" => boolStr ((⟨ax, ay⟩ : Point α).inRect b)
    | "expand" => rectStr f (a.expand ⟨bx, b_y⟩)
    | "inset" => rectStr f (a.inset ⟨bx, b_y, bw, bh⟩)
    | "misc" => boolStr a.empty ++ " " ++ f a.right ++ " " ++ f a.bottom ++ " " ++ f (a.centerX half) ++ " " ++
        f (a.centerY half) ++ " " ++ ptStr f a.topLeft ++ " " ++ ptStr f a.topRight ++ " " ++ ptStr f a.bottomRight ++
        " " ++ ptStr f a.bottomLeft
    | _ => "bad-op"
  | _ => "bad-op"

def mat? : List Rat → Option (Matrix Rat × List Rat)
  | a :: b :: c :: d :: e :: f :: rest => some (⟨a, b, c, d, e, f⟩, rest)
  | _ => none

def matOp (op : String) (v : List Rat) : String :=
  match op, v with
  | "id", [] => matStr Matrix.identity
  | "newtr", [tx, ty] => matStr (Matrix.newTranslation tx ty)
  | "newsc", [sx, sy] => matStr (Matrix.newScale sx sy)
  | "newrot", [_, s, c] => matStr (Matrix.newRotation s c)
  | _, _ =>
    match mat? v with
    | none => "bad-op"
    | some (m, rest) =>
      match op, rest with
      | "tr", [tx, ty] => matStr (m.translate tx ty)
      | "sc", [sx, sy] => matStr (m.scale sx sy)
      | "rot", [_, s, c] => matStr (m.rotate s c)
      | "tp", [px, py] => ptStr ratStr (m.transformPoint ⟨px, py⟩)
      | "mul", r2 =>
        match mat? r2 with
        | some (n, []) => matStr (m.multiply n)
        | _ => "bad-op"
      | _, _ => "bad-op"

/-- contours are separated by the word `|`; an empty contour is two adjacent separators -/
def splitBar (ws : List String) : List (List String) :=
  ws.foldr (fun w acc => if w = "|" then [] :: acc else match acc with
    | [] => [[w]]
    | c :: cs => (w :: c) :: cs) [[]]

def pts? : List Rat → Option (List (Point Rat))
  | [] => some []
  | x :: y :: t => (pts? t).map (fun l => ⟨x, y⟩ :: l)
  | _ => none

def contour? (ws : List String) : Option (Contour Rat) := (ws.mapM parseRat?).bind pts?

def contourStr (c : Contour Rat) : String := " ".intercalate (c.map (ptStr ratStr))
def polyStr (p : Polygon Rat) : String := " | ".intercalate (p.map contourStr)

/-- `poly <op> <head numbers> | contour | contour …` -/
def polyOp (op : String) (ws : List String) : String :=
  match splitBar ws with
  | [] => "bad-op"
  | headW :: cw =>
    match headW.mapM parseRat?, cw.mapM contour? with
    | some hd, some p =>
      match op, hd with
      | "ccontains", [px, py] => match p with
        | [c] => boolStr (Contour.contains c ⟨px, py⟩)
        | _ => "bad-op"
      | "cbounds", [] => match p with
        | [c] => rectStr ratStr (Contour.bounds c)
        | _ => "bad-op"
      | "pcontains", [px, py] => boolStr (Polygon.contains p ⟨px, py⟩)
      | "pevenodd", [px, py] => boolStr (Polygon.containsEvenOdd p ⟨px, py⟩)
      | "pbounds", [] => rectStr ratStr (Polygon.bounds p)
      | "ptransform", [a, b, c, d, e, f] => "same " ++ polyStr (Polygon.transform p ⟨a, b, c, d, e, f⟩)
      | _, _ => "bad-op"
    | _, _ => "bad-op"

def step (_ : Unit) (line : String) : Unit × String :=
  let out :=
    match words line with
    | "ri" :: op :: ws =>
      match ws.mapM String.toInt? with
      | some v => rectOp halfInt (fun (i : Int) => toString i) op v
      | none => "bad-op"
    | "rf" :: op :: ws =>
      match ws.mapM parseRat? with
      | some v => rectOp halfRat ratStr op v
      | none => "bad-op"
    | "m" :: op :: ws =>
      match ws.mapM parseRat? with
      | some v => matOp op v
      | none => "bad-op"
    | "poly" :: op :: ws => polyOp op ws
    | _ => "bad-op"
  ((), out)

end DrvC18

def main : IO Unit := Proto.run DrvC18.step ()
