import Driver.Proto
import Model.GeomExt
open Proto Geom

/-! Model driver of C18.  Numbers on the wire: Go `int` as decimal, `float64` as the exact rational `n/d` (or `n`). -/
namespace DrvC18

def parseRat? (s : String) : Option Rat :=
  match s.splitOn "/" with
  | [n] => n.toInt?.map (fun i => (i : Rat))
  | [n, d] => match n.toInt?, d.toNat? with
    | some i, some k => if k = 0 then none else some (mkRat i k)
    | _, _ => none
  | _ => none

def ratStr (q : Rat) : String := if q.den = 1 then toString q.num else toString q.num ++ "/" ++ toString q.den

def boolStr (b : Bool) : String := if b then "true" else "false"

def rectStr {α : Type} (f : α → String) (r : Rect α) : String := f r.x ++ " " ++ f r.y ++ " " ++ f r.w ++ " " ++ f r.h
def ptStr {α : Type} (f : α → String) (p : Point α) : String := f p.x ++ " " ++ f p.y
def matStr (m : Matrix Rat) : String :=
  " ".intercalate ([m.scaleX, m.skewX, m.transX, m.skewY, m.scaleY, m.transY].map ratStr)

/-- the rectangle operations, shared by both coordinate types -/
def rectOp {α : Type} [Add α] [Sub α] [LE α] [LT α] [Max α] [Min α] [OfNat α 0] [DecidableLE α] [DecidableLT α]
    (half : α → α) (f : α → String) (op : String) (v : List α) : String :=
  match v with
  | [ax, ay, aw, ah, bx, b_y, bw, bh] =>
    let a : Rect α := ⟨ax, ay, aw, ah⟩
    let b : Rect α := ⟨bx, b_y, bw, bh⟩
    match op with
    | "contains" => boolStr (a.contains b)
    | "intersects" => boolStr (a.intersects b)
    | "intersect" => rectStr f (a.intersect b)
    | "union" => rectStr f (a.union b)
    | "in" => boolStr ((⟨ax, ay⟩ : Point α).inRect b)
    | "expand" => rectStr f (a.expand ⟨bx, b_y⟩)
    | "inset" => rectStr f (a.inset ⟨bx, b_y, bw, bh⟩)
    | "misc" => boolStr a.empty ++ " " ++ f a.right ++ " " ++ f a.bottom ++ " " ++ f (a.centerX half) ++ " " ++
        f (a.centerY half) ++ " " ++ ptStr f a.topLeft ++ " " ++ ptStr f a.topRight ++ " " ++ ptStr f a.bottomRight ++
        " " ++ ptStr f a.bottomLeft
    | _ => "bad-op"
  | _ => "bad-op"

def mat? : List Rat → Option (Matrix Rat × List Rat)
  | a :: b :: c :: d :: e :: f :: rest => some (⟨a, b, c, d, e, f⟩, rest)
  | _ => none

def matOp (op : String) (v : List Rat) : String :=
  match op, v with
  | "id", [] => matStr Matrix.identity
  | "newtr", [tx, ty] => matStr (Matrix.newTranslation tx ty)
  | "newsc", [sx, sy] => matStr (Matrix.newScale sx sy)
  | "newrot", [_, s, c] => matStr (Matrix.newRotation s c)
  | _, _ =>
    match mat? v with
    | none => "bad-op"
    | some (m, rest) =>
      match op, rest with
      | "tr", [tx, ty] => matStr (m.translate tx ty)
      | "sc", [sx, sy] => matStr (m.scale sx sy)
      | "rot", [_, s, c] => matStr (m.rotate s c)
      | "tp", [px, py] => ptStr ratStr (m.transformPoint ⟨px, py⟩)
      | "mul", r2 =>
        match mat? r2 with
        | some (n, []) => matStr (m.multiply n)
        | _ => "bad-op"
      | _, _ => "bad-op"

/-- contours are separated by the word `|`; an empty contour is two adjacent separators -/
def splitBar (ws : List String) : List (List String) :=
  ws.foldr (fun w acc => if w = "|" then [] :: acc else match acc with
    | [] => [[w]]
    | c :: cs => (w :: c) :: cs) [[]]

def pts? : List Rat → Option (List (Point Rat))
  | [] => some []
  | x :: y :: t => (pts? t).map (fun l => ⟨x, y⟩ :: l)
  | _ => none

def contour? (ws : List String) : Option (Contour Rat) := (ws.mapM parseRat?).bind pts?

def contourStr (c : Contour Rat) : String := " ".intercalate (c.map (ptStr ratStr))
def polyStr (p : Polygon Rat) : String := " | ".intercalate (p.map contourStr)

/-- `Clone`: the harness reports `same` (operand untouched, no shared storage), whether the polygon and each contour
    came back as `nil` (Go's `Clone` returns nil for length 0), and the values -/
def cloneStr (p : Polygon Rat) : String :=
  "same " ++ (if p.isEmpty then "nil" else "len" ++ toString p.length) ++ " " ++
    String.ofList (p.map (fun c => if c.isEmpty then 'n' else 'v')) ++ ": " ++ polyStr p

/-- `poly <op> <head numbers> | contour | contour …` -/
def polyOp (op : String) (ws : List String) : String :=
  match splitBar ws with
  | [] => "bad-op"
  | headW :: cw =>
    match headW.mapM parseRat?, cw.mapM contour? with
    | some hd, some p =>
      match op, hd with
      | "ccontains", [px, py] => match p with
        | [c] => boolStr (Contour.contains c ⟨px, py⟩)
        | _ => "bad-op"
      | "cbounds", [] => match p with
        | [c] => rectStr ratStr (Contour.boundsSrc maxFloat64 (-maxFloat64) (fun _ _ => 0) c)
        | _ => "bad-op"
      | "pcontains", [px, py] => boolStr (Polygon.contains p ⟨px, py⟩)
      | "pevenodd", [px, py] => boolStr (Polygon.containsEvenOdd p ⟨px, py⟩)
      | "pbounds", [] => rectStr ratStr (Polygon.boundsSrc maxFloat64 (-maxFloat64) (fun _ _ => 0) p)
      | "pempty", [] => boolStr (Polygon.empty p)
      | "pclone", [] => cloneStr (Polygon.clone p)
      | "cclone", [] => match p with
        | [c] => cloneStr [Contour.clone c]
        | _ => "bad-op"
      | "ptransform", [a, b, c, d, e, f] => "same " ++ polyStr (Polygon.transform p ⟨a, b, c, d, e, f⟩)
      | _, _ => "bad-op"
    | _, _ => "bad-op"

/-- the Point / Size / Rect arithmetic, shared by both coordinate types; `dv` answers `none` where Go panics (integer
    division by zero) and `inf` prints a float quotient by zero -/
def arithOp {α : Type} [Add α] [Sub α] [Mul α] [Neg α] [LE α] [LT α] [Max α] [Min α] [OfNat α 0] [OfNat α 1]
    [DecidableLE α] [DecidableLT α] [DecidableEq α]
    (dv : α → α → α) (dz : α → α → String) (half fl cl : α → α) (f : α → String) (op : String) (v : List α) : String :=
  let ps := ptStr f
  let ss := fun (s : Size α) => f s.w ++ " " ++ f s.h
  match op, v with
  | "padd", [a, b, c, d] => ps (Point.add ⟨a, b⟩ ⟨c, d⟩)
  | "psub", [a, b, c, d] => ps (Point.sub ⟨a, b⟩ ⟨c, d⟩)
  | "pmul", [a, b, c] => ps (Point.mul ⟨a, b⟩ c)
  | "pdiv", [a, b, c] => if c = 0 then dz a b else ps (Point.divBy dv ⟨a, b⟩ c)
  | "pneg", [a, b] => ps (Point.neg ⟨a, b⟩)
  | "pdot", [a, b, c, d] => f (Point.dot ⟨a, b⟩ ⟨c, d⟩)
  | "pcross", [a, b, c, d] => f (Point.cross ⟨a, b⟩ ⟨c, d⟩)
  | "pfloor", [a, b] => ps (Point.mapBoth fl ⟨a, b⟩)
  | "pceil", [a, b] => ps (Point.mapBoth cl ⟨a, b⟩)
  | "peqw", [a, b, c, d, t] => boolStr (Point.equalWithin ⟨a, b⟩ ⟨c, d⟩ t)
  | "sadd", [a, b, c, d] => ss (Size.add ⟨a, b⟩ ⟨c, d⟩)
  | "ssub", [a, b, c, d] => ss (Size.sub ⟨a, b⟩ ⟨c, d⟩)
  | "smul", [a, b, c] => ss (Size.mul ⟨a, b⟩ c)
  | "sdiv", [a, b, c] => if c = 0 then dz a b else ss (Size.divBy dv ⟨a, b⟩ c)
  | "sfloor", [a, b] => ss (Size.mapBoth fl ⟨a, b⟩)
  | "sceil", [a, b] => ss (Size.mapBoth cl ⟨a, b⟩)
  | "smin", [a, b, c, d] => ss (Size.min ⟨a, b⟩ ⟨c, d⟩)
  | "smax", [a, b, c, d] => ss (Size.max ⟨a, b⟩ ⟨c, d⟩)
  | "shint", [a, b, c, d] => ss (Size.constrainForHint ⟨a, b⟩ ⟨c, d⟩)
  | "rcenter", [a, b, c, d] => ps (Rect.center half ⟨a, b, c, d⟩)
  | "ralign", [a, b, c, d] => rectStr f (Rect.align fl cl ⟨a, b, c, d⟩)
  | _, _ => "bad-op"

/-- IEEE quotient of an exact value by zero, as the harness prints it -/
def ratDivZero (a : Rat) : String := if a > 0 then "+inf" else if a < 0 then "-inf" else "nan"

/-- `ConvertPoint` / `ConvertSize` / `ConvertRect` between `int` and `float64`: Go's conversion truncates towards zero -/
def truncRat (q : Rat) : Int := Int.tdiv q.num q.den

/-- IEEE double on the wire: 16 hex digits; both zeros print as 0, any NaN as `nan` -/
def parseF64? (s : String) : Option Float :=
  if s.length ≠ 16 then none else (hexToNat? s).map (fun n => Float.ofBits n.toUInt64)

def f64Str (x : Float) : String :=
  if x.isNaN then "nan"
  else if x == 0 then "0000000000000000"
  else
    let h := natToHex x.toBits.toNat
    String.ofList (List.replicate (16 - h.length) '0') ++ h

def ptsF? : List Float → Option (List (Point Float))
  | [] => some []
  | x :: y :: t => (ptsF? t).map (fun l => ⟨x, y⟩ :: l)
  | _ => none

def step (_ : Unit) (line : String) : Unit × String :=
  let out :=
    match words line with
    | "ri" :: op :: ws =>
      match ws.mapM String.toInt? with
      | some v => rectOp halfInt (fun (i : Int) => toString i) op v
      | none => "bad-op"
    | "rw" :: op :: ws =>  -- Go int as it is: Int64 with wrap-around (inputs that overflow included)
      match ws.mapM String.toInt? with
      | some v => rectOp (fun (a : Int64) => a / 2) (fun (i : Int64) => toString i.toInt) op (v.map Int64.ofInt)
      | none => "bad-op"
    | "rd" :: op :: ws =>  -- float64 under rounding: the same functions at Lean's Float (IEEE double), bit patterns
      match ws.mapM parseF64? with
      | some v => rectOp (fun (a : Float) => a / 2) f64Str op v
      | none => "bad-op"
    | "rf" :: op :: ws =>
      match ws.mapM parseRat? with
      | some v => rectOp halfRat ratStr op v
      | none => "bad-op"
    | "ai" :: op :: ws =>
      match ws.mapM String.toInt? with
      | some v => arithOp divInt (fun _ _ => "panic") halfInt id id (fun (i : Int) => toString i) op v
      | none => "bad-op"
    | "aw" :: op :: ws =>  -- Go int as it is: the same arithmetic at Int64 with wrap-around
      match ws.mapM String.toInt? with
      | some v => arithOp (fun (a b : Int64) => a / b) (fun _ _ => "panic") (fun (a : Int64) => a / 2) id id
          (fun (i : Int64) => toString i.toInt) op (v.map Int64.ofInt)
      | none => "bad-op"
    | "af" :: op :: ws =>
      match ws.mapM parseRat? with
      | some v => arithOp divRat (fun a b => ratDivZero a ++ " " ++ ratDivZero b) halfRat floorRat ceilRat ratStr op v
      | none => "bad-op"
    | "cfi" :: _ :: ws =>
      match ws.mapM parseRat? with
      | some v => " ".intercalate (v.map (fun q => toString (truncRat q)))
      | none => "bad-op"
    | "cif" :: _ :: ws =>
      match ws.mapM String.toInt? with
      | some v => " ".intercalate (v.map (fun (i : Int) => ratStr (i : Rat)))
      | none => "bad-op"
    | "m" :: op :: ws =>
      match ws.mapM parseRat? with
      | some v => matOp op v
      | none => "bad-op"
    | "pd" :: op :: ws =>  -- Contour.Bounds / Polygon.Bounds under rounding: the source form at Lean's Float, the guarded
      -- branch of `extent` (Nextafter search, at most 4 widenings) included
      match (splitBar ws).mapM (fun g => (g.mapM parseF64?).bind ptsF?) with
      | some (_ :: p) =>
        let cb := Contour.boundsSrc maxF64 (-maxF64) (widenSrc nextUpF64)
        match op, p with
        | "cbounds", [c] => rectStr f64Str (cb c)
        | "pbounds", _ => rectStr f64Str (Polygon.boundsSrc maxF64 (-maxF64) (widenSrc nextUpF64) p)
        | _, _ => "bad-op"
      | _ => "bad-op"
    | "poly" :: op :: ws => polyOp op ws
    | _ => "bad-op"
  ((), out)

end DrvC18

def main : IO Unit := Proto.run DrvC18.step ()
