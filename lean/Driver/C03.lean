import Driver.Proto
import Model.Fixed
import Model.FixedFloat
open Proto Fixed

/-- outcome of a float → int64 conversion: the number, or `impl-defined` outside the domain -/
def outCv : GoSem.Cv Int → String
  | .ok v => toString v
  | .implDefined => "impl-defined"

def f64? (s : String) : Option Flt :=
  match hexToNat? s with
  | some n => if n < 2^64 then some (GoSem.F64.decode n) else none
  | none => none

def f32? (s : String) : Option Flt :=
  match hexToNat? s with
  | some n => if n < 2^32 then some (decode32 n) else none
  | none => none

def outF64 (f : Flt) : String := natToHex f.toBits
def outF32 (f : Flt) : String := natToHex (encode32 f)

/-- named types (`myuint64` …, ops `fromf64n` …) follow their underlying kind: the harness' names are mapped back -/
def kindName (s : String) : String := if s.startsWith "my" then (s.drop 2).toString else s
def opName (s : String) : String :=
  if s == "fromf64n" || s == "fromf32n" || s == "asf64n" || s == "asf32n" then (s.dropEnd 1).toString else s

/-- a token of the Fraction text ops: a raw value, or text that is not a number (`FromStringForced` gives 0) -/
def tok? (w : Int → Int) (s : String) : Option Int :=
  if s == "bad" || s == "empty" then some 0 else (parseInt? s).map w

def den? (w : Int → Int) (s : String) : Option (Option Int) :=
  if s == "none" then some none else (tok? w s).map some

/-- `none` (a Go panic) prints as `panic` -/
def outOpt : Option Int → String
  | some v => toString v
  | none => "panic"

def run64 (m : Int) (places : Nat) (op : String) (args : List String) : String :=
  match binOp? op, unOp? op, args.mapM parseInt? with
  | some o, _, some [a, b] => outOpt (F64.runBin m o (wrap64 a) (wrap64 b))
  | _, some o, some [a] => toString (F64.runUn m o (wrap64 a))
  | _, _, _ =>
    match op, args with
    | "eq", [a, b] => match parseInt? a, parseInt? b with
      | some a, some b => toString (decide (wrap64 a = wrap64 b)) | _, _ => "bad-op"
    | "lt", [a, b] => match parseInt? a, parseInt? b with
      | some a, some b => toString (decide (wrap64 a < wrap64 b)) | _, _ => "bad-op"
    | "le", [a, b] => match parseInt? a, parseInt? b with
      | some a, some b => toString (decide (wrap64 a ≤ wrap64 b)) | _, _ => "bad-op"
    | "gt", [a, b] => match parseInt? a, parseInt? b with
      | some a, some b => toString (decide (wrap64 a > wrap64 b)) | _, _ => "bad-op"
    | "ge", [a, b] => match parseInt? a, parseInt? b with
      | some a, some b => toString (decide (wrap64 a ≥ wrap64 b)) | _, _ => "bad-op"
    | "mult", [] => toString m
    | "places", [] => toString places
    | "maxsafe", [] => toString (F64.maxSafeMultiply m)
    | "from", [k, v] => match kind? (kindName k), parseInt? v with
      | some _, some v => toString (F64.fromInt m v) | _, _ => "bad-op"
    | "as", [k, a] => match kind? (kindName k), parseInt? a with
      | some k, some a => toString (F64.asInt k m (wrap64 a)) | _, _ => "bad-op"
    | "fnorm", [n, d] => match parseInt? n, parseInt? d with
      | some n, some d => let p := F64.fracNormalize m (wrap64 n) (wrap64 d); toString p.1 ++ " " ++ toString p.2
      | _, _ => "bad-op"
    | "fval", [n, d] => match parseInt? n, parseInt? d with
      | some n, some d =>
        match F64.fracValue m (wrap64 n) (wrap64 d) with
        | some v => toString v ++ " " ++ toString (wrap64 n) ++ " " ++ toString (wrap64 d)
        | none => "panic"
      | _, _ => "bad-op"
    | "maximum", [] => toString F64.maxRaw
    | "minimum", [] => toString F64.minRaw
    | "fstr", [n, d] => match parseInt? n, parseInt? d with
      | some n, some d =>
        let n := wrap64 n; let d := wrap64 d
        F64.fracString false m n d ++ " " ++ F64.fracString true m n d ++ " \"" ++ F64.fracString false m n d ++ "\" "
          ++ toString n ++ " " ++ toString d
      | _, _ => "bad-op"
    | "fnew", [_, n, d] => match tok? wrap64 n, den? wrap64 d with
      | some n, some d =>
        let f := F64.fracNew m n d
        let p := F64.fracNormalize m f.1 f.2
        toString f.1 ++ " " ++ toString f.2 ++ " | " ++ toString p.1 ++ " " ++ toString p.2 ++ " | "
          ++ outOpt (F64.fracValue m f.1 f.2)
      | _, _ => "bad-op"
    | "fjson", [_, n, d] => match tok? wrap64 n, den? wrap64 d with
      | some n, some d =>
        let f := F64.fracNew m n d
        let p := F64.fracNormalize m f.1 f.2
        "ok " ++ toString p.1 ++ " " ++ toString p.2
      | _, _ => "bad-op"
    | "fjsonbad", [] => "err 7 9"
    | "fromf64", [x] => match f64? x with
      | some x => outCv (F64.fromFloat m x) | none => "bad-op"
    | "fromf32", [x] => match f32? x with
      | some x => outCv (F64.fromFloat32 m x) | none => "bad-op"
    | "asf64", [a] => match parseInt? a with
      | some a => outF64 (F64.asFloat m (wrap64 a)) | none => "bad-op"
    | "asf32", [a] => match parseInt? a with
      | some a => outF32 (F64.asFloat32 m (wrap64 a)) | none => "bad-op"
    | _, _ => "bad-op"

def run128 (m : Int) (places : Nat) (op : String) (args : List String) : String :=
  match binOp? op, unOp? op, args.mapM parseInt? with
  | some o, _, some [a, b] => outOpt (F128.runBin m o (wrap128 a) (wrap128 b))
  | _, some o, some [a] => toString (F128.runUn m o (wrap128 a))
  | _, _, _ =>
    match op, args with
    | "neg", [a] => match parseInt? a with
      | some a => toString (F128.neg (wrap128 a)) | _ => "bad-op"
    | "cmp", [a, b] => match parseInt? a, parseInt? b with
      | some a, some b => toString (F128.cmp (wrap128 a) (wrap128 b)) | _, _ => "bad-op"
    | "eq", [a, b] => match parseInt? a, parseInt? b with
      | some a, some b => toString (F128.eq (wrap128 a) (wrap128 b)) | _, _ => "bad-op"
    | "lt", [a, b] => match parseInt? a, parseInt? b with
      | some a, some b => toString (F128.lt (wrap128 a) (wrap128 b)) | _, _ => "bad-op"
    | "le", [a, b] => match parseInt? a, parseInt? b with
      | some a, some b => toString (F128.le (wrap128 a) (wrap128 b)) | _, _ => "bad-op"
    | "gt", [a, b] => match parseInt? a, parseInt? b with
      | some a, some b => toString (F128.gt (wrap128 a) (wrap128 b)) | _, _ => "bad-op"
    | "ge", [a, b] => match parseInt? a, parseInt? b with
      | some a, some b => toString (F128.ge (wrap128 a) (wrap128 b)) | _, _ => "bad-op"
    | "mult", [] => toString m
    | "places", [] => toString places
    | "maxsafe", [] => outOpt (F128.maxSafeMultiply m)
    | "maximum", [] => toString F128.maxRaw
    | "minimum", [] => toString F128.minRaw
    | "from", [k, v] => match kind? (kindName k), parseInt? v with
      | some k, some v => toString (F128.fromInt k m v) | _, _ => "bad-op"
    | "as", [k, a] => match kind? (kindName k), parseInt? a with
      | some k, some a => toString (F128.asInt k m (wrap128 a)) | _, _ => "bad-op"
    | "fnorm", [n, d] => match parseInt? n, parseInt? d with
      | some n, some d => let p := F128.fracNormalize m (wrap128 n) (wrap128 d); toString p.1 ++ " " ++ toString p.2
      | _, _ => "bad-op"
    | "fval", [n, d] => match parseInt? n, parseInt? d with
      | some n, some d =>
        match F128.fracValue m (wrap128 n) (wrap128 d) with
        | some v => toString v ++ " " ++ toString (wrap128 n) ++ " " ++ toString (wrap128 d)
        | none => "panic"
      | _, _ => "bad-op"
    | "fstr", [n, d] => match parseInt? n, parseInt? d with
      | some n, some d =>
        let n := wrap128 n; let d := wrap128 d
        F128.fracString false m n d ++ " " ++ F128.fracString true m n d ++ " \"" ++ F128.fracString false m n d ++ "\" "
          ++ toString n ++ " " ++ toString d
      | _, _ => "bad-op"
    | "fnew", [_, n, d] => match tok? wrap128 n, den? wrap128 d with
      | some n, some d =>
        let f := F128.fracNew m n d
        let p := F128.fracNormalize m f.1 f.2
        toString f.1 ++ " " ++ toString f.2 ++ " | " ++ toString p.1 ++ " " ++ toString p.2 ++ " | "
          ++ outOpt (F128.fracValue m f.1 f.2)
      | _, _ => "bad-op"
    | "fjson", [_, n, d] => match tok? wrap128 n, den? wrap128 d with
      | some n, some d =>
        let f := F128.fracNew m n d
        let p := F128.fracNormalize m f.1 f.2
        "ok " ++ toString p.1 ++ " " ++ toString p.2
      | _, _ => "bad-op"
    | "fjsonbad", [] => "err 7 9"
    | "fromf64", [x] => match f64? x with
      | some x => outOpt (F128.fromFloat m places x) | none => "bad-op"
    | "fromf32", [x] => match f32? x with
      | some x => outOpt (F128.fromFloat m places x) | none => "bad-op"
    | "asf64", [a] => match parseInt? a with
      | some a => outF64 (F128.asFloat m (wrap128 a)) | none => "bad-op"
    | "asf32", [a] => match parseInt? a with
      | some a => outF32 (F128.asFloat32 m (wrap128 a)) | none => "bad-op"
    | _, _ => "bad-op"

def step (_ : Unit) (line : String) : Unit × String :=
  let out :=
    match words line with
    | ty :: k :: op :: args =>
      match k.toNat? with
      | none => "bad-op"
      | some k =>
        match mult? k, places? k with
        | some m, some p =>
          if ty == "f64" then run64 m p (opName op) args
          else if ty == "f128" then run128 m p (opName op) args
          else "bad-op"
        | _, _ => "bad-op"
    | _ => "bad-op"
  ((), out)

def main : IO Unit := Proto.run step ()
