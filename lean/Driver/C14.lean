import Driver.Proto
import Model.SafeFile
open Proto Safe

/-! Model driver for C14.  Paths: 0 = destination, 1 = temporary file.  The buffer size of `bufio.NewWriterSize` comes
    from the environment (`C14_BUFSIZE`, read from the Go source by the check), default 65536. -/

def dstP : Path := 0
def tmpP : Path := 1
def dirFlag : Nat := 2147483648
/-- the destination path is a symbolic link to a file / to nothing (the model sees what a reader of the path sees;
    `rename` replaces the link itself, so the marker disappears with the first successful commit) -/
def linkFlag : Nat := 4294967296
def dangFlag : Nat := 8589934592

def genBytes (off n seed : Nat) : Bytes := (List.range n).map (fun i => ((off + i) * 31 + seed) % 251)

def fnv (l : Bytes) : UInt64 :=
  l.foldl (fun (h : UInt64) b => (h ^^^ b.toUInt64) * 1099511628211) 14695981039346656037

def octDigits (n : Nat) : List Char :=
  if h : n < 8 then [Char.ofNat (48 + n)] else octDigits (n / 8) ++ [Char.ofNat (48 + n % 8)]
termination_by n
decreasing_by omega

def toOct (n : Nat) : String := String.ofList (octDigits n)

def parseOct? (s : String) : Option Nat :=
  if s.isEmpty then none else
  s.toList.foldl (fun acc c => match acc with
    | some a => if '0' ≤ c ∧ c ≤ '7' then some (a * 8 + (c.toNat - 48)) else none
    | none => none) (some 0)

def showState : Option FileData → String
  | none => "absent"
  | some d =>
    if d.mode ≥ dangFlag then "absent@"
    else if d.mode ≥ linkFlag then s!"{d.content.length}:{natToHex (fnv d.content).toNat}:{toOct (d.mode - linkFlag)}@"
    else if d.mode ≥ dirFlag then "dir"
    else s!"{d.content.length}:{natToHex (fnv d.content).toNat}:{toOct d.mode}"

/-- "-" | sizes separated by ",", "AxB" = B pieces of size A -/
def parsePieces? (s : String) : Option (List Nat) :=
  if s = "-" then some [] else
  (s.splitOn ",").foldl (fun acc w => match acc with
    | none => none
    | some l => match w.splitOn "x" with
      | [a] => a.toNat?.map (fun n => l ++ [n])
      | [a, b] => match a.toNat?, b.toNat? with
        | some x, some y => some (l ++ List.replicate y x)
        | _, _ => none
      | _ => none) (some [])

/-- cut the new content (seed 3) into pieces of the given sizes -/
def mkPieces (sizes : List Nat) : List Bytes :=
  (sizes.foldl (fun (acc : Nat × List Bytes) n => (acc.1 + n, genBytes acc.1 n 3 :: acc.2)) (0, [])).2.reverse

def parseOld? (s : String) : Option (Option FileData) :=
  if s = "absent" then some none
  else if s = "dir" then some (some ⟨[], dirFlag⟩)
  else if s = "dangling" then some (some ⟨[], dangFlag⟩)
  else match s.splitOn ":" with
    | ["file", n, m] => match n.toNat?, parseOct? m with
      | some n, some m => some (some ⟨genBytes 0 n 7, m⟩)
      | _, _ => none
    | ["link", n, m] => match n.toNat?, parseOct? m with
      | some n, some m => some (some ⟨genBytes 0 n 7, m + linkFlag⟩)
      | _, _ => none
    | _ => none

/-- fault and the error name to echo -/
def parseFault? (s : String) : Option (Fault × String) :=
  match s.splitOn ":" with
  | ["none"] => some (.none, "")
  | ["cb", j] => j.toNat?.map (fun j => (.callback j, ""))
  | ["panic", j] => j.toNat?.map (fun j => (.panic j, ""))
  | ["write", k, e] => k.toNat?.map (fun k => (.write k, e))
  | ["close", e] => some (.close, e)
  | ["rename", e] => some (.rename, e)
  | _ => none

def parseCb? (s : String) : Option CbMode :=
  match s with
  | "p" => some .propagate
  | "s" => some .swallowStop
  | "k" => some .swallowKeep
  | _ => none

def showRes (r : Res) (e : String) : String :=
  match r with
  | .ok => "ok" | .invalid => "invalid" | .closed => "closed" | .cb => "cb" | .errno => "errno:" ++ e | .panic => "panic"

def pname (p : Path) : String := if p = dstP then "dst" else if p = tmpP then "tmp" else "other"

def showAct (e : String) : Act → String
  | .createExcl p m => s!"create {pname p} {toOct m}"
  | .write p c => s!"write {pname p} {c.length}"
  | .writeFail p n => s!"write {pname p} {n}!{e}"
  | .close p => s!"close {pname p}"
  | .closeFail p => s!"close {pname p}!{e}"
  | .rename a b => s!"rename {pname a} {pname b}"
  | .renameFail a b => s!"rename {pname a} {pname b}!{e}"
  | .unlink p => s!"unlink {pname p}"

def showSeq (e : String) (acts : List Act) : String :=
  if acts.isEmpty then "-" else ";".intercalate (acts.map (showAct e))

def actKind : Act → String
  | .createExcl _ _ => "open"
  | .write _ _ | .writeFail _ _ => "write"
  | .close _ | .closeFail _ => "close"
  | .rename _ _ | .renameFail _ _ => "rename"
  | .unlink _ => "unlink"

/-- number of actions before the `j`-th (1-based) action of the given kind; all of them if there is no such action -/
def killIndex (acts : List Act) (kind : String) (j : Nat) : Nat :=
  let rec go : List Act → Nat → Nat → Nat
    | [], i, _ => i
    | a :: as, i, seen =>
      if actKind a = kind then (if seen + 1 = j then i else go as (i + 1) (seen + 1)) else go as (i + 1) seen
  go acts 0 0

def fs0 (old : Option FileData) : FS := fun p => if p = dstP then old else none

/-- what a concurrent reader can see: the destination after every prefix of the actions.  Only actions that name the
    destination among their `targets` can change it (`Safe.apply_untouched`), so it is re-examined after those only. -/
def readerOk (umask : Nat) (old : Option FileData) (new : FileData) (acts : List Act) : Bool :=
  let ok (fs : FS) : Bool := fs dstP = old ∨ fs dstP = some new
  let rec go : FS → List Act → Bool
    | _, [] => true
    | fs, a :: as =>
      let fs' := applyAct umask fs a
      (if (targets a).contains dstP then ok fs' else true) && go fs' as
  ok (fs0 old) && go (fs0 old) acts

/-- size of the temporary file after each piece handed to bufio, as the callback sees it after every `Write` that
    returned nil: change points `i:size`.  `upto`: pieces handed over; `failAt`: index of the failing `write(2)`. -/
def midPoints (N : Nat) (pieces : List Bytes) (upto : Nat) (failAt : Option Nat) : String :=
  let rec go : List Bytes → Bytes → Nat → Nat → Nat → Nat → List String → List String
    | [], _, _, _, _, _, acc => acc.reverse
    | p :: ps, buf, i, total, nchunks, fuel, acc =>
      match fuel with
      | 0 => acc.reverse
      | fuel + 1 =>
        let r := bufWrite N buf p
        let hit := match failAt with
          | some k => decide (k < nchunks + r.1.length)
          | none => false
        if hit then acc.reverse                       -- this Write and all later ones return the sticky error
        else
          let t := total + (r.1.map List.length).sum
          go ps r.2 (i + 1) t (nchunks + r.1.length) fuel (if t ≠ total then s!"{i}:{t}" :: acc else acc)
  let l := go pieces [] 0 0 0 upto []
  if l.isEmpty then "-" else ",".intercalate l

structure St where
  N : Nat := 65536
  umask : Nat := 0
  fs : FS := fun _ => none
  file : Option File := none
  off : Nat := 0
  live : Bool := false

def scenario (N : Nat) (kind : String) (mode : Nat) (pieces : List Bytes) (cb : CbMode) (fault : Fault) :
    Option (Res × List Act) :=
  match kind with
  | "wf" => some (writeFile tmpP dstP N mode pieces cb fault)
  | "commit" => some (fileRun tmpP dstP mode pieces true fault)
  | "abort" => some (fileRun tmpP dstP mode pieces false fault)
  | _ => none

def apiObs (st : St) (r : String) : String := s!"{r} dst={showState (st.fs dstP)} tmp={showState (st.fs tmpP)}"

def step (st : St) (line : String) : St × String :=
  match words line with
  | ["wf", old, um, mode, pcs, fault, cbm] =>
    match parseOld? old, parseOct? um, parseOct? mode, parsePieces? pcs, parseFault? fault, parseCb? cbm with
    | some old, some um, some mode, some sizes, some (f, e), some cb =>
      let pieces := mkPieces sizes
      let r := writeFile tmpP dstP st.N mode pieces cb f
      let fs := run um (fs0 old) r.2
      let extra := if (fs tmpP).isSome then 1 else 0
      let upto := match f with
        | .callback j => j
        | .panic j => j
        | _ => pieces.length
      (st, s!"res={showRes r.1 e} dst={showState (fs dstP)} extra={extra} mid={midPoints st.N pieces upto f.writeAt} reader={if readerOk um old (newFile mode um pieces) r.2 then "ok" else "BAD"}")
    | _, _, _, _, _, _ => (st, "bad-op")
  | ["trace", old, um, mode, kind, pcs, fault, cbm] =>
    match parseOld? old, parseOct? um, parseOct? mode, parsePieces? pcs, parseFault? fault, parseCb? cbm with
    | some old, some um, some mode, some sizes, some (f, e), some cb =>
      let pieces := mkPieces sizes
      match scenario st.N kind mode pieces cb f with
      | some r =>
        let fs := run um (fs0 old) r.2
        (st, s!"seq={showSeq e r.2} res={showRes r.1 e} dst={showState (fs dstP)} tmp={showState (fs tmpP)} reader={if readerOk um old (newFile mode um pieces) r.2 then "ok" else "BAD"}")
      | none => (st, "bad-op")
    | _, _, _, _, _, _ => (st, "bad-op")
  | ["kill", old, um, mode, kind, pcs, fault, cbm, name, j] =>
    match parseOld? old, parseOct? um, parseOct? mode, parsePieces? pcs, parseFault? fault, parseCb? cbm, j.toNat? with
    | some old, some um, some mode, some sizes, some (f, e), some cb, some j =>
      let pieces := mkPieces sizes
      match scenario st.N kind mode pieces cb f with
      | some r =>
        let acts := r.2.take (killIndex r.2 name j)
        let fs := run um (fs0 old) acts
        (st, s!"seq={showSeq e acts} dst={showState (fs dstP)} tmp={showState (fs tmpP)} reader={if readerOk um old (newFile mode um pieces) acts then "ok" else "BAD"}")
      | none => (st, "bad-op")
    | _, _, _, _, _, _, _ => (st, "bad-op")
  | ["reset", old, um] =>
    match parseOld? old, parseOct? um with
    | some old, some um => ({ st with umask := um, fs := fs0 old, file := none, off := 0, live := true }, "reset")
    | _, _ => (st, "bad-op")
  | ["create", mode] =>
    match parseOct? mode, st.live, st.file with
    | some mode, true, none =>
      let r := File.create tmpP dstP mode
      let st' := { st with file := some r.1, fs := run st.umask st.fs r.2 }
      (st', apiObs st' "ok")
    | _, _, _ => (st, "bad-op")
  | ["write", n] =>
    match n.toNat?, st.file with
    | some n, some f =>
      let r := f.step (.write (genBytes st.off n 3) false)
      let st' := { st with file := some r.1, fs := run st.umask st.fs r.2.2, off := if r.2.1 = .ok then st.off + n else st.off }
      (st', apiObs st' (showRes r.2.1 ""))
    | _, _ => (st, "bad-op")
  | [op] =>
    match st.file, (match op with | "commit" => some (Op.commit false false) | "close" => some (Op.close false) | "closefd" => some Op.closeFd | _ => none) with
    | some f, some o =>
      -- environment: renaming a file onto a directory fails
      let dstIsDir := match st.fs dstP with
        | some d => decide (d.mode ≥ dirFlag ∧ d.mode < linkFlag)
        | none => false
      let r := f.step (match o with
        | .commit a _ => .commit a dstIsDir
        | o => o)
      let st' := { st with file := some r.1, fs := run st.umask st.fs r.2.2 }
      (st', apiObs st' (showRes r.2.1 "DIR"))
    | _, _ => (st, "bad-op")
  | _ => (st, "bad-op")

def main : IO Unit := do
  let n := (← IO.getEnv "C14_BUFSIZE").bind String.toNat?
  Proto.run step { N := match n with | some (k + 1) => k + 1 | _ => 65536 }
