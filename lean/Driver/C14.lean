import Driver.Proto
import Model.SafeFile
import Model.SafeFileHist
import Model.SafeFileKinds
open Proto Safe

/-! Model driver for C14.  Paths: 0 = destination, 1 = temporary file.  The buffer size of `bufio.NewWriterSize` comes
    from the environment (`C14_BUFSIZE`, read from the Go source by the check), default 65536. -/

def dstP : Path := 0
def tmpP : Path := 1
def dirFlag : Nat := 2147483648
/-- the destination path is a symbolic link to a file / to nothing (the model sees what a reader of the path sees;
    `rename` replaces the link itself, so the marker disappears with the first successful commit) -/
def linkFlag : Nat := 4294967296
def dangFlag : Nat := 8589934592

def genBytes (off n seed : Nat) : Bytes := (List.range n).map (fun i => ((off + i) * 31 + seed) % 251)

def fnv (l : Bytes) : UInt64 :=
  l.foldl (fun (h : UInt64) b => (h ^^^ b.toUInt64) * 1099511628211) 14695981039346656037

def octDigits (n : Nat) : List Char :=
  if h : n < 8 then [Char.ofNat (48 + n)] else octDigits (n / 8) ++ [Char.ofNat (48 + n % 8)]
termination_by n
decreasing_by omega

def toOct (n : Nat) : String := String.ofList (octDigits n)

def parseOct? (s : String) : Option Nat :=
  if s.isEmpty then none else
  s.toList.foldl (fun acc c => match acc with
    | some a => if '0' ≤ c ∧ c ≤ '7' then some (a * 8 + (c.toNat - 48)) else none
    | none => none) (some 0)

def showState : Option FileData → String
  | none => "absent"
  | some d =>
    if d.mode ≥ dangFlag then "absent@"
    else if d.mode ≥ linkFlag then s!"{d.content.length}:{natToHex (fnv d.content).toNat}:{toOct (d.mode - linkFlag)}@"
    else if d.mode ≥ dirFlag then "dir"
    else s!"{d.content.length}:{natToHex (fnv d.content).toNat}:{toOct d.mode}"

/-- "-" | sizes separated by ",", "AxB" = B pieces of size A -/
def parsePieces? (s : String) : Option (List Nat) :=
  if s = "-" then some [] else
  (s.splitOn ",").foldl (fun acc w => match acc with
    | none => none
    | some l => match w.splitOn "x" with
      | [a] => a.toNat?.map (fun n => l ++ [n])
      | [a, b] => match a.toNat?, b.toNat? with
        | some x, some y => some (l ++ List.replicate y x)
        | _, _ => none
      | _ => none) (some [])

/-- cut the new content (seed 3) into pieces of the given sizes -/
def mkPieces (sizes : List Nat) : List Bytes :=
  (sizes.foldl (fun (acc : Nat × List Bytes) n => (acc.1 + n, genBytes acc.1 n 3 :: acc.2)) (0, [])).2.reverse

def parseOld? (s : String) : Option (Option FileData) :=
  if s = "absent" then some none
  else if s = "dir" then some (some ⟨[], dirFlag⟩)
  else if s = "dangling" then some (some ⟨[], dangFlag⟩)
  else match s.splitOn ":" with
    | ["file", n, m] => match n.toNat?, parseOct? m with
      | some n, some m => some (some ⟨genBytes 0 n 7, m⟩)
      | _, _ => none
    | ["link", n, m] => match n.toNat?, parseOct? m with
      | some n, some m => some (some ⟨genBytes 0 n 7, m + linkFlag⟩)
      | _, _ => none
    | _ => none

/-- fault and the error name to echo -/
def parseFault? (s : String) : Option (Fault × String) :=
  match s.splitOn ":" with
  | ["none"] => some (.none, "")
  | ["cb", j] => j.toNat?.map (fun j => (.callback j, ""))
  | ["panic", j] => j.toNat?.map (fun j => (.panic j, ""))
  | ["write", k, e] => k.toNat?.map (fun k => (.write k, e))
  | ["close", e] => some (.close, e)
  | ["rename", e] => some (.rename, e)
  | _ => none

def parseCb? (s : String) : Option CbMode :=
  match s with
  | "p" => some .propagate
  | "s" => some .swallowStop
  | "k" => some .swallowKeep
  | _ => none

def showRes (r : Res) (e : String) : String :=
  match r with
  | .ok => "ok" | .invalid => "invalid" | .closed => "closed" | .cb => "cb" | .errno => "errno:" ++ e | .panic => "panic"

def pname (p : Path) : String := if p = dstP then "dst" else if p = tmpP then "tmp" else "other"

def showAct (e : String) : Act → String
  | .createExcl p m => s!"create {pname p} {toOct m}"
  | .write p c => s!"write {pname p} {c.length}"
  | .writeFail p n => s!"write {pname p} {n}!{e}"
  | .close p => s!"close {pname p}"
  | .closeFail p => s!"close {pname p}!{e}"
  | .rename a b => s!"rename {pname a} {pname b}"
  | .renameFail a b => s!"rename {pname a} {pname b}!{e}"
  | .unlink p => s!"unlink {pname p}"

def showSeq (e : String) (acts : List Act) : String :=
  if acts.isEmpty then "-" else ";".intercalate (acts.map (showAct e))

def actKind : Act → String
  | .createExcl _ _ => "open"
  | .write _ _ | .writeFail _ _ => "write"
  | .close _ | .closeFail _ => "close"
  | .rename _ _ | .renameFail _ _ => "rename"
  | .unlink _ => "unlink"

/-- number of actions before the `j`-th (1-based) action of the given kind; all of them if there is no such action -/
def killIndex (acts : List Act) (kind : String) (j : Nat) : Nat :=
  let rec go : List Act → Nat → Nat → Nat
    | [], i, _ => i
    | a :: as, i, seen =>
      if actKind a = kind then (if seen + 1 = j then i else go as (i + 1) (seen + 1)) else go as (i + 1) seen
  go acts 0 0

def fs0 (old : Option FileData) : FS := fun p => if p = dstP then old else none

/-- what a concurrent reader can see: the destination after every prefix of the actions.  Only actions that name the
    destination among their `targets` can change it (`Safe.apply_untouched`), so it is re-examined after those only. -/
def readerOk (umask : Nat) (old : Option FileData) (new : FileData) (acts : List Act) : Bool :=
  let ok (fs : FS) : Bool := fs dstP = old ∨ fs dstP = some new
  let rec go : FS → List Act → Bool
    | _, [] => true
    | fs, a :: as =>
      let fs' := applyAct umask fs a
      (if (targets a).contains dstP then ok fs' else true) && go fs' as
  ok (fs0 old) && go (fs0 old) acts

/-- size of the temporary file after each piece handed to bufio, as the callback sees it after every `Write` that
    returned nil: change points `i:size`.  `upto`: pieces handed over; `failAt`: index of the failing `write(2)`. -/
def midPoints (N : Nat) (pieces : List Bytes) (upto : Nat) (failAt : Option Nat) : String :=
  let rec go : List Bytes → Bytes → Nat → Nat → Nat → Nat → List String → List String
    | [], _, _, _, _, _, acc => acc.reverse
    | p :: ps, buf, i, total, nchunks, fuel, acc =>
      match fuel with
      | 0 => acc.reverse
      | fuel + 1 =>
        let r := bufWrite N buf p
        let hit := match failAt with
          | some k => decide (k < nchunks + r.1.length)
          | none => false
        if hit then acc.reverse                       -- this Write and all later ones return the sticky error
        else
          let t := total + (r.1.map List.length).sum
          go ps r.2 (i + 1) t (nchunks + r.1.length) fuel (if t ≠ total then s!"{i}:{t}" :: acc else acc)
  let l := go pieces [] 0 0 0 upto []
  if l.isEmpty then "-" else ",".intercalate l


/-! ### the complete model (`writeFileFull` / `fileRunFull`): real path names, the loop of CreateTemp, a failing unlink -/

def dstS : Str := "/d/dst".toList
def dstQ : Path := codeStr dstS
def tmpdirS : Str := "/tmp".toList

structure FaultSpec where
  fault : Fault := .none
  e : String := ""
  ofaults : Nat → Option OpenFault := fun _ => none

/-- the faults of `parseFault?` plus `exist:<k>` (the first k `openat`s of CreateTemp fail with EEXIST) and `open:<ERR>`
    (the first one fails with another error) -/
def parseFault2? (s : String) : Option FaultSpec :=
  match s.splitOn ":" with
  | ["exist", k] => k.toNat?.map fun k => { ofaults := fun i => if i < k then some .exist else none }
  | ["open", e] => some { e := e, ofaults := fun i => if i = 0 then some .other else none }
  | _ => (parseFault? s).map fun fe => { fault := fe.1, e := fe.2 }

/-- callback mode, optionally followed by `+u:<ERR>`: the unlink of the cleanup path fails -/
def parseCb2? (s : String) : Option (CbMode × Bool × String) :=
  match s.splitOn "+u:" with
  | [c] => (parseCb? c).map fun m => (m, false, "")
  | [c, eu] => (parseCb? c).map fun m => (m, true, eu)
  | _ => none

def showRes2 (r : Res2) (e : String) : String :=
  match r with
  | .res r => showRes r e
  | .invalid => "invalid"
  | .sep => "sep"
  | .exist => "exist"
  | .openErr => "errno:" ++ e

def showActP (pn : Path → String) (e : String) : Act → String
  | .createExcl p m => s!"create {pn p} {toOct m}"
  | .write p c => s!"write {pn p} {c.length}"
  | .writeFail p n => s!"write {pn p} {n}!{e}"
  | .close p => s!"close {pn p}"
  | .closeFail p => s!"close {pn p}!{e}"
  | .rename a b => s!"rename {pn a} {pn b}"
  | .renameFail a b => s!"rename {pn a} {pn b}!{e}"
  | .unlink p => s!"unlink {pn p}"

def isExistFail : Act2 → Bool
  | .openFail _ _ true => true
  | _ => false

/-- canonical text of a sequence: a run of EEXIST failures is written once with its length (every attempt has another
    random name) -/
def showSeq2 (dq : Path) (e eu : String) (acts : List Act2) : String :=
  let pn : Path → String := fun p => if p = dq then "dst" else "tmp"
  let k := (acts.takeWhile isExistFail).length
  let rest := acts.dropWhile isExistFail
  let head := match acts.head? with
    | some (.openFail _ m true) => [s!"create tmp* {toOct m}!EEXIST x{k}"]
    | _ => []
  let body := rest.map fun a => match a with
    | .base a => showActP pn e a
    | .openFail p m _ => s!"create {pn p} {toOct m}!{e}"
    | .unlinkFail p => s!"unlink {pn p}!{eu}"
  if acts.isEmpty then "-" else ";".intercalate (head ++ body)

def actKind2 : Act2 → String
  | .base a => actKind a
  | .openFail _ _ _ => "open"
  | .unlinkFail _ => "unlink"

def killIndex2 (acts : List Act2) (kind : String) (j : Nat) : Nat :=
  let rec go : List Act2 → Nat → Nat → Nat
    | [], i, _ => i
    | a :: as, i, seen =>
      if actKind2 a = kind then (if seen + 1 = j then i else go as (i + 1) (seen + 1)) else go as (i + 1) seen
  go acts 0 0

/-- the path the run created exclusively (the temporary file), if any -/
def tmpOf (acts : List Act2) : Option Path :=
  acts.findSome? fun a => match a with
    | .base (.createExcl p _) => some p
    | _ => none

def showTmp (fs : FS) (acts : List Act2) : String :=
  match tmpOf acts with
  | some p => showState (fs p)
  | none => "absent"

def fsQ (dq : Path) (old : Option FileData) : FS := fun p => if p = dq then old else none

def readerOk2 (umask : Nat) (dq : Path) (fs0 : FS) (new : FileData) (acts : List Act2) : Bool :=
  let old := fs0 dq
  let ok (fs : FS) : Bool := fs dq = old ∨ fs dq = some new
  let rec go : FS → List Act2 → Bool
    | _, [] => true
    | fs, a :: as =>
      let fs' := applyAct2 umask fs a
      (match a with
        | .base b => if (targets b).contains dq then ok fs' else true
        | _ => true) && go fs' as
  ok fs0 && go fs0 acts

def scenario2 (N : Nat) (kind : String) (filename : Str) (mode : Nat) (pieces : List Bytes) (cb : CbMode) (sp : FaultSpec)
    (rands : Nat → Nat) (unlinkFails : Bool) (fs : FS) : Option (Res2 × List Act2) :=
  match kind with
  | "wf" => some (writeFileFull codeStr tmpdirS filename N mode pieces cb sp.fault rands sp.ofaults unlinkFails fs)
  | "commit" => some (fileRunFull codeStr tmpdirS filename mode pieces true sp.fault rands sp.ofaults unlinkFails fs)
  | "abort" => some (fileRunFull codeStr tmpdirS filename mode pieces false sp.fault rands sp.ofaults unlinkFails fs)
  | _ => none

/-! ### destination names (`dest`): a small directory tree with look-alikes of temporary names -/

def str (s : String) : Str := s.toList
def hexStr? (s : String) : Option Str := (hexBytes? s).map fun l => l.map Char.ofNat
def strHex (s : Str) : String := bytesHex (s.map Char.toNat)

def lookalikes : List (String × FileData) :=
  [("/r/a/b/safe1.db", ⟨genBytes 0 10 7, 0o600⟩), ("/r/a/b/safe123", ⟨genBytes 0 20 7, 0o644⟩),
   ("/r/a/b/safe", ⟨genBytes 0 5 7, 0o644⟩), ("/r/a/b/x.txt", ⟨genBytes 0 30 7, 0o640⟩),
   ("/r/a/safe7", ⟨genBytes 0 7 7, 0o644⟩)]

def treeDirs : List String := ["/", "/r", "/r/a", "/r/a/b", "/r/a/b/sub"]

def treeFS : FS := fun p =>
  match (lookalikes.find? fun x => codeStr (str x.1) = p) with
  | some x => some x.2
  | none => if treeDirs.any (fun d => codeStr (str d) = p) then some ⟨[], dirFlag⟩ else none

def isDirEntry (fs : FS) (p : Str) : Bool :=
  match fs (codeStr p) with
  | some d => decide (d.mode ≥ dirFlag ∧ d.mode < linkFlag)
  | none => false

/-- why an `openat` in directory `d` fails, if it does: a missing directory (ENOENT) or a file where a directory is
    needed (ENOTDIR) — looked up at the nearest existing ancestor -/
def openErrOf (fs : FS) (d : Str) : Option String :=
  if isDirEntry fs d then none else
  let rec up : Nat → Str → String
    | 0, _ => "ENOENT"
    | n + 1, x =>
      match fs (codeStr x) with
      | some _ => if isDirEntry fs x then "ENOENT" else "ENOTDIR"
      | none => up n (dirOf x)
  some (up 64 d)

/-! ### histories with a fault on any system call (`hist`, `hkill`) and several faults in one WriteFile (`multi`) -/

inductive Tok | w (n : Nat) | C | X | F

def parseTok? (s : String) : Option Tok :=
  match s with
  | "C" => some .C
  | "X" => some .X
  | "F" => some .F
  | _ => if s.startsWith "w" then (s.drop 1).toNat?.map Tok.w else none

def parseToks? (s : String) : Option (List Tok) :=
  (s.splitOn ".").foldr (fun w acc => match parseTok? w, acc with
    | some t, some l => some (t :: l)
    | _, _ => none) (some [])

/-- for each system call name: the 1-based index of the call that fails (0: none) and the errno to echo -/
structure HFaults where
  o : Nat := 0
  w : Nat := 0
  c : Nat := 0
  r : Nat := 0
  u : Nat := 0
  eo : String := ""
  ew : String := ""
  ec : String := ""
  er : String := ""
  eu : String := ""

def parseHFaults? (s : String) : Option HFaults :=
  if s = "-" then some {} else
  (s.splitOn ",").foldl (fun acc w => match acc, w.splitOn ":" with
    | some h, [k, j, e] => match j.toNat? with
      | some j => match k with
        | "open" => some { h with o := j, eo := e }
        | "write" => some { h with w := j, ew := e }
        | "close" => some { h with c := j, ec := e }
        | "rename" => some { h with r := j, er := e }
        | "unlink" => some { h with u := j, eu := e }
        | _ => none
      | none => none
    | _, _ => none) (some {})

def countKind (k : String) (acts : List Act2) : Nat := (acts.filter fun a => actKind2 a == k).length

/-- turn "the j-th call of this name fails" into the Booleans of `OpU`: the flags of a call say whether the NEXT system
    call of each name is the failing one; the counters advance by what the model's call actually issues -/
def assignOps (hf : HFaults) : File → Nat → Nat × Nat × Nat × Nat → List Tok → List OpU
  | _, _, _, [] => []
  | f, off, (nw, nc, nr, nu), t :: ts =>
    let o : OpU := match t with
      | .w n => .write (genBytes off n 3) (nw + 1 = hf.w)
      | .C => .commit (nc + 1 = hf.c) (nr + 1 = hf.r) (nu + 1 = hf.u)
      | .X => .close (nc + 1 = hf.c) (nu + 1 = hf.u)
      | .F => .closeFd (nc + 1 = hf.c)
    let r := f.stepU o
    let off' := match t with
      | .w n => if r.2.1 = .ok then off + n else off
      | _ => off
    o :: assignOps hf r.1 off' (nw + countKind "write" r.2.2, nc + countKind "close" r.2.2, nr + countKind "rename" r.2.2,
      nu + countKind "unlink" r.2.2) ts

def showActH (pn : Path → String) (hf : HFaults) : Act2 → String
  | .base (.writeFail p n) => s!"write {pn p} {n}!{hf.ew}"
  | .base (.closeFail p) => s!"close {pn p}!{hf.ec}"
  | .base (.renameFail a b) => s!"rename {pn a} {pn b}!{hf.er}"
  | .base a => showActP pn "" a
  | .openFail p m _ => s!"create {pn p} {toOct m}!{hf.eo}"
  | .unlinkFail p => s!"unlink {pn p}!{hf.eu}"

def showSeqH (dq : Path) (hf : HFaults) (acts : List Act2) : String :=
  let pn : Path → String := fun p => if p = dq then "dst" else "tmp"
  if acts.isEmpty then "-" else ";".intercalate (acts.map (showActH pn hf))

/-- the errno a call reports: of the first failing system call it issued, as `Commit` / `Close` pick it -/
def resH (hf : HFaults) (o : OpU) (r : Res) : String :=
  match r, o with
  | .errno, .write _ _ => "errno:" ++ hf.ew
  | .errno, .commit a _ _ => "errno:" ++ (if a then hf.ec else hf.er)
  | .errno, .close a _ => "errno:" ++ (if a then hf.ec else hf.eu)
  | .errno, .closeFd _ => "errno:" ++ hf.ec
  | r, _ => showRes r ""

/-- `hist` / `hkill`: the whole API from the name check on (`apiRunFull`), destination `/d/dst` -/
def histRun (um mode : Nat) (old : Option FileData) (toks : List Tok) (hf : HFaults) :
    FS × List OpU × (Res2 × List Res × List Act2) :=
  let fs0 := fsQ dstQ old
  let ofaults : Nat → Option OpenFault := fun i => if i + 1 = hf.o then some .other else none
  let f0 : File := { tmp := codeStr (tempName tmpdirS (dirOf dstS) safePattern 0), dst := dstQ }
  let ops := assignOps hf f0 0 (0, 0, 0, 0) toks
  (fs0, ops, apiRunFull codeStr tmpdirS dstS mode ops (fun i => i) ofaults fs0)

/-! ### the same histories against the kernel with node kinds (`Model/SafeFileKinds.lean`) -/

def tgtQ : Path := codeStr "/t/target".toList
def parQ : Path := codeStr "/d".toList

/-- the directory for an `old` spec: nodes, not flag bits; `noparent`: the destination's directory does not exist -/
def parseOldK? (s : String) : Option (KFS × Bool) :=
  let mk (d : Option Node) (t : Option Node) : KFS :=
    fun p => if p = dstQ then d else if p = tgtQ then t else if p = parQ then some .dir else none
  if s = "absent" then some (mk none none, false)
  else if s = "noparent" then some (fun _ => none, true)
  else if s = "dir" then some (mk (some .dir) none, false)
  else if s = "dangling" then some (mk (some (.link tgtQ)) none, false)
  else match s.splitOn ":" with
    | ["file", n, m] => match n.toNat?, parseOct? m with
      | some n, some m => some (mk (some (.file ⟨genBytes 0 n 7, m⟩)) none, false)
      | _, _ => none
    | ["link", n, m] => match n.toNat?, parseOct? m with
      | some n, some m => some (mk (some (.link tgtQ)) (some (.file ⟨genBytes 0 n 7, m⟩)), false)
      | _, _ => none
    | _ => none

def showNode : Option Node → String
  | none => "absent"
  | some .dir => "dir"
  | some (.file d) => s!"{d.content.length}:{natToHex (fnv d.content).toNat}:{toOct d.mode}"
  | some (.link _) => "absent"

/-- what the harness prints for a path: the state a reader finds, `@` when the path itself is a symbolic link -/
def showStateK (fs : KFS) (p : Path) : String :=
  match fs p with
  | some (.link t) => showNode (fs t) ++ "@"
  | x => showNode x

def showTmpK (fs : KFS) (acts : List Act2) : String :=
  match tmpOf acts with
  | some p => showStateK fs p
  | none => "absent"

structure HistK where
  fs0 : KFS
  ops : List OpU
  created : Bool
  res : List Res
  acts : List Act2

def histRunK (um mode : Nat) (fs0 : KFS) (_parentMissing : Bool) (toks : List Tok) (hf : HFaults) : HistK :=
  let tmp := codeStr (tempName tmpdirS (dirOf dstS) safePattern 0)
  let f0 : File := { tmp := tmp, dst := dstQ }
  let ops := assignOps hf f0 0 (0, 0, 0, 0) toks
  if hf.o = 1 then { fs0 := fs0, ops := ops, created := false, res := [], acts := [.openFail tmp mode false] }
  else match createK tmp dstQ parQ mode fs0 with
    | (none, acts) => { fs0 := fs0, ops := ops, created := false, res := [], acts := acts }
    | (some f, acts) =>
      let r := File.stepsK um (runK um fs0 acts) f ops
      -- what strace shows: os.Rename's own refusal of a directory destination issues no rename(2)
      { fs0 := fs0, ops := ops, created := true, res := r.2.1, acts := osRenameView um fs0 (acts ++ r.2.2) }

/-- every prefix: what a reader of the destination finds is what it found before, or what it finds at the end -/
def readerOkK (umask : Nat) (dq : Path) (fs0 : KFS) (acts : List Act2) : Bool :=
  let final := (runK umask fs0 acts).read dq
  let ok (fs : KFS) : Bool := fs.read dq = fs0.read dq ∨ fs.read dq = final
  let rec go : KFS → List Act2 → Bool
    | _, [] => true
    | fs, a :: as =>
      let fs' := applyActK umask fs a
      ok fs' && go fs' as
  ok fs0 && go fs0 acts

/-- errno names of failures the KERNEL decides (not injected): rename onto a directory, open in a missing directory -/
def kernelErrnos (fs0 : KFS) (hf : HFaults) : HFaults :=
  { hf with er := (if fs0 dstQ = some .dir then "DIR" else hf.er), eo := (if hf.o = 1 then hf.eo else "ENOENT") }

/-- every prefix: the destination is the old state or the state at the end of the run -/
def readerOkH (umask : Nat) (dq : Path) (fs0 : FS) (acts : List Act2) : Bool :=
  let final := run2 umask fs0 acts dq
  let ok (fs : FS) : Bool := fs dq = fs0 dq ∨ fs dq = final
  let rec go : FS → List Act2 → Bool
    | _, [] => true
    | fs, a :: as =>
      let fs' := applyAct2 umask fs a
      ok fs' && go fs' as
  ok fs0 && go fs0 acts

structure St where
  N : Nat := 65536
  umask : Nat := 0
  fs : FS := fun _ => none
  file : Option File := none
  off : Nat := 0
  live : Bool := false
  -- area duo: two handles on the one destination (temporary files: paths 1 and 2)
  duoF : Nat → Option File := fun _ => none
  duoOff : Nat → Nat := fun _ => 0

def scenario (N : Nat) (kind : String) (mode : Nat) (pieces : List Bytes) (cb : CbMode) (fault : Fault) :
    Option (Res × List Act) :=
  match kind with
  | "wf" => some (writeFile tmpP dstP N mode pieces cb fault)
  | "commit" => some (fileRun tmpP dstP mode pieces true fault)
  | "abort" => some (fileRun tmpP dstP mode pieces false fault)
  | _ => none

def duoTmp (h : Nat) : Path := h + 1
def duoSeed (h : Nat) : Nat := if h = 0 then 3 else 5
def duoH? (s : String) : Option Nat := if s = "A" then some 0 else if s = "B" then some 1 else none

def duoObs (st : St) (r : String) : String :=
  s!"{r} dst={showState (st.fs dstP)} A={showState (st.fs (duoTmp 0))} B={showState (st.fs (duoTmp 1))}"

/-- one call on handle `h` of the pair: `File.stepU` (the definition `two_histories_old_or_A_or_B` is about), no fault
    except the environment's: renaming onto a directory fails -/
def duoStep (st : St) (h : Nat) (mk : File → Nat → OpU × Nat) : St × String :=
  match st.duoF h with
  | none => (st, "bad-op")
  | some f =>
    let (o, n) := mk f (st.duoOff h)
    let r := f.stepU o
    let st' := { st with
      duoF := fun k => if k = h then some r.1 else st.duoF k
      duoOff := fun k => if k = h ∧ r.2.1 = .ok then st.duoOff k + n else st.duoOff k
      fs := run2 st.umask st.fs r.2.2 }
    (st', duoObs st' (showRes r.2.1 "DIR"))

def apiObs (st : St) (r : String) : String := s!"{r} dst={showState (st.fs dstP)} tmp={showState (st.fs tmpP)}"

def step (st : St) (line : String) : St × String :=
  match words line with
  | ["wf", old, um, mode, pcs, fault, cbm] =>
    match parseOld? old, parseOct? um, parseOct? mode, parsePieces? pcs, parseFault2? fault, parseCb2? cbm with
    | some old, some um, some mode, some sizes, some sp, some (cb, uf, _) =>
      let pieces := mkPieces sizes
      let fs0 := fsQ dstQ old
      let r := writeFileFull codeStr tmpdirS dstS st.N mode pieces cb sp.fault (fun i => i) sp.ofaults uf fs0
      let fs := run2 um fs0 r.2
      let extra := match tmpOf r.2 with
        | some p => if (fs p).isSome then 1 else 0
        | none => 0
      let upto := match sp.fault with
        | .callback j => j
        | .panic j => j
        | _ => pieces.length
      (st, s!"res={showRes2 r.1 sp.e} dst={showState (fs dstQ)} extra={extra} mid={midPoints st.N pieces upto sp.fault.writeAt} reader={if readerOk2 um dstQ fs0 (newFile mode um pieces) r.2 then "ok" else "BAD"}")
    | _, _, _, _, _, _ => (st, "bad-op")
  | ["trace", old, um, mode, kind, pcs, fault, cbm] =>
    match parseOld? old, parseOct? um, parseOct? mode, parsePieces? pcs, parseFault2? fault, parseCb2? cbm with
    | some old, some um, some mode, some sizes, some sp, some (cb, uf, eu) =>
      let pieces := mkPieces sizes
      let fs0 := fsQ dstQ old
      match scenario2 st.N kind dstS mode pieces cb sp (fun i => i) uf fs0 with
      | some r =>
        let fs := run2 um fs0 r.2
        (st, s!"seq={showSeq2 dstQ sp.e eu r.2} res={showRes2 r.1 (if uf ∧ sp.e = "" then eu else sp.e)} dst={showState (fs dstQ)} tmp={showTmp fs r.2} reader={if readerOk2 um dstQ fs0 (newFile mode um pieces) r.2 then "ok" else "BAD"}")
      | none => (st, "bad-op")
    | _, _, _, _, _, _ => (st, "bad-op")
  | ["kill", old, um, mode, kind, pcs, fault, cbm, name, j] =>
    match parseOld? old, parseOct? um, parseOct? mode, parsePieces? pcs, parseFault2? fault, parseCb2? cbm, j.toNat? with
    | some old, some um, some mode, some sizes, some sp, some (cb, uf, eu), some j =>
      let pieces := mkPieces sizes
      let fs0 := fsQ dstQ old
      match scenario2 st.N kind dstS mode pieces cb sp (fun i => i) uf fs0 with
      | some r =>
        let acts := r.2.take (killIndex2 r.2 name j)
        let fs := run2 um fs0 acts
        (st, s!"seq={showSeq2 dstQ sp.e eu acts} dst={showState (fs dstQ)} tmp={showTmp fs acts} reader={if readerOk2 um dstQ fs0 (newFile mode um pieces) acts then "ok" else "BAD"}")
      | none => (st, "bad-op")
    | _, _, _, _, _, _, _ => (st, "bad-op")
  | ["hist", old, um, mode, ops, faults] =>
    match parseOld? old, parseOct? um, parseOct? mode, parseToks? ops, parseHFaults? faults with
    | some old, some um, some mode, some toks, some hf =>
      let (fs0, opsU, r) := histRun um mode old toks hf
      let fs := run2 um fs0 r.2.2
      let res := match r.1 with
        | .res .ok => if opsU.isEmpty then "-" else ",".intercalate ((opsU.zip r.2.1).map fun (o, x) => resH hf o x)
        | e => "create:" ++ showRes2 e hf.eo
      (st, s!"seq={showSeqH dstQ hf r.2.2} res={res} dst={showState (fs dstQ)} tmp={showTmp fs r.2.2} reader={if readerOkH um dstQ fs0 r.2.2 then "ok" else "BAD"}")
    | _, _, _, _, _ => (st, "bad-op")
  | ["histk", old, um, mode, ops, faults] =>
    -- the kernel with node kinds (Model/SafeFileKinds.lean): every kind of destination
    match parseOldK? old, parseOct? um, parseOct? mode, parseToks? ops, parseHFaults? faults with
    | some (fs0, pm), some um, some mode, some toks, some hf =>
      let h := histRunK um mode fs0 pm toks hf
      let hk := kernelErrnos fs0 hf
      let fs := runK um fs0 h.acts
      let res :=
        if h.created then (if h.ops.isEmpty then "-" else ",".intercalate ((h.ops.zip h.res).map fun (o, x) => resH hk o x))
        else "create:errno:" ++ hk.eo
      (st, s!"seq={showSeqH dstQ hk h.acts} res={res} dst={showStateK fs dstQ} tmp={showTmpK fs h.acts} reader={if readerOkK um dstQ fs0 h.acts then "ok" else "BAD"} target={showNode (fs tgtQ)}")
    | _, _, _, _, _ => (st, "bad-op")
  | ["tracek", old, um, mode, "wf", pcs, fault, cbm] =>
    -- WriteFileWithMode on every kind of destination: Safe.writeFileK on the file system with node kinds
    match parseOldK? old, parseOct? um, parseOct? mode, parsePieces? pcs, parseFault? fault, parseCb? cbm with
    | some (fs0, _), some um, some mode, some sizes, some (flt, e), some cb =>
      let pieces := mkPieces sizes
      let tmp := codeStr (tempName tmpdirS (dirOf dstS) safePattern 0)
      let hk := kernelErrnos fs0 { ew := e, ec := e, er := e }
      match createK tmp dstQ parQ mode fs0 with
      | (none, acts) =>
        (st, s!"seq={showSeqH dstQ hk acts} res=errno:{hk.eo} dst={showStateK fs0 dstQ} tmp=absent reader=ok target={showNode (fs0 tgtQ)}")
      | (some _, _) =>
        let r := writeFileK fs0 tmp dstQ st.N mode pieces cb flt
        let acts := osRenameView um fs0 (r.2.map Act2.base)
        let fs := runK um fs0 acts
        let res := match r.1 with
          | .errno => "errno:" ++ (match flt with | .write _ => hk.ew | .close => hk.ec | _ => hk.er)
          | x => showRes x ""
        (st, s!"seq={showSeqH dstQ hk acts} res={res} dst={showStateK fs dstQ} tmp={showTmpK fs acts} reader={if readerOkK um dstQ fs0 acts then "ok" else "BAD"} target={showNode (fs tgtQ)}")
    | _, _, _, _, _, _ => (st, "bad-op")
  | ["killk", old, um, mode, "wf", pcs, fault, cbm, name, j] =>
    match parseOldK? old, parseOct? um, parseOct? mode, parsePieces? pcs, parseFault? fault, parseCb? cbm, j.toNat? with
    | some (fs0, _), some um, some mode, some sizes, some (flt, e), some cb, some j =>
      let pieces := mkPieces sizes
      let tmp := codeStr (tempName tmpdirS (dirOf dstS) safePattern 0)
      let hk := kernelErrnos fs0 { ew := e, ec := e, er := e }
      let all := match createK tmp dstQ parQ mode fs0 with
        | (none, acts) => acts
        | (some _, _) => osRenameView um fs0 ((writeFileK fs0 tmp dstQ st.N mode pieces cb flt).2.map Act2.base)
      let acts := all.take (killIndex2 all name j)
      let fs := runK um fs0 acts
      (st, s!"seq={showSeqH dstQ hk acts} dst={showStateK fs dstQ} tmp={showTmpK fs acts} reader={if readerOkK um dstQ fs0 all then "ok" else "BAD"} target={showNode (fs tgtQ)}")
    | _, _, _, _, _, _, _ => (st, "bad-op")
  | ["hkillk", old, um, mode, ops, faults, name, j] =>
    match parseOldK? old, parseOct? um, parseOct? mode, parseToks? ops, parseHFaults? faults, j.toNat? with
    | some (fs0, pm), some um, some mode, some toks, some hf, some j =>
      let hf := match name with
        | "open" => { hf with o := 0 } | "write" => { hf with w := 0 } | "close" => { hf with c := 0 }
        | "rename" => { hf with r := 0 } | "unlink" => { hf with u := 0 } | _ => hf
      let h := histRunK um mode fs0 pm toks hf
      let hk := kernelErrnos fs0 hf
      let acts := h.acts.take (killIndex2 h.acts name j)
      let fs := runK um fs0 acts
      (st, s!"seq={showSeqH dstQ hk acts} dst={showStateK fs dstQ} tmp={showTmpK fs acts} reader={if readerOkK um dstQ fs0 h.acts then "ok" else "BAD"} target={showNode (fs tgtQ)}")
    | _, _, _, _, _, _ => (st, "bad-op")
  | ["hkill", old, um, mode, ops, faults, name, j] =>
    match parseOld? old, parseOct? um, parseOct? mode, parseToks? ops, parseHFaults? faults, j.toNat? with
    | some old, some um, some mode, some toks, some hf, some j =>
      -- the kill replaces a fault on the same system call name
      let hf := match name with
        | "open" => { hf with o := 0 } | "write" => { hf with w := 0 } | "close" => { hf with c := 0 }
        | "rename" => { hf with r := 0 } | "unlink" => { hf with u := 0 } | _ => hf
      let (fs0, _, r) := histRun um mode old toks hf
      let acts := r.2.2.take (killIndex2 r.2.2 name j)
      let fs := run2 um fs0 acts
      (st, s!"seq={showSeqH dstQ hf acts} dst={showState (fs dstQ)} tmp={showTmp fs acts} reader={if readerOkH um dstQ fs0 r.2.2 then "ok" else "BAD"}")
    | _, _, _, _, _, _ => (st, "bad-op")
  | ["multi", old, um, mode, pcs, prim, cbm, sec] =>
    match parseOld? old, parseOct? um, parseOct? mode, parsePieces? pcs, parseFault? prim, parseCb? cbm with
    | some old, some um, some mode, some sizes, some (fault, e), some cb =>
      let secs := (sec.splitOn "+").map fun w => w.splitOn ":"
      let ec := (secs.findSome? fun p => match p with | ["close", x] => some x | _ => none)
      let eu := (secs.findSome? fun p => match p with | ["unlink", x] => some x | _ => none)
      let pieces := mkPieces sizes
      let fs0 := fsQ dstQ old
      let r := writeFileMulti codeStr tmpdirS dstS st.N mode pieces cb fault (fun i => i) (fun _ => none) ec.isSome eu.isSome fs0
      let fs := run2 um fs0 r.2
      -- errno names: the primary fault's for the call it sits on, the secondary's for the deferred close / the unlink
      let hf : HFaults := { ew := e, er := e, ec := (if fault = .close then e else ec.getD ""), eu := eu.getD "" }
      (st, s!"seq={showSeqH dstQ hf r.2} res={showRes2 r.1 e} dst={showState (fs dstQ)} tmp={showTmp fs r.2} reader={if readerOk2 um dstQ fs0 (newFile mode um pieces) r.2 then "ok" else "BAD"}")
    | _, _, _, _, _, _ => (st, "bad-op")
  | ["collide", old, k, pcs, fault, cbm] =>
    -- REAL collisions: the directory already holds the first k candidate names (the harness pins crypto/rand.Reader)
    match parseOld? old, k.toNat?, parsePieces? pcs, parseFault2? fault, parseCb2? cbm with
    | some old, some k, some sizes, some sp, some (cb, _, _) =>
      let pieces := mkPieces sizes
      let cand : Nat → Path := fun i => codeStr (str "/d/safe" ++ decimal (7000 + i))
      let pre : Nat → FileData := fun i => ⟨genBytes i 10 7, 0o600⟩
      let fs0 : FS := fun p =>
        if p = dstQ then old
        else match (List.range k).find? (fun i => cand i = p) with
          | some i => some (pre i)
          | none => none
      let r := writeFileFull codeStr tmpdirS dstS st.N 0o644 pieces cb sp.fault (fun i => 7000 + i) sp.ofaults false fs0
      let fs := run2 0o22 fs0 r.2
      let same := ((List.range k).filter fun i => fs (cand i) = some (pre i)).length
      let new := match tmpOf r.2 with
        | some p => if (fs p).isSome then 1 else 0
        | none => 0
      (st, s!"res={showRes2 r.1 sp.e} dst={showState (fs dstQ)} pre={same}/{k} new={new} opens={r.2.length - (r.2.filter fun a => actKind2 a != "open").length}")
    | _, _, _, _, _ => (st, "bad-op")
  | ["selfcollide", pcs, fault, cbm] =>
    -- the excluded case made real: an absent destination called safe123 and a random source that yields 123
    match parsePieces? pcs, parseFault2? fault, parseCb2? cbm with
    | some sizes, some sp, some (cb, _, _) =>
      let pieces := mkPieces sizes
      let name := str "/d/safe123"
      let dq := codeStr name
      let fs0 : FS := fun _ => none
      let r := writeFileFull codeStr tmpdirS name st.N 0o644 pieces cb sp.fault (fun _ => 123) sp.ofaults false fs0
      let upto := match sp.fault with
        | .callback j => j
        | .panic j => j
        | _ => pieces.length
      let during :=
        if upto = 0 then "-"
        else showState (run2 0o22 fs0 (r.2.take (1 + (feed st.N [] (pieces.take upto)).1.length)) dq)
      let fs := run2 0o22 fs0 r.2
      (st, s!"res={showRes2 r.1 sp.e} during={during} dst={showState (fs dq)}")
    | _, _, _ => (st, "bad-op")
  | ["clean", h] =>
    match hexStr? h with
    | some p => (st, strHex (clean p))
    | none => (st, "bad-op")
  | ["origname", h] =>
    match hexStr? h with
    | some p =>
      match validName p with
      | none => (st, "invalid")
      | some c => (st, "valid:" ++ strHex c)
    | none => (st, "bad-op")
  | ["dirof", h] =>
    match hexStr? h with
    | some p => (st, strHex (dirOf p))
    | none => (st, "bad-op")
  | ["tempname", td, d, pat, ex] =>
    match hexStr? td, hexStr? d, hexStr? pat with
    | some td, some d, some pat =>
      if hasSep pat then (st, "err=sep")
      else if ex = "0" then (st, "err=errno:ENOENT")
      else (st, s!"pre={strHex (tempPrefix td d pat)} suf={strHex (splitStar pat).2}")
    | _, _, _ => (st, "bad-op")
  | ["dest", rel, pcs, fault, cbm] =>
    match hexStr? rel, parsePieces? pcs, parseFault2? fault, parseCb2? cbm with
    | some rel, some sizes, some sp, some (cb, _, _) =>
      let pieces := mkPieces sizes
      let filename := str "/r/a/b/" ++ rel
      match validName filename with
      | none => (st, "res=invalid dst=- look=- new=0")
      | some c =>
        let tname := tempName tmpdirS (dirOf c) safePattern 1000
        -- environment: what the kernel answers for this directory tree
        let oerr : Option String :=
          match openErrOf treeFS (dirOf c) with
          | some e => some e
          | none => if tname.length ≥ 4096 then some "ENAMETOOLONG" else none
        let rerr : Option String :=
          if isDirEntry treeFS c then some "DIR"
          else if (baseOf c).length > 255 then some "ENAMETOOLONG" else none
        let fault := if sp.fault = .none ∧ rerr.isSome then Fault.rename else sp.fault
        let e := match oerr, rerr with
          | some e, _ => e
          | none, some e => if sp.fault = .none then e else sp.e
          | none, none => sp.e
        let of : Nat → Option OpenFault := fun i => if oerr.isSome ∧ i = 0 then some .other else none
        let r := writeFileFull codeStr tmpdirS filename st.N 0o644 pieces cb fault (fun i => 1000 + i) of false treeFS
        let fs := run2 0o22 treeFS r.2
        let look := ",".intercalate (lookalikes.map fun x => showState (fs (codeStr (str x.1))))
        let new := match tmpOf r.2 with
          | some p => if (fs p).isSome ∧ p ≠ codeStr c then 1 else 0
          | none => 0
        (st, s!"res={showRes2 r.1 e} dst={showState (fs (codeStr c))} look={look} new={new}")
    | _, _, _, _ => (st, "bad-op")
  | ["reset", old, um] =>
    match parseOld? old, parseOct? um with
    | some old, some um =>
      let st1 := { st with umask := um, fs := fs0 old, file := none, off := 0, live := true }
      ({ st1 with duoF := fun _ => none, duoOff := fun _ => 0 }, "reset")
    | _, _ => (st, "bad-op")
  | ["dcreate", h, mode] =>
    match duoH? h, parseOct? mode, st.live with
    | some h, some mode, true =>
      match st.duoF h with
      | some _ => (st, "bad-op")
      | none =>
        let r := File.create (duoTmp h) dstP mode
        let st' := { st with duoF := fun k => if k = h then some r.1 else st.duoF k, fs := run st.umask st.fs r.2 }
        (st', duoObs st' "ok")
    | _, _, _ => (st, "bad-op")
  | ["dwrite", h, n] =>
    match duoH? h, n.toNat? with
    | some h, some n => duoStep st h fun _ off => (.write (genBytes off n (duoSeed h)) false, n)
    | _, _ => (st, "bad-op")
  | ["dcommit", h] =>
    match duoH? h with
    | some h =>
      let dstIsDir := match st.fs dstP with
        | some d => decide (d.mode ≥ dirFlag ∧ d.mode < linkFlag)
        | none => false
      duoStep st h fun _ _ => (.commit false dstIsDir false, 0)
    | none => (st, "bad-op")
  | ["dclose", h] =>
    match duoH? h with
    | some h => duoStep st h fun _ _ => (.close false false, 0)
    | none => (st, "bad-op")
  | ["dclosefd", h] =>
    match duoH? h with
    | some h => duoStep st h fun _ _ => (.closeFd false, 0)
    | none => (st, "bad-op")
  | ["create", mode] =>
    match parseOct? mode, st.live, st.file with
    | some mode, true, none =>
      let r := File.create tmpP dstP mode
      let st' := { st with file := some r.1, fs := run st.umask st.fs r.2 }
      (st', apiObs st' "ok")
    | _, _, _ => (st, "bad-op")
  | ["write", n] =>
    match n.toNat?, st.file with
    | some n, some f =>
      let r := f.step (.write (genBytes st.off n 3) false)
      let st' := { st with file := some r.1, fs := run st.umask st.fs r.2.2, off := if r.2.1 = .ok then st.off + n else st.off }
      (st', apiObs st' (showRes r.2.1 ""))
    | _, _ => (st, "bad-op")
  | [op] =>
    match st.file, (match op with | "commit" => some (Op.commit false false) | "close" => some (Op.close false) | "closefd" => some Op.closeFd | _ => none) with
    | some f, some o =>
      -- environment: renaming a file onto a directory fails
      let dstIsDir := match st.fs dstP with
        | some d => decide (d.mode ≥ dirFlag ∧ d.mode < linkFlag)
        | none => false
      let r := f.step (match o with
        | .commit a _ => .commit a dstIsDir
        | o => o)
      let st' := { st with file := some r.1, fs := run st.umask st.fs r.2.2 }
      (st', apiObs st' (showRes r.2.1 "DIR"))
    | _, _ => (st, "bad-op")
  | _ => (st, "bad-op")

def main : IO Unit := do
  let n := (← IO.getEnv "C14_BUFSIZE").bind String.toNat?
  Proto.run step { N := match n with | some (k + 1) => k + 1 | _ => 65536 }
