/-! Line protocol shared by all model drivers: one operation per input line, one output line per input line.
    Core-only (no Mathlib) so that the drivers link as native executables. -/

namespace Proto

/-- split a line into blank-separated words (no empty words) -/
def words (s : String) : List String :=
  (s.splitOn " ").filter (fun w => !w.isEmpty)

def stripEol (s : String) : String :=
  let s := if s.endsWith "\n" then (s.dropEnd 1).toString else s
  if s.endsWith "\r" then (s.dropEnd 1).toString else s

def hexDigit? (c : Char) : Option Nat :=
  if '0' ≤ c ∧ c ≤ '9' then some (c.toNat - 48)
  else if 'a' ≤ c ∧ c ≤ 'f' then some (c.toNat - 87)
  else if 'A' ≤ c ∧ c ≤ 'F' then some (c.toNat - 55)
  else none

def hexToNat? (s : String) : Option Nat :=
  if s.isEmpty then none else
  s.toList.foldl (fun acc c => match acc, hexDigit? c with
    | some a, some d => some (a * 16 + d)
    | _, _ => none) (some 0)

def hexChar (d : Nat) : Char := if d < 10 then Char.ofNat (48 + d) else Char.ofNat (87 + d)

partial def natToHexAux (n : Nat) (acc : List Char) : List Char :=
  if n < 16 then hexChar n :: acc else natToHexAux (n / 16) (hexChar (n % 16) :: acc)

def natToHex (n : Nat) : String := String.ofList (natToHexAux n [])

/-- bytes of a hex string "616263" -> [97,98,99]; "-" denotes the empty string -/
def hexBytes? (s : String) : Option (List Nat) :=
  if s = "-" then some [] else
  let rec go : List Char → Option (List Nat)
    | [] => some []
    | [_] => none
    | a :: b :: t => match hexDigit? a, hexDigit? b, go t with
      | some x, some y, some r => some ((x * 16 + y) :: r)
      | _, _, _ => none
  go s.toList

def bytesHex (l : List Nat) : String :=
  if l.isEmpty then "-" else String.ofList (l.flatMap fun b => [hexChar (b / 16 % 16), hexChar (b % 16)])

def intStr (i : Int) : String := toString i

def parseInt? (s : String) : Option Int := s.toInt?

/-- main loop: `step` consumes a state and a line (without EOL) and yields the new state and the output line -/
partial def loop {σ : Type} (inp out : IO.FS.Stream) (step : σ → String → σ × String) (s : σ) : IO Unit := do
  let line ← inp.getLine
  if line.isEmpty then
    out.flush
    return ()
  let (s', o) := step s (stripEol line)
  out.putStr o
  out.putStr "\n"
  loop inp out step s'

def run {σ : Type} (step : σ → String → σ × String) (init : σ) : IO Unit := do
  let inp ← IO.getStdin
  let out ← IO.getStdout
  loop inp out step init

end Proto
