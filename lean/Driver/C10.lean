import Driver.Proto
import Model.Cmdline
open Proto Cmd

/-! line format (one `Parse` call per line, no state between lines):
    `pi|pc <incl 0/1> O <single>:<name>:<kind>:<defs> … F <path>:<lines> … R <f32|f64|dur>:<raw>:<canon> … A <arg> …`
    strings are hex (`-` = empty), lists are comma separated (`~` = empty list / absent). -/

def hexStr? (s : String) : Option Str := hexBytes? s

def hexList? (s : String) : Option (List Str) :=
  if s = "~" then some [] else (s.splitOn ",").mapM hexStr?

def base? : String → Option Base
  | "bool" => some .bool
  | "int" => some (.int 64)
  | "int8" => some (.int 8)
  | "int16" => some (.int 16)
  | "int32" => some (.int 32)
  | "int64" => some (.int 64)
  | "uint" => some (.uint 64)
  | "uint8" => some (.uint 8)
  | "uint16" => some (.uint 16)
  | "uint32" => some (.uint 32)
  | "uint64" => some (.uint 64)
  | "float32" => some .f32
  | "float64" => some .f64
  | "string" => some .str
  | "duration" => some .dur
  | "log" => some .log
  | "wbool" => some .wbool
  | _ => none

def kind? (s : String) : Option Kind :=
  if s.startsWith "[]" then (base? (s.drop 2).toString).map (fun b => ⟨b, true⟩)
  else (base? s).map (fun b => ⟨b, false⟩)

def decl? (w : String) : Option Decl :=
  match w.splitOn ":" with
  | [sg, nm, kd, df] =>
    match sg.toInt?, (if nm = "~" then some none else (hexStr? nm).map some), kind? kd, hexList? df with
    | some s, some n, some k, some d => some ⟨s, n, k, d⟩
    | _, _, _, _ => none
  | [sg, nm, kd, df, _route] =>   -- the declaration route (g / v / w) does not matter to the model: flag-ness is the kind
    match sg.toInt?, (if nm = "~" then some none else (hexStr? nm).map some), kind? kd, hexList? df with
    | some s, some n, some k, some d => some ⟨s, n, k, d⟩
    | _, _, _, _ => none
  | _ => none

/-- bytes with run-length segments: `seg+seg+…`, a segment is hex or `N*hex` (N copies) -/
def hexRep? (s : String) : Option Str :=
  if s = "-" then some [] else
  (s.splitOn "+").foldlM (fun acc seg =>
    match seg.splitOn "*" with
    | [h] => (hexStr? h).map (fun b => acc ++ b)
    | [n, h] => match n.toNat?, hexStr? h with
      | some n, some b => some (acc ++ (List.replicate n b).flatten)
      | _, _ => none
    | _ => none) []

/-- a response file: `path=bytes` (content given as bytes: `Cmd.filesOf` reads it like `loadArgsFromFile`) or
    `path:line,line,…` (LF-terminated short lines) -/
def file? (w : String) : Option ((Str × List Str) ⊕ (Str × Option Str)) :=
  match w.splitOn "=" with
  | [p, raw] => match hexStr? p, hexRep? raw with
    | some p, some raw => some (.inr (p, some raw))
    | _, _ => none
  | _ =>
    match w.splitOn ":" with
    | [p, l] => match hexStr? p, hexList? l with
      | some p, some l => some (.inl (p, l))
      | _, _ => none
    | _ => none

def filesFrom (l : List ((Str × List Str) ⊕ (Str × Option Str))) : Files :=
  l.filterMap (fun e => match e with | .inl x => some x | .inr _ => none) ++
  filesOf (l.filterMap (fun e => match e with | .inr x => some x | .inl _ => none))

def orc? (w : String) : Option (Nat × Str × String) :=
  match w.splitOn ":" with
  | [t, r, c] =>
    match (if t = "f32" then some tagF32 else if t = "f64" then some tagF64 else if t = "dur" then some tagDur else none),
          hexStr? r with
    | some t, some r => some (t, r, c)
    | _, _ => none
  | _ => none

structure Secs where
  o : List String := []
  f : List String := []
  r : List String := []
  a : List String := []
  b : List String := []
  twice : Bool := false
  dump : Bool := false   -- `C` instead of `B`: the option variables are also printed after the FIRST Parse

/-- split the words after the header into the sections O F R A [B] -/
def sections (ws : List String) : Secs :=
  let rec go (ws : List String) (cur : Nat) (s : Secs) : Secs :=
    match ws with
    | [] => { s with o := s.o.reverse, f := s.f.reverse, r := s.r.reverse, a := s.a.reverse, b := s.b.reverse }
    | w :: t =>
      if cur < 4 && w = "O" then go t 1 s
      else if cur < 4 && w = "F" then go t 2 s
      else if cur < 4 && w = "R" then go t 3 s
      else if cur < 4 && w = "A" then go t 4 s
      else if cur = 4 && w = "B" then go t 5 { s with twice := true }
      else if cur = 4 && w = "C" then go t 5 { s with twice := true, dump := true }
      else match cur with
        | 1 => go t cur { s with o := w :: s.o }
        | 2 => go t cur { s with f := w :: s.f }
        | 3 => go t cur { s with r := w :: s.r }
        | 4 => go t cur { s with a := w :: s.a }
        | _ => go t cur { s with b := w :: s.b }
  go ws 0 {}

def doParse (incl : String) (ws : List String) : String :=
  let s := sections ws
  match s.o.mapM decl?, s.f.mapM file?, s.r.mapM orc?, s.a.mapM hexStr?, s.b.mapM hexStr? with
  | some decls, some files, some orc, some args, some args2 =>
    let files := filesFrom files
    if s.twice then
      let (out, rest1) := parseTwice orc (incl == "1") decls files args args2
      match out with
      | .done _ => renderStore orc (incl == "1") decls out ++ " ||" ++ String.join (rest1.map (fun r => " " ++ hexOf r)) ++
          (if s.dump then " ||| " ++ renderStore orc (incl == "1") decls (parse orc (incl == "1") decls files args) else "")
      | _ => renderStore orc (incl == "1") decls out
    else renderStore orc (incl == "1") decls (parse orc (incl == "1") decls files args)
  | _, _, _, _, _ => "bad-op"

/-- the exported fatal entry points: `fx <msg|err|iferr|ifnil|write> <def|out|fail>`; where the text appears follows the
    writer set with `SetWriter` (default: standard error) -/
def doFx (entry writer : String) : String :=
  let wh := if writer = "out" then "out" else if writer = "fail" then "none" else "err"
  -- the outcome of the call, then `Outcome.exitStatus`: status 1 through atexit.Exit, or the call returns
  let fin (o : Outcome) : String :=
    match o.exitStatus with
    | some 1 => "fatal:" ++ wh
    | some st => "exit:" ++ toString st
    | none => "returned:none"
  match entry with
  | "msg" | "err" => fin .fatal
  | "iferr" => fin (match fatalIfError false with | some _ => .done {} | none => .fatal)
  | "ifnil" => fin (match fatalIfError true with | some _ => .done {} | none => .fatal)
  | "write" => "returned:" ++ wh
  | "cmdnone" | "cmdbad" => "returned:none"   -- RunCommand returns an error for a missing / unknown command name
  | _ => "bad-op"

/-- the options every `ax P…` line declares: a string option n/name, a flag a, an int8 option i/int -/
def axDecls : List Decl :=
  [⟨110, some (ofString "name"), ⟨.str, false⟩, [ofString "d"]⟩, ⟨97, none, ⟨.bool, false⟩, [ofString "false"]⟩,
   ⟨105, some (ofString "int"), ⟨.int 8, false⟩, [ofString "7"]⟩]

/-- how the process of an `ax` line ends: a number = `atexit.Exit(number)` called directly; `M` / `E` / `I` = `FatalMsg`,
    `FatalError`, `FatalIfError(err)`; `N` = `FatalIfError(nil)` (returns); `P<incl>:<arg>,<arg>…` = `Parse` of that vector on
    a command line with the options `axDecls` -/
def axEnd? (w : String) : Option Outcome :=
  if w = "M" || w = "E" || w = "I" then some .fatal
  else if w = "N" then (match fatalIfError true with | some _ => some (.done {}) | none => some .fatal)
  else if w.startsWith "P" then
    match ((w.drop 1).toString).splitOn ":" with
    | [incl, l] => (hexList? l).map (fun args => parse [] (incl == "1") axDecls [] args)
    | _ => none
  else none

/-- `ax <end> <op> …`: a history of atexit.Register / Unregister calls, then the end of the process (`axEnd?`).  `r:<act>`
    registers a function (functions are numbered by the ordinal of their registration) that announces itself and then:
    `p` nothing, `s`/`e`/`n`/`t`/`z` panics in some way, `x` calls Exit again, `g` registers function 900+own number,
    `u<k>` unregisters the k-th registration; `u<k>` unregisters the id returned by the k-th Register. -/
def doAx (status : String) (ws : List String) : String :=
  let parsed : Option (List AtExit.Op × List AtExit.Act) := ws.foldlM (fun (p : List AtExit.Op × List AtExit.Act) w =>
    let n := p.2.length
    if w.startsWith "r:" then
      let a := (w.drop 2).toString
      let act : Option AtExit.Act :=
        if a = "p" then some .plain
        else if a = "s" || a = "e" || a = "n" || a = "t" || a = "z" then some .panic
        else if a = "x" then some .reExit
        else if a = "g" then some (.reg (900 + n))
        else if a.startsWith "u" then (a.drop 1).toString.toNat?.map AtExit.Act.unreg
        else none
      act.map (fun act => (p.1 ++ [.reg n], p.2 ++ [act]))
    else if w.startsWith "u" then (w.drop 1).toString.toNat?.map (fun k => (p.1 ++ [.unreg k], p.2))
    else none) ([], [])
  let fmtEnd (r : Option (List Nat × Nat)) : String :=
    match r with
    | some (log, st) => "exit " ++ toString st ++ " run " ++
        (if log.isEmpty then "~" else ",".intercalate (log.map toString))
    | none => "no-exit"
  match parsed with
  | some (ops, acts) =>
    let actOf : Nat → AtExit.Act := fun f => (acts[f]?).getD .plain
    (match status.toNat? with
     | some st => fmtEnd (AtExit.runHistory actOf ops st)
     | none =>
       match axEnd? status with
       | some o => (match o.exitStatus with
                    | none => "returned"
                    | some _ => fmtEnd (processEnd actOf ops o))
       | none => "bad-op")
  | none => "bad-op"

/-- `gs <kind> <initial contents> <raw> …`: a `GeneralValue` of the kind used directly — `String()` at the start and after
    every `Set`, up to the first `Set` that fails -/
def doGs (kd df : String) (ws : List String) : String :=
  match kind? kd, hexList? df, ws.mapM hexStr? with
  | some k, some defs, some raws =>
    (match defs.mapM (vText k.base) with
     | some init =>
       if !k.slice && init.length != 1 then "bad-op" else
       " ".intercalate (hexOf (gvString k init) ::
         (gvHistory k init raws).map (fun r => match r with | some t => hexOf t | none => "err"))
     | none => "bad-op")
  | _, _, _ => "bad-op"

/-- `gf <kind> <initial contents> <raw> …`: like `gs`, but the history goes on after a refused `Set` (`err:<String()>`): what
    a failing `Set` leaves in the variable is part of the comparison -/
def doGf (kd df : String) (ws : List String) : String :=
  match kind? kd, hexList? df, ws.mapM hexStr? with
  | some k, some defs, some raws =>
    (match defs.mapM (vText k.base) with
     | some init =>
       if !k.slice && init.length != 1 then "bad-op" else
       let direct := kd = "bool" || kd = "int64" || kd = "uint64"
       " ".intercalate (hexOf (gvString k init) ::
         (gvHistoryFull direct k init raws).map (fun r => (if r.1 then "" else "err:") ++ hexOf r.2))
     | none => "bad-op")
  | _, _, _ => "bad-op"

def step (_ : Unit) (line : String) : Unit × String :=
  let out :=
    match words line with
    | "pi" :: incl :: ws => doParse incl ws
    | "pc" :: incl :: ws => doParse incl ws
    | ["fx", entry, writer] => doFx entry writer
    | "ax" :: status :: ws => doAx status ws
    | "gs" :: kd :: df :: ws => doGs kd df ws
    | "gf" :: kd :: df :: ws => doGf kd df ws
    | _ => "bad-op"
  ((), out)

def main : IO Unit := Proto.run step ()
