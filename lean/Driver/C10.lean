import Driver.Proto
import Model.Cmdline
open Proto Cmd

/-! line format (one `Parse` call per line, no state between lines):
    `pi|pc <incl 0/1> O <single>:<name>:<kind>:<defs> … F <path>:<lines> … R <f32|f64|dur>:<raw>:<canon> … A <arg> …`
    strings are hex (`-` = empty), lists are comma separated (`~` = empty list / absent). -/

def hexStr? (s : String) : Option Str := hexBytes? s

def hexList? (s : String) : Option (List Str) :=
  if s = "~" then some [] else (s.splitOn ",").mapM hexStr?

def base? : String → Option Base
  | "bool" => some .bool
  | "int" => some (.int 64)
  | "int8" => some (.int 8)
  | "int16" => some (.int 16)
  | "int32" => some (.int 32)
  | "int64" => some (.int 64)
  | "uint" => some (.uint 64)
  | "uint8" => some (.uint 8)
  | "uint16" => some (.uint 16)
  | "uint32" => some (.uint 32)
  | "uint64" => some (.uint 64)
  | "float32" => some .f32
  | "float64" => some .f64
  | "string" => some .str
  | "duration" => some .dur
  | "log" => some .log
  | _ => none

def kind? (s : String) : Option Kind :=
  if s.startsWith "[]" then (base? (s.drop 2).toString).map (fun b => ⟨b, true⟩)
  else (base? s).map (fun b => ⟨b, false⟩)

def decl? (w : String) : Option Decl :=
  match w.splitOn ":" with
  | [sg, nm, kd, df] =>
    match sg.toInt?, (if nm = "~" then some none else (hexStr? nm).map some), kind? kd, hexList? df with
    | some s, some n, some k, some d => some ⟨s, n, k, d⟩
    | _, _, _, _ => none
  | _ => none

def file? (w : String) : Option (Str × List Str) :=
  match w.splitOn ":" with
  | [p, l] => match hexStr? p, hexList? l with
    | some p, some l => some (p, l)
    | _, _ => none
  | _ => none

def orc? (w : String) : Option (Nat × Str × String) :=
  match w.splitOn ":" with
  | [t, r, c] =>
    match (if t = "f32" then some tagF32 else if t = "f64" then some tagF64 else if t = "dur" then some tagDur else none),
          hexStr? r with
    | some t, some r => some (t, r, c)
    | _, _ => none
  | _ => none

/-- split the words after the header into the four sections -/
def sections (ws : List String) : List String × List String × List String × List String :=
  let rec go (ws : List String) (cur : Nat) (o f r a : List String) : List String × List String × List String × List String :=
    match ws with
    | [] => (o.reverse, f.reverse, r.reverse, a.reverse)
    | w :: t =>
      if cur < 4 && w = "O" then go t 1 o f r a
      else if cur < 4 && w = "F" then go t 2 o f r a
      else if cur < 4 && w = "R" then go t 3 o f r a
      else if cur < 4 && w = "A" then go t 4 o f r a
      else match cur with
        | 1 => go t cur (w :: o) f r a
        | 2 => go t cur o (w :: f) r a
        | 3 => go t cur o f (w :: r) a
        | _ => go t cur o f r (w :: a)
  go ws 0 [] [] [] []

def doParse (incl : String) (ws : List String) : String :=
  let (o, f, r, a) := sections ws
  match o.mapM decl?, f.mapM file?, r.mapM orc?, a.mapM hexStr? with
  | some decls, some files, some orc, some args =>
    render orc decls (parse orc (incl == "1") decls files args)
  | _, _, _, _ => "bad-op"

def step (_ : Unit) (line : String) : Unit × String :=
  let out :=
    match words line with
    | "pi" :: incl :: ws => doParse incl ws
    | "pc" :: incl :: ws => doParse incl ws
    | _ => "bad-op"
  ((), out)

def main : IO Unit := Proto.run step ()
