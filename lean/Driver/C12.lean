import Driver.Proto
import Model.Rotation
open Proto Rot

/-- driver state: the rotator (if `New` succeeded), the model state with the directory held as an array of `bound`
    entries, and the number of `w` operations so far in this history (it fixes the byte pattern of the next write) -/
structure D where
  cfg : Option Cfg
  opts : List Opt := []
  dir : Array (Option Bytes)
  isOpen : Bool
  size : Nat
  bound : Nat
  k : Nat

def D.init : D := { cfg := none, dir := #[], isOpen := false, size := 0, bound := 1, k := 0 }
def D.st (d : D) : St := { files := ofArray d.dir, isOpen := d.isOpen, size := d.size }
/-- store a model state (the directory is tabulated on the indexes `< bound`) -/
def D.put (d : D) (s : St) : D := { d with dir := toArray s.files d.bound, isOpen := s.isOpen, size := s.size }

/-- byte `j` of the `k`-th write of a history is `(wBase k + j) mod 251`, byte `j` of the pre-existing file `i` is
    `(pBase i + j) mod 251` (position-dependent, so that a permutation inside a record would show) -/
def wBase (k : Nat) : Nat := (k * 53 + 1) % 251
def pBase (i : Nat) : Nat := (i * 29 + 200) % 251

def parseOpt (w : String) : Option Opt :=
  match w.toList with
  | ['P'] => some (.path "p")
  | ['Q'] => some (.path "q")
  | ['E'] => some (.path "")
  | 'S' :: r => (String.ofList r).toInt?.map fun i => .maxSize (clampLimit i)
  | 'B' :: r => (String.ofList r).toInt?.map fun i => .maxBackups (clampLimit i)
  | 'M' :: r => (String.ofList r).toNat?.map .mask
  | _ => none

def parseOpts (s : String) : Option (List Opt) :=
  if s = "-" then some [] else (s.splitOn ",").mapM parseOpt

def parsePre (s : String) : Option (List (Nat × Nat)) :=
  if s = "-" then some [] else
  (s.splitOn ",").mapM fun w =>
    match w.splitOn ":" with
    | [a, b] => match a.toNat?, b.toNat? with
      | some i, some n => some (i, n)
      | _, _ => none
    | _ => none

def preFiles (pre : List (Nat × Nat)) : Files := fun j =>
  match pre.find? (fun p => p.1 = j) with
  | some (i, n) => some (recBytes (pBase i) n)
  | none => none

def showFile (i : Nat) (c : Bytes) : String :=
  toString i ++ "=[" ++ ",".intercalate ((prog c).map fun (v, n) => toString v ++ "+" ++ toString n) ++ "]"

def obs (d : D) : String :=
  let parts := (List.range d.bound).filterMap fun i => (d.dir.getD i none).map (showFile i)
  if parts.isEmpty then "empty" else " ".intercalate parts

def step (d : D) (line : String) : D × String :=
  match words line with
  | ["reset", o, p] =>
    match parseOpts o, parsePre p with
    | some opts, some pre =>
      match Rot.new opts with
      | none => (D.init, "new=err")
      | some r =>
        -- without a Path option the rotator would log to DefaultPath(): constructed, never written by the harness
        if !r.pathSet then (D.init, "new=ok defaultpath") else
        let bound := (pre.foldl (fun m q => max m q.1) r.cfg.maxBackups) + 2
        let d := ({ D.init with cfg := some r.cfg, opts := opts, bound := bound }).put (fresh (preFiles pre))
        (d, "new=ok | " ++ obs d)
    | _, _ => (D.init, "bad-op")
  | ["w", n] =>
    match n.toNat?, d.cfg with
    | some n, some cfg =>
      let b := recBytes (wBase d.k) n
      match iterate cfg 64 d.st b with
      | .done s' =>
        let d' := { d with k := d.k + 1 }.put s'
        (d', "n=" ++ toString b.length ++ " err=nil | " ++ obs d')
      | .again s' => ({ d with k := d.k + 1 }.put s', "hang")
    | some _, none => (d, "norot")
    | none, _ => (d, "bad-op")
  | ["close"] =>
    match d.cfg with
    | some _ => let d' := d.put (close d.st); (d', "close=nil | " ++ obs d')
    | none => (d, "norot")
  | ["reopen"] =>
    match d.cfg with
    | some _ => let d' := d.put (reopen d.st); (d', "new=ok | " ++ obs d')
    | none => (d, "norot")
  | ["reopen", o] =>
    -- restart with other limits on the same path (the Path option of the history is kept)
    match d.cfg, parseOpts o with
    | some _, some extra =>
      if extra.any (fun | .path _ => true | _ => false) then (d, "bad-op") else
      match Rot.new (extra ++ [Opt.path "p"]) with
      | none => (d, "bad-op")
      | some r =>
        let s := reopen d.st
        let d' := { d with cfg := some r.cfg, opts := extra ++ [Opt.path "p"], bound := max d.bound (r.cfg.maxBackups + 2) }.put s
        (d', "new=ok | " ++ obs d')
    | none, some _ => (d, "norot")
    | _, none => (d, "bad-op")
  | ["sync"] =>
    match d.cfg with
    | some _ => (d, "sync=nil")
    | none => (d, "norot")
  | ["obs"] =>
    match d.cfg with
    | some _ => (d, obs d)
    | none => (d, "norot")
  | _ => (d, "bad-op")

def main : IO Unit := Proto.run step D.init
