import Driver.Proto
import Model.Rotation
import Model.RotationErr
open Proto Rot

/-- driver state: the rotator (if `New` succeeded), the model state with the directory held as an array of `bound`
    entries, and the number of `w` operations so far in this history (it fixes the byte pattern of the next write) -/
structure D where
  cfg : Option Cfg
  opts : List Opt := []
  dir : Array (Option Bytes)
  isOpen : Bool
  size : Nat
  bound : Nat
  k : Nat
  /-- obstacles of the environment: the directory of the log file is unreachable (every call that takes a path fails);
      the indexes whose file cannot be removed or renamed (from or to) in this history -/
  blocked : Bool := false
  jam : List Nat := []
  tick : Nat := 0
  /-- the descriptor the rotator holds was closed behind its back: every call on it fails until the handle is dropped -/
  fdBroken : Bool := false

def D.init : D := { cfg := none, dir := #[], isOpen := false, size := 0, bound := 1, k := 0 }
def D.st (d : D) : St := { files := ofArray d.dir, isOpen := d.isOpen, size := d.size }
def D.ste (d : D) : StE := { st := d.st, tick := d.tick }
/-- store a model state (the directory is tabulated on the indexes `< bound`) -/
def D.put (d : D) (s : St) : D := { d with dir := toArray s.files d.bound, isOpen := s.isOpen, size := s.size }
def D.putE (d : D) (s : StE) : D := { d.put s.st with tick := s.tick, fdBroken := d.fdBroken && s.st.isOpen }

/-- the environment the harness sets up: while the directory is blocked every call that takes a path fails (calls on
    the open descriptor do not); a jammed index fails every Remove/Rename that names it; `lim = some L` is a file size
    limit of `L` bytes during this call (a write of `want > 0` bytes to a file of `cur` bytes gets `L - cur` bytes in) -/
def envOf (d : D) (lim : Option Nat) : Env :=
  { fails := fun _ c =>
      match c with
      | .mkdirAll => d.blocked
      | .stat => d.blocked
      | .openFile => d.blocked
      | .remove i ex => d.blocked || (ex && d.jam.contains i)
      | .rename i j ex => d.blocked || (ex && (d.jam.contains i || d.jam.contains j))
      | .closeFd => d.fdBroken
      | .syncFd => d.fdBroken
      | .writeFd => false,
    wr := fun _ cur want =>
      if d.fdBroken then some 0 else
      match lim with
      | none => none
      | some L => if want = 0 ∨ cur + want ≤ L then none else some (L - cur) }

def showErr : Option Sys → String
  | none => "nil"
  | some _ => "error"


/-- byte `j` of the `k`-th write of a history is `(wBase k + j) mod 251`, byte `j` of the pre-existing file `i` is
    `(pBase i + j) mod 251` (position-dependent, so that a permutation inside a record would show) -/
def wBase (k : Nat) : Nat := (k * 53 + 1) % 251
def pBase (i : Nat) : Nat := (i * 29 + 200) % 251

def parseOpt (w : String) : Option Opt :=
  match w.toList with
  | ['P'] => some (.path "p")
  | ['Q'] => some (.path "q")
  | ['E'] => some (.path "")
  | 'S' :: r => (String.ofList r).toInt?.map fun i => .maxSize (clampLimit i)
  | 'B' :: r => (String.ofList r).toInt?.map fun i => .maxBackups (clampLimit i)
  | 'M' :: r => (String.ofList r).toNat?.map .mask
  | _ => none

def parseOpts (s : String) : Option (List Opt) :=
  if s = "-" then some [] else (s.splitOn ",").mapM parseOpt

def parsePre (s : String) : Option (List (Nat × Nat)) :=
  if s = "-" then some [] else
  (s.splitOn ",").mapM fun w =>
    match w.splitOn ":" with
    | [a, b] => match a.toNat?, b.toNat? with
      | some i, some n => some (i, n)
      | _, _ => none
    | _ => none

def preFiles (pre : List (Nat × Nat)) : Files := fun j =>
  match pre.find? (fun p => p.1 = j) with
  | some (i, n) => some (recBytes (pBase i) n)
  | none => none

def showFile (i : Nat) (c : Bytes) : String :=
  toString i ++ "=[" ++ ",".intercalate ((prog c).map fun (v, n) => toString v ++ "+" ++ toString n) ++ "]"

def obs (d : D) : String :=
  let parts := (List.range d.bound).filterMap fun i => (d.dir.getD i none).map (showFile i)
  if parts.isEmpty then "empty" else " ".intercalate parts

/-- `Write` of the next record of the history under the environment -/
def doWrite (d : D) (cfg : Cfg) (n : Nat) (lim : Option Nat) : D × String :=
  let b := recBytes (wBase d.k) n
  match iterateE cfg (envOf d lim) 64 d.ste b with
  | .ret s' m e =>
    let d' := { d with k := d.k + 1 }.putE s'
    (d', "n=" ++ toString m ++ " err=" ++ showErr e ++ " | " ++ obs d')
  | .again s' => ({ d with k := d.k + 1 }.putE s', "hang")

def doReset (o p : String) (jam : List Nat) : D × String :=
  match parseOpts o, parsePre p with
  | some opts, some pre =>
    match Rot.new opts with
    | none => (D.init, "new=err")
    | some r =>
      -- without a Path option the rotator would log to DefaultPath(): constructed, never written by the harness
      if !r.pathSet then (D.init, "new=ok defaultpath") else
      -- a jammed index names a file that exists (the harness makes it immutable; index 0: append-only)
      if jam.any (fun i => !pre.any (fun q => q.1 = i)) then (D.init, "bad-op") else
      let bound := (pre.foldl (fun m q => max m q.1) r.cfg.maxBackups) + 2
      let d := ({ D.init with cfg := some r.cfg, opts := opts, bound := bound, jam := jam }).put (fresh (preFiles pre))
      (d, "new=ok | " ++ obs d)
  | _, _ => (D.init, "bad-op")

def step (d : D) (line : String) : D × String :=
  match words line with
  | ["reset", o, p] => doReset o p []
  | ["reset", o, p, j] =>
    -- `J<i>`: in this history the file with index i can be neither removed nor renamed (from or to)
    match j.toList with
    | 'J' :: r => match (String.ofList r).toNat? with
      | some i => doReset o p [i]
      | none => (D.init, "bad-op")
    | _ => (D.init, "bad-op")
  | ["w", n] =>
    match n.toNat?, d.cfg with
    | some n, some cfg => doWrite d cfg n none
    | some _, none => (d, "norot")
    | none, _ => (d, "bad-op")
  | ["wlim", l, n] =>
    -- the same Write while the file size limit of the process is `l` bytes
    match l.toNat?, n.toNat?, d.cfg with
    | some l, some n, some cfg => doWrite d cfg n (some l)
    | some _, some _, none => (d, "norot")
    | _, _, _ => (d, "bad-op")
  | ["block"] =>
    match d.cfg with
    | some _ => ({ d with blocked := true }, "block=ok")
    | none => (d, "norot")
  | ["unblock"] =>
    match d.cfg with
    | some _ => ({ d with blocked := false }, "unblock=ok")
    | none => (d, "norot")
  | ["breakfd"] =>
    match d.cfg with
    | some _ => if d.isOpen then ({ d with fdBroken := true }, "breakfd=ok") else (d, "breakfd=none")
    | none => (d, "norot")
  | ["unjam"] =>
    match d.cfg with
    | some _ => ({ d with jam := [] }, "unjam=ok")
    | none => (d, "norot")
  | ["close"] =>
    match d.cfg with
    | some _ =>
      let r := closeE (envOf d none) d.ste
      let d' := d.putE r.s; (d', "close=" ++ showErr r.err ++ " | " ++ obs d')
    | none => (d, "norot")
  | ["reopen"] =>
    match d.cfg with
    | some _ => let d' := d.putE (reopenE (envOf d none) d.ste).s; (d', "new=ok | " ++ obs d')
    | none => (d, "norot")
  | ["reopen", o] =>
    -- restart with other limits on the same path (the Path option of the history is kept)
    match d.cfg, parseOpts o with
    | some _, some extra =>
      if extra.any (fun | .path _ => true | _ => false) then (d, "bad-op") else
      match Rot.new (extra ++ [Opt.path "p"]) with
      | none => (d, "bad-op")
      | some r =>
        let s := (reopenE (envOf d none) d.ste).s
        let d' := { d with cfg := some r.cfg, opts := extra ++ [Opt.path "p"], bound := max d.bound (r.cfg.maxBackups + 2) }.putE s
        (d', "new=ok | " ++ obs d')
    | none, some _ => (d, "norot")
    | _, none => (d, "bad-op")
  | ["sync"] =>
    match d.cfg with
    | some _ => let r := syncE (envOf d none) d.ste; (d.putE r.s, "sync=" ++ showErr r.err)
    | none => (d, "norot")
  | ["obs"] =>
    match d.cfg with
    | some _ => (d, obs d)
    | none => (d, "norot")
  | _ => (d, "bad-op")

def main : IO Unit := Proto.run step D.init
