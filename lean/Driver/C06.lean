import Driver.Proto
import Model.RBTree
open Proto RB

structure DState where
  div10 : Bool
  tree : Tree Int Int

/-- visitor of the harness: record the entry, continue while fewer than `j` entries have been visited -/
def visitor (j : Nat) (s : Nat × List (Int × Int)) (k v : Int) : (Nat × List (Int × Int)) × Bool :=
  ((s.1 + 1, (k, v) :: s.2), decide (s.1 + 1 < j))

def showList (l : List (Int × Int)) : String :=
  if l.isEmpty then "-" else " ".intercalate (l.map fun e => toString e.1 ++ ":" ++ toString e.2)

def showOpt : Option Int → String
  | none => "none"
  | some v => toString v

def dumpT : T Int Int → String
  | .nil => "."
  | .node c l k v r =>
    "(" ++ (if c = .red then "r" else "b") ++ toString k ++ ":" ++ toString v ++ " " ++ dumpT l ++ " " ++ dumpT r ++ ")"

def step (st : DState) (line : String) : DState × String :=
  let cmp := cmpOf st.div10
  let t := st.tree
  match words line with
  | ["reset", m] => ({ div10 := m == "div10", tree := Tree.empty }, "ok")
  | ["ins", k, v] =>
    match parseInt? k, parseInt? v with
    | some k, some v => let (t', c) := t.insert cmp k v; ({ st with tree := t' }, "done cmp-ok c=" ++ toString c)
    | _, _ => (st, "bad-op")
  | ["rem", k] =>
    match parseInt? k with
    | some k =>
      let (t', c) := t.remove cmp k
      ({ st with tree := t' }, (if t'.count != t.count then "removed" else "absent") ++ " cmp-ok c=" ++ toString c)
    | _ => (st, "bad-op")
  | ["get", k] =>
    match parseInt? k with
    | some k => let (r, c) := t.get cmp k; (st, showOpt r ++ " cmp-ok c=" ++ toString c)
    | _ => (st, "bad-op")
  | ["first"] => (st, showOpt t.first)
  | ["last"] => (st, showOpt t.last)
  | ["count"] => (st, toString t.count ++ " " ++ toString t.isEmpty)
  | ["trav", j] =>
    match j.toNat? with
    | some j => (st, showList (t.traverse (visitor j) (0, [])).2.reverse)
    | _ => (st, "bad-op")
  | ["rtrav", j] =>
    match j.toNat? with
    | some j => (st, showList (t.reverseTraverse (visitor j) (0, [])).2.reverse)
    | _ => (st, "bad-op")
  | ["travfrom", k, j] =>
    match parseInt? k, j.toNat? with
    | some k, some j =>
      let (s, c) := t.traverseStartingAt cmp k (visitor j) (0, [])
      (st, showList s.2.reverse ++ " cmp-ok c=" ++ toString c)
    | _, _ => (st, "bad-op")
  | ["rtravfrom", k, j] =>
    match parseInt? k, j.toNat? with
    | some k, some j =>
      let (s, c) := t.reverseTraverseStartingAt cmp k (visitor j) (0, [])
      (st, showList s.2.reverse ++ " cmp-ok c=" ++ toString c)
    | _, _ => (st, "bad-op")
  | ["dump"] => (st, dumpT t.root ++ " parents=ok")
  | ["inv"] => (st, "ok")
  | _ => (st, "bad-op")

def main : IO Unit := Proto.run step { div10 := false, tree := Tree.empty }
