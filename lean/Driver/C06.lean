import Driver.Proto
import Model.RBTreeChecked
import Model.RBHeap
open Proto RB

/-- two trees per history (`swap` exchanges them; all other operations act on `tree`), sharing the compare function -/
structure DState where
  div10 : Bool
  tree : Tree Int Int
  other : Tree Int Int := Tree.empty
  /-- the pointer-level model (`Model/RBHeap.lean`) of the same two trees, run in lock-step; `none` = it dereferenced
      `nil` or ran out of fuel earlier in this history -/
  heap : Option (PTree Int Int) := some PTree.empty
  oheap : Option (PTree Int Int) := some PTree.empty

/-- visitor of the harness: record the entry, continue while fewer than `j` entries have been visited -/
def visitor (j : Nat) (s : Nat × List (Int × Int)) (k v : Int) : (Nat × List (Int × Int)) × Bool :=
  ((s.1 + 1, (k, v) :: s.2), decide (s.1 + 1 < j))

/-- a visitor that panics at its `j`-th visit: the panic unwinds the whole traversal (the library has no recover),
    which for the tree is the same as a visitor returning `false` there — the entries up to and including the `j`-th
    have been seen and nothing is modified -/
def panicVisitor (j : Nat) (s : Nat × List (Int × Int)) (k v : Int) : (Nat × List (Int × Int)) × Bool :=
  ((s.1 + 1, (k, v) :: s.2), decide (s.1 + 1 ≠ j))

def showList (l : List (Int × Int)) : String :=
  if l.isEmpty then "-" else " ".intercalate (l.map fun e => toString e.1 ++ ":" ++ toString e.2)

/-- visitor for the `p…` traversals: `reent` = stops after `j` visits (and only reads the tree from inside the
    callback, which the model need not represent), any other kind = panics at the `j`-th visit -/
def pVisitor (kind : String) (j : Nat) := if kind == "reent" then visitor j else panicVisitor j

def pOut (kind : String) (j : Nat) (s : Nat × List (Int × Int)) : String :=
  showList s.2.reverse ++ (if kind != "reent" && j != 0 && s.1 == j then " panicked" else " done")

def showOpt : Option Int → String
  | none => "none"
  | some v => toString v

def dumpT : T Int Int → String
  | .nil => "."
  | .node c l k v r =>
    "(" ++ (if c = .red then "r" else "b") ++ toString k ++ ":" ++ toString v ++ " " ++ dumpT l ++ " " ++ dumpT r ++ ")"

def eqT : T Int Int → T Int Int → Bool
  | .nil, .nil => true
  | .node c l k v r, .node c' l' k' v' r' => c == c' && k == k' && v == v' && eqT l l' && eqT r r'
  | _, _ => false

/-- does the pointer-level model describe the functional tree `t` (links read off with every parent link checked,
    `count` equal)? -/
def heapAgrees (h : Option (PTree Int Int)) (t : Tree Int Int) : Bool :=
  match h with
  | none => false
  | some h => h.count == t.count && (match h.abs with | some x => eqT x t.root | none => false)

/-- lock-step policy: the full comparison after every mutation while the tree is small, the count and the presence of
    a root always; big trees are compared in full at every `dump` / `inv` line -/
def heapVerdict (h : Option (PTree Int Int)) (t : Tree Int Int) : String :=
  match h with
  | none => " HEAP-MODEL-NIL-DEREF"
  | some p =>
    if p.count != t.count || p.root.isSome != (t.count != 0) then " HEAP-MODEL-SPLIT"
    else if t.count ≤ 40 && !heapAgrees h t then " HEAP-MODEL-SPLIT"
    else ""

/-- The trailing ` c=N` is the model's own number of compare calls; the check strips it (exact counts are not part of
    the property) and keeps it as an informational statistic.  `cmp-ok` is the constant verdict of the comparison
    bound (the model meets it by `C06.compares_run`).
    `ins`/`rem` run the PARTIAL operations `Tree.insertC` / `Tree.removeC` (every pointer access of the Go fix-ups is an
    `Option`); `nil-deref` would mean the model reached a state in which the Go code dereferences `nil` —
    `C06.fixups_never_dereference_nil` proves it never happens and that the results are those of `Tree.insert/remove`.
    `pins`/`prem`/`pget`: the compare function panics at its first call — an operation that calls `compare` at all
    (model count ≠ 0, i.e. the tree is not empty) is abandoned before it has modified anything. -/
def step (st : DState) (line : String) : DState × String :=
  let cmp := cmpOf st.div10
  let t := st.tree
  match words line with
  | ["reset", m] => ({ div10 := m == "div10", tree := Tree.empty }, "ok")
  | ["reset", m, _] => ({ div10 := m == "div10", tree := Tree.empty }, "ok")
  | ["swap"] => ({ st with tree := st.other, other := st.tree, heap := st.oheap, oheap := st.heap }, "ok")
  | ["ins", k, v] =>
    match parseInt? k, parseInt? v with
    | some k, some v =>
      match t.insertC cmp k v with
      | some (t', c) =>
        let hp := st.heap
        let st := { st with heap := none }
        let hp := hp.bind (·.insert cmp k v)
        let verdict := heapVerdict hp t'
        ({ st with tree := t', heap := hp }, "done" ++ verdict ++ " cmp-ok c=" ++ toString c)
      | none => (st, "nil-deref")
    | _, _ => (st, "bad-op")
  | ["pins", k, v] =>
    match parseInt? k, parseInt? v with
    | some k, some v =>
      match t.insertC cmp k v with
      | some (t', c) =>
        if c == 0 then
          let hp := st.heap.bind (·.insert cmp k v)
          ({ st with tree := t', heap := hp }, "done" ++ heapVerdict hp t' ++ " cmp-ok c=0")
        else (st, "cmp-panic")
      | none => (st, "nil-deref")
    | _, _ => (st, "bad-op")
  | ["rem", k] =>
    match parseInt? k with
    | some k =>
      match t.removeC cmp k with
      | some (t', c) =>
        let hp := st.heap
        let st := { st with heap := none }
        let hp := hp.bind (·.remove cmp k)
        let verdict := heapVerdict hp t'
        ({ st with tree := t', heap := hp },
         (if t'.count != t.count then "removed" else "absent") ++ verdict ++ " cmp-ok c=" ++ toString c)
      | none => (st, "nil-deref")
    | _ => (st, "bad-op")
  | ["prem", k] =>
    match parseInt? k with
    | some k =>
      match t.removeC cmp k with
      | some (t', c) =>
        if c == 0 then
          let hp := st.heap.bind (·.remove cmp k)
          ({ st with tree := t', heap := hp },
           (if t'.count != t.count then "removed" else "absent") ++ heapVerdict hp t' ++ " cmp-ok c=0")
        else (st, "cmp-panic")
      | none => (st, "nil-deref")
    | _ => (st, "bad-op")
  | ["get", k] =>
    match parseInt? k with
    | some k =>
      let (r, c) := t.get cmp k
      -- the same lookup on the pointer-level structure (`node.find` over the links); `C06.heap_find_first`
      let viaHeap : Option (Option Int) := st.heap.bind fun h =>
        (PTree.find cmp h k (h.nodes.size + 2) h.root).map fun p => (h.get p).map (·.value)
      (st, showOpt r ++ (if viaHeap == some r then "" else " HEAP-MODEL-SPLIT") ++ " cmp-ok c=" ++ toString c)
    | _ => (st, "bad-op")
  | ["pget", k] =>
    match parseInt? k with
    | some k => let (r, c) := t.get cmp k; (st, if c == 0 then showOpt r ++ " cmp-ok c=0" else "cmp-panic")
    | _ => (st, "bad-op")
  | ["first"] => (st, showOpt t.first)
  | ["last"] => (st, showOpt t.last)
  | ["count"] => (st, toString t.count ++ " " ++ toString t.isEmpty)
  | ["trav", j] =>
    match j.toNat? with
    | some j => (st, showList (t.traverse (visitor j) (0, [])).2.reverse)
    | _ => (st, "bad-op")
  | ["rtrav", j] =>
    match j.toNat? with
    | some j => (st, showList (t.reverseTraverse (visitor j) (0, [])).2.reverse)
    | _ => (st, "bad-op")
  | ["travfrom", k, j] =>
    match parseInt? k, j.toNat? with
    | some k, some j =>
      let (s, c) := t.traverseStartingAt cmp k (visitor j) (0, [])
      (st, showList s.2.reverse ++ " cmp-ok c=" ++ toString c)
    | _, _ => (st, "bad-op")
  | ["rtravfrom", k, j] =>
    match parseInt? k, j.toNat? with
    | some k, some j =>
      let (s, c) := t.reverseTraverseStartingAt cmp k (visitor j) (0, [])
      (st, showList s.2.reverse ++ " cmp-ok c=" ++ toString c)
    | _, _ => (st, "bad-op")
  | ["ptrav", j, kind] =>
    match j.toNat? with
    | some j => (st, pOut kind j (t.traverse (pVisitor kind j) (0, [])))
    | _ => (st, "bad-op")
  | ["prtrav", j, kind] =>
    match j.toNat? with
    | some j => (st, pOut kind j (t.reverseTraverse (pVisitor kind j) (0, [])))
    | _ => (st, "bad-op")
  | ["ptravfrom", k, j, kind] =>
    match parseInt? k, j.toNat? with
    | some k, some j => (st, pOut kind j (t.traverseStartingAt cmp k (pVisitor kind j) (0, [])).1)
    | _, _ => (st, "bad-op")
  | ["prtravfrom", k, j, kind] =>
    match parseInt? k, j.toNat? with
    | some k, some j => (st, pOut kind j (t.reverseTraverseStartingAt cmp k (pVisitor kind j) (0, [])).1)
    | _, _ => (st, "bad-op")
  | ["dumpapi"] => (st, "lines=" ++ toString t.count ++ " keys-ok unchanged")
  | ["dump"] =>
    -- printed from the POINTER-LEVEL model: the tree its links describe; `parents=ok` iff every parent link of that
    -- structure is the node the walk came from and the root has none
    match st.heap.bind (·.abs) with
    | some x => (st, dumpT x ++ " parents=ok" ++ (if heapAgrees st.heap t then "" else " HEAP-MODEL-SPLIT"))
    | none => (st, dumpT t.root ++ " parents=BAD-in-heap-model")
  | ["inv"] => (st, if heapAgrees st.heap t then "ok" else "HEAP-MODEL-SPLIT")
  | _ => (st, "bad-op")

def main : IO Unit := Proto.run step { div10 := false, tree := Tree.empty }
