import Driver.Proto
import Model.Errs
import Model.ErrsFmt
import Model.ErrsTrace
import Model.ErrsWalk
open Proto Errs

/-- driver state: the heap, the table of named error values, the counter that stands for pointer identity of
    foreign errors -/
structure St where
  fh : FHeap := {}   -- the heap, the recorded stacks beside it, the number of captures
  vars : List (Nat × Val) := []
  uid : Nat := 0
  /-- foreign errors of value kinds (struct, string, int): Go's `==` is equality of the content, so equal (kind, message)
      pairs share one identity -/
  valueErrs : List (String × String) := []
  cloned : Bool := false   -- CloneWithPrefixMessage shares the rest of a chain: links then need not point forward
  /-- identities of the foreign errors whose dynamic type is not comparable (slice, map, func kinds): `errors.Is` never
      compares against them -/
  uncmp : List Nat := []
  /-- the Go type of every foreign error made by `plain`, as a tag (2 errors.New, 3 struct, 4 string, 5 int, 6 slice, 7 map,
      8 func, 9 chan) -/
  types : List (Nat × Nat) := []

def St.heap (s : St) : Heap := s.fh.h

def St.get (s : St) (k : Nat) : Val := match s.vars.lookup k with | some v => v | none => .nilIface

def insertVar (k : Nat) (v : Val) : List (Nat × Val) → List (Nat × Val)
  | [] => [(k, v)]
  | (k', v') :: t => if k < k' then (k, v) :: (k', v') :: t else if k = k' then (k, v) :: t else (k', v') :: insertVar k v t

def varIx? (w : String) : Option Nat :=
  if w.startsWith "v" then (w.drop 1).toNat? else none

/-- the message bytes as a string (UTF-8; the generator emits valid UTF-8 only) -/
def strOfHex? (w : String) : Option String :=
  (hexBytes? w).bind (fun l => String.fromUTF8? (ByteArray.mk (l.map (fun b => b.toUInt8)).toArray))
def hexOfStr (s : String) : String := bytesHex (s.toUTF8.toList.map (·.toNat))

def nodeDesc (n : ENode) : String :=
  hexOfStr n.msg ++ "." ++ (if n.hasStack then "s" else "") ++ (if n.cause != .nilIface then "c" else "") ++
    (if n.cause != .nilIface && n.wrapped then "w" else "")

def sameAs (s : St) (v : Val) : String :=
  match s.vars.find? (fun p => p.2 == v) with
  | some p => "#" ++ toString p.1
  | none => "#?"

def valDesc (s : St) (v : Val) : String :=
  match v with
  | .nilIface => "nil"
  | .typedNil => "tn" ++ sameAs s v
  | .foreignNil => "fn" ++ sameAs s v
  | .plain _ m => "p" ++ sameAs s v ++ ":" ++ hexOfStr m
  | .fwrap _ m _ => "f" ++ sameAs s v ++ ":" ++ hexOfStr m
  | .ref id =>
    "e" ++ sameAs s v ++ "[" ++ toString (count s.heap id) ++ "|" ++ hexOfStr (message s.heap id) ++ "|" ++
      (if errorOrNil s.heap v == .nilIface then "z" else "n") ++ "|" ++
      ";".intercalate ((wrappedErrors s.heap id).map nodeDesc) ++ "]"

/-- every variable, observed; plus an alarm if a heap built without `clone` breaks the invariant the theorems assume -/
def dump (s : St) : String :=
  " ".intercalate (s.vars.map (fun p => "v" ++ toString p.1 ++ ":" ++ valDesc s p.2)) ++
    (if !s.cloned && !wfb s.heap then " !heap-invariant-broken" else "")

def assign (s : St) (k : Nat) (h : Heap) (v : Val) : St × String :=
  let s' := { s with fh := { s.fh with h := h }, vars := insertVar k v s.vars }
  (s', dump s')

/-- assignment after an operation that may have captured or copied stacks -/
def assignF (s : St) (k : Nat) (r : FHeap × Val) : St × String :=
  let s' := { s with fh := r.1, vars := insertVar k r.2 s.vars }
  (s', dump s')

/-- what the `render` op adds to the dump: `%s`, `%q` (for quotable messages) and `%v`/`%+v` with the frame blocks replaced
    by the tokens of the recorded stacks -/
def rendering (s : St) : Val → String
  | .ref id =>
    " R:" ++ hexOfStr (fmtS s.heap id) ++ ":" ++ (match fmtQ s.heap id with | some q => hexOfStr q | none => "?") ++ ":" ++
      hexOfStr (fmtV s.heap s.fh.T id)
  | _ => ""

def kindTag (kind : String) : Nat :=
  if kind == "struct" then 3 else if kind == "string" then 4 else if kind == "int" then 5
  else if kind == "slice" || kind == "slice0" then 6 else if kind == "map" then 7 else if kind == "func" then 8
  else if kind == "chan" then 9 else 2

/-- the dynamic type of a value as a tag: 0 `*errs.Error`, 1 the harness's foreign wrapper, 2.. the foreign error types -/
def St.ty (s : St) : Val → Nat
  | .ref _ => 0
  | .typedNil => 0
  | .fwrap _ _ _ => 1
  | .plain uid _ => (s.types.lookup uid).getD 2
  | _ => 100

/-- is `==` defined for the dynamic type of the value? -/
def St.cmp (s : St) : Val → Bool
  | .plain uid _ => !s.uncmp.contains uid
  | _ => true

def walkText : Walk → String
  | .found => "1"
  | .notFound => "0"
  | .panics => "panic"

def exec (s : St) (k : Nat) (op : String) (args : List String) : St × String :=
  match op, args with
  | "is", [a, b] =>   -- errors.Is(a, b); typed nils of foreign types are one notion in the model: not compared as targets
    match varIx? a, varIx? b with
    | some a, some b =>
      let r := assign s k s.heap (s.get a)
      (r.1, r.2 ++ " IS:" ++ (if s.get b == .foreignNil then "skip" else walkText (errorsIs s.heap s.cmp (s.get a) (s.get b))))
    | _, _ => (s, "bad-op")
  | "asf", [a, b] =>   -- errors.As(a, &target) with target of the dynamic type of b; the result is the value found
    match varIx? a, varIx? b with
    | some a, some b =>
      let v := s.get a
      let t := s.get b
      if t == .nilIface || t == .foreignNil || endsForeignNil s.heap (walkFuel s.heap v) v then
        let r := assign s k s.heap .nilIface
        (r.1, r.2 ++ " AS:skip")
      else
        match errorsAs s.heap s.ty (s.ty t) v with
        | .found w => let r := assign s k s.heap w; (r.1, r.2 ++ " AS:1")
        | .none => let r := assign s k s.heap .nilIface; (r.1, r.2 ++ " AS:0")
        | .panics => let r := assign s k s.heap .nilIface; (r.1, r.2 ++ " AS:panic")
    | _, _ => (s, "bad-op")
  | "as", [a] =>
    match varIx? a with
    | some a => assign s k s.heap (asTarget (s.get a))
    | none => (s, "bad-op")
  | "recover", [mode, x, rmsg] =>
    let pv : Option PanicVal :=
      if mode == "str" then (strOfHex? x).map PanicVal.str
      else if mode == "none" then some .none
      else (varIx? x).map (fun a => if s.get a == .nilIface then PanicVal.none else .err (s.get a))
    match pv, strOfHex? rmsg with
    | some pv, some rmsg =>
      let r := recoveryF s.fh 8 rmsg pv (mode != "nohandler")
      let o := assignF s k (r.1, r.2.getD .nilIface)
      (o.1, o.2 ++ " RC:" ++ (if r.2.isSome then "1" else "0"))
    | _, _ => (s, "bad-op")
  | "log", [a, _] =>
    match varIx? a with
    | some a =>
      let r := logRecordF s.fh 9 (s.get a)
      let o := assignF s k (r.1, r.2.2.getD .nilIface)
      (o.1, o.2 ++ " L:" ++ hexOfStr r.2.1)
    | none => (s, "bad-op")
  | "nil", [] => assign s k s.heap .nilIface
  | "tnil", [] => assign s k s.heap .typedNil
  | "fnil", [] => assign s k s.heap .foreignNil
  | "fnil", [_] => assign s k s.heap .foreignNil   -- a typed nil of any nilable kind is the one notion `foreignNil`
  | "empty", [] => assignF s k (newEmptyF s.fh)
  | "plain", [m] | "plain", [m, "ptr"] =>
    match strOfHex? m with
    | some m => assign { s with uid := s.uid + 1, types := (s.uid, 2) :: s.types } k s.heap (.plain s.uid m)
    | none => (s, "bad-op")
  | "plain", [m, kind] =>   -- a non-nil foreign error of another kind: still just a foreign error with a message
    match strOfHex? m with
    | some m =>
      if kind == "struct" || kind == "string" || kind == "int" then
        match s.valueErrs.findIdx? (fun p => p == (kind, m)) with
        | some i => assign s k s.heap (.plain (1000000 + i) m)
        | none => assign { s with valueErrs := s.valueErrs ++ [(kind, m)],
                                  types := (1000000 + s.valueErrs.length, kindTag kind) :: s.types } k s.heap
                    (.plain (1000000 + s.valueErrs.length) m)
      else if kind == "chan" then
        assign { s with uid := s.uid + 1, types := (s.uid, kindTag kind) :: s.types } k s.heap (.plain s.uid m)
      else if kind == "slice" || kind == "slice0" || kind == "map" || kind == "func" then
        assign { s with uid := s.uid + 1, uncmp := s.uid :: s.uncmp, types := (s.uid, kindTag kind) :: s.types } k s.heap
          (.plain s.uid m)
      else (s, "bad-op")
    | none => (s, "bad-op")
  | "new", [m] | "newf", [m] =>
    match strOfHex? m with
    | some m => assignF s k (newF s.fh (if op == "new" then 1 else 2) m)
    | none => (s, "bad-op")
  | "cause", [m, c] | "causef", [m, c] =>
    match strOfHex? m, varIx? c with
    | some m, some c => assignF s k (newWithCauseF s.fh (if op == "cause" then 3 else 4) m (s.get c))
    | _, _ => (s, "bad-op")
  | "fwrap", [m, c] =>
    match strOfHex? m, varIx? c with
    | some m, some c => assign { s with uid := s.uid + 1 } k s.heap (.fwrap s.uid m (s.get c))
    | _, _ => (s, "bad-op")
  | "append", a :: rest =>
    match varIx? a, rest.mapM varIx? with
    | some a, some rest =>
      assignF s k (appendF s.fh 7 (s.get a) (rest.map s.get))
    | _, _ => (s, "bad-op")
  | "wrap", [a] =>
    match varIx? a with
    | some a => assignF s k (wrapF s.fh 5 (s.get a))
    | none => (s, "bad-op")
  | "wraptyped", [a] =>
    match varIx? a with
    | some a => assignF s k (wrapTypedF s.fh 6 (s.get a))
    | none => (s, "bad-op")
  | "unwrap", [a] =>
    match varIx? a with
    | some a => assign s k s.heap (unwrap s.heap (s.get a))
    | none => (s, "bad-op")
  | "render", [a] =>   -- the harness renders the value with every verb (judged there); the result is the value itself
    match varIx? a with
    | some a => let r := assign s k s.heap (s.get a); (r.1, r.2 ++ rendering r.1 (s.get a))
    | none => (s, "bad-op")
  | "elem", [a, i] =>
    match varIx? a, i.toNat? with
    | some a, some i => assignF s k (elemF s.fh (s.get a) i)
    | _, _ => (s, "bad-op")
  | "eon", [a] =>
    match varIx? a with
    | some a => assign s k s.heap (errorOrNil s.heap (s.get a))
    | none => (s, "bad-op")
  | "clone", [a, m] =>
    match varIx? a, strOfHex? m with
    | some a, some m => assignF { s with cloned := true } k (cloneF s.fh (s.get a) m)
    | _, _ => (s, "bad-op")
  | _, _ => (s, "bad-op")

/-! ### area `trace`: the whole text of `Detail(trim)` over real frames (stateless lines)

`trace <trim> P<prefix,…> <extra> B<buffer> R<recovery message> <level>…` — every level is `ctor:probe:depth:msg:lib:site`: one constructor call whose
argument is the value built by the level before it; `site` are the frames `runtime.Callers` saw on the source line of the
call (innermost first), `lib` the library's own frames above it; the harness ignores both lists and repeats the calls. -/

structure TSt where
  h : Heap := #[]
  F : FrameTab := #[]
  cur : Val := .nilIface
  uid : Nat := 0

def parseFrame (w : String) : Option Frame :=
  match w.splitOn "," with
  | [a, b, c] =>
    match strOfHex? a, strOfHex? b, c.toNat? with
    | some fn, some file, some ln => some { fn := fn, file := file, line := ln }
    | _, _, _ => none
  | _ => none

def parseFrames (w : String) : Option (List Frame) :=
  if w == "_" then some [] else (w.splitOn ";").mapM parseFrame

def parsePrefixes (w : String) : Option (List String) :=
  if !w.startsWith "P" then none
  else if w == "P" then some []
  else ((w.drop 1).toString.splitOn ",").mapM strOfHex?

/-- after an operation on the heap: the first new cell carries the stack captured by the call, further new cells none -/
def TSt.adopt (t : TSt) (r : Heap × Val) (fs : List Frame) : TSt :=
  let extra := r.1.size - t.h.size
  { t with h := r.1, cur := r.2,
           F := if extra = 0 then t.F else t.F ++ (fs :: List.replicate (extra - 1) []).toArray }

def traceLevel (buf : Nat) (rmsg : String) (t : TSt) (w : String) : Option TSt :=
  match w.splitOn ":" with
  | [ctor, _, _, m, lib, site] =>
    match strOfHex? m, parseFrames lib, parseFrames site with
    | some m, some lib, some site =>
      let fs := recordStack buf lib site
      match ctor with
      | "new" | "newf" => some (t.adopt (new t.h m) fs)
      | "cause" | "causef" => some (t.adopt (newWithCause t.h m t.cur) fs)
      | "wrap" => some (t.adopt (wrap t.h t.cur) fs)
      | "wraptyped" => some (t.adopt (wrapTyped t.h t.cur) fs)
      | "recover" =>   -- panic(cur) under Recovery: one new error caused by the panic value (no panic for a nil interface)
        match recovery t.h rmsg (if t.cur == .nilIface then .none else .err t.cur) true with
        | (h', some v) => some (t.adopt (h', v) fs)
        | (_, none) => some { t with cur := .nilIface }
      | "plain" => some { t with cur := .plain t.uid m, uid := t.uid + 1 }
      | "fwrap" => some { t with cur := .fwrap t.uid m t.cur, uid := t.uid + 1 }
      | "nil" => some { t with cur := .nilIface }
      | "tnil" => some { t with cur := .typedNil }
      | "fnil" => some { t with cur := .foreignNil }
      | "appendacc" =>   -- Append(cur): a foreign accumulator is wrapped, with a stack captured inside Append
        let r := append t.h t.cur []
        some (t.adopt (r.1, ptrVal r.2.1) fs)
      | "appendarg" =>   -- Append(nil, cur): an *Error argument is copied cell by cell (the copies keep their stacks)
        match t.cur with
        | .ref id =>
          let r := append t.h .nilIface [t.cur]
          let src := if isEmpty t.h id then [] else (chain t.h (fuelOf t.h) id).map (framesOf t.F)
          some { t with h := r.1, cur := ptrVal r.2.1, F := t.F ++ src.toArray }
        | _ =>
          let r := append t.h .nilIface [t.cur]
          some (t.adopt (r.1, ptrVal r.2.1) fs)
      | _ => none
    | _, _, _ => none
  | _ => none

def parseBuf (w : String) : Option Nat := if w.startsWith "B" then (w.drop 1).toNat? else none

def parseRmsg (w : String) : Option String := if w.startsWith "R" then strOfHex? (w.drop 1).toString else none

def traceLine (trim pfx extra buf rmsg : String) (levels : List String) : String :=
  match parsePrefixes pfx, extra.toNat?,
    (parseBuf buf).bind (fun b => (parseRmsg rmsg).bind (fun r => levels.foldlM (traceLevel b r) ({} : TSt))) with
  | some P, some n, some t =>
    match t.cur with
    | .ref id =>
      -- `extra` further plain errors appended to the result: the message becomes the list, the trace stays the first error's
      let t := if n = 0 || isEmpty t.h id then t else
        let r := append t.h t.cur ((List.range n).map (fun i => Val.plain (1000 + i) ("extra" ++ toString i)))
        t.adopt (r.1, ptrVal r.2.1) []
      (match t.cur with
       | .ref id => "D:" ++ hexOfStr (detailR (trim == "1") P t.F t.h id)
       | _ => "nonref")
    | .nilIface => "nil"
    | .typedNil => "tn"
    | _ => "nonref"
  | _, _, _ => "bad-op"

def step (s : St) (line : String) : St × String :=
  match words line with
  | ["reset"] => ({}, "reset")
  | "trace" :: trim :: pfx :: extra :: buf :: rmsg :: levels => (s, traceLine trim pfx extra buf rmsg levels)
  | v :: "=" :: op :: args =>
    match varIx? v with
    | some k => exec s k op args
    | none => (s, "bad-op")
  | _ => (s, "bad-op")

def main : IO Unit := Proto.run step {}
