import Driver.Proto
import Model.NotifierReentryN
import Model.NotifierConc
import Model.NotifierJudge
open Proto Nt

/-- the harness' panicking targets -/
def pan (t : Nat) : Bool := if t < 5 then t == 2 || t == 3 else t % 5 == 2

def nat? (s : String) : Option Nat := s.toNat?

def parseOp (ws : List String) : Option Op :=
  match ws with
  | "reg" :: n :: t :: p :: names =>
    match nat? n, nat? t, parseInt? p, names.mapM hexBytes? with
    | some n, some t, some p, some raws => some (.register n t p raws)
    | _, _, _, _ => none
  | ["unreg", n, t] => match nat? n, nat? t with | some n, some t => some (.unregister n t) | _, _ => none
  | ["merge", n, m] => match nat? n, nat? m with | some n, some m => some (.merge n m) | _, _ => none
  | ["enable", n, b] => match nat? n with | some n => some (.setEnabled n (b == "1")) | _ => none
  | ["nreset", n] => (nat? n).map .reset
  | ["start", n] => (nat? n).map .startBatch
  | ["end", n] => (nat? n).map .endBatch
  | ["notify", n, raw] => match nat? n, hexBytes? raw with | some n, some r => some (.notify n r) | _, _ => none
  | ["notify", n, raw, _] => match nat? n, hexBytes? raw with | some n, some r => some (.notify n r) | _, _ => none
  | ["notifyd", n, raw] => match nat? n, hexBytes? raw with | some n, some r => some (.notify n r) | _, _ => none
  | ["notifyd", n, raw, _] => match nat? n, hexBytes? raw with | some n, some r => some (.notify n r) | _, _ => none
  | _ => none

def opNotifier : Op → Nat
  | .register n .. | .unregister n _ | .merge n _ | .setEnabled n _ | .reset n | .startBatch n | .endBatch n
  | .notify n _ => n

/-- canonical order of the observation: priority descending, then target ascending (batch calls: target ascending) -/
def evKey : Event → Int × Nat
  | .handle _ t _ p => (p, t)
  | .batchMode _ t _ => (0, t)
  | .recovered _ t => (0, t)

def evLe (a b : Event) : Bool :=
  let ka := evKey a; let kb := evKey b
  ka.1 > kb.1 || (ka.1 == kb.1 && ka.2 ≤ kb.2)

def evTok : Event → String
  | .handle _ t name p => s!"h{t}:{p}:{bytesHex (joinDots name)}"
  | .batchMode _ t st => s!"b{t}:{if st then 1 else 0}"
  | .recovered .. => ""

def isRec : Event → Bool
  | .recovered .. => true
  | _ => false

def isHandle : Event → Bool
  | .handle .. => true
  | _ => false

def isBatchEv : Event → Bool
  | .batchMode .. => true
  | _ => false

def startFlag : Event → Nat
  | .batchMode _ _ st => if st then 1 else 0
  | _ => 0

/-- canonical observation: the HandleNotification calls by (priority descending, target, token), then the BatchMode
    calls by (target, flag) -/
def render (evs : List Event) (s : NSt) : String :=
  let hs := (evs.filter isHandle).mergeSort (fun a b =>
    let ka := evKey a; let kb := evKey b
    ka.1 > kb.1 || (ka.1 == kb.1 && (ka.2 < kb.2 || (ka.2 == kb.2 && evTok a ≤ evTok b))))
  let bs := (evs.filter isBatchEv).mergeSort (fun a b =>
    (evKey a).2 < (evKey b).2 || ((evKey a).2 == (evKey b).2 && startFlag a ≤ startFlag b))
  let toks := (hs ++ bs).map evTok
  let recs := (evs.filter isRec).length
  " ".intercalate ("order-ok" :: toks) ++ s!" | rec={recs} | L{s.level} E{if s.enabled then 1 else 0}"

def strLe (a b : String) : Bool := a ≤ b

/-- canonical dump of the three maps (white-box comparison; supports `maps_consistent`) -/
def dumpPNB (s : NSt) : String :=
  let prodL := s.prod.map (fun (e : Name × List (Nat × Int)) =>
    bytesHex (joinDots e.1) ++ "=" ++
      ",".intercalate ((e.2.mergeSort (fun a b => a.1 ≤ b.1)).map (fun tp => s!"{tp.1}:{tp.2}")))
  let nameL := (s.names.mergeSort (fun a b => a.1 ≤ b.1)).map (fun (e : Nat × List Name) =>
    s!"{e.1}=" ++ ",".intercalate ((e.2.map (fun n => bytesHex (joinDots n))).mergeSort strLe))
  let nats (l : List Nat) := ",".intercalate ((l.mergeSort (fun a b => a ≤ b)).map toString)
  "P[" ++ " ".intercalate (prodL.mergeSort strLe) ++ "] N[" ++ " ".intercalate nameL ++ "] B[" ++ nats s.batch ++ "]"

def dump (s : NSt) : String :=
  let nats (l : List Nat) := ",".intercalate ((l.mergeSort (fun a b => a ≤ b)).map toString)
  dumpPNB s ++ " C[" ++ nats s.current ++ s!"] L{s.level} E{if s.enabled then 1 else 0}"

/-! ### the linearizability judge of the `race` area.

The -race stress harness records, per round, what 2-4 goroutines observed while calling the real notifier concurrently
(every call stamped at call and return; the targets of every Notify in delivery order, the targets of every BatchMode
broadcast, the values of Enabled() / BatchLevel(), the maps copied out by RegisterFromNotifier) and the white-box dump of
the registry after the round.  The judge below is the CONCLUSION of `C17.concurrent_registry_linearizable` /
`notify_delivers_snapshot` / `batch_delivers_snapshot` with the model itself as the sequential reference: it searches an
acquisition order `acq : List (goroutine × NtC.ROp)` — program order and real time respected, the brackets of one call
(`NtC.Call.ops`) adjacent — such that `Mutex.seqExec NtC.rrun s₀ acq` hands every call exactly the results it observed
and ends in a registry whose dump is the observed one. -/
open NtC in
inductive LObs where
  | nothing
  | handles (bad : Bool) (hs : List (Nat × List Nat))   -- (target, name bytes) in delivery order
  | batches (bs : List (Nat × Bool))
  | flag (b : Bool)
  | num (n : Nat)
  | text (bytes : List Nat)

structure LCall where
  call : NtC.Call
  t0 : Nat
  t1 : Nat
  obs : LObs

/-- the quiescent source notifier of the harness' `merge` calls -/
def linOther : NSt := register (register {} 4 3 [[97], [98, 46, 120]]) 0 (-2) [[97, 46, 98]]

def strBytes (s : String) : List Nat := s.toUTF8.toList.map (·.toNat)

def sortedNats (l : List Nat) : List Nat := l.mergeSort (fun a b => a ≤ b)

/-- do the results the sequential execution hands to the brackets of this call explain what the call observed -/
def obsOk (c : LCall) (rs : List NtC.RRes) : Bool :=
  match c.call, rs, c.obs with
  | .enabled, [.bool b], .flag b' => b == b'
  | .batchLevel, [.nat n], .num n' => n == n'
  | .startBatch, [.targets ts], .batches bs => bs.all (·.2) && sortedNats (bs.map (·.1)) == sortedNats ts
  | .endBatch, [.targets ts], .batches bs => bs.all (fun b => !b.2) && sortedNats (bs.map (·.1)) == sortedNats ts
  | .notify raw, [.bool en, .table tb], .handles bad hs =>
    NtJ.notifyObsOk en tb raw bad hs   -- Model/NotifierJudge.lean; `C17.judge_accepts_only_allowed_deliveries`
  -- an empty text = the harness has no white-box view of this working tree (representation not recognised): not judged
  | .copyOut, [.maps p nm b], .text bytes => bytes.isEmpty || bytes == strBytes (dumpPNB (NtC.ofMaps p nm b))
  | .register .., [.unit], _ => true
  | .unregister _, [.unit], _ => true
  | .setEnabled _, [.unit], _ => true
  | .reset, [.unit], _ => true
  | .mergeIn .., [.unit], _ => true
  | _, _, _ => false

def natList? (sep : String) (s : String) : Option (List String) := if s == "-" then some [] else some (s.splitOn sep)

def parsePair (s : String) : Option (String × String) :=
  match s.splitOn ":" with
  | [a, b] => some (a, b)
  | _ => none

def parseCall (tok : String) : Option LCall :=
  match tok.splitOn "," with
  | kind :: c :: r :: args =>
    match nat? c, nat? r with
    | some t0, some t1 =>
      let mk (call : NtC.Call) (obs : LObs) : Option LCall := some ⟨call, t0, t1, obs⟩
      match kind, args with
      | "reg", t :: p :: names =>
        match nat? t, parseInt? p, names.mapM hexBytes? with
        | some t, some p, some raws => mk (.register t p raws) .nothing
        | _, _, _ => none
      | "unreg", [t] => (nat? t).bind fun t => mk (.unregister t) .nothing
      | "enable", [b] => mk (.setEnabled (b == "1")) .nothing
      | "reset", [] => mk .reset .nothing
      | "merge", [] => mk (.mergeIn linOther.prod linOther.names linOther.batch) .nothing
      | "enabled", [b] => mk .enabled (.flag (b == "1"))
      | "level", [n] => (nat? n).bind fun n => mk .batchLevel (.num n)
      | "copyout", [h] => (hexBytes? h).bind fun bs => mk .copyOut (.text bs)
      | "start", [bs] | "end", [bs] =>
        match (natList? "/" bs).bind (·.mapM fun x => (parsePair x).bind fun (a, b) => (nat? a).map (·, b == "1")) with
        | some l => mk (if kind == "start" then .startBatch else .endBatch) (.batches l)
        | none => none
      | "notify", [raw, bad, hs] =>
        match hexBytes? raw,
          (natList? "/" hs).bind (·.mapM fun x => (parsePair x).bind fun (a, b) =>
            match nat? a, hexBytes? b with | some a, some b => some (a, b) | _, _ => none) with
        | some raw, some l => mk (.notify raw) (.handles (bad == "1") l)
        | _, _ => none
      | _, _ => none
    | _, _ => none
  | _ => none

/-- split the tokens of a round at the `|` separators: one program per goroutine -/
def splitProgs : List String → List (List String)
  | [] => [[]]
  | "|" :: rest => [] :: splitProgs rest
  | t :: rest => match splitProgs rest with
    | [] => [[t]]
    | p :: ps => (t :: p) :: ps

/-- remove the head call of program `g` -/
def popProg : List (List LCall) → Nat → List (List LCall)
  | [], _ => []
  | p :: ps, 0 => p.tail :: ps
  | p :: ps, g + 1 => p :: popProg ps g

/-- all end states (distinct dumps, at most 16; with `final` given: the first one whose dump is `final`) of acquisition
    orders that explain the round from `s`; `acq` = the order so far, reversed -/
def linSearch (final : Option String) : Nat → List (List LCall) → NSt → List (Nat × NtC.ROp) → List (NSt × List (Nat × NtC.ROp)) →
    List (NSt × List (Nat × NtC.ROp))
  | 0, _, _, _, found => found
  | fuel + 1, progs, s, acq, found =>
    if progs.all List.isEmpty then
      let d := dump s
      if (match final with | some f => f == d | none => true) && !found.any (fun x => dump x.1 == d) && found.length < 16
      then (s, acq.reverse) :: found else found
    else
      let heads := progs.map List.head?
      (List.range progs.length).foldl (fun found g =>
        if final.isSome && !found.isEmpty then found else
        match (heads[g]?).join with
        | none => found
        | some a =>
          -- real time: a call that returned before `a` was made must already be in the order
          if heads.any (fun h => match h with | some b => decide (b.t1 < a.t0) | none => false) then found else
          let r := Mutex.seqExec NtC.rrun s (a.call.ops.map (fun op => (g, op)))
          if obsOk a (r.1.map (·.2.2)) then
            linSearch final fuel (popProg progs g) r.2 ((a.call.ops.map (fun op => (g, op))).reverse ++ acq) found
          else found) found

structure LinSt where
  cands : List NSt := [{}]
  /-- without a white-box view the set of possible registries may outgrow the bound of 16; from then on the rounds of
      this stress line are not judged here (the harness' own judge still is) -/
  sat : Bool := false

/-- judge one round from every candidate start state; the verdict is re-derived from the found order by ONE run of
    `Mutex.seqExec NtC.rrun` over the whole acquisition order (the left-hand side of
    `C17.concurrent_registry_linearizable`) -/
def linRound (st : LinSt) (ws : List String) : LinSt × String :=
  if st.sat then (st, "lin-ok unjudged") else
  match ws with
  | fin :: toks =>
    match hexBytes? fin, (splitProgs toks).mapM (·.mapM parseCall) with
    | some fb, some progs =>
      let final : Option String := if fb.isEmpty then none else some (String.ofList (fb.map Char.ofNat))
      let total := (progs.map List.length).foldl (· + ·) 0
      let ends := st.cands.foldl (fun acc s =>
        if final.isSome && !acc.isEmpty then acc else
        (linSearch final (total + 1) progs s [] []).foldl (fun acc (e : NSt × List (Nat × NtC.ROp)) =>
          let whole := Mutex.seqExec NtC.rrun s e.2
          if dump whole.2 == dump e.1 && !acc.any (fun x => dump x == dump e.1) && acc.length < 16 then e.1 :: acc else acc) acc) []
      if ends.isEmpty then ({ cands := [] }, "lin-fail")
      else if ends.length ≥ 16 then ({ cands := ends, sat := true }, "lin-ok saturated")
      else ({ cands := ends }, s!"lin-ok {ends.length}")
    | _, _ => (st, "bad-op")
  | [] => (st, "bad-op")

/-- the fixed tables shared with the harness, printed from the model's definitions (the harness prints its own copy) -/
def tablesLine : String :=
  let bits (f : Nat → Bool) : String := String.ofList ((List.range 128).map (fun i => if f i then '1' else '0'))
  let hk (n : Nat) : String := match handlerKind n with | .good => "good" | .bad => "bad" | .absent => "nil"
  "tables B" ++ bits batchCapable ++ " P" ++ bits pan ++
    " RH" ++ bits (fun t => reentersOn (.handle 0 t [] 0)) ++ " RB" ++ bits (fun t => reentersOn (.batchMode 0 t true)) ++
    s!" H {hk 0},{hk 1},{hk 2}"

/-- driver state: the world and the armed operation of the re-entrant target -/
structure DSt where
  w : World := World.init
  armed : List Op := []   -- the queue of armed operations of the re-entrant targets
  lin : LinSt := {}

/-- Re-entrancy is part of the model: `Nt.stepQ` (Model/NotifierReentryN.lean) executes the delivery loops with the world
    and the QUEUE of armed operations threaded through them; every callback of a re-entrant target (`Nt.reentersOn`:
    targets 6 and 10) pops the head of the queue and performs it as a complete exported call at that moment — whose own
    callbacks may pop the next one: any nesting depth.  `C17.reentrant_deep_spec` says what comes out;
    `C17.reentrant_depth_one_is_stepRe` ties it to the depth-1 model of `C17.reentrant_call_spec`. -/
def stepLine (d : DSt) (line : String) : DSt × String :=
  match words line with
  | ["reset"] => ({}, "reset")
  | ["tables"] => (d, tablesLine)
  | ["lin0"] => ({ d with lin := {} }, "lin0")
  | "lin" :: rest => let r := linRound d.lin rest; ({ d with lin := r.1 }, r.2)
  | ["dump", n] => match nat? n with | some n => (d, dump (d.w n)) | none => (d, "bad-op")
  | "arm" :: n :: rest =>
    match nat? n, parseOp rest with
    | some n, some op => ({ d with armed := d.armed ++ [op] }, render [] (d.w n))
    | _, _ => (d, "bad-op")
  | ws =>
    match parseOp ws with
    | none => (d, "bad-op")
    | some op =>
      let r := Nt.stepQ pan (d.w, d.armed) op
      ({ d with w := r.1.1, armed := r.1.2 }, render r.2 (r.1.1 (opNotifier op)))

def main : IO Unit := Proto.run stepLine {}
