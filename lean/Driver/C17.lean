import Driver.Proto
import Model.Notifier
open Proto Nt

/-- the harness' panicking targets -/
def pan (t : Nat) : Bool := if t < 5 then t == 2 || t == 3 else t % 5 == 2

/-- the harness' re-entrant target: executes the armed operation from inside its HandleNotification -/
def reentrant : Nat := 6

def nat? (s : String) : Option Nat := s.toNat?

def parseOp (ws : List String) : Option Op :=
  match ws with
  | "reg" :: n :: t :: p :: names =>
    match nat? n, nat? t, parseInt? p, names.mapM hexBytes? with
    | some n, some t, some p, some raws => some (.register n t p raws)
    | _, _, _, _ => none
  | ["unreg", n, t] => match nat? n, nat? t with | some n, some t => some (.unregister n t) | _, _ => none
  | ["merge", n, m] => match nat? n, nat? m with | some n, some m => some (.merge n m) | _, _ => none
  | ["enable", n, b] => match nat? n with | some n => some (.setEnabled n (b == "1")) | _ => none
  | ["nreset", n] => (nat? n).map .reset
  | ["start", n] => (nat? n).map .startBatch
  | ["end", n] => (nat? n).map .endBatch
  | ["notify", n, raw] => match nat? n, hexBytes? raw with | some n, some r => some (.notify n r) | _, _ => none
  | ["notify", n, raw, _] => match nat? n, hexBytes? raw with | some n, some r => some (.notify n r) | _, _ => none
  | ["notifyd", n, raw] => match nat? n, hexBytes? raw with | some n, some r => some (.notify n r) | _, _ => none
  | ["notifyd", n, raw, _] => match nat? n, hexBytes? raw with | some n, some r => some (.notify n r) | _, _ => none
  | _ => none

def opNotifier : Op → Nat
  | .register n .. | .unregister n _ | .merge n _ | .setEnabled n _ | .reset n | .startBatch n | .endBatch n
  | .notify n _ => n

/-- canonical order of the observation: priority descending, then target ascending (batch calls: target ascending) -/
def evKey : Event → Int × Nat
  | .handle _ t _ p => (p, t)
  | .batchMode _ t _ => (0, t)
  | .recovered _ t => (0, t)

def evLe (a b : Event) : Bool :=
  let ka := evKey a; let kb := evKey b
  ka.1 > kb.1 || (ka.1 == kb.1 && ka.2 ≤ kb.2)

def evTok : Event → String
  | .handle _ t name p => s!"h{t}:{p}:{bytesHex (joinDots name)}"
  | .batchMode _ t st => s!"b{t}:{if st then 1 else 0}"
  | .recovered .. => ""

def isRec : Event → Bool
  | .recovered .. => true
  | _ => false

def isHandle : Event → Bool
  | .handle .. => true
  | _ => false

def isBatchEv : Event → Bool
  | .batchMode .. => true
  | _ => false

def startFlag : Event → Nat
  | .batchMode _ _ st => if st then 1 else 0
  | _ => 0

/-- canonical observation: the HandleNotification calls by (priority descending, target, token), then the BatchMode
    calls by (target, flag) -/
def render (evs : List Event) (s : NSt) : String :=
  let hs := (evs.filter isHandle).mergeSort (fun a b =>
    let ka := evKey a; let kb := evKey b
    ka.1 > kb.1 || (ka.1 == kb.1 && (ka.2 < kb.2 || (ka.2 == kb.2 && evTok a ≤ evTok b))))
  let bs := (evs.filter isBatchEv).mergeSort (fun a b =>
    (evKey a).2 < (evKey b).2 || ((evKey a).2 == (evKey b).2 && startFlag a ≤ startFlag b))
  let toks := (hs ++ bs).map evTok
  let recs := (evs.filter isRec).length
  " ".intercalate ("order-ok" :: toks) ++ s!" | rec={recs} | L{s.level} E{if s.enabled then 1 else 0}"

def strLe (a b : String) : Bool := a ≤ b

/-- canonical dump of the three maps (white-box comparison; supports `maps_consistent`) -/
def dump (s : NSt) : String :=
  let prodL := s.prod.map (fun (e : Name × List (Nat × Int)) =>
    bytesHex (joinDots e.1) ++ "=" ++
      ",".intercalate ((e.2.mergeSort (fun a b => a.1 ≤ b.1)).map (fun tp => s!"{tp.1}:{tp.2}")))
  let nameL := (s.names.mergeSort (fun a b => a.1 ≤ b.1)).map (fun (e : Nat × List Name) =>
    s!"{e.1}=" ++ ",".intercalate ((e.2.map (fun n => bytesHex (joinDots n))).mergeSort strLe))
  let nats (l : List Nat) := ",".intercalate ((l.mergeSort (fun a b => a ≤ b)).map toString)
  "P[" ++ " ".intercalate (prodL.mergeSort strLe) ++ "] N[" ++ " ".intercalate nameL ++ "] B[" ++ nats s.batch ++
    "] C[" ++ nats s.current ++ s!"] L{s.level} E{if s.enabled then 1 else 0}"

/-- the harness' second re-entrant target: batch-capable, calls back from HandleNotification and from BatchMode -/
def reentrantBatch : Nat := 10

def callsReentrant : Event → Bool
  | .handle _ t _ _ => t == reentrant || t == reentrantBatch
  | .batchMode _ t _ => t == reentrantBatch
  | .recovered .. => false

/-- driver state: the world and the armed operation of the re-entrant target -/
structure DSt where
  w : World := World.init
  armed : Option Op := none

/-- Transcription of re-entrancy.  Every exported method finishes its work on the registry and releases the lock before
    the first callback, and iterates over a goroutine-local snapshot; so an operation performed by a target from inside
    `HandleNotification` / `BatchMode` (any operation: Register … Notify, StartBatch, EndBatch) sees the registry as the
    outer call left it, does not change what the outer call still delivers, and its own callbacks are simply made in
    between: the observation of the line is the union of both, the state is `Nt.step` composed twice.  The armed
    operation fires once, at the first callback of a re-entrant target. -/
def stepLine (d : DSt) (line : String) : DSt × String :=
  match words line with
  | ["reset"] => ({}, "reset")
  | ["dump", n] => match nat? n with | some n => (d, dump (d.w n)) | none => (d, "bad-op")
  | "arm" :: n :: rest =>
    match nat? n, parseOp rest with
    | some n, some op => ({ d with armed := some op }, render [] (d.w n))
    | _, _ => (d, "bad-op")
  | ws =>
    match parseOp ws with
    | none => (d, "bad-op")
    | some op =>
      let r := Nt.step pan d.w op
      let fired := r.2.any callsReentrant
      match fired, d.armed with
      | true, some op' =>
        let r' := Nt.step pan r.1 op'
        ({ w := r'.1, armed := none }, render (r.2 ++ r'.2) (r'.1 (opNotifier op)))
      | _, a => ({ w := r.1, armed := a }, render r.2 (r.1 (opNotifier op)))

def main : IO Unit := Proto.run stepLine {}
