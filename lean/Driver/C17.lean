import Driver.Proto
import Model.Notifier
open Proto Nt

/-- the harness' panicking targets -/
def pan (t : Nat) : Bool := t == 2 || t == 3

def nat? (s : String) : Option Nat := s.toNat?

def parseOp (ws : List String) : Option Op :=
  match ws with
  | "reg" :: n :: t :: p :: names =>
    match nat? n, nat? t, parseInt? p, names.mapM hexBytes? with
    | some n, some t, some p, some raws => some (.register n t p raws)
    | _, _, _, _ => none
  | ["unreg", n, t] => match nat? n, nat? t with | some n, some t => some (.unregister n t) | _, _ => none
  | ["merge", n, m] => match nat? n, nat? m with | some n, some m => some (.merge n m) | _, _ => none
  | ["enable", n, b] => match nat? n with | some n => some (.setEnabled n (b == "1")) | _ => none
  | ["nreset", n] => (nat? n).map .reset
  | ["start", n] => (nat? n).map .startBatch
  | ["end", n] => (nat? n).map .endBatch
  | ["notify", n, raw] => match nat? n, hexBytes? raw with | some n, some r => some (.notify n r) | _, _ => none
  | ["notifyd", n, raw] => match nat? n, hexBytes? raw with | some n, some r => some (.notify n r) | _, _ => none
  | _ => none

def opNotifier : Op → Nat
  | .register n .. | .unregister n _ | .merge n _ | .setEnabled n _ | .reset n | .startBatch n | .endBatch n
  | .notify n _ => n

/-- canonical order of the observation: priority descending, then target ascending (batch calls: target ascending) -/
def evKey : Event → Int × Nat
  | .handle _ t _ p => (p, t)
  | .batchMode _ t _ => (0, t)
  | .recovered _ t => (0, t)

def evLe (a b : Event) : Bool :=
  let ka := evKey a; let kb := evKey b
  ka.1 > kb.1 || (ka.1 == kb.1 && ka.2 ≤ kb.2)

def evTok : Event → String
  | .handle _ t name p => s!"h{t}:{p}:{bytesHex (joinDots name)}"
  | .batchMode _ t st => s!"b{t}:{if st then 1 else 0}"
  | .recovered .. => ""

def isRec : Event → Bool
  | .recovered .. => true
  | _ => false

def render (evs : List Event) (s : NSt) : String :=
  let calls := (evs.filter (fun e => !isRec e)).mergeSort evLe
  let toks := calls.map evTok
  let recs := (evs.filter isRec).length
  " ".intercalate ("order-ok" :: toks) ++ s!" | rec={recs} | L{s.level} E{if s.enabled then 1 else 0}"

def strLe (a b : String) : Bool := a ≤ b

/-- canonical dump of the three maps (white-box comparison; supports `maps_consistent`) -/
def dump (s : NSt) : String :=
  let prodL := s.prod.map (fun (e : Name × List (Nat × Int)) =>
    bytesHex (joinDots e.1) ++ "=" ++
      ",".intercalate ((e.2.mergeSort (fun a b => a.1 ≤ b.1)).map (fun tp => s!"{tp.1}:{tp.2}")))
  let nameL := (s.names.mergeSort (fun a b => a.1 ≤ b.1)).map (fun (e : Nat × List Name) =>
    s!"{e.1}=" ++ ",".intercalate ((e.2.map (fun n => bytesHex (joinDots n))).mergeSort strLe))
  let nats (l : List Nat) := ",".intercalate ((l.mergeSort (fun a b => a ≤ b)).map toString)
  "P[" ++ " ".intercalate (prodL.mergeSort strLe) ++ "] N[" ++ " ".intercalate nameL ++ "] B[" ++ nats s.batch ++
    "] C[" ++ nats s.current ++ s!"] L{s.level} E{if s.enabled then 1 else 0}"

def stepLine (w : World) (line : String) : World × String :=
  match words line with
  | ["reset"] => (World.init, "reset")
  | ["dump", n] => match nat? n with | some n => (w, dump (w n)) | none => (w, "bad-op")
  | ws =>
    match parseOp ws with
    | none => (w, "bad-op")
    | some op =>
      let r := Nt.step pan w op
      (r.1, render r.2 (r.1 (opNotifier op)))

def main : IO Unit := Proto.run stepLine World.init
