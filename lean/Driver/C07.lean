import Driver.Proto
import Model.QuadTree
open Proto Geom QT

/-! Model driver of C07.  A history starts with `reset i|f <Threshold>`; coordinates are decimal ints (`i`) or exact
    rationals `n/d` (`f`).  Mutations answer `n=<Size> all=<sorted ids>`; `probe` answers the sixteen queries. -/
namespace DrvC07

def fuel : Nat := 200

def parseRat? (s : String) : Option Rat :=
  match s.splitOn "/" with
  | [n] => n.toInt?.map (fun i => (i : Rat))
  | [n, d] => match n.toInt?, d.toNat? with
    | some i, some k => if k = 0 then none else some (mkRat i k)
    | _, _ => none
  | _ => none

def insertSorted (a : Nat) : List Nat → List Nat
  | [] => [a]
  | b :: t => if a ≤ b then a :: b :: t else b :: insertSorted a t

def sortIds (l : List Nat) : List Nat := l.mergeSort (fun a b => decide (a ≤ b))

def idsStr {R : Type} (l : List (Item R)) : String :=
  if l.isEmpty then "-" else ",".intercalate ((sortIds (l.map (·.id))).map toString)

def boolStr (b : Bool) : String := if b then "T" else "F"

section Generic
variable {α : Type} [RectOps (Rect α) (Point α)] [DecidableEq α]

/-- the package's contract (`QT.OpOKI`): an object of which an entry is stored still has the bounds it was stored with.
    Generated histories respect it; a history cut down by the minimiser may not, then the line is skipped on both
    sides. -/
def contractOK (t : Tree (Rect α)) (id : Nat) (r : Rect α) : Bool :=
  t.all.all (fun x => !(x.id == id) || (decide (x.rect.x = r.x) && decide (x.rect.y = r.y) && decide (x.rect.w = r.w) && decide (x.rect.h = r.h)))

def stateStr (t : Tree (Rect α)) : String :=
  if t.fuelOK fuel then "n=" ++ toString t.size ++ " all=" ++ idsStr t.all else "out-of-fuel"

def probeStr (t : Tree (Rect α)) (p : Point α) (q : Rect α) (md rm : Nat) : String :=
  let m : Item (Rect α) → Bool := fun it => it.id % md == rm
  " ".intercalate [
    boolStr (t.containsPoint p), idsStr (t.findContainsPoint p),
    boolStr (t.matchedContainsPoint m p), idsStr (t.findMatchedContainsPoint m p),
    boolStr (t.intersects q), idsStr (t.findIntersects q),
    boolStr (t.matchedIntersects m q), idsStr (t.findMatchedIntersects m q),
    boolStr (t.containsRect q), idsStr (t.findContainsRect q),
    boolStr (t.matchedContainsRect m q), idsStr (t.findMatchedContainsRect m q),
    boolStr (t.containedByRect q), idsStr (t.findContainedByRect q),
    boolStr (t.matchedContainedByRect m q), idsStr (t.findMatchedContainedByRect m q)]

/-- one line against a tree of coordinate type `α` -/
def stepT (num? : String → Option α) (t : Tree (Rect α)) (ws : List String) : Tree (Rect α) × String :=
  match ws with
  | ["ins", id, x, y, w, h] =>
    match id.toNat?, num? x, num? y, num? w, num? h with
    | some id, some x, some y, some w, some h =>
      if !contractOK t id ⟨x, y, w, h⟩ then (t, "contract") else
      let t' := t.insert fuel ⟨id, ⟨x, y, w, h⟩⟩
      (t', stateStr t')
    | _, _, _, _, _ => (t, "bad-op")
  | ["rm", id, x, y, w, h] =>
    match id.toNat?, num? x, num? y, num? w, num? h with
    | some id, some x, some y, some w, some h =>
      if !contractOK t id ⟨x, y, w, h⟩ then (t, "contract") else
      let t' := t.remove id ⟨x, y, w, h⟩
      (t', stateStr t')
    | _, _, _, _, _ => (t, "bad-op")
  | ["reorg"] => let t' := t.reorganize fuel; (t', stateStr t')
  | ["state"] => (t, stateStr t)
  -- a query with a panicking / inconsistent matcher: queries do not change the tree, whatever the matcher does
  | "pprobe" :: _ => (t, "done")
  | ["clear"] => let t' := t.clear; (t', stateStr t')
  | ["thr", k] =>
    match k.toInt? with
    | some k => let t' := { t with threshold := k }; (t', stateStr t')
    | none => (t, "bad-op")
  | ["probe", px, py, qx, qy, qw, qh, md, rm] =>
    match num? px, num? py, num? qx, num? qy, num? qw, num? qh, md.toNat?, rm.toNat? with
    | some px, some py, some qx, some qy, some qw, some qh, some md, some rm =>
      (t, probeStr t ⟨px, py⟩ ⟨qx, qy, qw, qh⟩ md rm)
    | _, _, _, _, _, _, _, _ => (t, "bad-op")
  | _ => (t, "bad-op")
end Generic

inductive St where
  | none
  | i (t : Tree (Rect Int))
  | f (t : Tree (Rect Rat))

def step (s : St) (line : String) : St × String :=
  match words line with
  | ["reset", "i", k] => match k.toInt? with
    | some k => (.i (Tree.empty k), "ok")
    | none => (s, "bad-op")
  | ["reset", "f", k] => match k.toInt? with
    | some k => (.f (Tree.empty k), "ok")
    | none => (s, "bad-op")
  | ws =>
    match s with
    | .none => (s, "bad-op")
    | .i t => let (t', o) := stepT String.toInt? t ws; (.i t', o)
    | .f t => let (t', o) := stepT parseRat? t ws; (.f t', o)

end DrvC07

def main : IO Unit := Proto.run DrvC07.step DrvC07.St.none
