import Driver.Proto
import Model.QuadTree
import Model.QuadTreeI64
open Proto Geom QT

/-! Model driver of C07.  A history starts with `reset i|f|w <Threshold>`; coordinates are decimal ints (`i`: unbounded
    `Int`; `w`: machine `Int64`, wrapping like Go's `int`), exact rationals `n/d` (`f`) or IEEE bit patterns in hex (`d`:
    `Float`, rounding like Go's `float64`).  Mutations answer `n=<Size> all=<sorted ids>`; `probe` answers the sixteen queries. -/
namespace DrvC07

/-- fuel of the exact and integer histories (`i`, `f`, `w`) -/
def fuel200 : Nat := 200
/-- fuel of the IEEE-double histories (`d`): halving a double reaches 0 only after about 2100 steps (from 1e308 down
    through the subnormals), and Go does recurse that deep on more than `Threshold` coinciding tiny rectangles -/
def fuelF64 : Nat := 2300

def parseRat? (s : String) : Option Rat :=
  match s.splitOn "/" with
  | [n] => n.toInt?.map (fun i => (i : Rat))
  | [n, d] => match n.toInt?, d.toNat? with
    | some i, some k => if k = 0 then none else some (mkRat i k)
    | _, _ => none
  | _ => none

def insertSorted (a : Nat) : List Nat → List Nat
  | [] => [a]
  | b :: t => if a ≤ b then a :: b :: t else b :: insertSorted a t

def sortIds (l : List Nat) : List Nat := l.mergeSort (fun a b => decide (a ≤ b))

def idsStr {R : Type} (l : List (Item R)) : String :=
  if l.isEmpty then "-" else ",".intercalate ((sortIds (l.map (·.id))).map toString)

def boolStr (b : Bool) : String := if b then "T" else "F"

section Generic
variable {α : Type} [RectOps (Rect α) (Point α)] (fuel : Nat) (eqv : α → α → Bool)

/-- the package's contract (`QT.OpOKI`): an object of which an entry is stored still has the bounds it was stored with.
    Generated histories respect it; a history cut down by the minimiser may not, then the line is skipped on both
    sides. -/
def contractOK (t : Tree (Rect α)) (id : Nat) (r : Rect α) : Bool :=
  t.all.all (fun x => !(x.id == id) || (eqv x.rect.x r.x && eqv x.rect.y r.y && eqv x.rect.w r.w && eqv x.rect.h r.h))

def stateStr (t : Tree (Rect α)) : String :=
  if t.fuelOK fuel then "n=" ++ toString t.size ++ " all=" ++ idsStr t.all else "out-of-fuel"

def probeStr (t : Tree (Rect α)) (p : Point α) (q : Rect α) (md rm : Nat) : String :=
  let m : Item (Rect α) → Bool := fun it => it.id % md == rm
  " ".intercalate [
    boolStr (t.containsPoint p), idsStr (t.findContainsPoint p),
    boolStr (t.matchedContainsPoint m p), idsStr (t.findMatchedContainsPoint m p),
    boolStr (t.intersects q), idsStr (t.findIntersects q),
    boolStr (t.matchedIntersects m q), idsStr (t.findMatchedIntersects m q),
    boolStr (t.containsRect q), idsStr (t.findContainsRect q),
    boolStr (t.matchedContainsRect m q), idsStr (t.findMatchedContainsRect m q),
    boolStr (t.containedByRect q), idsStr (t.findContainedByRect q),
    boolStr (t.matchedContainedByRect m q), idsStr (t.findMatchedContainedByRect m q)]

/-- one line against a tree of coordinate type `α` -/
def stepT (num? : String → Option α) (t : Tree (Rect α)) (ws : List String) : Tree (Rect α) × String :=
  match ws with
  | ["ins", id, x, y, w, h] =>
    match id.toNat?, num? x, num? y, num? w, num? h with
    | some id, some x, some y, some w, some h =>
      if !contractOK eqv t id ⟨x, y, w, h⟩ then (t, "contract") else
      let t' := t.insert fuel ⟨id, ⟨x, y, w, h⟩⟩
      (t', stateStr fuel t')
    | _, _, _, _, _ => (t, "bad-op")
  | ["rm", id, x, y, w, h] =>
    match id.toNat?, num? x, num? y, num? w, num? h with
    | some id, some x, some y, some w, some h =>
      if !contractOK eqv t id ⟨x, y, w, h⟩ then (t, "contract") else
      let t' := t.remove id ⟨x, y, w, h⟩
      (t', stateStr fuel t')
    | _, _, _, _, _ => (t, "bad-op")
  | ["reorg"] => let t' := t.reorganize fuel; (t', stateStr fuel t')
  | ["state"] => (t, stateStr fuel t)
  -- a query with a panicking / inconsistent matcher: queries do not change the tree, whatever the matcher does
  | "pprobe" :: _ => (t, "done")
  | ["clear"] => let t' := t.clear; (t', stateStr fuel t')
  | ["thr", k] =>
    match k.toInt? with
    | some k => let t' := { t with threshold := k }; (t', stateStr fuel t')
    | none => (t, "bad-op")
  | ["probe", px, py, qx, qy, qw, qh, md, rm] =>
    match num? px, num? py, num? qx, num? qy, num? qw, num? qh, md.toNat?, rm.toNat? with
    | some px, some py, some qx, some qy, some qw, some qh, some md, some rm =>
      (t, probeStr t ⟨px, py⟩ ⟨qx, qy, qw, qh⟩ md rm)
    | _, _, _, _, _, _, _, _ => (t, "bad-op")
  | _ => (t, "bad-op")
end Generic

inductive St where
  | none
  | i (t : Tree (Rect Int))
  | f (t : Tree (Rect Rat))
  | w (t : Tree (Rect Int64))
  | d (t : Tree (Rect Float))

/-- a `float64` as the 16 hex digits of its IEEE bit pattern -/
def parseF64? (s : String) : Option Float :=
  if s.length ≠ 16 then none else (hexToNat? s).map (fun n => Float.ofBits n.toUInt64)

/-- a decimal within the range of Go's `int` -/
def parseI64? (s : String) : Option Int64 :=
  match s.toInt? with
  | some i => if -9223372036854775808 ≤ i ∧ i ≤ 9223372036854775807 then some (Int64.ofInt i) else none
  | none => none

def step (s : St) (line : String) : St × String :=
  match words line with
  | ["reset", "i", k] => match k.toInt? with
    | some k => (.i (Tree.empty k), "ok")
    | none => (s, "bad-op")
  | ["reset", "f", k] => match k.toInt? with
    | some k => (.f (Tree.empty k), "ok")
    | none => (s, "bad-op")
  | ["reset", "d", k] => match k.toInt? with
    | some k => (.d (Tree.empty k), "ok")
    | none => (s, "bad-op")
  | ["reset", "w", k] => match k.toInt? with
    | some k => (.w (Tree.empty k), "ok")
    | none => (s, "bad-op")
  | ws =>
    match s with
    | .none => (s, "bad-op")
    | .i t => let (t', o) := stepT fuel200 (fun a b => decide (a = b)) String.toInt? t ws; (.i t', o)
    | .f t => let (t', o) := stepT fuel200 (fun a b => decide (a = b)) parseRat? t ws; (.f t', o)
    | .w t => let (t', o) := stepT fuel200 (fun a b => decide (a = b)) parseI64? t ws; (.w t', o)
    | .d t => let (t', o) := stepT fuelF64 (fun a b => a.toBits == b.toBits) parseF64? t ws; (.d t', o)

end DrvC07

def main : IO Unit := Proto.run DrvC07.step DrvC07.St.none
