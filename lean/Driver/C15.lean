import Driver.Proto
import Model.TaskQueue
import Std.Data.HashSet
/-! Model driver of C15 (task queue).  Area `forced`: scripts of environment actions

      reset | new <workers> <depth> <inCap> [<handler mode 0..3>] | sub <n|p|s|r|x|e|z|f|w|0|v>+ | rel <id>* | shut | relshut <id>* | obs | end

  (anything after `##` on a line is a hint for the harness and is ignored here).  After each line the model runs its
  internal steps (dispatcher, workers taking and reporting, released tasks finishing, the sequential submitter's
  pending sends) to quiescence with `TQ.next`/`TQ.enabled`, over ALL interleavings (visited set), and prints the
  observable of the quiescent states: tasks started, finished, recovery-handler calls, number of `Submit` calls that
  have returned, state of `Shutdown`.  If the quiescent observable depends on the schedule the line prints
  `nondet …` (the check does not use such scripts). -/
open Proto TQ

abbrev Node := S × List Bool   -- model state, pending sends of the (single, sequential) submitter

structure D where
  cfg : Cfg := { workers := 1, depth := -1, inCap := 1 }
  live : Bool := false
  nodes : List Node := []
  released : List Nat := []

/-- successors by internal steps: everything but `shutdown`; `submit` only for the submitter's next pending send;
    `finish t` only for released tasks.
    Reduction: if a released task t is running, only `finish t` is explored.  This loses no quiescent state: `finish t`
    stays enabled until it fires (nothing else removes t from `running`), so it occurs on every path to a quiescent
    state, and it can be moved to the front of the path — every other rule that is enabled before `finish t` is enabled
    after it (`take` reads `running.length + reporting`, which `finish` keeps; `report` reads `0 < reporting`, which
    `finish` only makes true) and the two results commute, up to the order of the `finished`/`recovered` lists, which
    the observable sorts. -/
def succs (c : Cfg) (released : List Nat) (n : Node) : List Node :=
  let (s, pend) := n
  match s.running.find? (fun t => released.contains t) with
  | some t => ((next c s (.finish t)).map (·, pend)).toList
  | none =>
  let inner := (enabled c s).filterMap fun l =>
    match l with
    | .submit _ => none
    | .shutdown => none
    | .finish _ => none
    | _ => (next c s l).map (·, pend)
  match pend with
  | p :: rest => match next c s (.submit p) with
    | some s' => (s', rest) :: inner
    | none => inner
  | [] => inner

def exploreLimit : Nat := 400000

/-- all quiescent nodes reachable from `todo` by internal steps; `none` if the visited set exceeds the limit -/
partial def explore (c : Cfg) (released : List Nat) (todo : List Node) (seen : Std.HashSet Node) (quiet : List Node) :
    Option (List Node) :=
  match todo with
  | [] => some quiet
  | n :: rest =>
    if seen.contains n then explore c released rest seen quiet
    else if seen.size > exploreLimit then none
    else
      let seen := seen.insert n
      match succs c released n with
      | [] => explore c released rest seen (n :: quiet)
      | ss => explore c released (ss ++ rest) seen quiet

def insertSorted (x : Nat) : List Nat → List Nat
  | [] => [x]
  | y :: ys => if x ≤ y then x :: y :: ys else y :: insertSorted x ys
def sortNat (l : List Nat) : List Nat := l.foldr insertSorted []

def showList (l : List Nat) : String :=
  if l.isEmpty then "-" else ",".intercalate ((sortNat l).map toString)

def obsOf (n : Node) : String :=
  let s := n.1
  s!"st={showList s.started} fin={showList s.finished} rec={showList s.recovered} sub={s.nextId} sd={s.shut}"

def dedup (l : List String) : List String :=
  l.foldl (fun acc x => if acc.contains x then acc else acc ++ [x]) []

def insertSortedS (x : String) : List String → List String
  | [] => [x]
  | y :: ys => if x ≤ y then x :: y :: ys else y :: insertSortedS x ys

def report (pre : String) (nodes : List Node) : String :=
  match dedup (nodes.map obsOf) with
  | [o] => pre ++ o
  | os => "nondet " ++ pre ++ " | ".intercalate (os.foldr insertSortedS [])

/-- run to quiescence and print -/
def settle (d : D) (pre : String) (nodes : List Node) : D × String :=
  match explore d.cfg d.released nodes {} [] with
  | none => ({ d with nodes := nodes }, "too-big")
  | some q => ({ d with nodes := q }, report pre q)

def parseIds (ws : List String) : Option (List Nat) := ws.mapM String.toNat?

def stripHint (ws : List String) : List String := ws.takeWhile (· != "##")

def allB (l : List Node) (p : Node → Bool) : Bool := l.all p

def doShut (d : D) : D × String :=
  -- Shutdown is only legal when no Submit is outstanding and it has not been called before
  if allB d.nodes (fun n => n.2.isEmpty && n.1.shut == 0) then
    let nodes := d.nodes.filterMap fun n => (next d.cfg n.1 .shutdown).map (·, n.2)
    settle d "" nodes
  else if allB d.nodes (fun n => !(n.2.isEmpty && n.1.shut == 0)) then
    settle d "shut-refused " d.nodes
  else
    let (d', o) := settle d "" d.nodes
    (d', "nondet shut " ++ o)

def step (d : D) (line : String) : D × String :=
  match stripHint (words line) with
  | ["reset"] => ({}, "reset")
  | "new" :: w :: dp :: ic :: rest =>
    -- optional handler mode: 0 recording handler (default), 1 no RecoveryHandler option, 2 RecoveryHandler(nil),
    -- 3 handler that records and then panics; the model only distinguishes "handler installed" (0, 3) from "none" (1, 2)
    let mode : Option Nat := match rest with
      | [] => some 0
      | [m] => m.toNat?
      | _ => none
    match w.toNat?, dp.toInt?, ic.toNat?, mode with
    | some w, some dp, some ic, some m =>
      if w < 1 ∨ ic < 1 ∨ m > 3 then (d, "bad-op")
      else ({ cfg := { workers := w, depth := dp, inCap := ic, handler := (m == 0 || m == 3) }, live := true,
              nodes := [({}, [])], released := [] }, "ok")
    | _, _, _, _ => (d, "bad-op")
  | ["sub", flags] =>
    if !d.live then (d, "bad-op") else
    let fl := flags.toList
    -- 'n' = the task returns; any other letter = it panics, the letter naming the panic value (string, error, runtime
    -- error, *errs.Error, typed nil, …): the model treats all panic values alike
    if fl.isEmpty ∨ !fl.all (fun ch => "npsrxezfw0v".toList.contains ch) then (d, "bad-op")
    else if allB d.nodes (fun n => n.1.shut == 0) then
      settle d "" (d.nodes.map fun n => (n.1, n.2 ++ fl.map (· != 'n')))
    else settle d "sub-refused " d.nodes
  | "rel" :: ids =>
    if !d.live then (d, "bad-op") else
    match parseIds ids with
    | some ids => settle { d with released := d.released ++ ids.filter (fun i => !d.released.contains i) } "" d.nodes
    | none => (d, "bad-op")
  | ["shut"] => if !d.live then (d, "bad-op") else doShut d
  | "relshut" :: ids =>
    if !d.live then (d, "bad-op") else
    match parseIds ids with
    | some ids => doShut { d with released := d.released ++ ids.filter (fun i => !d.released.contains i) }
    | none => (d, "bad-op")
  | ["obs"] => if !d.live then (d, "bad-op") else settle d "" d.nodes
  | ["end"] =>
    -- every task (also those not yet accepted) is released; when that has settled Shutdown is called (if it was not)
    if !d.live then (d, "bad-op") else
    let total := d.nodes.foldl (fun m n => max m (n.1.nextId + n.2.length)) 0
    let (d1, o1) := settle { d with released := List.range total } "" d.nodes
    if o1 == "too-big" then (d1, o1)
    else if allB d1.nodes (fun n => n.2.isEmpty && n.1.shut == 0) then doShut d1
    else settle d1 "" d1.nodes
  | _ => (d, "bad-op")

def main : IO Unit := Proto.run step {}
