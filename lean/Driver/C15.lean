import Driver.Proto
import Model.TaskQueue
import Model.TaskQueueNew
import Model.TaskQueueEnv
import Std.Data.HashSet
/-! Model driver of C15 (task queue).  Area `cfg`: `cfg <ncpu> <option>*` prints the configuration `New` makes of the
  options (Model/TaskQueueNew.lean).  Area `forced`: scripts of environment actions

      reset | new <workers> <depth> <inCap> [<handler mode 0..3>] | sub <n|p|s|r|x|e|z|f|w|0|v>+ | rel <id>* | shut | relshut <id>* | obs | end
      | late <flag> (Submit after Shutdown) | shutx (Shutdown while a Submit is blocked): outside the contract, Model/TaskQueueEnv.lean

  (anything after `##` on a line is a hint for the harness and is ignored here).  After each line the model runs its
  internal steps (dispatcher, workers taking and reporting, released tasks finishing, the sequential submitter's
  pending sends) to quiescence with the threaded model `TQW.tnext` (worker threads, recovery and handler steps; the
  shared part by `TQ.next`/`TQ.enabled`), over ALL interleavings (visited set), and prints the
  observable of the quiescent states: tasks started, finished, recovery-handler calls, number of `Submit` calls that
  have returned, state of `Shutdown`.  For a one-worker queue `st=`/`fin=` are printed IN ORDER (start order, finish
  order), otherwise sorted.  If the quiescent observable depends on the schedule the line prints
  `nondet …` (the check does not use such scripts). -/
open Proto TQ TQW

abbrev Node := TS × List Bool   -- model state, pending sends of the (single, sequential) submitter

structure D where
  cfg : Cfg := { workers := 1, depth := -1, inCap := 1 }
  live : Bool := false
  nodes : List Node := []
  released : List Nat := []
  xp : Nat := 0            -- Submit calls that panicked in their caller (TQE.ES.callerPanics, the same in every node)

def wkey : W → Nat
  | .idle => 0
  | .reporting => 1
  | .dead => 2
  | .running t k => 3 + 8 * (t * 64 + k)
  | .unwinding t => 4 + 8 * t
  | .handling t => 5 + 8 * t
  | .unwindingH t => 6 + 8 * t

def insertW (x : W) : List W → List W
  | [] => [x]
  | y :: ys => if wkey x ≤ wkey y then x :: y :: ys else y :: insertW x ys

/-- worker threads are interchangeable (no observable depends on which thread does what), so states are kept with the
    thread list sorted: a symmetry reduction -/
def canon (s : TS) : TS := { s with ws := s.ws.foldr insertW [] }

def idxOf (ws : List W) (p : W → Bool) : Option Nat :=
  (List.range ws.length).find? fun i => match ws[i]? with | some w => p w | none => false

/-- successors by internal steps of the threaded model: every rule but `shutdown`; `submit` only for the submitter's
    next pending send; the end of a task (`ret`/`panic`) only for released tasks.
    Reductions, none of which loses a quiescent state:
    * a thread running a released task, unwinding, or in the handler: only that thread's step is explored.  Such a step
      stays enabled until it fires, touches only that thread (and `finished`/`hcalls`), and every rule enabled before it
      is enabled after it with commuting results (the end of a task only adds a `ready` token later), so it can be moved
      to the front of any path to a quiescent state.  Of the two outcomes of a handler call only `handlerRet` is explored:
      `handlerPanic` followed by `guardRecover` reaches the same state.
    * `take` and `report` only by the first idle / first reporting thread, and thread lists are sorted (`canon`). -/
def succs (c : Cfg) (released : List Nat) (n : Node) : List Node :=
  let (s, pend) := n
  let fire (l : TLabel) : List Node := ((tnext code c s l).map fun s' => (canon s', pend)).toList
  let urgent := idxOf s.ws fun w => match w with
    | .running t 0 => released.contains t
    | .unwinding _ | .handling _ | .unwindingH _ => true
    | _ => false
  match urgent with
  | some i =>
    match s.ws[i]? with
    | some (.running _ _) => fire (.ret i) ++ fire (.panic i)
    | some (.unwinding _) => fire (.recoverH i) ++ fire (.recoverN i)
    | some (.handling _) => fire (.handlerRet i)
    | _ => fire (.guardRecover i)
  | none =>
  let inner := (enabled (noH c) s.q).flatMap fun l =>
    match l with
    | .submit _ => []
    | .shutdown => []
    | _ => fire (.q l)     -- worker labels of `TQ` are refused by `tnext`
  let takes := match idxOf s.ws (· == .idle) with | some i => fire (.take i) | none => []
  let reports := match idxOf s.ws (· == .reporting) with | some i => fire (.report i) | none => []
  let inner := inner ++ takes ++ reports
  match pend with
  | p :: rest => match tnext code c s (.q (.submit p)) with
    | some s' => (canon s', rest) :: inner
    | none => inner
  | [] => inner

def exploreLimit : Nat := 400000

/-- all quiescent nodes reachable from `todo` by internal steps; `none` if the visited set exceeds the limit -/
partial def explore (c : Cfg) (released : List Nat) (todo : List Node) (seen : Std.HashSet Node) (quiet : List Node) :
    Option (List Node) :=
  match todo with
  | [] => some quiet
  | n :: rest =>
    if seen.contains n then explore c released rest seen quiet
    else if seen.size > exploreLimit then none
    else
      let seen := seen.insert n
      match succs c released n with
      | [] => explore c released rest seen (n :: quiet)
      | ss => explore c released (ss ++ rest) seen quiet

def insertSorted (x : Nat) : List Nat → List Nat
  | [] => [x]
  | y :: ys => if x ≤ y then x :: y :: ys else y :: insertSorted x ys
def sortNat (l : List Nat) : List Nat := l.foldr insertSorted []

def showList (l : List Nat) : String :=
  if l.isEmpty then "-" else ",".intercalate ((sortNat l).map toString)

def showSeq (l : List Nat) : String :=
  if l.isEmpty then "-" else ",".intercalate (l.map toString)

def obsOf (c : Cfg) (n : Node) : String :=
  let s := n.1
  if c.workers == 1 then
    s!"st={showSeq s.q.started} fin={showSeq s.q.finished.reverse} rec={showList s.hcalls} sub={s.q.nextId} sd={s.q.shut}"
  else
    s!"st={showList s.q.started} fin={showList s.q.finished} rec={showList s.hcalls} sub={s.q.nextId} sd={s.q.shut}"

def dedup (l : List String) : List String :=
  l.foldl (fun acc x => if acc.contains x then acc else acc ++ [x]) []

def insertSortedS (x : String) : List String → List String
  | [] => [x]
  | y :: ys => if x ≤ y then x :: y :: ys else y :: insertSortedS x ys

def report (c : Cfg) (pre : String) (nodes : List Node) : String :=
  match dedup (nodes.map (obsOf c)) with
  | [o] => pre ++ o
  | os => "nondet " ++ pre ++ " | ".intercalate (os.foldr insertSortedS [])

def allB (l : List Node) (p : Node → Bool) : Bool := l.all p

/-- run to quiescence and print -/
def settle (d : D) (pre : String) (nodes : List Node) : D × String :=
  match explore d.cfg d.released nodes {} [] with
  | none => ({ d with nodes := nodes }, "too-big")
  | some q => ({ d with nodes := q }, report d.cfg pre q ++ (if d.xp > 0 then s!" xp={d.xp}" else ""))

/-- `k` Submit calls that find the input closed, by the caller layer `TQE.enext`; `none` if one of them is not enabled -/
def lateCalls (c : Cfg) (ts : TS) (xp k : Nat) : Option Nat :=
  (TQE.erunLabels code c { ts := ts, callerPanics := xp } (List.replicate k .submitClosed)).map (·.callerPanics)

/-- `late`: one Submit call after Shutdown was called — it panics in its caller, nothing is accepted -/
def doLate (d : D) : D × String :=
  if allB d.nodes (fun n => n.1.q.shut == 0) then settle d "late-refused " d.nodes
  else match d.nodes.mapM (fun n => lateCalls d.cfg n.1 d.xp 1) with
    | some (x :: _) => settle { d with xp := x } "" d.nodes
    | _ => (d, "too-big")   -- Shutdown called in some interleavings only: the script is not used

/-- `shutx`: Shutdown while the submitter is blocked in Submit — `close(q.in)`, then the blocked send and every further
    send of the submitter panic -/
def doShutX (d : D) : D × String :=
  if allB d.nodes (fun n => !n.2.isEmpty && n.1.q.shut == 0) then
    match d.nodes with
    | [] => (d, "too-big")
    | n0 :: _ =>
      let k := n0.2.length
      if !allB d.nodes (fun n => n.2.length == k) then (d, "too-big") else
      let stepped := d.nodes.mapM fun n =>
        (TQE.enext code d.cfg { ts := n.1, callerPanics := d.xp } (.inner (.q .shutdown))).bind fun e =>
          (lateCalls d.cfg e.ts e.callerPanics k).map fun x => (e.ts, x)
      match stepped with
      | some ((ts0, x) :: rest) => settle { d with xp := x } "" (((ts0, x) :: rest).map fun p => (p.1, []))
      | _ => (d, "too-big")
  else if allB d.nodes (fun n => n.2.isEmpty || n.1.q.shut != 0) then settle d "shutx-refused " d.nodes
  else (d, "too-big")

def parseIds (ws : List String) : Option (List Nat) := ws.mapM String.toNat?

def stripHint (ws : List String) : List String := ws.takeWhile (· != "##")


def doShut (d : D) : D × String :=
  -- Shutdown is only legal when no Submit is outstanding and it has not been called before
  if allB d.nodes (fun n => n.2.isEmpty && n.1.q.shut == 0) then
    let nodes := d.nodes.filterMap fun n => (tnext code d.cfg n.1 (.q .shutdown)).map (·, n.2)
    settle d "" nodes
  else if allB d.nodes (fun n => !(n.2.isEmpty && n.1.q.shut == 0)) then
    settle d "shut-refused " d.nodes
  else
    let (d', o) := settle d "" d.nodes
    (d', "nondet shut " ++ o)

/-- an option of area `cfg`: `w=<int>` Workers, `d=<int>` Depth, `h=0` RecoveryHandler(nil), `h=1` RecoveryHandler(non-nil) -/
def parseOpt (w : String) : Option TQNew.Opt :=
  match w.splitOn "=" with
  | ["w", x] => x.toInt?.map .workers
  | ["d", x] => x.toInt?.map .depth
  | ["h", "0"] => some (.handler false)
  | ["h", "1"] => some (.handler true)
  | _ => none

def step (d : D) (line : String) : D × String :=
  match stripHint (words line) with
  | ["reset"] => ({}, "reset")
  | "cfg" :: n :: opts =>
    -- area `cfg`: what `New(opts...)` makes of its options on a machine with n CPUs (Model/TaskQueueNew.lean)
    match n.toNat?, opts.mapM parseOpt with
    | some n, some os =>
      let c := TQNew.newCfg n os
      (d, s!"workers={c.workers} depth={c.depth} incap={c.inCap} handler={c.handler}")
    | _, _ => (d, "bad-op")
  | "new" :: w :: dp :: ic :: rest =>
    -- optional handler mode: 0 recording handler (default), 1 no RecoveryHandler option, 2 RecoveryHandler(nil),
    -- 3 handler that records and then panics; the model only distinguishes "handler installed" (0, 3) from "none" (1, 2)
    let mode : Option Nat := match rest with
      | [] => some 0
      | [m] => m.toNat?
      | _ => none
    match w.toNat?, dp.toInt?, ic.toNat?, mode with
    | some w, some dp, some ic, some m =>
      if w < 1 ∨ ic < 1 ∨ m > 3 then (d, "bad-op")
      else ({ cfg := { workers := w, depth := dp, inCap := ic, handler := (m == 0 || m == 3) }, live := true,
              nodes := [(TQW.init { workers := w, depth := dp, inCap := ic, handler := (m == 0 || m == 3) }, [])],
              released := [] }, "ok")
    | _, _, _, _ => (d, "bad-op")
  | ["sub", flags] =>
    if !d.live then (d, "bad-op") else
    let fl := flags.toList
    -- 'n' = the task returns; any other letter = it panics, the letter naming the panic value (string, error, runtime
    -- error, *errs.Error, typed nil, …): the model treats all panic values alike
    if fl.isEmpty ∨ !fl.all (fun ch => "npsrxezfw0v".toList.contains ch) then (d, "bad-op")
    else if allB d.nodes (fun n => n.1.q.shut == 0) then
      settle d "" (d.nodes.map fun n => (n.1, n.2 ++ fl.map (· != 'n')))
    else settle d "sub-refused " d.nodes
  | "rel" :: ids =>
    if !d.live then (d, "bad-op") else
    match parseIds ids with
    | some ids => settle { d with released := d.released ++ ids.filter (fun i => !d.released.contains i) } "" d.nodes
    | none => (d, "bad-op")
  | ["shut"] => if !d.live then (d, "bad-op") else doShut d
  | ["late", fl] =>
    if !d.live then (d, "bad-op")
    else if fl.length != 1 ∨ !fl.toList.all (fun ch => "npsrxezfw0v".toList.contains ch) then (d, "bad-op")
    else doLate d
  | ["shutx"] => if !d.live then (d, "bad-op") else doShutX d
  | "relshut" :: ids =>
    if !d.live then (d, "bad-op") else
    match parseIds ids with
    | some ids => doShut { d with released := d.released ++ ids.filter (fun i => !d.released.contains i) }
    | none => (d, "bad-op")
  | ["obs"] => if !d.live then (d, "bad-op") else settle d "" d.nodes
  | ["end"] =>
    -- every task (also those not yet accepted) is released; when that has settled Shutdown is called (if it was not)
    if !d.live then (d, "bad-op") else
    let total := d.nodes.foldl (fun m n => max m (n.1.q.nextId + n.2.length)) 0
    let (d1, o1) := settle { d with released := List.range total } "" d.nodes
    if o1 == "too-big" then (d1, o1)
    else if allB d1.nodes (fun n => n.2.isEmpty && n.1.q.shut == 0) then doShut d1
    else settle d1 "" d1.nodes
  | _ => (d, "bad-op")

def main : IO Unit := Proto.run step {}
