import Driver.Proto
import Model.BitSet
import Lemmas.BitSet
open Proto

/-! Model driver of C08: two bit sets `A`, `B` per history.  Every mutating line is parsed to a `BS.Op` and executed
    by `BS.applyOp` (the function the history theorems of Props/C08.lean are about); it prints the `Count` of the
    receiver.  Queries print their result, `mem`/`obs`/`data` the observations described in go/cmd/c08/main.go. -/

def hexWord (w : BS.W) : String := natToHex w.toNat

def wordsStr (l : List BS.W) : String :=
  if l.isEmpty then "-" else ",".intercalate (l.map hexWord)

def parseWords? (s : String) : Option (List BS.W) :=
  if s == "-" then some [] else
  (s.splitOn ",").mapM (fun w => (hexToNat? w).map (fun n => BitVec.ofNat 64 n))

/-- number of words scanned by `mem`/`obs` through `State` -/
def scanWords : Nat := 66

/-- the word `k` as seen through 64 calls of `State` -/
def stateWord (b : BS.T) (k : Nat) : Nat :=
  (List.range 64).foldl (fun acc j => if BS.state b (k * 64 + j) then acc + 2 ^ j else acc) 0

def dropTrailingZeros (l : List Nat) : List Nat :=
  (l.reverse.dropWhile (· == 0)).reverse

def memStr (b : BS.T) : String :=
  let ws := dropTrailingZeros ((List.range scanWords).map (stateWord b))
  if ws.isEmpty then "-" else ",".intercalate (ws.map natToHex)

def reg? (r : String) : Option BS.Reg :=
  if r == "A" then some .A else if r == "B" then some .B else none

/-- the mutating lines -/
def parseOp? : List String → Option BS.Op
  | ["set", r, i] => do some (.set (← reg? r) (← i.toNat?))
  | ["clr", r, i] => do some (.clear (← reg? r) (← i.toNat?))
  | ["flip", r, i] => do some (.flip (← reg? r) (← i.toNat?))
  | ["setr", r, i, j] => do some (.setRange (← reg? r) (← i.toNat?) (← j.toNat?))
  | ["clrr", r, i, j] => do some (.clearRange (← reg? r) (← i.toNat?) (← j.toNat?))
  | ["flipr", r, i, j] => do some (.flipRange (← reg? r) (← i.toNat?) (← j.toNat?))
  | ["load", r, ws] => do some (.load (← reg? r) (← parseWords? ws))
  | ["copy", r, q] => do some (.copy (← reg? r) (← reg? q))
  | ["clone", r, q] => do some (.clone (← reg? r) (← reg? q))
  | ["trim", r] => do some (.trim (← reg? r))
  -- Go `int` argument, possibly zero or negative: `C08.ensureCapacity_int` (ensureCapacityInt b n = ensureCapacity b n.toNat)
  | ["ensure", r, n] => do some (.ensure (← reg? r) (← n.toInt?).toNat)
  -- `Load(nil)`
  | ["loadnil", r] => do some (.load (← reg? r) [])
  | ["rst", r] => do some (.reset (← reg? r))
  | ["loaddata", r, q] => do some (.loadData (← reg? r) (← reg? q))
  | _ => none

def qry (s : BS.Pair) (r : String) (f : BS.T → String) : BS.Pair × String :=
  match reg? r with
  | some r => (s, f (s.get r))
  | none => (s, "bad-op")

def qryAt (s : BS.Pair) (r i : String) (f : BS.T → Nat → String) : BS.Pair × String :=
  match reg? r, i.toNat? with
  | some r, some i => (s, f (s.get r) i)
  | _, _ => (s, "bad-op")

def step (s : BS.Pair) (line : String) : BS.Pair × String :=
  let ws := words line
  match parseOp? ws with
  | some op =>
    let s' := BS.applyOp s op
    let r := match ws with
      | _ :: r :: _ => (reg? r).getD .A
      | _ => .A
    -- a copy of a bit set onto itself prints the State scan as well (so that a loss of members shows on this line)
    let selfCopy := match ws with
      | ["copy", r, q] => r == q
      | _ => false
    (s', toString (BS.count (s'.get r)) ++ (if selfCopy then " " ++ memStr (s'.get r) else ""))
  | none =>
    match ws with
    | ["reset"] => ({}, "reset")
    | ["pc", w] =>
      -- area `popcnt`: the transcribed SWAR routine, cross-checked against its specification `BS.popcount`
      match hexToNat? w with
      | some n =>
        let x : BS.W := BitVec.ofNat 64 n
        let c := BS.countSetBits x
        (s, if c == Int.ofNat (BS.popcount x) then toString c
            else "swar=" ++ toString c ++ " popcount=" ++ toString (BS.popcount x))
      | none => (s, "bad-op")
    | ["data", r] =>
      match reg? r with
      | some r => (BS.applyOp s (.data r), wordsStr (BS.data (s.get r)).2)
      | none => (s, "bad-op")
    | ["state", r, i] => qryAt s r i (fun b i => toString (BS.state b i))
    | ["count", r] => qry s r (fun b => toString (BS.count b))
    | ["first", r] => qry s r (fun b => toString (BS.firstSet b))
    | ["last", r] => qry s r (fun b => toString (BS.lastSet b))
    | ["next", r, i] => qryAt s r i (fun b i => toString (BS.nextSet b i))
    | ["prev", r, i] => qryAt s r i (fun b i => toString (BS.previousSet b i))
    | ["nextclr", r, i] => qryAt s r i (fun b i => toString (BS.nextClear b i))
    | ["prevclr", r, i] => qryAt s r i (fun b i => toString (BS.previousClear b i))
    | ["equal"] => (s, toString (BS.equal s.a s.b) ++ " " ++ toString (BS.equal s.b s.a))
    | ["equalnil", r] => qry s r (fun _ => "false")
    | ["equalself", r] => qry s r (fun b => toString (BS.equal b b))
    | ["mem", r] => qry s r memStr
    | ["obs", r] =>
      match reg? r with
      | some r =>
        let b := s.get r
        let pre := "c=" ++ toString (BS.count b) ++ " m=" ++ memStr b ++ " f=" ++ toString (BS.firstSet b) ++
          " l=" ++ toString (BS.lastSet b)
        (BS.applyOp s (.data r), pre ++ " d=" ++ wordsStr (BS.data b).2)
      | none => (s, "bad-op")
    | _ => (s, "bad-op")

def main : IO Unit := Proto.run step ({} : BS.Pair)
