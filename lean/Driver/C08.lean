import Driver.Proto
import Model.BitSet
import Model.BitSetChecked
import Model.BitSetMachine
import Model.BitSetHeap
import Lemmas.BitSet
open Proto

/-! Model driver of C08: two bit sets `A`, `B` per history, executed on the HEAP model (`Model/BitSetHeap.lean`): every
    mutating line is parsed to a `BS.Op` and executed by `BS.applyOpH` and prints `Count` and a hash of the canonical
    words of the whole set (`stateHash`), so every line compares the complete abstract state; the slices that cross the API (arguments of
    `Load`, results of `Data`) are heap arrays of the caller, which the driver scribbles on or keeps and re-checks exactly
    as the Go harness does (`hand`, suffix ` ALIAS:<what>`).  All values printed are read from the heap through
    `Heap.view`; `C08.heap_refines` / `C08.no_aliasing` relate this to the value model `BS.applyOp`, the one the set
    theorems are about.  Every line is also executed with CHECKED word accesses and CHECKED 64-bit `int` arithmetic
    (`Model/BitSetMachine.lean`, which contains the checks of `Model/BitSetChecked.lean`); an access out of range would
    print `panic`, an index expression that does not fit an `int` would print `overflow` (`C08.all_accesses_in_bounds*`,
    `C08.no_int_overflow*`: neither ever happens). -/

def hexWord (w : BS.W) : String := natToHex w.toNat

def wordsStr (l : List BS.W) : String :=
  if l.isEmpty then "-" else ",".intercalate (l.map hexWord)

def parseWords? (s : String) : Option (List BS.W) :=
  if s == "-" then some [] else
  (s.splitOn ",").mapM (fun w => (hexToNat? w).map (fun n => BitVec.ofNat 64 n))

/-- number of words scanned by `mem`/`obs` through `State` -/
def scanWords : Nat := 66

/-- the word `k` as seen through 64 calls of `State` -/
def stateWord (b : BS.T) (k : Nat) : Nat :=
  (List.range 64).foldl (fun acc j => if BS.state b (k * 64 + j) then acc + 2 ^ j else acc) 0

def dropTrailingZeros (l : List Nat) : List Nat :=
  (l.reverse.dropWhile (· == 0)).reverse

/-- the harness scans `scanWords` words through `State`.  Here the scan runs through `BS.state` as well, bit by bit, but on
    the first `scanWords` words of the storage (`C08.state_scan_window`: a window answers `State` like the whole storage
    for every index inside it — this only saves walking a long list 4224 times), and the words above the capacity are not
    evaluated one bit at a time: `BS.state` answers `false` there by its first branch (`i ≥ len(b.data)`), and trailing
    zero words are dropped from the printed list anyway.  One word past the capacity is still evaluated. -/
def memStr (b : BS.T) : String :=
  let bw : BS.T := { b with data := b.data.take scanWords }
  let ws := dropTrailingZeros ((List.range (min scanWords (bw.data.length + 1))).map (stateWord bw))
  if ws.isEmpty then "-" else ",".intercalate (ws.map natToHex)

/-- the full abstract state as the harness prints it after every mutating line: multiply-xorshift hash (64-bit wrap-around; the shifts fold the high bits back, a plain FNV
    product would let bit 63 of two words cancel)
    of the minimal word list `Clone().Data()` returns, i.e. of `(BS.data b).2` (`C08.data_canonical`: equal exactly when
    the members are) -/
def stateHash (b : BS.T) : String :=
  let d := (BS.data (BS.clone b)).2
  let h := d.foldl (fun (h : UInt64) (w : BS.W) =>
    let h1 := (h ^^^ w.toNat.toUInt64) * 0x100000001b3
    h1 ^^^ (h1 >>> 29)) 0xcbf29ce484222325
  let h := (h ^^^ d.length.toUInt64) * 0x100000001b3
  let h := h ^^^ (h >>> 32)
  natToHex h.toNat

def reg? (r : String) : Option BS.Reg :=
  if r == "A" then some .A else if r == "B" then some .B else none

/-- the mutating lines -/
def parseOp? : List String → Option BS.Op
  | ["set", r, i] => do some (.set (← reg? r) (← i.toNat?))
  | ["clr", r, i] => do some (.clear (← reg? r) (← i.toNat?))
  | ["flip", r, i] => do some (.flip (← reg? r) (← i.toNat?))
  | ["setr", r, i, j] => do some (.setRange (← reg? r) (← i.toNat?) (← j.toNat?))
  | ["clrr", r, i, j] => do some (.clearRange (← reg? r) (← i.toNat?) (← j.toNat?))
  | ["flipr", r, i, j] => do some (.flipRange (← reg? r) (← i.toNat?) (← j.toNat?))
  | ["load", r, ws] => do some (.load (← reg? r) (← parseWords? ws))
  | ["copy", r, q] => do some (.copy (← reg? r) (← reg? q))
  | ["clone", r, q] => do some (.clone (← reg? r) (← reg? q))
  | ["trim", r] => do some (.trim (← reg? r))
  -- Go `int` argument, possibly zero or negative: `C08.ensureCapacity_int` (ensureCapacityInt b n = ensureCapacity b n.toNat)
  | ["ensure", r, n] => do some (.ensure (← reg? r) (← n.toInt?).toNat)
  -- `Load(nil)`
  | ["loadnil", r] => do some (.load (← reg? r) [])
  | ["rst", r] => do some (.reset (← reg? r))
  | ["loaddata", r, q] => do some (.loadData (← reg? r) (← reg? q))
  | _ => none

/-- the session: the heap, the counter of slices handed over, the slices being watched (address, pristine copy, what) -/
structure DS where
  h : BS.Heap := {}
  n : Nat := 0
  held : List (Nat × List BS.W × String) := []

/-- what the Go harness does with a slice that crossed the API: scribble on it now, or keep it and watch it -/
def DS.hand (s : DS) (what : String) (a : Nat) : DS :=
  let n := s.n + 1
  if n % 2 == 0 then { s with n := n, h := BS.scribbleH s.h a }
  else { s with n := n, held := s.held ++ [(a, BS.arrAt s.h.mem a, what)] }

/-- report (once) every watched slice whose content changed -/
def DS.aliasCheck (s : DS) : DS × String :=
  let bad := s.held.filter (fun x => BS.arrAt s.h.mem x.1 != x.2.1)
  let keep := s.held.filter (fun x => BS.arrAt s.h.mem x.1 == x.2.1)
  ({ s with held := keep }, String.join (bad.map (fun x => " ALIAS:" ++ x.2.2)))

def optStr {α : Type} [ToString α] : Option α → String
  | some v => toString v
  | none => "panic"

/-- result of the machine-arithmetic form; when it fails, the access-checked form says which kind of failure it was -/
def chkStr {α : Type} [ToString α] (m : Option α) (c : Unit → Option α) : String :=
  match m with
  | some v => toString v
  | none => if (c ()).isNone then "panic" else "overflow"

/-- `Data()` twice, as the harness does: the first result is printed and handed on, the second is scribbled on -/
def DS.data (s : DS) (r : BS.Reg) : DS × String :=
  let h1 := BS.applyOpH s.h (.data r)
  let out := wordsStr (BS.arrAt h1.mem h1.lastExt)
  let s := ({ s with h := h1 }).hand "Data-result" h1.lastExt
  let h2 := BS.applyOpH s.h (.data r)
  ({ s with h := BS.scribbleH h2 h2.lastExt }, out)

def qry (s : DS) (r : String) (f : BS.T → String) : DS × String :=
  match reg? r with
  | some r => (s, f (s.h.view r))
  | none => (s, "bad-op")

def qryAt (s : DS) (r i : String) (f : BS.T → Nat → String) : DS × String :=
  match reg? r, i.toNat? with
  | some r, some i => (s, f (s.h.view r) i)
  | _, _ => (s, "bad-op")

def exec (s : DS) (ws : List String) : DS × String :=
  match parseOp? ws with
  | some op =>
    let r := match ws with
      | _ :: r :: _ => (reg? r).getD .A
      | _ => .A
    -- checked execution on the value the heap denotes: `none` = an index out of range or an `int` that wrapped
    match BS.applyOpM s.h.denote op with
    | none => (s, if (BS.applyOpC s.h.denote op).isNone then "panic" else "overflow")
    | some _ =>
      let h' := BS.applyOpH s.h op
      let s' : DS := { s with h := h' }
      let s' := match ws with
        | ["load", _, _] => s'.hand "Load-argument" h'.lastExt
        | ["loaddata", _, _] => s'.hand "Data-result-given-to-Load" h'.lastExt
        | _ => s'
      -- a copy of a bit set onto itself prints the State scan as well (so that a loss of members shows on this line)
      let selfCopy := match ws with
        | ["copy", r, q] => r == q
        | _ => false
      (s', toString (BS.count (h'.view r)) ++ " h=" ++ stateHash (h'.view r) ++ (if selfCopy then " " ++ memStr (h'.view r) else ""))
  | none =>
    match ws with
    | ["pc", w] =>
      -- area `popcnt`: the transcribed SWAR routine, cross-checked against its specification `BS.popcount`
      match hexToNat? w with
      | some n =>
        let x : BS.W := BitVec.ofNat 64 n
        let c := BS.countSetBits x
        (s, if c == Int.ofNat (BS.popcount x) then toString c
            else "swar=" ++ toString c ++ " popcount=" ++ toString (BS.popcount x))
      | none => (s, "bad-op")
    | ["data", r] =>
      match reg? r with
      | some r => s.data r
      | none => (s, "bad-op")
    | ["state", r, i] => qryAt s r i (fun b i => optStr (BS.stateC b i))
    | ["count", r] => qry s r (fun b => toString (BS.count b))
    | ["first", r] => qry s r (fun b => chkStr (BS.firstSetM b) (fun _ => BS.firstSetC b))
    | ["last", r] => qry s r (fun b => chkStr (BS.lastSetM b) (fun _ => BS.lastSetC b))
    | ["next", r, i] => qryAt s r i (fun b i => chkStr (BS.nextSetM b i) (fun _ => BS.nextSetC b i))
    | ["prev", r, i] => qryAt s r i (fun b i => chkStr (BS.previousSetM b i) (fun _ => BS.previousSetC b i))
    | ["nextclr", r, i] => qryAt s r i (fun b i => chkStr (BS.nextClearM b i) (fun _ => BS.nextClearC b i))
    | ["prevclr", r, i] => qryAt s r i (fun b i => chkStr (BS.previousClearM b i) (fun _ => BS.previousClearC b i))
    | ["equal"] => (s, optStr (BS.equalC (s.h.view .A) (s.h.view .B)) ++ " " ++ optStr (BS.equalC (s.h.view .B) (s.h.view .A)))
    | ["equalnil", r] => qry s r (fun _ => "false")
    | ["equalself", r] => qry s r (fun b => optStr (BS.equalC b b))
    | ["mem", r] => qry s r memStr
    | ["obs", r] =>
      match reg? r with
      | some r =>
        let b := s.h.view r
        let pre := "c=" ++ toString (BS.count b) ++ " m=" ++ memStr b ++ " f=" ++ chkStr (BS.firstSetM b) (fun _ => BS.firstSetC b) ++
          " l=" ++ chkStr (BS.lastSetM b) (fun _ => BS.lastSetC b)
        let x := s.data r
        (x.1, pre ++ " d=" ++ x.2)
      | none => (s, "bad-op")
    | _ => (s, "bad-op")

def step (s : DS) (line : String) : DS × String :=
  match words line with
  | ["reset"] => ({}, "reset")
  | ws =>
    let x := exec s ws
    let y := x.1.aliasCheck
    (y.1, x.2 ++ y.2)

def main : IO Unit := Proto.run step ({} : DS)
