import Driver.Proto
import Model.BitSet
open Proto

/-! Model driver of C08: two bit sets `A`, `B` per history.  Mutators print the `Count` of the receiver, queries their
    result, `mem`/`obs`/`data` the observations described in go/cmd/c08/main.go (same text on both sides). -/

structure St where
  a : BS.T := {}
  b : BS.T := {}

def St.get (s : St) (r : String) : BS.T := if r == "A" then s.a else s.b
def St.put (s : St) (r : String) (v : BS.T) : St := if r == "A" then { s with a := v } else { s with b := v }

def hexWord (w : BS.W) : String := natToHex w.toNat

def wordsStr (l : List BS.W) : String :=
  if l.isEmpty then "-" else ",".intercalate (l.map hexWord)

def parseWords? (s : String) : Option (List BS.W) :=
  if s == "-" then some [] else
  (s.splitOn ",").mapM (fun w => (hexToNat? w).map (fun n => BitVec.ofNat 64 n))

/-- number of words scanned by `mem`/`obs` through `State` -/
def scanWords : Nat := 66

/-- the word `k` as seen through 64 calls of `State` -/
def stateWord (b : BS.T) (k : Nat) : Nat :=
  (List.range 64).foldl (fun acc j => if BS.state b (k * 64 + j) then acc + 2 ^ j else acc) 0

def dropTrailingZeros (l : List Nat) : List Nat :=
  (l.reverse.dropWhile (· == 0)).reverse

def memStr (b : BS.T) : String :=
  let ws := dropTrailingZeros ((List.range scanWords).map (stateWord b))
  if ws.isEmpty then "-" else ",".intercalate (ws.map natToHex)

def regOk (r : String) : Bool := r == "A" || r == "B"

def mutate (s : St) (r : String) (f : BS.T → BS.T) : St × String :=
  if regOk r then
    let v := f (s.get r)
    (s.put r v, toString (BS.count v))
  else (s, "bad-op")

def qry (s : St) (r : String) (f : BS.T → String) : St × String :=
  if regOk r then (s, f (s.get r)) else (s, "bad-op")

def step (s : St) (line : String) : St × String :=
  match words line with
  | ["reset"] => ({}, "reset")
  | ["set", r, i] => match i.toNat? with
    | some i => mutate s r (fun b => BS.setBit b i)
    | none => (s, "bad-op")
  | ["clr", r, i] => match i.toNat? with
    | some i => mutate s r (fun b => BS.clearBit b i)
    | none => (s, "bad-op")
  | ["flip", r, i] => match i.toNat? with
    | some i => mutate s r (fun b => BS.flipBit b i)
    | none => (s, "bad-op")
  | ["setr", r, i, j] => match i.toNat?, j.toNat? with
    | some i, some j => mutate s r (fun b => BS.setRange b i j)
    | _, _ => (s, "bad-op")
  | ["clrr", r, i, j] => match i.toNat?, j.toNat? with
    | some i, some j => mutate s r (fun b => BS.clearRange b i j)
    | _, _ => (s, "bad-op")
  | ["flipr", r, i, j] => match i.toNat?, j.toNat? with
    | some i, some j => mutate s r (fun b => BS.flipRange b i j)
    | _, _ => (s, "bad-op")
  | ["load", r, ws] => match parseWords? ws with
    | some l => mutate s r (fun b => BS.load b l)
    | none => (s, "bad-op")
  | ["copy", r, q] => if regOk q then mutate s r (fun b => BS.copy b (s.get q)) else (s, "bad-op")
  | ["clone", r, q] => if regOk q then mutate s r (fun _ => BS.clone (s.get q)) else (s, "bad-op")
  | ["trim", r] => mutate s r BS.trim
  | ["ensure", r, n] => match n.toNat? with
    | some n => mutate s r (fun b => BS.ensureCapacity b n)
    | none => (s, "bad-op")
  | ["rst", r] => mutate s r BS.reset
  | ["data", r] =>
    if regOk r then
      let p := BS.data (s.get r)
      (s.put r p.1, wordsStr p.2)
    else (s, "bad-op")
  | ["loaddata", r, q] =>
    -- `r.Load(q.Data())`
    if regOk r && regOk q then
      let p := BS.data (s.get q)
      let s := s.put q p.1
      let v := BS.load (s.get r) p.2
      (s.put r v, toString (BS.count v))
    else (s, "bad-op")
  | ["state", r, i] => match i.toNat? with
    | some i => qry s r (fun b => toString (BS.state b i))
    | none => (s, "bad-op")
  | ["count", r] => qry s r (fun b => toString (BS.count b))
  | ["first", r] => qry s r (fun b => toString (BS.firstSet b))
  | ["last", r] => qry s r (fun b => toString (BS.lastSet b))
  | ["next", r, i] => match i.toNat? with
    | some i => qry s r (fun b => toString (BS.nextSet b i))
    | none => (s, "bad-op")
  | ["prev", r, i] => match i.toNat? with
    | some i => qry s r (fun b => toString (BS.previousSet b i))
    | none => (s, "bad-op")
  | ["nextclr", r, i] => match i.toNat? with
    | some i => qry s r (fun b => toString (BS.nextClear b i))
    | none => (s, "bad-op")
  | ["prevclr", r, i] => match i.toNat? with
    | some i => qry s r (fun b => toString (BS.previousClear b i))
    | none => (s, "bad-op")
  | ["equal"] => (s, toString (BS.equal s.a s.b) ++ " " ++ toString (BS.equal s.b s.a))
  | ["equalnil", r] => qry s r (fun _ => "false")
  | ["mem", r] => qry s r memStr
  | ["obs", r] =>
    if regOk r then
      let b := s.get r
      let pre := "c=" ++ toString (BS.count b) ++ " m=" ++ memStr b ++ " f=" ++ toString (BS.firstSet b) ++
        " l=" ++ toString (BS.lastSet b)
      let p := BS.data b
      (s.put r p.1, pre ++ " d=" ++ wordsStr p.2)
    else (s, "bad-op")
  | _ => (s, "bad-op")

def main : IO Unit := Proto.run step ({} : St)
