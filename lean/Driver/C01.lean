import Driver.Proto
import Model.U128
import Model.I128
import Model.U128Hw
/-! Driver of C01.  Line protocol: `u <op> <args…>` / `i <op> <args…>`; a 128-bit operand is `hi:lo` (hex), a 64-bit
    operand is `x<hex>` (for `int64` operands: the two's-complement bit pattern), counts and bit indexes are decimal.
    Outputs: `hi:lo`, `x<hex>`, decimal integers, `true`/`false`, `panic:divzero`.  `u limit max`, `i limit max`,
    `i limit min` print the exported limit variables `MaxUint128`, `MaxInt128`, `MinInt128`.

    Which panic.  The twelve division entry points are run through `Model/U128Hw.lean` (`divC`, `divModWC`, … : every
    machine division `x / y`, `x % y` of the entry points and of the two Knuth kernels is a partial operation there), whose
    outcome `Out` keeps the library's own explicit panic `panic(divByZero)` (the string "divide by zero", `Out.divzero`,
    printed `panic:divzero`) apart from the Go runtime's integer-divide panic (`Out.hwdiv`, printed
    `panic:runtime-divide`).  `Props/C01.lean` (`hw_unsigned_eq`, `hw_signed_eq`, `hw_never_runtime_panic`) proves that these
    functions are the total model `Model/U128.lean` / `Model/I128.lean` the spec theorems speak about and never produce
    `hwdiv`.  As the code stands, all twelve entry points raise exactly the explicit panic for a zero divisor —
    `Uint128.Div/Div64/DivMod/DivMod64/Mod/Mod64` test the divisor first and call `panic(divByZero)`, and the six `Int128`
    entry points reach one of those with the magnitude of the divisor (`Div -> Uint128.Div`, `Div64 -> Uint128.Div64`,
    `DivMod -> Uint128.DivMod`, `DivMod64 -> DivMod`, `Mod -> DivMod`, `Mod64 -> DivMod64`).  No entry point lets the
    runtime's own integer-divide panic through (the only machine divisions, by `n.lo`, `n` and `vn1`, are behind the
    zero test resp. the normalisation).  The driver therefore prints the class `panic:divzero`; the harness prints the
    class of the value it recovered (`panic:divzero`, `panic:runtime-divide`, `panic:runtime`, `panic:other`). -/
open Proto

inductive Arg where
  | u (v : U128)
  | w (v : BitVec 64)
  | n (v : Int)

def parseArg (s : String) : Option Arg :=
  match s.splitOn ":" with
  | [h, l] =>
    match hexToNat? h, hexToNat? l with
    | some a, some b => some (.u ⟨BitVec.ofNat 64 a, BitVec.ofNat 64 b⟩)
    | _, _ => none
  | _ =>
    if s.startsWith "x" then (hexToNat? (s.drop 1).toString).map (fun v => .w (BitVec.ofNat 64 v))
    else s.toInt?.map .n

def fW (w : BitVec 64) : String := "x" ++ natToHex w.toNat
def fU (u : U128) : String := natToHex u.hi.toNat ++ ":" ++ natToHex u.lo.toNat
def fI (i : I128) : String := natToHex i.hi.toNat ++ ":" ++ natToHex i.lo.toNat
def fB (b : Bool) : String := if b then "true" else "false"
def fOut {α : Type} (f : α → String) : U128.Out α → String
  | .ok v => f v
  | .divzero => "panic:divzero"
  | .hwdiv => "panic:runtime-divide"
def fUU (p : U128 × U128) : String := fU p.1 ++ " " ++ fU p.2
def fII (p : I128 × I128) : String := fI p.1 ++ " " ++ fI p.2

/-! ### path tags (coverage evidence only: which division path / correction branch an operand pair exercises).
    Not part of the model and not compared with the implementation; `vlib/C01.py` runs a second pass over the generated
    division lines with `u path …` and histograms the answers. -/
namespace Tag
open U128

def corrCount (vn1 vn0 unx : W) : Nat → W → W → W → W → Nat
  | 0, _, _, _, _ => 9
  | fuel+1, q, rhat, left, right =>
    if q.toNat ≥ bit32.toNat ∨ left.toNat > right.toNat then
      if (rhat + vn1).toNat < bit32.toNat then
        corrCount vn1 vn0 unx fuel (q - 1#64) (rhat + vn1) (left - vn0) ((rhat + vn1) <<< 32 ||| unx) + 1
      else 1
    else 0

def by64 (u : U128) (n : W) (nLeading0 : Nat) : String :=
  let n := n <<< nLeading0
  let vn1 := n >>> 32
  let vn0 := n &&& mask32
  let u : U128 := if nLeading0 > 0 then ⟨u.hi <<< nLeading0 ||| u.lo >>> (64 - nLeading0), u.lo <<< nLeading0⟩ else u
  let un1 := u.lo >>> 32
  let un0 := u.lo &&& mask32
  let q1 := u.hi / vn1
  let rhat := u.hi % vn1
  let c1 := corrCount vn1 vn0 un1 4 q1 rhat (q1 * vn0) (rhat <<< 32 + un1)
  let q1 := corrLoop vn1 vn0 un1 4 q1 rhat (q1 * vn0) (rhat <<< 32 + un1)
  let un21 := u.hi <<< 32 + (un1 - q1 * n)
  let q0 := un21 / vn1
  let rhat := un21 % vn1
  let c0 := corrCount vn1 vn0 un0 4 q0 rhat (q0 * vn0) (rhat <<< 32 ||| un0)
  s!"l1={c1},l2={c0}"

def by128 (u n : U128) (nHiLeading0 nLoLeading0 : Nat) : String :=
  if n.hi = 0#64 then
    if u.hi.toNat < n.lo.toNat then "by64lo," ++ by64 u n.lo nLoLeading0
    else "by64hi," ++ by64 ⟨u.hi % n.lo, u.lo⟩ n.lo nLoLeading0
  else
    let t := by64 (rightShift u 1) (leftShift n nHiLeading0).hi nLoLeading0
    let q0 := (divmod128by64 (rightShift u 1) (leftShift n nHiLeading0).hi nLoLeading0).1
    let q0 := q0 >>> (63 - nHiLeading0)
    let d := q0 ≠ 0#64
    let q0 := if q0 ≠ 0#64 then q0 - 1#64 else q0
    let r := sub u (mul ⟨0#64, q0⟩ n)
    (if cmp r n ≥ 0 then "by128,corr," else "by128,nocorr,") ++ (if d then "dec," else "nodec,") ++ t

def path (u n : U128) : String :=
  if n.hi = 0#64 ∧ n.lo = 0#64 then "panic"
  else if n.hi = 0#64 ∧ n.lo = 1#64 then "by1"
  else if n.hi = 0#64 ∧ u.hi = 0#64 then "u64"
  else
    let nLoLeading0 := if n.hi = 0#64 then clz n.lo else 0
    let nHiLeading0 := if n.hi = 0#64 then 64 else clz n.hi
    let nLeading0 := if n.hi = 0#64 then clz n.lo + 64 else clz n.hi
    if nLeading0 + trailingZeros n = 127 then "pow2"
    else if cmp u n < 0 then "lt"
    else if cmp u n = 0 then "eq"
    else if nLeading0 - leadingZeros u > threshold then by128 u n nHiLeading0 nLoLeading0
    else s!"bin,shift={nLeading0 - leadingZeros u}"

def pathW (u : U128) (n : W) : String :=
  if n = 0#64 then "panic"
  else if n = 1#64 then "by1"
  else if u.hi = 0#64 then "u64"
  else if clz n + 64 + ctz n = 127 then "pow2"
  else if cmpW u n < 0 then "lt"
  else if cmpW u n = 0 then "eq"
  else if clz n + 64 - leadingZeros u > threshold then
    (if u.hi.toNat < n.toNat then "by64lo," ++ by64 u n (clz n) else "by64hi," ++ by64 ⟨u.hi % n, u.lo⟩ n (clz n))
  else s!"bin,shift={clz n + 64 - leadingZeros u}"

end Tag

def runU (op : String) (args : List Arg) : String :=
  match op, args with
  | "add", [.u a, .u b] => fU (a.add b)
  | "sub", [.u a, .u b] => fU (a.sub b)
  | "mul", [.u a, .u b] => fU (a.mul b)
  | "div", [.u a, .u b] => fOut fU (a.divC b)
  | "mod", [.u a, .u b] => fOut fU (a.modC b)
  | "divmod", [.u a, .u b] => fOut fUU (a.divModC b)
  | "and", [.u a, .u b] => fU (a.and b)
  | "or", [.u a, .u b] => fU (a.or b)
  | "xor", [.u a, .u b] => fU (a.xor b)
  | "andnot", [.u a, .u b] => fU (a.andNot b)
  | "andnot64", [.u a, .u b] => fU (a.andNot64 b)
  | "cmp", [.u a, .u b] => toString (a.cmp b)
  | "gt", [.u a, .u b] => fB (a.greaterThan b)
  | "ge", [.u a, .u b] => fB (a.greaterThanOrEqual b)
  | "eq", [.u a, .u b] => fB (a.equal b)
  | "lt", [.u a, .u b] => fB (a.lessThan b)
  | "le", [.u a, .u b] => fB (a.lessThanOrEqual b)
  | "add64", [.u a, .w b] => fU (a.addW b)
  | "sub64", [.u a, .w b] => fU (a.subW b)
  | "mul64", [.u a, .w b] => fU (a.mulW b)
  | "div64", [.u a, .w b] => fOut fU (a.divWC b)
  | "mod64", [.u a, .w b] => fOut fU (a.modWC b)
  | "divmod64", [.u a, .w b] => fOut fUU (a.divModWC b)
  | "and64", [.u a, .w b] => fU (a.andW b)
  | "or64", [.u a, .w b] => fU (a.orW b)
  | "xor64", [.u a, .w b] => fU (a.xorW b)
  | "cmp64", [.u a, .w b] => toString (a.cmpW b)
  | "gt64", [.u a, .w b] => fB (a.greaterThanW b)
  | "ge64", [.u a, .w b] => fB (a.greaterThanOrEqualW b)
  | "eq64", [.u a, .w b] => fB (a.equalW b)
  | "lt64", [.u a, .w b] => fB (a.lessThanW b)
  | "le64", [.u a, .w b] => fB (a.lessThanOrEqualW b)
  | "inc", [.u a] => fU a.inc
  | "dec", [.u a] => fU a.dec
  | "not", [.u a] => fU a.not
  | "bitlen", [.u a] => toString a.bitLen
  | "onescount", [.u a] => toString a.onesCount
  | "lz", [.u a] => toString a.leadingZeros
  | "tz", [.u a] => toString a.trailingZeros
  | "iszero", [.u a] => fB a.isZero
  | "isint128", [.u a] => fB a.isInt128
  | "isuint64", [.u a] => fB a.isUint64
  | "asuint64", [.u a] => fW a.asUint64
  | "shl", [.u a, .n c] => fU (a.leftShift c.toNat)
  | "shr", [.u a, .n c] => fU (a.rightShift c.toNat)
  | "bit", [.u a, .n i] => toString (a.bit i)
  | "setbit", [.u a, .n i, .n b] => fU (a.setBit i b.toNat)
  | "from64", [.w v] => fU (U128.from64 v)
  | "path", [.u a, .u b] => "div:" ++ Tag.path a b
  | "path64", [.u a, .w b] => "div64:" ++ Tag.pathW a b
  | _, _ => "bad-op"

def runI (op : String) (args : List Arg) : String :=
  match op, args with
  | "add", [.u a, .u b] => fI ((I128.ofU a).add (I128.ofU b))
  | "sub", [.u a, .u b] => fI ((I128.ofU a).sub (I128.ofU b))
  | "mul", [.u a, .u b] => fI ((I128.ofU a).mul (I128.ofU b))
  | "div", [.u a, .u b] => fOut fI ((I128.ofU a).divC (I128.ofU b))
  | "mod", [.u a, .u b] => fOut fI ((I128.ofU a).modC (I128.ofU b))
  | "divmod", [.u a, .u b] => fOut fII ((I128.ofU a).divModC (I128.ofU b))
  | "cmp", [.u a, .u b] => toString ((I128.ofU a).cmp (I128.ofU b))
  | "gt", [.u a, .u b] => fB ((I128.ofU a).greaterThan (I128.ofU b))
  | "ge", [.u a, .u b] => fB ((I128.ofU a).greaterThanOrEqual (I128.ofU b))
  | "eq", [.u a, .u b] => fB ((I128.ofU a).equal (I128.ofU b))
  | "lt", [.u a, .u b] => fB ((I128.ofU a).lessThan (I128.ofU b))
  | "le", [.u a, .u b] => fB ((I128.ofU a).lessThanOrEqual (I128.ofU b))
  | "add64", [.u a, .w b] => fI ((I128.ofU a).addW b)
  | "sub64", [.u a, .w b] => fI ((I128.ofU a).subW b)
  | "mul64", [.u a, .w b] => fI ((I128.ofU a).mulW b)
  | "div64", [.u a, .w b] => fOut fI ((I128.ofU a).divWC b)
  | "mod64", [.u a, .w b] => fOut fI ((I128.ofU a).modWC b)
  | "divmod64", [.u a, .w b] => fOut fII ((I128.ofU a).divModWC b)
  | "cmp64", [.u a, .w b] => toString ((I128.ofU a).cmpW b)
  | "gt64", [.u a, .w b] => fB ((I128.ofU a).greaterThanW b)
  | "ge64", [.u a, .w b] => fB ((I128.ofU a).greaterThanOrEqualW b)
  | "eq64", [.u a, .w b] => fB ((I128.ofU a).equalW b)
  | "lt64", [.u a, .w b] => fB ((I128.ofU a).lessThanW b)
  | "le64", [.u a, .w b] => fB ((I128.ofU a).lessThanOrEqualW b)
  | "inc", [.u a] => fI (I128.ofU a).inc
  | "dec", [.u a] => fI (I128.ofU a).dec
  | "neg", [.u a] => fI (I128.ofU a).neg
  | "abs", [.u a] => fI (I128.ofU a).abs
  | "absu", [.u a] => fU (I128.ofU a).absUint128
  | "sign", [.u a] => toString (I128.ofU a).sign
  | "iszero", [.u a] => fB (I128.ofU a).isZero
  | "isuint128", [.u a] => fB (I128.ofU a).isUint128
  | "isint64", [.u a] => fB (I128.ofU a).isInt64
  | "asint64", [.u a] => fW (I128.ofU a).asInt64
  | "isuint64", [.u a] => fB (I128.ofU a).isUint64
  | "asuint64", [.u a] => fW (I128.ofU a).asUint64
  | "from64", [.w v] => fI (I128.from64 v)
  | "fromu64", [.w v] => fI (I128.fromUint64 v)
  | _, _ => "bad-op"

def step (_ : Unit) (line : String) : Unit × String :=
  let out :=
    match words line with
    | ["u", "limit", "max"] => fU U128.maxU128
    | ["i", "limit", "max"] => fI I128.maxI128
    | ["i", "limit", "min"] => fI I128.minI128
    | "u" :: op :: rest =>
      match rest.mapM parseArg with
      | some args => runU op args
      | none => "bad-op"
    | "i" :: op :: rest =>
      match rest.mapM parseArg with
      | some args => runI op args
      | none => "bad-op"
    | _ => "bad-op"
  ((), out)

def main : IO Unit := Proto.run step ()
