import Driver.Proto
import Model.LogHandlers
import Model.TraceProto
import Model.LogEntry
import Model.LogFanout
import Model.LogNest
/-! Model driver of C13: a stateful line protocol over `TL` (tracelog) and `ML` (multilog). -/
open Proto

namespace C13Drv

inductive H where
  | tl (h : TL.Handler)
  | ml (m : ML.Node)      -- a fan-out handler: a tree whose inner nodes are fan-out handlers given to `multilog.New`

structure St where
  store : TL.Store := {}
  handlers : List (String × H) := []
  sinks : List (Nat × TL.SinkSt) := []
  eh : Errs.Heap := #[]                  -- the `*errs.Error` cells that exist in the harness
  sentinels : List (Nat × Nat) := []     -- sink ↦ heap cell of its long-lived sentinel error
  aggs : List (Nat × Nat) := []          -- sink ↦ heap cell of its long-lived two-element aggregate
  panicMsg : List (Nat × String) := []   -- sink ↦ text of the value its `Write` panics with (a harness token)
  panicSent : List Nat := []             -- sinks whose `Write` panics with the sentinel itself
  panicErr : List Nat := []              -- sinks whose `Write` panics with a value that implements `error`
  vars : List Nat := []                  -- sinks whose handler family shares a `*slog.LevelVar`
  failMsg : List (Nat × String) := []    -- sink ↦ `Error()` text of the foreign error value its `Write` returns (token)

def getH (s : St) (n : String) : Option H := s.handlers.lookup n
def setH (s : St) (n : String) (h : H) : St := { s with handlers := (n, h) :: s.handlers.filter (·.1 != n) }
def getS (s : St) (i : Nat) : Option TL.SinkSt := s.sinks.lookup i
def setS (s : St) (i : Nat) (k : TL.SinkSt) : St := { s with sinks := (i, k) :: s.sinks.filter (·.1 != i) }

/-- attribute words (prefix notation):
    `e` | `l <key> <tok> <kind> <payload>` | `g <key> <n> attr*n` | `v attr` | `k <key> <trace> attr` |
    `s <key> <trace>` (a real `errs.stackValue` over a scripted stack text: `ELog.stackAttrAt`) -/
partial def parseAttr : List String → Option (TL.Attr × List String)
  | "e" :: rest => some (.empty, rest)
  | "l" :: k :: tok :: _ :: _ :: rest =>
    match hexBytes? k, hexBytes? tok with
    | some k, some t => some (.leaf k t, rest)
    | _, _ => none
  | "g" :: k :: n :: rest =>
    match hexBytes? k, n.toNat? with
    | some k, some n =>
      let rec kids (n : Nat) (ws : List String) (acc : List TL.Attr) : Option (List TL.Attr × List String) :=
        match n with
        | 0 => some (acc.reverse, ws)
        | n + 1 => match parseAttr ws with
          | some (a, ws') => kids n ws' (a :: acc)
          | none => none
      match kids n rest [] with
      | some (ks, rest') => some (.group k ks, rest')
      | none => none
    | _, _ => none
  | "v" :: rest =>
    -- a LogValuer wrapper is transparent after Resolve, but it hides a stack carrier from the `StackError()` test
    match parseAttr rest with
    | some (.stack _ _ fb, rest') => some (fb, rest')
    | some (a, rest') => some (a, rest')
    | none => none
  | "k" :: k :: tr :: rest =>
    match hexBytes? k, hexBytes? tr, parseAttr rest with
    -- (the carrier resolves to the inner VALUE: a stack carrier in there is never asked for its `StackError()`)
    | some k, some tr, some (.stack _ _ fb, rest') => some (.stack k tr fb, rest')
    | some k, some tr, some (fb, rest') => some (.stack k tr fb, rest')
    | _, _, _ => none
  | "s" :: k :: tr :: rest =>
    match hexBytes? k, hexBytes? tr with
    | some k, some tr => some (ELog.stackAttrAt k tr, rest)
    | _, _ => none
  | _ => none

partial def parseAttrs (ws : List String) (acc : List TL.Attr) : Option (List TL.Attr) :=
  match ws with
  | [] => some acc.reverse
  | _ => match parseAttr ws with
    | some (a, rest) => parseAttrs rest (a :: acc)
    | none => none

/-- the level field of `new`/`norm`: a number, `nil`, `tnil` or `var:<n>`; the flag marks a shared `LevelVar` -/
def parseLevel (w : String) : Option (Option Int × Bool) :=
  if w == "nil" || w == "tnil" then some (none, false)
  else if w.startsWith "var:" then (w.drop 4).toString.toInt?.map fun l => (some l, true)
  else w.toInt?.map fun l => (some l, false)

def parseNames (ws : List String) : Option (List (Int × TL.Bytes)) :=
  ws.mapM fun w => match w.splitOn ":" with
    | [l, n] => match l.toInt?, hexBytes? n with
      | some l, some n => some (l, n)
      | _, _ => none
    | _ => none

def showWrites (ws : List (Nat × TL.Bytes)) : List String :=
  let ids := (ws.map (·.1)).eraseDups
  let ids := ids.toArray.qsort (· < ·) |>.toList
  ids.map fun i =>
    let mine := (ws.filter (·.1 == i)).map (·.2)
    "S" ++ toString i ++ "=" ++ toString mine.length ++ String.join (mine.map fun b => ":" ++ bytesHex b)

/-- nil values of nillable kinds: the library takes them for "no error" (design Appendix B) -/
def nilKinds : List String := ["nilptr", "nilslice", "nilmap", "nilfunc", "nilchan"]

/-- `Error()` text of the error kinds of `go/cmd/c13/errkinds.go` (tokens) -/
def kindMsg (k : String) : String :=
  match k with
  | "deadline" => "context deadline exceeded" | "canceled" => "context canceled" | "eof" => "EOF"
  | "notexist" => "file does not exist" | "patherr" => "open /x: file does not exist"
  | "zstruct" | "nzstruct" => "K:struct" | "zint" | "nzint" => "K:int" | "zstring" | "nzstring" => "K:string"
  | "zarray" | "nzarray" => "K:array" | "ptr" | "zptr" | "nilptr" => "K:ptr" | "slice" | "eslice" | "nilslice" => "K:slice"
  | "map" | "emap" | "nilmap" => "K:map" | "func" | "nilfunc" => "K:func" | "chan" | "nilchan" => "K:chan"
  | _ => "?"

def errMsg (k : TL.ErrKind) (sink : Nat) : String :=
  match k with
  | .sentinel => "sinksentinel" ++ toString sink
  | .aggregate => "sinkagg" ++ toString sink
  | _ => "sinkfail" ++ toString sink

def showItem : ML.ErrItem → String
  | .plain m => "E:" ++ m
  | .recovered m => "P:" ++ m

/-- one element of `WrappedErrors()` as the harness prints it -/
def showNode (eh : Errs.Heap) (n : Errs.ENode) : String :=
  -- a recovered panic is an error ABOUT a cause (its message differs from the cause's); see the harness
  let causeMsg := match n.cause with | .ref c => Errs.message eh c | v => Errs.errorText v
  if n.cause != .nilIface && n.msg != causeMsg then "P:" ++ causeMsg else "E:" ++ n.msg

/-- an `error` value as the harness prints it: nil, a foreign error, or `Count()[WrappedErrors()...]` -/
def showVal (eh : Errs.Heap) : Errs.Val → String
  | .ref id => "ret=" ++ toString (Errs.count eh id) ++ "[" ++
      ",".intercalate ((Errs.wrappedErrors eh id).map (showNode eh)) ++ "]"
  | .plain _ m => "ret=E:" ++ m
  | .typedNil => "ret=typed-nil"
  | .foreignNil => "ret=E:foreign-nil"
  | _ => "ret=nil"

def strHex (m : String) : String := bytesHex (m.toUTF8.toList.map (·.toNat))

/-- `Count()` and `Message()` of every sink's sentinel, in sink order -/
def showSentinels (s : St) : String :=
  let ss := s.sentinels.toArray.qsort (fun a b => a.1 < b.1) |>.toList
  if ss.isEmpty then "sent=-" else
  "sent=" ++ ",".intercalate (ss.map fun (k, id) =>
    let a := (s.aggs.lookup k).getD 0
    toString k ++ ":" ++ toString (Errs.count s.eh id) ++ ":" ++ strHex (Errs.message s.eh id) ++ ":" ++
      toString (Errs.count s.eh a) ++ ":" ++ strHex (Errs.message s.eh a))

/-- the value a sink's `Write` panics with, as far as `errs.Recovery` distinguishes it -/
def panicVal (s : St) (k : Nat) : Rec.PVal :=
  if s.panicSent.contains k then .err (.ref ((s.sentinels.lookup k).getD 0))
  else
    let txt := (s.panicMsg.lookup k).getD ("sinkpanic" ++ toString k)
    if s.panicErr.contains k then .err (.plain 0 txt) else .other txt

/-- how a tracelog child's `Handle` ends, as `multilog.runHandler` sees it: it returns a value (fresh values are
    allocated on the heap) or it panics -/
def flowOf (s : St) (ret : TL.Ret) : St × Rec.Flow :=
  match ret with
  | .nil => (s, .ret .nilIface)
  | .err k .plain => (s, .ret (.plain 0 ((s.failMsg.lookup k).getD (errMsg .plain k))))
  | .err k .fresh => let (eh, v) := Errs.new s.eh (errMsg .fresh k); ({ s with eh := eh }, .ret v)
  | .err k .sentinel =>
    match s.sentinels.lookup k with
    | some id => (s, .ret (.ref id))
    | none => (s, .ret .nilIface)
  | .err k .aggregate =>
    match s.aggs.lookup k with
    | some id => (s, .ret (.ref id))
    | none => (s, .ret .nilIface)
  | .err _ .typedNil => (s, .ret .typedNil)
  | .err _ .foreignNil => (s, .ret .foreignNil)
  | .panic k => (s, .panic (panicVal s k))

/-- the `error` value `runHandler` comes back with for that child: `Rec.runHandler` (the model of `errs/recovery.go`
    under `multilog.go:64-68`) — what the child returned, or the recovered panic -/
def retVal (s : St) (ret : TL.Ret) : St × Errs.Val :=
  let (s1, f) := flowOf s ret
  let (eh, v) := Rec.runHandler s1.eh f
  ({ s1 with eh := eh }, v)

/-- the abstract child multilog sees: level threshold of the tracelog handler, outcome decided by its sink -/
def childOf (s : St) (i : Nat) (c : TL.Handler) : ML.Child :=
  let sk := (getS s c.sink).getD {}
  let oc : ML.Outcome := match (TL.deliver sk c.sink []).2.2 with
    | .nil => .ok
    | .err _ .typedNil => .ok          -- `errs.Append` takes a typed nil for "no error"
    | .err _ .foreignNil => .ok
    | .err k .plain => .err ((s.failMsg.lookup k).getD (errMsg .plain k))
    | .err k kind => .err (errMsg kind k)
    | .panic k =>
      if s.panicSent.contains k then .panic ("sinksentinel" ++ toString k)
      else .panic ((s.panicMsg.lookup k).getD ("sinkpanic" ++ toString k))
  { id := i, minLevel := c.level, outcome := oc }

def children (s : St) (m : ML.Node) : List ML.Child :=
  (m.leaves.zipIdx).map fun (c, i) => childOf s i c

/-- hand a record to one tracelog handler -/
def tlHandle (s : St) (h : TL.Handler) (r : TL.Record) : St × List (Nat × TL.Bytes) × TL.Ret :=
  let sk := (getS s h.sink).getD {}
  let (sk', ws, ret) := TL.deliver sk h.sink (TL.render s.store h r)
  (setS s h.sink sk', ws.map (fun w => (h.sink, w)), ret)

/-- how many of these deliveries come back with a non-nil `error` interface (synchronous sinks in a failing mode; a
    panic returns nothing) — the harness counts the same with `err != nil` -/
def nonNil (s : St) (cs : List TL.Handler) : String :=
  "nn=" ++ toString (cs.filter fun c =>
    match getS s c.sink with
    | some sk => sk.buf.isNone && (match sk.mode with | .fail _ => true | _ => false)
    | none => false).length

def doLog (s : St) (h : H) (r : TL.Record) : St × String :=
  match h with
  | .tl t =>
    let (s', ws, ret) := tlHandle s t r
    let (s', out) := match ret with
      | .panic k =>
        (s', "ret=panic:" ++ (if s.panicSent.contains k then "sinksentinel" ++ toString k
                              else (s.panicMsg.lookup k).getD ("sinkpanic" ++ toString k)))
      | .err k .foreignNil => (s', "ret=E:" ++ (s.failMsg.lookup k).getD "foreign-nil")
      | ret => let (s2, v) := retVal s' ret; (s2, showVal s2.eh v)
    (s', " ".intercalate (showWrites ws ++ [out, nonNil s [t], showSentinels s']))
  | .ml m =>
    let res := ML.handle (children s m) r.level
    -- the deliveries themselves: `ML.Node.handle` — the loop of `multilog.Handle` at every level of the tree (each level
    -- asks its children for `Enabled`; `Lemmas/LogNest.lean`: equal to the flat `ML.handleTL` over the leaves); each
    -- leaf's return value then goes through `runHandler` into the accumulation on the errs heap
    let fan := m.handle s.store r { sinks := s.sinks }
    let ws := fan.writes
    let (s', rets) := fan.rets.foldl (fun (acc : St × List Errs.Val) kr =>
      let (s3, v) := retVal acc.1 kr.2
      (s3, acc.2 ++ [v])) ({ s with sinks := fan.sinks }, [])
    let eh' := (ML.accumulate s'.eh rets).1
    let v := ML.returned s'.eh rets
    let s' := { s' with eh := eh' }
    let ret := showVal eh' v
    -- the list model (`ML.handle`, theorems fanout_*) and the heap model must tell the same story
    let abstract := if res.isNil then "ret=nil"
      else "ret=" ++ toString res.errors.length ++ "[" ++ ",".intercalate (res.errors.map showItem) ++ "]"
    -- (a child handing back a two-element aggregate is one `err` in the list model: no comparison then)
    let hasAgg := (children s m).any fun c => match c.outcome with
      | .err msg => msg.startsWith "sinkagg" | _ => false
    let ret := if ret == abstract || hasAgg then ret else ret ++ " list-model-differs:" ++ abstract
    let ret := if res.deliveries.length == fan.rets.length then ret else ret ++ " fanout-models-differ"
    (s', " ".intercalate (showWrites ws ++ [ret, nonNil s (res.deliveries.filterMap (m.leaves[·]?)), showSentinels s']))

def isEnabled (_s : St) (h : H) (level : Int) : Bool :=
  match h with
  | .tl t => TL.enabled t level
  | .ml m => m.enabled level

def nowTok : TL.Bytes := TL.ascii " | NOW | "
def stackTok : TL.Bytes := TL.ascii "<<STACK>>"

/-- the ten `errs.Log*` entry points: `ELog.logRecord` (enabled? — `createRecord` — the caller's attributes), then
    `Handle`, whose result is dropped; over a tracelog handler this is `ELog.logToTL`, the function the `errlog_*`
    theorems are about.  The stack text of the real error is the placeholder `<<STACK>>` (the harness substitutes it
    after checking the real text), so what `stackValue.LogValue` prints for it is `[<<STACK>>]`.
    `ek`: e = *errs.Error, p = plain error (wrapped inside errs), n = nil, t = typed nil. -/
def logX (s : St) : List String → St × String
  | ek :: h :: lvl :: msg :: ws =>
    match getH s h, lvl.toInt?, hexBytes? msg, parseAttrs ws [] with
    | some h, some lvl, some msg, some as =>
      let noErr := ek == "n" || ek == "t" || (ek.startsWith "k:" && nilKinds.contains (ek.drop 2).toString)
      let err : Option ELog.EErr := if noErr then none else some { msg := msg, trace := stackTok }
      match h with
      | .tl t =>
        let sk := (getS s t.sink).getD {}
        let (sk', ws, pan) := ELog.logToTL s.store t sk lvl nowTok err as
        let s' := setS s t.sink sk'
        let ret := match pan with
          | some k => "ret=panic:" ++ (match panicVal s k with
              | .err (.ref _) => "sinksentinel" ++ toString k
              | .err v => Errs.errorText v
              | .other txt => txt)
          | none => "ret=void"
        let nn := if TL.enabled t lvl then nonNil s [t] else "nn=0"
        (s', " ".intercalate (showWrites (ws.map fun w => (t.sink, w)) ++ [ret, nn, showSentinels s']))
      | .ml _ =>
        match ELog.logRecord (isEnabled s h lvl) lvl nowTok err as with
        | some r =>
          let (s', out) := doLog s h r
          -- multilog recovers every panic of a child: nothing but `void` reaches the caller
          match out.splitOn " nn=" with
          | [a, b] =>
            match a.splitOn "ret=" with
            | [w, _] => (s', w ++ "ret=void nn=" ++ b)
            | _ => (s', out)
          | _ => (s', out)
        | none => (s, "ret=void nn=0 " ++ showSentinels s)
    | _, _, _, _ => (s, "bad-op")
  | _ => (s, "bad-op")

/-- `rec <panic kind> <handler kind>`: `errs.Recovery(handler)` as the deferred call of a function that panics (or not),
    run on a heap holding one long-lived `*errs.Error` (cell 0) and one long-lived aggregate of two (cell 1) -/
def recOp (pk hk : String) : String :=
  let (eh, boom) := Errs.new #[] "boom-errs"
  let (eh, a) := Errs.new eh "agg-a"
  let (eh, b) := Errs.new eh "agg-b"
  let eh := (Errs.append eh a [b]).1
  let p? : Option (Option Rec.PVal) := match pk with
    | "none" => some none
    | "string" => some (some (.other "boom-string"))
    | "int" => some (some (.other "42"))
    | "tnilptr" => some (some (.other "<nil>"))
    | "error" => some (some (.err (.plain 1 "boom-error")))
    | "errs" => some (some (.err boom))
    | "agg" => some (some (.err a))
    | "runtime" => some (some (.err (.plain 2 "RUNTIMEERR")))
    | "nil" => some (some (.err (.plain 3 "PANICNIL")))
    | "tnilerr" => some (some (.err .typedNil))
    | "fnilerr" => some (some (.err .foreignNil))
    | _ => none
  let h? : Option Rec.HKind := match hk with
    | "nil" => some .nil
    | "record" => some .returns
    | "panics" => some (.panics (.other "bad handler"))
    | "panicse" => some (.panics (.err (.plain 9 "bad-handler-error")))
    | _ => none
  match p?, h? with
  | some p, some h =>
    let (eh', o) := Rec.recovery true eh h p
    let esc := match o.escaped with
      | none => "-"
      | some (.other t) => t
      | some (.err v) => Errs.errorText v
    let arg := match o.calls with
      | [.ref r] =>
        let c := Errs.unwrap eh' (.ref r)
        let cause := if c == .nilIface then "nil" else match p with
          | some (.err v) => if c == v then "same" else "other"
          | some (.other _) => (match c with
            | .ref cid => if cid ≥ eh.size then "fresh:" ++ strHex (Errs.message eh' cid) else "old"
            | _ => "other")
          | none => "other"
        ["count=" ++ toString (Errs.count eh' r), "cause=" ++ cause]
      | [] => []
      | _ => ["arg=?"]
    let cell (v : Errs.Val) : String := match v with
      | .ref id => toString (Errs.count eh' id) ++ ":" ++ strHex (Errs.message eh' id)
      | _ => "?"
    " ".intercalate (["esc=" ++ esc, "calls=" ++ toString o.calls.length] ++ arg ++ ["boom=" ++ cell boom, "agg=" ++ cell a])
  | _, _ => "bad-op"

/-! ### the forced-schedule judge: `judge sched <depth> <nprod> <tok>* => rets=<r,...> writes=<hex|...>`

The harness ran the scripted schedule against the real handler (see `go/cmd/c13/sched.go`) and reports what every
`Handle` call returned and what the sink finally contained.  The protocol model (`TraceProto`, instantiated with the
sequential formatter `TL.format`) computes the SET of final sink contents the script allows; the verdict is `ok` iff
every call returned nil, every `Write` is exactly one formatted record, and the sequence is in that set. -/
namespace Sched

def padLen (p i : Nat) : Nat := (p * 31 + i * 7) % 97

def natTok (n : Nat) : TL.Bytes := TL.ascii (toString n)

def stamp : TL.Bytes := TL.ascii " | 2023-11-14 | 22:13:20.000 | "

/-- producer `p` logs through the root (p % 3 = 0), `root.WithAttrs(pre=p)` (1) or `root.WithGroup("r")` (2) -/
def entriesOf (p : Nat) : List TL.Entry :=
  match p % 3 with
  | 0 => []
  | 1 => [.attrs [.leaf (TL.ascii "pre") (natTok p)]]
  | _ => [.grp (TL.ascii "r")]

def recordOf (p i : Nat) : TL.Record :=
  { level := 0, ts := stamp, msg := TL.ascii ("p" ++ toString p ++ "-" ++ toString i),
    attrs := [.leaf (TL.ascii "g") (natTok p), .leaf (TL.ascii "seq") (natTok i),
              .leaf (TL.ascii "pad") ([34] ++ List.replicate (padLen p i) 120 ++ [34])] }

def lineOf (p i : Nat) : TL.Bytes := TL.format [] (entriesOf p) (recordOf p i)

def primerPid : Nat := 999

def parseTok (w : String) : Option TraceProto.Tok :=
  if w == "s" || w == "F" then some .sync
  else if w.startsWith "h" then (w.drop 1).toString.toNat?.map .handle
  else if w.startsWith "w" then (w.drop 1).toString.toNat?.map .permits
  else if w.startsWith "c" then
    match (w.drop 1).toString.splitOn "." with
    | [a, b] => match a.toNat?, b.toNat? with
      | some a, some b => some (.par a b)
      | _, _ => none
    | _ => none
  else none

/-- how many `Handle` calls the script makes for producer `p` -/
def callsOf (script : List TraceProto.Tok) (p : Nat) : Nat :=
  script.foldl (fun n t => match t with
    | .handle q => if q == p then n + 1 else n
    | .par a b => n + (if a == p then 1 else 0) + (if b == p then 1 else 0)
    | _ => n) 0

def showSeq (l : List (Nat × Nat)) : String :=
  if l.isEmpty then "-" else ",".intercalate (l.map fun (p, i) => toString p ++ "." ++ toString i)

def judge (ws : List String) (impl : String) : String :=
  match ws with
  | depth :: nprod :: toks =>
    match depth.toNat?, nprod.toNat?, toks.mapM parseTok with
    | some depth, some nprod, some script =>
      -- (the outcome is a sequence of producer/index pairs: the exploration runs with empty lines, the bytes are
      -- compared below against `lineOf`)
      let cfg : TraceProto.Config := { cap := depth, line := fun _ _ => some [] }
      let x0 : TraceProto.XState :=
        { s := { TraceProto.init nprod with cons := .writing ⟨primerPid, 0, []⟩ }, permits := 0 }
      let finals := TraceProto.finalStates cfg x0 script
      -- (the exploration is fuel-bounded; a cut-short exploration is reported as such, never as `ok`)
      if TraceProto.inconclusiveIn finals then "inconclusive the exploration of this script ran out of fuel" else
      let allowed := TraceProto.dedup ((TraceProto.outcomesIn finals).map fun o => o.filter (·.1 != primerPid))
      -- the implementation's side
      let parts := impl.splitOn " writes="
      match parts with
      | [rets, writes] =>
        let rets := ((rets.drop 5).toString.splitOn ",").filter (· != "")
        let total := (List.range nprod).foldl (fun n p => n + callsOf script p) 0
        if rets.length != total || rets.any (· != "nil") then "NOT-ALLOWED a Handle call did not return nil: " ++ (impl.take 200).toString
        else
          let hexes := if writes == "-" then [] else writes.splitOn "|"
          -- each Write must be exactly the formatted line of one record (no tear, no merge)
          let table : List ((Nat × Nat) × String) := (List.range nprod).flatMap fun p =>
            (List.range (callsOf script p)).map fun i => ((p, i), bytesHex (lineOf p i))
          let ids := hexes.map fun h => (table.find? (·.2 == h)).map (·.1)
          if ids.any (·.isNone) then "NOT-ALLOWED a Write is not exactly one formatted record"
          else
            let seq := ids.filterMap id
            if allowed.contains seq then "ok allowed=" ++ toString allowed.length
            else "NOT-ALLOWED sink=" ++ showSeq seq ++ " allowed=" ++ " / ".intercalate ((allowed.take 12).map showSeq)
      | _ => "NOT-ALLOWED unreadable outcome: " ++ (impl.take 200).toString
    | _, _, _ => "bad-op"
  | _ => "bad-op"

end Sched

def step (s : St) (line : String) : St × String :=
  match words line with
  | "judge" :: "sched" :: rest =>
    match (" ".intercalate rest).splitOn " => " with
    | [script, impl] => (s, Sched.judge (words script) impl)
    | _ => (s, "bad-op")
  | "reset" :: _ => ({}, "reset")
  | "new" :: h :: sink :: lvl :: depth :: names =>
    match sink.toNat?, parseLevel lvl, depth.toInt?, parseNames names with
    | some sink, some (lvl, isVar), some depth, some names =>
      let (lvl, depth) := TL.normalize lvl depth
      -- a fresh handler has a nil list: a slice of length 0
      let t : TL.Handler := { level := lvl, names := names, sink := sink, list := { arr := 0, len := 0 } }
      let sk : TL.SinkSt := { buf := if depth > 0 then some { cap := depth } else none }
      let sid := s.eh.size
      let (eh, _) := Errs.new s.eh ("sinksentinel" ++ toString sink)
      let (eh, a) := Errs.new eh ("sinkagg" ++ toString sink ++ "a")
      let (eh, b) := Errs.new eh ("sinkagg" ++ toString sink ++ "b")
      let eh := (Errs.append eh a [b]).1
      let s := { s with eh := eh, sentinels := (sink, sid) :: s.sentinels.filter (·.1 != sink),
                        aggs := (sink, sid + 1) :: s.aggs.filter (·.1 != sink),
                        vars := if isVar then sink :: s.vars else s.vars.filter (· != sink) }
      (setS (setH s h (.tl t)) sink sk, "ok")
    | _, _, _, _ => (s, "bad-op")
  | ["setlevel", sink, lvl] =>
    match sink.toNat?, lvl.toInt? with
    | some k, some lvl =>
      if s.vars.contains k then
        -- the `Leveler` is shared by the root and everything derived from it, also inside multilog handlers
        let upd (t : TL.Handler) : TL.Handler := if t.sink == k then { t with level := lvl } else t
        ({ s with handlers := s.handlers.map fun (n, h) => match h with
            | .tl t => (n, .tl (upd t))
            | .ml m => (n, .ml (m.mapLeaves upd)) }, "ok")
      else (s, "bad-op")
    | _, _ => (s, "bad-op")
  | ["norm", lvl, depth, given] =>
    match parseLevel lvl, depth.toInt? with
    | some (lvl, _), some depth =>
      let (l, d) := TL.normalize lvl depth
      (s, "level=" ++ toString l ++ " depth=" ++ toString d ++ " sink=" ++ (if given == "1" then "given" else "stderr"))
    | _, _ => (s, "bad-op")
  | "mnew" :: m :: kids =>
    -- a child may itself be a fan-out handler: the tree is kept as it is (`Model/LogNest.lean`)
    match kids.mapM (fun k => match getH s k with
        | some (.tl t) => some (ML.Node.leaf t) | some (.ml m) => some m | none => none) with
    | some ks => (setH s m (.ml (.fan ks)), "ok")
    | none => (s, "bad-op")
  | ["wg", n, p, name] =>
    match getH s p, hexBytes? name with
    | some (.tl t), some name =>
      let (σ, t', same) := TL.withGroup s.store t name
      (setH { s with store := σ } n (.tl t'), (fun (_ : Bool) => "ok") same)
    | some (.ml m), some name =>
      let (σ, m') := m.withGroup s.store name
      (setH { s with store := σ } n (.ml m'), "ok")
    | _, _ => (s, "bad-op")
  | "wa" :: n :: p :: ws =>
    match getH s p, parseAttrs ws [] with
    | some (.tl t), some as =>
      let (σ, t', same) := TL.withAttrs s.store t as
      (setH { s with store := σ } n (.tl t'), (fun (_ : Bool) => "ok") same)
    | some (.ml m), some as =>
      let (σ, m') := m.withAttrs s.store as
      (setH { s with store := σ } n (.ml m'), "ok")
    | _, _ => (s, "bad-op")
  | ["en", h, lvl] =>
    match getH s h, lvl.toInt? with
    | some h, some lvl => (s, toString (isEnabled s h lvl))
    | _, _ => (s, "bad-op")
  | ["mode", sink, m] =>
    match sink.toNat? with
    | some i =>
      match getS s i with
      | some sk =>
        let mode? : Option TL.Mode := match m with
          | "ok" => some .ok | "fail" => some (.fail .plain) | "faile" => some (.fail .fresh)
          | "fails" => some (.fail .sentinel) | "failm" => some (.fail .aggregate)
          | "failn" => some (.fail .typedNil) | "failf" => some (.fail .foreignNil)
          | "panic" | "panice" | "panicr" | "panicp" | "panicn" | "panics" => some .panic
          | m => if m.startsWith "failk:" then
                   (if nilKinds.contains (m.drop 6).toString then some (.fail .foreignNil) else some (.fail .plain))
                 else none
        match mode? with
        | some md =>
          if sk.buf.isSome && md == .panic then (s, "bad-op") else
          -- the text of the panic value is a token of the harness / the Go runtime
          let txt : String := match m with
            | "panicr" => "RUNTIMEERR"
            | "panicp" => "<nil>"
            | "panicn" => "PANICNIL"
            | _ => "sinkpanic" ++ toString i
          let s := { s with failMsg := if m.startsWith "failk:" then (i, kindMsg (m.drop 6).toString) :: s.failMsg.filter (·.1 != i)
                                       else s.failMsg.filter (·.1 != i) }
          let s := { s with panicMsg := (i, txt) :: s.panicMsg.filter (·.1 != i),
                            panicSent := if m == "panics" then i :: s.panicSent else s.panicSent.filter (· != i),
                            panicErr := if m == "panice" || m == "panicr" || m == "panicn" then i :: s.panicErr
                                        else s.panicErr.filter (· != i) }
          (setS s i { sk with mode := md }, "ok")
        | none => (s, "bad-op")
      | none => (s, "bad-op")
    | none => (s, "bad-op")
  | ["hold", sink] =>
    match sink.toNat? with
    | some i =>
      match getS s i with
      | some sk =>
        match sk.buf, sk.held with
        | some b, false =>
          -- the harness occupies the delivery goroutine with a primer (modelled as the empty item)
          (setS s i { sk with held := true, buf := some (b.send []).1.take }, "ok")
        | _, _ => (s, "bad-op")
      | none => (s, "bad-op")
    | none => (s, "bad-op")
  | ["release", sink] =>
    match sink.toNat? with
    | some i =>
      match getS s i with
      | some sk =>
        match sk.buf, sk.held with
        | some b, true =>
          let (b', ws) := b.drain
          (setS s i { sk with buf := some b', held := false },
            " ".intercalate (showWrites ((ws.filter (· != [])).map fun w => (i, w)) ++ ["released"]))
        | _, _ => (s, "bad-op")
      | none => (s, "bad-op")
    | none => (s, "bad-op")
  | "log" :: h :: lvl :: ts :: _ :: _ :: _ :: msg :: ws =>
    match getH s h, lvl.toInt?, hexBytes? ts, hexBytes? msg, parseAttrs ws [] with
    | some h, some lvl, some ts, some msg, some as => doLog s h { level := lvl, ts := ts, msg := msg, attrs := as }
    | _, _, _, _, _ => (s, "bad-op")
  | ["rec", pk, hk] => (s, recOp pk hk)
  | "logerr" :: rest => logX s ("e" :: rest)
  | "logx" :: _ :: _ :: _ :: ek :: rest => logX s (ek :: rest)
  | _ => (s, "bad-op")

end C13Drv

def main : IO Unit := Proto.run C13Drv.step {}
