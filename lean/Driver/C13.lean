import Driver.Proto
import Model.LogHandlers
import Model.TraceProto
/-! Model driver of C13: a stateful line protocol over `TL` (tracelog) and `ML` (multilog). -/
open Proto

namespace C13Drv

inductive H where
  | tl (h : TL.Handler)
  | ml (m : ML.Handler)

structure St where
  store : TL.Store := {}
  handlers : List (String × H) := []
  sinks : List (Nat × TL.SinkSt) := []
  eh : Errs.Heap := #[]                  -- the `*errs.Error` cells that exist in the harness
  sentinels : List (Nat × Nat) := []     -- sink ↦ heap cell of its long-lived sentinel error
  aggs : List (Nat × Nat) := []          -- sink ↦ heap cell of its long-lived two-element aggregate
  panicMsg : List (Nat × String) := []   -- sink ↦ text of the value its `Write` panics with (a harness token)
  panicSent : List Nat := []             -- sinks whose `Write` panics with the sentinel itself
  vars : List Nat := []                  -- sinks whose handler family shares a `*slog.LevelVar`
  failMsg : List (Nat × String) := []    -- sink ↦ `Error()` text of the foreign error value its `Write` returns (token)

def getH (s : St) (n : String) : Option H := s.handlers.lookup n
def setH (s : St) (n : String) (h : H) : St := { s with handlers := (n, h) :: s.handlers.filter (·.1 != n) }
def getS (s : St) (i : Nat) : Option TL.SinkSt := s.sinks.lookup i
def setS (s : St) (i : Nat) (k : TL.SinkSt) : St := { s with sinks := (i, k) :: s.sinks.filter (·.1 != i) }

/-- attribute words (prefix notation):
    `e` | `l <key> <tok> <kind> <payload>` | `g <key> <n> attr*n` | `v attr` | `k <key> <trace> attr` -/
partial def parseAttr : List String → Option (TL.Attr × List String)
  | "e" :: rest => some (.empty, rest)
  | "l" :: k :: tok :: _ :: _ :: rest =>
    match hexBytes? k, hexBytes? tok with
    | some k, some t => some (.leaf k t, rest)
    | _, _ => none
  | "g" :: k :: n :: rest =>
    match hexBytes? k, n.toNat? with
    | some k, some n =>
      let rec kids (n : Nat) (ws : List String) (acc : List TL.Attr) : Option (List TL.Attr × List String) :=
        match n with
        | 0 => some (acc.reverse, ws)
        | n + 1 => match parseAttr ws with
          | some (a, ws') => kids n ws' (a :: acc)
          | none => none
      match kids n rest [] with
      | some (ks, rest') => some (.group k ks, rest')
      | none => none
    | _, _ => none
  | "v" :: rest =>
    -- a LogValuer wrapper is transparent after Resolve, but it hides a stack carrier from the `StackError()` test
    match parseAttr rest with
    | some (.stack _ _ fb, rest') => some (fb, rest')
    | some (a, rest') => some (a, rest')
    | none => none
  | "k" :: k :: tr :: rest =>
    match hexBytes? k, hexBytes? tr, parseAttr rest with
    | some k, some tr, some (fb, rest') => some (.stack k tr fb, rest')
    | _, _, _ => none
  | _ => none

partial def parseAttrs (ws : List String) (acc : List TL.Attr) : Option (List TL.Attr) :=
  match ws with
  | [] => some acc.reverse
  | _ => match parseAttr ws with
    | some (a, rest) => parseAttrs rest (a :: acc)
    | none => none

/-- the level field of `new`/`norm`: a number, `nil`, `tnil` or `var:<n>`; the flag marks a shared `LevelVar` -/
def parseLevel (w : String) : Option (Option Int × Bool) :=
  if w == "nil" || w == "tnil" then some (none, false)
  else if w.startsWith "var:" then (w.drop 4).toString.toInt?.map fun l => (some l, true)
  else w.toInt?.map fun l => (some l, false)

def parseNames (ws : List String) : Option (List (Int × TL.Bytes)) :=
  ws.mapM fun w => match w.splitOn ":" with
    | [l, n] => match l.toInt?, hexBytes? n with
      | some l, some n => some (l, n)
      | _, _ => none
    | _ => none

def showWrites (ws : List (Nat × TL.Bytes)) : List String :=
  let ids := (ws.map (·.1)).eraseDups
  let ids := ids.toArray.qsort (· < ·) |>.toList
  ids.map fun i =>
    let mine := (ws.filter (·.1 == i)).map (·.2)
    "S" ++ toString i ++ "=" ++ toString mine.length ++ String.join (mine.map fun b => ":" ++ bytesHex b)

/-- nil values of nillable kinds: the library takes them for "no error" (design Appendix B) -/
def nilKinds : List String := ["nilptr", "nilslice", "nilmap", "nilfunc", "nilchan"]

/-- `Error()` text of the error kinds of `go/cmd/c13/errkinds.go` (tokens) -/
def kindMsg (k : String) : String :=
  match k with
  | "deadline" => "context deadline exceeded" | "canceled" => "context canceled" | "eof" => "EOF"
  | "notexist" => "file does not exist" | "patherr" => "open /x: file does not exist"
  | "zstruct" | "nzstruct" => "K:struct" | "zint" | "nzint" => "K:int" | "zstring" | "nzstring" => "K:string"
  | "zarray" | "nzarray" => "K:array" | "ptr" | "zptr" | "nilptr" => "K:ptr" | "slice" | "eslice" | "nilslice" => "K:slice"
  | "map" | "emap" | "nilmap" => "K:map" | "func" | "nilfunc" => "K:func" | "chan" | "nilchan" => "K:chan"
  | _ => "?"

def errMsg (k : TL.ErrKind) (sink : Nat) : String :=
  match k with
  | .sentinel => "sinksentinel" ++ toString sink
  | .aggregate => "sinkagg" ++ toString sink
  | _ => "sinkfail" ++ toString sink

def showItem : ML.ErrItem → String
  | .plain m => "E:" ++ m
  | .recovered m => "P:" ++ m

/-- one element of `WrappedErrors()` as the harness prints it -/
def showNode (eh : Errs.Heap) (n : Errs.ENode) : String :=
  -- a recovered panic is an error ABOUT a cause (its message differs from the cause's); see the harness
  let causeMsg := match n.cause with | .ref c => Errs.message eh c | v => Errs.errorText v
  if n.cause != .nilIface && n.msg != causeMsg then "P:" ++ causeMsg else "E:" ++ n.msg

/-- an `error` value as the harness prints it: nil, a foreign error, or `Count()[WrappedErrors()...]` -/
def showVal (eh : Errs.Heap) : Errs.Val → String
  | .ref id => "ret=" ++ toString (Errs.count eh id) ++ "[" ++
      ",".intercalate ((Errs.wrappedErrors eh id).map (showNode eh)) ++ "]"
  | .plain _ m => "ret=E:" ++ m
  | .typedNil => "ret=typed-nil"
  | .foreignNil => "ret=E:foreign-nil"
  | _ => "ret=nil"

def strHex (m : String) : String := bytesHex (m.toUTF8.toList.map (·.toNat))

/-- `Count()` and `Message()` of every sink's sentinel, in sink order -/
def showSentinels (s : St) : String :=
  let ss := s.sentinels.toArray.qsort (fun a b => a.1 < b.1) |>.toList
  if ss.isEmpty then "sent=-" else
  "sent=" ++ ",".intercalate (ss.map fun (k, id) =>
    let a := (s.aggs.lookup k).getD 0
    toString k ++ ":" ++ toString (Errs.count s.eh id) ++ ":" ++ strHex (Errs.message s.eh id) ++ ":" ++
      toString (Errs.count s.eh a) ++ ":" ++ strHex (Errs.message s.eh a))

/-- the `error` value a tracelog child's `Handle` comes back with inside `runHandler` (a panic is recovered into
    `NewWithCause("recovered from panic", Newf("%+v", recovered))`); fresh values are allocated on the heap -/
def retVal (s : St) (ret : TL.Ret) : St × Errs.Val :=
  match ret with
  | .nil => (s, .nilIface)
  | .err k .plain => (s, .plain 0 ((s.failMsg.lookup k).getD (errMsg .plain k)))
  | .err k .fresh => let (eh, v) := Errs.new s.eh (errMsg .fresh k); ({ s with eh := eh }, v)
  | .err k .sentinel =>
    match s.sentinels.lookup k with
    | some id => (s, .ref id)
    | none => (s, .nilIface)
  | .err k .aggregate =>
    match s.aggs.lookup k with
    | some id => (s, .ref id)
    | none => (s, .nilIface)
  | .err _ .typedNil => (s, .typedNil)
  | .err _ .foreignNil => (s, .foreignNil)
  | .panic k =>
    if s.panicSent.contains k then
      let (eh, v) := Errs.newWithCause s.eh "recovered from panic" (.ref ((s.sentinels.lookup k).getD 0))
      ({ s with eh := eh }, v)
    else
      let (eh, c) := Errs.new s.eh ((s.panicMsg.lookup k).getD ("sinkpanic" ++ toString k))
      let (eh, v) := Errs.newWithCause eh "recovered from panic" c
      ({ s with eh := eh }, v)

/-- the abstract child multilog sees: level threshold of the tracelog handler, outcome decided by its sink -/
def childOf (s : St) (i : Nat) (c : TL.Handler) : ML.Child :=
  let sk := (getS s c.sink).getD {}
  let oc : ML.Outcome := match (TL.deliver sk c.sink []).2.2 with
    | .nil => .ok
    | .err _ .typedNil => .ok          -- `errs.Append` takes a typed nil for "no error"
    | .err _ .foreignNil => .ok
    | .err k .plain => .err ((s.failMsg.lookup k).getD (errMsg .plain k))
    | .err k kind => .err (errMsg kind k)
    | .panic k =>
      if s.panicSent.contains k then .panic ("sinksentinel" ++ toString k)
      else .panic ((s.panicMsg.lookup k).getD ("sinkpanic" ++ toString k))
  { id := i, minLevel := c.level, outcome := oc }

def children (s : St) (m : ML.Handler) : List ML.Child :=
  (m.children.zipIdx).map fun (c, i) => childOf s i c

/-- hand a record to one tracelog handler -/
def tlHandle (s : St) (h : TL.Handler) (r : TL.Record) : St × List (Nat × TL.Bytes) × TL.Ret :=
  let sk := (getS s h.sink).getD {}
  let (sk', ws, ret) := TL.deliver sk h.sink (TL.render s.store h r)
  (setS s h.sink sk', ws.map (fun w => (h.sink, w)), ret)

/-- how many of these deliveries come back with a non-nil `error` interface (synchronous sinks in a failing mode; a
    panic returns nothing) — the harness counts the same with `err != nil` -/
def nonNil (s : St) (cs : List TL.Handler) : String :=
  "nn=" ++ toString (cs.filter fun c =>
    match getS s c.sink with
    | some sk => sk.buf.isNone && (match sk.mode with | .fail _ => true | _ => false)
    | none => false).length

def doLog (s : St) (h : H) (r : TL.Record) : St × String :=
  match h with
  | .tl t =>
    let (s', ws, ret) := tlHandle s t r
    let (s', out) := match ret with
      | .panic k =>
        (s', "ret=panic:" ++ (if s.panicSent.contains k then "sinksentinel" ++ toString k
                              else (s.panicMsg.lookup k).getD ("sinkpanic" ++ toString k)))
      | .err k .foreignNil => (s', "ret=E:" ++ (s.failMsg.lookup k).getD "foreign-nil")
      | ret => let (s2, v) := retVal s' ret; (s2, showVal s2.eh v)
    (s', " ".intercalate (showWrites ws ++ [out, nonNil s [t], showSentinels s']))
  | .ml m =>
    let res := ML.handle (children s m) r.level
    -- deliveries in order; each child's return value goes into the accumulation on the errs heap
    let (s', ws, rets) := res.deliveries.foldl (fun (acc : St × List (Nat × TL.Bytes) × List Errs.Val) i =>
      match m.children[i]? with
      | some c =>
        let (s2, w, ret) := tlHandle acc.1 c r
        let (s3, v) := retVal s2 ret
        (s3, acc.2.1 ++ w, acc.2.2 ++ [v])
      | none => acc) (s, [], [])
    let eh' := (ML.accumulate s'.eh rets).1
    let v := ML.returned s'.eh rets
    let s' := { s' with eh := eh' }
    let ret := showVal eh' v
    -- the list model (`ML.handle`, theorems fanout_*) and the heap model must tell the same story
    let abstract := if res.isNil then "ret=nil"
      else "ret=" ++ toString res.errors.length ++ "[" ++ ",".intercalate (res.errors.map showItem) ++ "]"
    -- (a child handing back a two-element aggregate is one `err` in the list model: no comparison then)
    let hasAgg := (children s m).any fun c => match c.outcome with
      | .err msg => msg.startsWith "sinkagg" | _ => false
    let ret := if ret == abstract || hasAgg then ret else ret ++ " list-model-differs:" ++ abstract
    (s', " ".intercalate (showWrites ws ++ [ret, nonNil s (res.deliveries.filterMap (m.children[·]?)), showSentinels s']))

def isEnabled (s : St) (h : H) (level : Int) : Bool :=
  match h with
  | .tl t => TL.enabled t level
  | .ml m => ML.enabled (children s m) level

def nowTok : TL.Bytes := TL.ascii " | NOW | "
def stackTok : TL.Bytes := TL.ascii "<<STACK>>"
def fbTok : TL.Bytes := TL.ascii "<<FB>>"

/-- the ten `errs.Log*` entry points all do: `logger.Enabled`? then `Handle` of a record whose message is the
    error's and whose first attribute carries the stack (nothing of the kind for a nil error); the result of
    `Handle` is dropped.  `ek`: e = *errs.Error, p = plain error (wrapped inside errs), n = nil, t = typed nil. -/
def logX (s : St) : List String → St × String
  | ek :: h :: lvl :: msg :: ws =>
    match getH s h, lvl.toInt?, hexBytes? msg, parseAttrs ws [] with
    | some h, some lvl, some msg, some as =>
      if isEnabled s h lvl then
        let noErr := ek == "n" || ek == "t" || (ek.startsWith "k:" && nilKinds.contains (ek.drop 2).toString)
        let r : TL.Record := if noErr then { level := lvl, ts := nowTok, msg := [], attrs := as }
          else { level := lvl, ts := nowTok, msg := msg,
                 attrs := .stack TL.stackKey stackTok (.leaf TL.stackKey fbTok) :: as }
        let (s', out) := doLog s h r
        -- errs.Log* discards Handle's result; a panic of a tracelog sink still reaches the caller
        match out.splitOn " nn=" with
        | [a, b] =>
          match a.splitOn "ret=" with
          | [w, r] => (s', w ++ (if r.startsWith "panic:" then "ret=" ++ r else "ret=void") ++ " nn=" ++ b)
          | _ => (s', out)
        | _ => (s', out)
      else (s, "ret=void nn=0 " ++ showSentinels s)
    | _, _, _, _ => (s, "bad-op")
  | _ => (s, "bad-op")


/-! ### the forced-schedule judge: `judge sched <depth> <nprod> <tok>* => rets=<r,...> writes=<hex|...>`

The harness ran the scripted schedule against the real handler (see `go/cmd/c13/sched.go`) and reports what every
`Handle` call returned and what the sink finally contained.  The protocol model (`TraceProto`, instantiated with the
sequential formatter `TL.format`) computes the SET of final sink contents the script allows; the verdict is `ok` iff
every call returned nil, every `Write` is exactly one formatted record, and the sequence is in that set. -/
namespace Sched

def padLen (p i : Nat) : Nat := (p * 31 + i * 7) % 97

def natTok (n : Nat) : TL.Bytes := TL.ascii (toString n)

def stamp : TL.Bytes := TL.ascii " | 2023-11-14 | 22:13:20.000 | "

/-- producer `p` logs through the root (p % 3 = 0), `root.WithAttrs(pre=p)` (1) or `root.WithGroup("r")` (2) -/
def entriesOf (p : Nat) : List TL.Entry :=
  match p % 3 with
  | 0 => []
  | 1 => [.attrs [.leaf (TL.ascii "pre") (natTok p)]]
  | _ => [.grp (TL.ascii "r")]

def recordOf (p i : Nat) : TL.Record :=
  { level := 0, ts := stamp, msg := TL.ascii ("p" ++ toString p ++ "-" ++ toString i),
    attrs := [.leaf (TL.ascii "g") (natTok p), .leaf (TL.ascii "seq") (natTok i),
              .leaf (TL.ascii "pad") ([34] ++ List.replicate (padLen p i) 120 ++ [34])] }

def lineOf (p i : Nat) : TL.Bytes := TL.format [] (entriesOf p) (recordOf p i)

def primerPid : Nat := 999

def parseTok (w : String) : Option TraceProto.Tok :=
  if w == "s" || w == "F" then some .sync
  else if w.startsWith "h" then (w.drop 1).toString.toNat?.map .handle
  else if w.startsWith "w" then (w.drop 1).toString.toNat?.map .permits
  else if w.startsWith "c" then
    match (w.drop 1).toString.splitOn "." with
    | [a, b] => match a.toNat?, b.toNat? with
      | some a, some b => some (.par a b)
      | _, _ => none
    | _ => none
  else none

/-- how many `Handle` calls the script makes for producer `p` -/
def callsOf (script : List TraceProto.Tok) (p : Nat) : Nat :=
  script.foldl (fun n t => match t with
    | .handle q => if q == p then n + 1 else n
    | .par a b => n + (if a == p then 1 else 0) + (if b == p then 1 else 0)
    | _ => n) 0

def showSeq (l : List (Nat × Nat)) : String :=
  if l.isEmpty then "-" else ",".intercalate (l.map fun (p, i) => toString p ++ "." ++ toString i)

def judge (ws : List String) (impl : String) : String :=
  match ws with
  | depth :: nprod :: toks =>
    match depth.toNat?, nprod.toNat?, toks.mapM parseTok with
    | some depth, some nprod, some script =>
      -- (the outcome is a sequence of producer/index pairs: the exploration runs with empty lines, the bytes are
      -- compared below against `lineOf`)
      let cfg : TraceProto.Config := { cap := depth, line := fun _ _ => some [] }
      let x0 : TraceProto.XState :=
        { s := { TraceProto.init nprod with cons := .writing ⟨primerPid, 0, []⟩ }, permits := 0 }
      let allowed := TraceProto.dedup ((TraceProto.outcomes cfg x0 script).map fun o => o.filter (·.1 != primerPid))
      -- the implementation's side
      let parts := impl.splitOn " writes="
      match parts with
      | [rets, writes] =>
        let rets := ((rets.drop 5).toString.splitOn ",").filter (· != "")
        let total := (List.range nprod).foldl (fun n p => n + callsOf script p) 0
        if rets.length != total || rets.any (· != "nil") then "NOT-ALLOWED a Handle call did not return nil: " ++ (impl.take 200).toString
        else
          let hexes := if writes == "-" then [] else writes.splitOn "|"
          -- each Write must be exactly the formatted line of one record (no tear, no merge)
          let table : List ((Nat × Nat) × String) := (List.range nprod).flatMap fun p =>
            (List.range (callsOf script p)).map fun i => ((p, i), bytesHex (lineOf p i))
          let ids := hexes.map fun h => (table.find? (·.2 == h)).map (·.1)
          if ids.any (·.isNone) then "NOT-ALLOWED a Write is not exactly one formatted record"
          else
            let seq := ids.filterMap id
            if allowed.contains seq then "ok allowed=" ++ toString allowed.length
            else "NOT-ALLOWED sink=" ++ showSeq seq ++ " allowed=" ++ " / ".intercalate ((allowed.take 12).map showSeq)
      | _ => "NOT-ALLOWED unreadable outcome: " ++ (impl.take 200).toString
    | _, _, _ => "bad-op"
  | _ => "bad-op"

end Sched

def step (s : St) (line : String) : St × String :=
  match words line with
  | "judge" :: "sched" :: rest =>
    match (" ".intercalate rest).splitOn " => " with
    | [script, impl] => (s, Sched.judge (words script) impl)
    | _ => (s, "bad-op")
  | "reset" :: _ => ({}, "reset")
  | "new" :: h :: sink :: lvl :: depth :: names =>
    match sink.toNat?, parseLevel lvl, depth.toInt?, parseNames names with
    | some sink, some (lvl, isVar), some depth, some names =>
      let (lvl, depth) := TL.normalize lvl depth
      -- a fresh handler has a nil list: a slice of length 0
      let t : TL.Handler := { level := lvl, names := names, sink := sink, list := { arr := 0, len := 0 } }
      let sk : TL.SinkSt := { buf := if depth > 0 then some { cap := depth } else none }
      let sid := s.eh.size
      let (eh, _) := Errs.new s.eh ("sinksentinel" ++ toString sink)
      let (eh, a) := Errs.new eh ("sinkagg" ++ toString sink ++ "a")
      let (eh, b) := Errs.new eh ("sinkagg" ++ toString sink ++ "b")
      let eh := (Errs.append eh a [b]).1
      let s := { s with eh := eh, sentinels := (sink, sid) :: s.sentinels.filter (·.1 != sink),
                        aggs := (sink, sid + 1) :: s.aggs.filter (·.1 != sink),
                        vars := if isVar then sink :: s.vars else s.vars.filter (· != sink) }
      (setS (setH s h (.tl t)) sink sk, "ok")
    | _, _, _, _ => (s, "bad-op")
  | ["setlevel", sink, lvl] =>
    match sink.toNat?, lvl.toInt? with
    | some k, some lvl =>
      if s.vars.contains k then
        -- the `Leveler` is shared by the root and everything derived from it, also inside multilog handlers
        let upd (t : TL.Handler) : TL.Handler := if t.sink == k then { t with level := lvl } else t
        ({ s with handlers := s.handlers.map fun (n, h) => match h with
            | .tl t => (n, .tl (upd t))
            | .ml m => (n, .ml { children := m.children.map upd }) }, "ok")
      else (s, "bad-op")
    | _, _ => (s, "bad-op")
  | ["norm", lvl, depth, given] =>
    match parseLevel lvl, depth.toInt? with
    | some (lvl, _), some depth =>
      let (l, d) := TL.normalize lvl depth
      (s, "level=" ++ toString l ++ " depth=" ++ toString d ++ " sink=" ++ (if given == "1" then "given" else "stderr"))
    | _, _ => (s, "bad-op")
  | "mnew" :: m :: kids =>
    match kids.mapM (fun k => match getH s k with | some (.tl t) => some t | _ => none) with
    | some cs => (setH s m (.ml { children := cs }), "ok")
    | none => (s, "bad-op")
  | ["wg", n, p, name] =>
    match getH s p, hexBytes? name with
    | some (.tl t), some name =>
      let (σ, t', same) := TL.withGroup s.store t name
      (setH { s with store := σ } n (.tl t'), (fun (_ : Bool) => "ok") same)
    | some (.ml m), some name =>
      let (σ, m', same) := ML.withGroup s.store m name
      (setH { s with store := σ } n (.ml m'), (fun (_ : Bool) => "ok") same)
    | _, _ => (s, "bad-op")
  | "wa" :: n :: p :: ws =>
    match getH s p, parseAttrs ws [] with
    | some (.tl t), some as =>
      let (σ, t', same) := TL.withAttrs s.store t as
      (setH { s with store := σ } n (.tl t'), (fun (_ : Bool) => "ok") same)
    | some (.ml m), some as =>
      let (σ, m', same) := ML.withAttrs s.store m as
      (setH { s with store := σ } n (.ml m'), (fun (_ : Bool) => "ok") same)
    | _, _ => (s, "bad-op")
  | ["en", h, lvl] =>
    match getH s h, lvl.toInt? with
    | some h, some lvl => (s, toString (isEnabled s h lvl))
    | _, _ => (s, "bad-op")
  | ["mode", sink, m] =>
    match sink.toNat? with
    | some i =>
      match getS s i with
      | some sk =>
        let mode? : Option TL.Mode := match m with
          | "ok" => some .ok | "fail" => some (.fail .plain) | "faile" => some (.fail .fresh)
          | "fails" => some (.fail .sentinel) | "failm" => some (.fail .aggregate)
          | "failn" => some (.fail .typedNil) | "failf" => some (.fail .foreignNil)
          | "panic" | "panice" | "panicr" | "panicp" | "panicn" | "panics" => some .panic
          | m => if m.startsWith "failk:" then
                   (if nilKinds.contains (m.drop 6).toString then some (.fail .foreignNil) else some (.fail .plain))
                 else none
        match mode? with
        | some md =>
          if sk.buf.isSome && md == .panic then (s, "bad-op") else
          -- the text of the panic value is a token of the harness / the Go runtime
          let txt : String := match m with
            | "panicr" => "RUNTIMEERR"
            | "panicp" => "<nil>"
            | "panicn" => "PANICNIL"
            | _ => "sinkpanic" ++ toString i
          let s := { s with failMsg := if m.startsWith "failk:" then (i, kindMsg (m.drop 6).toString) :: s.failMsg.filter (·.1 != i)
                                       else s.failMsg.filter (·.1 != i) }
          let s := { s with panicMsg := (i, txt) :: s.panicMsg.filter (·.1 != i),
                            panicSent := if m == "panics" then i :: s.panicSent else s.panicSent.filter (· != i) }
          (setS s i { sk with mode := md }, "ok")
        | none => (s, "bad-op")
      | none => (s, "bad-op")
    | none => (s, "bad-op")
  | ["hold", sink] =>
    match sink.toNat? with
    | some i =>
      match getS s i with
      | some sk =>
        match sk.buf, sk.held with
        | some b, false =>
          -- the harness occupies the delivery goroutine with a primer (modelled as the empty item)
          (setS s i { sk with held := true, buf := some (b.send []).1.take }, "ok")
        | _, _ => (s, "bad-op")
      | none => (s, "bad-op")
    | none => (s, "bad-op")
  | ["release", sink] =>
    match sink.toNat? with
    | some i =>
      match getS s i with
      | some sk =>
        match sk.buf, sk.held with
        | some b, true =>
          let (b', ws) := b.drain
          (setS s i { sk with buf := some b', held := false },
            " ".intercalate (showWrites ((ws.filter (· != [])).map fun w => (i, w)) ++ ["released"]))
        | _, _ => (s, "bad-op")
      | none => (s, "bad-op")
    | none => (s, "bad-op")
  | "log" :: h :: lvl :: ts :: _ :: _ :: _ :: msg :: ws =>
    match getH s h, lvl.toInt?, hexBytes? ts, hexBytes? msg, parseAttrs ws [] with
    | some h, some lvl, some ts, some msg, some as => doLog s h { level := lvl, ts := ts, msg := msg, attrs := as }
    | _, _, _, _, _ => (s, "bad-op")
  | "logerr" :: rest => logX s ("e" :: rest)
  | "logx" :: _ :: _ :: _ :: ek :: rest => logX s (ek :: rest)
  | _ => (s, "bad-op")

end C13Drv

def main : IO Unit := Proto.run C13Drv.step {}
