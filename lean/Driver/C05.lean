import Driver.Proto
import Model.EvenOdd
open Proto EO

/-! drv_c05: validates ONE clipper call per line.  Input: the op line of the harness followed by ` => ` and the
    harness output (`R <poly>`).  Output: `valid <judgements>` or `invalid <reason / witness>`. -/

abbrev DPt := Dy × Dy
abbrev DPoly := List (List DPt)

def parseNum (s : String) : Option Dy :=
  match s.toList with
  | 'h' :: hx =>
    match hexToNat? (String.ofList hx) with
    | some v =>
      if hx.length == 8 then decodeBits 8 23 v
      else if hx.length == 16 then decodeBits 11 52 v
      else none
    | none => none
  | _ =>
    match s.splitOn "/" with
    | [n] => match n.toInt? with
      | some v => some ⟨v, 0⟩
      | none => none
    | [n, d] => match n.toInt?, d.toNat? with
      | some a, some b => ratDy a b
      | _, _ => none
    | _ => none

def parsePts : Nat → List String → Option (List DPt × List String)
  | 0, ts => some ([], ts)
  | n + 1, x :: y :: ts =>
    match parseNum x, parseNum y, parsePts n ts with
    | some a, some b, some (r, rest) => some ((a, b) :: r, rest)
    | _, _, _ => none
  | _ + 1, _ => none

def parseContours : Nat → List String → Option (DPoly × List String)
  | 0, ts => some ([], ts)
  | n + 1, k :: ts =>
    match k.toNat? with
    | some kv =>
      match parsePts kv ts with
      | some (c, rest) =>
        match parseContours n rest with
        | some (r, rest') => some (c :: r, rest')
        | none => none
      | none => none
    | none => none
  | _ + 1, [] => none

def parsePoly : List String → Option (DPoly × List String)
  | "nil" :: ts => some ([], ts)
  | k :: ts => match k.toNat? with
    | some kv => parseContours kv ts
    | none => none
  | [] => none

def parseOp : String → Option Op
  | "u" => some .union
  | "i" => some .inter
  | "s" => some .sub
  | "x" => some .xor
  | _ => none

def polyInts (P : DPoly) : Option Polygon :=
  P.mapM fun c => c.mapM fun (x, y) =>
    match x.toInt?, y.toInt? with
    | some a, some b => some (⟨a, b⟩ : Pt)
    | _, _ => none

/-- lattice calls at other magnitudes: the real coordinate is `(lattice + offset) · 2^k` -/
def polyIntsT (k ox oy : Int) (P : DPoly) : Option Polygon :=
  P.mapM fun c => c.mapM fun (x, y) =>
    match (Dy.mk x.m (x.e - k)).toInt?, (Dy.mk y.m (y.e - k)).toInt? with
    | some a, some b => some (⟨a - ox, b - oy⟩ : Pt)
    | _, _ => none

def minExp (P : DPoly) (acc : Int) : Int :=
  P.foldl (fun a c => c.foldl (fun a' (x, y) => min a' (min x.e y.e)) a) acc

def scalePoly (emin : Int) (P : DPoly) : Polygon :=
  P.map fun c => c.map fun (x, y) => (⟨x.scaled emin, y.scaled emin⟩ : Pt)

def splitArrow (ws : List String) : List String × List String :=
  (ws.takeWhile (· != "=>"), (ws.dropWhile (· != "=>")).drop 1)

/-- A and B part of the line -/
def parseAB (ts : List String) : Option (DPoly × DPoly) :=
  match ts with
  | "A" :: ts1 =>
    match parsePoly ts1 with
    | some (a, "B" :: ts2) =>
      match parsePoly ts2 with
      | some (b, []) => some (a, b)
      | _ => none
    | _ => none
  | _ => none

def showPt (p : Pt) (emin : Int) : String := s!"{p.x}*2^{emin} {p.y}*2^{emin}"

def b01 (b : Bool) : String := if b then "1" else "0"

def judgeLatticeI (op : Op) (N : Nat) (A B : Polygon) (r : Option Polygon) : String :=
    match r with
    | none => "invalid result-vertex-off-lattice"
    | some R =>
      if validateLattice N A B R op then (if N == 0 then "unjudged no-cell" else s!"valid {N * N}")
      else if !(latticeOK N A && latticeOK N B) then "bad-op"
      else if !(latticeOK N R) then "invalid result-not-lattice-rectilinear"
      else match firstBadCell N A B R op with
        | some (i, j) =>
          let c := centre2 i j
          s!"invalid cell {i} {j} R={b01 (inside (dblPoly R) c)} A={b01 (inside (dblPoly A) c)} B={b01 (inside (dblPoly B) c)}"
        | none => "invalid nonempty-result-for-empty-region"

def judgeLattice (op : Op) (N : Nat) (k ox oy : Int) (a b r : DPoly) : String :=
  match polyIntsT k ox oy a, polyIntsT k ox oy b with
  | some A, some B => judgeLatticeI op N A B (polyIntsT k ox oy r)
  | _, _ => "bad-op"

/-- successive `R <poly>` records of a chain; leftover tokens are a failure token of the harness -/
def parseResults : Nat → List String → List DPoly × List String
  | 0, ts => ([], ts)
  | n + 1, "R" :: ts =>
    match parsePoly ts with
    | some (r, rest) => let (rs, rest') := parseResults n rest; (r :: rs, rest')
    | none => ([], "R" :: ts)
  | _ + 1, ts => ([], ts)

def parsePolys : Nat → List String → Option (List DPoly × List String)
  | 0, ts => some ([], ts)
  | n + 1, "P" :: ts =>
    match parsePoly ts with
    | some (p, rest) => match parsePolys n rest with
      | some (ps, rest') => some (p :: ps, rest')
      | none => none
    | none => none
  | _ + 1, _ => none

/-- pool index, with an optional `c` suffix (the harness passes `Clone()` of the entry: same values) -/
def poolIdx (s : String) : Option Nat :=
  (String.ofList (s.toList.filter (· != 'c'))).toNat?

def parseSteps : List String → Option (List (Op × Nat × Nat))
  | [] => some []
  | "S" :: o :: i :: j :: ts =>
    match parseOp o, poolIdx i, poolIdx j, parseSteps ts with
    | some op, some a, some b, some r => some ((op, a, b) :: r)
    | _, _, _, _ => none
  | _ => none

/-- a chain: every step is one clipper call whose operands are initial polygons or results of earlier steps
    (the exact values the real code returned); each step is validated by `validateLattice` -/
def judgeChain (N : Nat) (pool : Array Polygon) (steps : List (Op × Nat × Nat)) (rs : List DPoly) (k cells : Nat) :
    String :=
  match steps, rs with
  | [], _ => if cells == 0 then "unjudged no-cell" else s!"valid {cells}"
  | (op, i, j) :: steps', r :: rs' =>
    match pool[i]?, pool[j]? with
    | some A, some B =>
      let v := judgeLatticeI op N A B (polyInts r)
      if v.startsWith "valid" then
        match polyInts r with
        | some R => judgeChain N (pool.push R) steps' rs' (k + 1) (cells + N * N)
        | none => "bad-op"
      else s!"invalid step {k}: {v}"
    | _, _ => "bad-op"
  | _ :: _, [] => s!"invalid step {k}: no result"

/-- `pts`: the sample points of the op line followed by the points the harness derived from the RESULT (edge midpoints
    pushed to both sides, vertex averages), so that area the result has on its own is judged as well -/
def judgePoints (op : Op) (m : Dy) (pts : List DPt) (a b r : DPoly) : String :=
  if m.m ≤ 0 then "bad-op margin-not-positive" else
  let emin := minExp [pts] (minExp r (minExp b (minExp a (min 0 m.e))))
  let A := scalePoly emin a
  let B := scalePoly emin b
  let R := scalePoly emin r
  let ps := pts.map fun (x, y) => (⟨x.scaled emin, y.scaled emin⟩ : Pt)
  let mm := m.scaled emin
  if validateGeneral mm A B R op ps then
    let j := judged mm A B R ps
    if j == 0 then "unjudged no-sample-point-keeps-the-margin"
    else if emptyCert op A B then s!"valid {j} empty-certified"
    else if emptyJudged op A B then s!"valid {j} empty-judged"
    else s!"valid {j}"
  else if !(validateEmpty A B R op) then "invalid nonempty-result-for-certified-empty-region"
  else if !(validateEmptyJudged A B R op) then
    "invalid nonempty-result-for-" ++ (if op == .inter then "disjoint-operands(noContact)" else "covered-receiver(containedIn)")
  else match firstBadPoint mm A B R op ps with
    | some p => s!"invalid point {showPt p emin} R={b01 (inside R p)} A={b01 (inside A p)} B={b01 (inside B p)}"
    | none => "invalid"

/-- the result record of a points call: `<poly>` optionally followed by `X <k> (<x> <y>)*k` -/
def parseResultX (rts : List String) : Option (DPoly × List DPt) :=
  match parsePoly rts with
  | some (r, []) => some (r, [])
  | some (r, "X" :: k :: rest) =>
    match k.toNat? with
    | some kv => match parsePts kv rest with
      | some (xs, []) => some (r, xs)
      | _ => none
    | none => none
  | _ => none

def judgeChainLine (ws res : List String) : String :=
  match ws with
  | "chain" :: _ft :: "L" :: n :: m :: rest =>
    match n.toNat?, m.toNat? with
    | some N, some mv =>
      match parsePolys mv rest with
      | some (ps, srest) =>
        match parseSteps srest, ps.mapM polyInts with
        | some steps, some pool =>
          let (rs, leftover) := parseResults steps.length res
          if leftover.isEmpty || rs.length < steps.length then
            let v := judgeChain N pool.toArray steps rs 0 0
            if v.startsWith "valid" && !leftover.isEmpty then "invalid impl:" ++ "_".intercalate leftover
            else if v.endsWith "no result" then v ++ " impl:" ++ "_".intercalate leftover
            else v
          else "invalid impl:" ++ "_".intercalate leftover
        | _, _ => "bad-op"
      | none => "bad-op"
    | _, _ => "bad-op"
  | _ => "bad-op"

def judge (ws res : List String) : String :=
  match ws with
  | "chain" :: _ => if res.isEmpty then "bad-op" else judgeChainLine ws res
  | _ =>
  match res with
  | "R" :: rts =>
    match ws with
    | o :: _ft :: "L" :: n :: rest =>
      match parseOp o, n.toNat?, parseAB rest with
      | some op, some N, some (a, b) =>
        match parsePoly rts with
        | some (r, []) => judgeLattice op N 0 0 0 a b r
        | _ => "invalid result-non-finite-or-unparsable"
      | _, _, _ => "bad-op"
    | o :: _ft :: "LT" :: n :: k :: ox :: oy :: rest =>
      match parseOp o, n.toNat?, k.toInt?, ox.toInt?, oy.toInt?, parseAB rest with
      | some op, some N, some kv, some x, some y, some (a, b) =>
        match parsePoly rts with
        | some (r, []) => judgeLattice op N kv x y a b r
        | _ => "invalid result-non-finite-or-unparsable"
      | _, _, _, _, _, _ => "bad-op"
    | o :: _ft :: "P" :: m :: k :: rest =>
      match parseOp o, parseNum m, k.toNat? with
      | some op, some mv, some kv =>
        match parsePts kv rest with
        | some (pts, rest') =>
          match parseAB rest' with
          | some (a, b) =>
            match parseResultX rts with
            | some (r, xs) => judgePoints op mv (pts ++ xs) a b r
            | none => "invalid result-non-finite-or-unparsable"
          | none => "bad-op"
        | none => "bad-op"
      | _, _, _ => "bad-op"
    | _ => "bad-op"
  | [] => "bad-op"
  | other => "invalid impl:" ++ "_".intercalate other

def step (_ : Unit) (line : String) : Unit × String :=
  let (ws, res) := splitArrow (words line)
  ((), judge ws res)

def main : IO Unit := Proto.run step ()
