import Driver.Proto
import Model.EvenOdd
open Proto EO

/-! drv_c05: validates ONE clipper call per line.  Input: the op line of the harness followed by ` => ` and the
    harness output (`R <poly>`).  Output: `valid <judgements>` or `invalid <reason / witness>`. -/

abbrev DPt := Dy × Dy
abbrev DPoly := List (List DPt)

def parseNum (s : String) : Option Dy :=
  match s.toList with
  | 'h' :: hx =>
    match hexToNat? (String.ofList hx) with
    | some v =>
      if hx.length == 8 then decodeBits 8 23 v
      else if hx.length == 16 then decodeBits 11 52 v
      else none
    | none => none
  | _ =>
    match s.splitOn "/" with
    | [n] => match n.toInt? with
      | some v => some ⟨v, 0⟩
      | none => none
    | [n, d] => match n.toInt?, d.toNat? with
      | some a, some b => ratDy a b
      | _, _ => none
    | _ => none

def parsePts : Nat → List String → Option (List DPt × List String)
  | 0, ts => some ([], ts)
  | n + 1, x :: y :: ts =>
    match parseNum x, parseNum y, parsePts n ts with
    | some a, some b, some (r, rest) => some ((a, b) :: r, rest)
    | _, _, _ => none
  | _ + 1, _ => none

def parseContours : Nat → List String → Option (DPoly × List String)
  | 0, ts => some ([], ts)
  | n + 1, k :: ts =>
    match k.toNat? with
    | some kv =>
      match parsePts kv ts with
      | some (c, rest) =>
        match parseContours n rest with
        | some (r, rest') => some (c :: r, rest')
        | none => none
      | none => none
    | none => none
  | _ + 1, [] => none

def parsePoly : List String → Option (DPoly × List String)
  | "nil" :: ts => some ([], ts)
  | k :: ts => match k.toNat? with
    | some kv => parseContours kv ts
    | none => none
  | [] => none

def parseOp : String → Option Op
  | "u" => some .union
  | "i" => some .inter
  | "s" => some .sub
  | "x" => some .xor
  | _ => none

def polyInts (P : DPoly) : Option Polygon :=
  P.mapM fun c => c.mapM fun (x, y) =>
    match x.toInt?, y.toInt? with
    | some a, some b => some (⟨a, b⟩ : Pt)
    | _, _ => none

/-- lattice calls at other magnitudes: the real coordinate is `(lattice + offset) · 2^k` -/
def polyIntsT (k ox oy : Int) (P : DPoly) : Option Polygon :=
  P.mapM fun c => c.mapM fun (x, y) =>
    match (Dy.mk x.m (x.e - k)).toInt?, (Dy.mk y.m (y.e - k)).toInt? with
    | some a, some b => some (⟨a - ox, b - oy⟩ : Pt)
    | _, _ => none

def minExp (P : DPoly) (acc : Int) : Int :=
  P.foldl (fun a c => c.foldl (fun a' (x, y) => min a' (min x.e y.e)) a) acc

def scalePoly (emin : Int) (P : DPoly) : Polygon :=
  P.map fun c => c.map fun (x, y) => (⟨x.scaled emin, y.scaled emin⟩ : Pt)

def splitArrow (ws : List String) : List String × List String :=
  (ws.takeWhile (· != "=>"), (ws.dropWhile (· != "=>")).drop 1)

/-- A and B part of the line -/
def parseAB (ts : List String) : Option (DPoly × DPoly) :=
  match ts with
  | "A" :: ts1 =>
    match parsePoly ts1 with
    | some (a, "B" :: ts2) =>
      match parsePoly ts2 with
      | some (b, []) => some (a, b)
      | _ => none
    | _ => none
  | _ => none

def showPt (p : Pt) (emin : Int) : String := s!"{p.x}*2^{emin} {p.y}*2^{emin}"

def b01 (b : Bool) : String := if b then "1" else "0"

def judgeLatticeI (op : Op) (N : Nat) (A B : Polygon) (r : Option Polygon) : String :=
    match r with
    | none => "invalid result-vertex-off-lattice"
    | some R =>
      if validateLattice N A B R op then (if N == 0 then "unjudged no-cell" else s!"valid {N * N}")
      else if !(latticeOK N A && latticeOK N B) then "bad-op"
      else if !(latticeOK N R) then "invalid result-not-lattice-rectilinear"
      else match firstBadCell N A B R op with
        | some (i, j) =>
          let c := centre2 i j
          s!"invalid cell {i} {j} R={b01 (inside (dblPoly R) c)} A={b01 (inside (dblPoly A) c)} B={b01 (inside (dblPoly B) c)}"
        | none => "invalid nonempty-result-for-empty-region"

def judgeLattice (op : Op) (N : Nat) (k ox oy : Int) (a b r : DPoly) : String :=
  match polyIntsT k ox oy a, polyIntsT k ox oy b with
  | some A, some B => judgeLatticeI op N A B (polyIntsT k ox oy r)
  | _, _ => "bad-op"

/-- successive `R <poly>` records of a chain; leftover tokens are a failure token of the harness -/
def parseResults : Nat → List String → List DPoly × List String
  | 0, ts => ([], ts)
  | n + 1, "R" :: ts =>
    match parsePoly ts with
    | some (r, rest) => let (rs, rest') := parseResults n rest; (r :: rs, rest')
    | none => ([], "R" :: ts)
  | _ + 1, ts => ([], ts)

def parsePolys : Nat → List String → Option (List DPoly × List String)
  | 0, ts => some ([], ts)
  | n + 1, "P" :: ts =>
    match parsePoly ts with
    | some (p, rest) => match parsePolys n rest with
      | some (ps, rest') => some (p :: ps, rest')
      | none => none
    | none => none
  | _ + 1, _ => none

/-- pool index, with an optional `c` suffix (the harness passes `Clone()` of the entry: same values) -/
def poolIdx (s : String) : Option Nat :=
  (String.ofList (s.toList.filter (· != 'c'))).toNat?

def parseSteps : List String → Option (List (Op × Nat × Nat))
  | [] => some []
  | "S" :: o :: i :: j :: ts =>
    match parseOp o, poolIdx i, poolIdx j, parseSteps ts with
    | some op, some a, some b, some r => some ((op, a, b) :: r)
    | _, _, _, _ => none
  | _ => none

/-- a chain: every step is one clipper call whose operands are initial polygons or results of earlier steps
    (the exact values the real code returned); each step is validated by `validateLattice` -/
def judgeChain (N : Nat) (pool : Array Polygon) (steps : List (Op × Nat × Nat)) (rs : List DPoly) (k cells : Nat) :
    String :=
  match steps, rs with
  | [], _ => if cells == 0 then "unjudged no-cell" else s!"valid {cells}"
  | (op, i, j) :: steps', r :: rs' =>
    match pool[i]?, pool[j]? with
    | some A, some B =>
      let v := judgeLatticeI op N A B (polyInts r)
      if v.startsWith "valid" then
        match polyInts r with
        | some R => judgeChain N (pool.push R) steps' rs' (k + 1) (cells + N * N)
        | none => "bad-op"
      else s!"invalid step {k}: {v}"
    | _, _ => "bad-op"
  | _ :: _, [] => s!"invalid step {k}: no result"

/-- `pts`: the sample points of the op line followed by the points the harness derived from the RESULT (edge midpoints
    pushed to both sides, vertex averages), so that area the result has on its own is judged as well -/
def judgePoints (op : Op) (m : Dy) (pts : List DPt) (a b r : DPoly) : String :=
  if m.m ≤ 0 then "bad-op margin-not-positive" else
  let emin := minExp [pts] (minExp r (minExp b (minExp a (min 0 m.e))))
  let A := scalePoly emin a
  let B := scalePoly emin b
  let R := scalePoly emin r
  let ps := pts.map fun (x, y) => (⟨x.scaled emin, y.scaled emin⟩ : Pt)
  let mm := m.scaled emin
  if validateGeneral mm A B R op ps then
    let j := judged mm A B R ps
    if j == 0 then "unjudged no-sample-point-keeps-the-margin"
    else if emptyCert op A B then s!"valid {j} empty-certified"
    else if emptyJudged op A B then s!"valid {j} empty-judged"
    else s!"valid {j}"
  else if !(validateEmpty A B R op) then "invalid nonempty-result-for-certified-empty-region"
  else if !(validateEmptyJudged A B R op) then
    "invalid nonempty-result-for-" ++ (if op == .inter then "disjoint-operands(noContact)" else "covered-receiver(containedIn)")
  else match firstBadPoint mm A B R op ps with
    | some p => s!"invalid point {showPt p emin} R={b01 (inside R p)} A={b01 (inside A p)} B={b01 (inside B p)}"
    | none => "invalid"

/-- the result record of a points call: `<poly>` optionally followed by `X <k> (<x> <y>)*k` -/
def parseResultX (rts : List String) : Option (DPoly × List DPt) :=
  match parsePoly rts with
  | some (r, []) => some (r, [])
  | some (r, "X" :: k :: rest) =>
    match k.toNat? with
    | some kv => match parsePts kv rest with
      | some (xs, []) => some (r, xs)
      | _ => none
    | none => none
  | _ => none

def judgeChainLine (ws res : List String) : String :=
  match ws with
  | "chain" :: _ft :: "L" :: n :: m :: rest =>
    match n.toNat?, m.toNat? with
    | some N, some mv =>
      match parsePolys mv rest with
      | some (ps, srest) =>
        match parseSteps srest, ps.mapM polyInts with
        | some steps, some pool =>
          let (rs, leftover) := parseResults steps.length res
          if leftover.isEmpty || rs.length < steps.length then
            let v := judgeChain N pool.toArray steps rs 0 0
            if v.startsWith "valid" && !leftover.isEmpty then "invalid impl:" ++ "_".intercalate leftover
            else if v.endsWith "no result" then v ++ " impl:" ++ "_".intercalate leftover
            else v
          else "invalid impl:" ++ "_".intercalate leftover
        | _, _ => "bad-op"
      | none => "bad-op"
    | _, _ => "bad-op"
  | _ => "bad-op"

/-- `<n> (0|1)*n` -/
def parseFlags : List String → Option (List Bool × List String)
  | k :: ts =>
    match k.toNat? with
    | some n =>
      let fs := ts.take n
      if fs.length == n && fs.all (fun t => t == "0" || t == "1") then some (fs.map (· == "1"), ts.drop n) else none
    | none => none
  | [] => none

/-- op and operands of a call line in any of the three modes -/
def parseCall (ws : List String) : Option (Op × DPoly × DPoly) :=
  match ws with
  | o :: _ft :: "L" :: _n :: rest =>
    match parseOp o, parseAB rest with
    | some op, some (a, b) => some (op, a, b)
    | _, _ => none
  | o :: _ft :: "LT" :: _n :: _k :: _ox :: _oy :: rest =>
    match parseOp o, parseAB rest with
    | some op, some (a, b) => some (op, a, b)
    | _, _ => none
  | o :: _ft :: "P" :: _m :: k :: rest =>
    match parseOp o, k.toNat? with
    | some op, some kv =>
      match parsePts kv rest with
      | some (_, rest') =>
        match parseAB rest' with
        | some (a, b) => some (op, a, b)
        | none => none
      | none => none
    | _, _ => none
  | _ => none

/-- area `prune`: the flags `identifyNonContributingContours` returned (through the overlay) for the operands of the
    line are accepted iff `EO.pruneOK` holds on the exact values (all numbers brought to a common denominator) -/
def judgePrune (ws rts : List String) : String :=
  match parseCall ws, parseFlags rts with
  | some (op, a, b), some (fa, rest) =>
    match parseFlags rest with
    | some (fb, []) =>
      let emin := minExp b (minExp a 0)
      let A := scalePoly emin a
      let B := scalePoly emin b
      if fa.length != A.length || fb.length != B.length then "invalid prune: flag count differs from contour count"
      else if pruneOK op A B fa fb then
        -- on lines whose float arithmetic is exact (small lattice integers, quarter steps) the flags are also compared
        -- with the transcription of the code's rule; a difference is reported, not rejected
        let exact := match ws with
          | _ :: _ :: "L" :: _ => true
          | _ :: _ :: "P" :: _ => true
          | _ => false
        let rule := if !exact then "rule-not-compared"
          else if nonContributing (2 ^ (-emin).toNat) op A B == (fa, fb) then "rule-agrees" else "rule-differs"
        s!"valid {(fa.filter id).length + (fb.filter id).length} pruned-of {fa.length + fb.length} {rule}"
      else
        let what := if op == .union || op == .xor then "a contour is flagged for an operation that prunes nothing"
          else if op == .sub && fa.any id then "a receiver contour is flagged for Sub"
          else "a flagged contour is not separated from every contour of the other operand"
        s!"invalid prune: {what} (subject flags {fa.map b01}, clip flags {fb.map b01})"
    | _ => "invalid impl:unparsable-flags"
  | none, _ => "bad-op"
  | _, none => "invalid impl:unparsable-flags"

/-- `(C <0|1> <nv> pts)*n` -/
def parseChains : Nat → List String → Option (List (Bool × List DPt) × List String)
  | 0, ts => some ([], ts)
  | n + 1, "C" :: a :: k :: ts =>
    match k.toNat? with
    | some kv =>
      match parsePts kv ts with
      | some (c, rest) =>
        match parseChains n rest with
        | some (r, rest') => if a == "0" || a == "1" then some ((a == "1", c) :: r, rest') else none
        | none => none
      | none => none
    | none => none
  | _ + 1, _ => none

def ptInt (q : DPt) : Option Pt :=
  match q.1.toInt?, q.2.toInt? with
  | some a, some b => some ⟨a, b⟩
  | _, _ => none

/-- area `emit`: the polygon the real `polygonNode.generate` returned for the chains must contain exactly the points the
    active chains contain (exhaustive cell check `EO.sameRegionLattice`, `C05.emit_sound`); whether it
    equals the transcription `EO.generate` vertex for vertex is reported, not demanded -/
def judgeEmit (ws res : List String) : String :=
  match ws with
  | "emit" :: _ft :: "L" :: n :: k :: rest =>
    match n.toNat?, k.toNat? with
    | some N, some kv =>
      match parseChains kv rest with
      | some (chs, []) =>
        match chs.mapM (fun (ac : Bool × List DPt) => (ac.2.mapM ptInt).map (fun c => (ac.1, c))) with
        | some ichs =>
          match res with
          | ["unobserved"] => "unjudged emission-step-not-observed(black-box build)"
          | "R" :: rts =>
            match parsePoly rts with
            | some (r, []) =>
              match polyInts r with
              | none => "invalid emit: result-vertex-off-lattice"
              | some R =>
                let A := activeChains ichs
                if N == 0 then "unjudged no-cell"
                else if sameRegionLattice N A R then
                  s!"valid {N * N} " ++ (if R == generate ichs then "rule-agrees" else "rule-differs")
                else if !(latticeOK N A) then "bad-op"
                else if !(latticeOK N R) then "invalid emit: result-not-lattice-rectilinear"
                else match firstBadCell N A [] R .union with
                  | some (i, j) =>
                    let c := centre2 i j
                    s!"invalid emit: cell {i} {j} emitted={b01 (inside (dblPoly R) c)} chains={b01 (inside (dblPoly A) c)}"
                  | none => "invalid emit"
            | _ => "invalid result-non-finite-or-unparsable"
          | [] => "bad-op"
          | other => "invalid impl:" ++ "_".intercalate other
        | none => "bad-op"
      | _ => "bad-op"
    | _, _ => "bad-op"
  | _ => "bad-op"

def parseNums : Nat → List String → Option (List Dy × List String)
  | 0, ts => some ([], ts)
  | n + 1, x :: ts =>
    match parseNum x, parseNums n ts with
    | some a, some (r, rest) => some (a :: r, rest)
    | _, _ => none
  | _ + 1, [] => none

/-- area `sbt`: the table the real scan-beam tree returned must be the table of the transcription
    (`C05.scanBeamTable_spec`: strictly ascending, exactly the ordinates added) -/
def judgeSbt (ws res : List String) : String :=
  match ws with
  | "sbt" :: _ft :: k :: rest =>
    match k.toNat? with
    | some kv =>
      match parseNums kv rest with
      | some (ys, []) =>
        match res with
        | ["unobserved"] => "unjudged scan-beam-table-not-observed(black-box build)"
        | "T" :: m :: rts =>
          match m.toNat? with
          | some mv =>
            match parseNums mv rts with
            | some (tab, []) =>
              let emin := (ys ++ tab).foldl (fun a d => min a d.e) 0
              let want := scanBeamTable (ys.map (·.scaled emin))
              let got := tab.map (·.scaled emin)
              if got == want then s!"valid {got.length} beams-of {ys.length}"
              else s!"invalid sbt: the table is not the ascending list of the distinct ordinates added: got {got.take 6}… expected {want.take 6}… (first entries, unit 2^{emin}; {got.length} / {want.length} entries)"
            | _ => "invalid result-non-finite-or-unparsable"
          | none => "invalid result-non-finite-or-unparsable"
        | [] => "bad-op"
        | other => "invalid impl:" ++ "_".intercalate other
      | _ => "bad-op"
    | none => "bad-op"
  | _ => "bad-op"

/-- `<n> (bx by tx ty)*n` -/
def parseEdges4 : Nat → List String → Option (List (DPt × DPt) × List String)
  | 0, ts => some ([], ts)
  | n + 1, a :: b :: c :: d :: ts =>
    match parseNum a, parseNum b, parseNum c, parseNum d, parseEdges4 n ts with
    | some x, some y, some z, some w, some (r, rest) => some (((x, y), (z, w)) :: r, rest)
    | _, _, _, _, _ => none
  | _ + 1, _ => none

/-- `(<#edges> edges)*n`: the bounds of one local minimum, flattened -/
def parseBounds : Nat → List String → Option (List (DPt × DPt) × List String)
  | 0, ts => some ([], ts)
  | n + 1, k :: ts =>
    match k.toNat? with
    | some kv =>
      match parseEdges4 kv ts with
      | some (es, rest) =>
        match parseBounds n rest with
        | some (r, rest') => some (es ++ r, rest')
        | none => none
      | none => none
    | none => none
  | _ + 1, [] => none

/-- `(<y> <#bounds> bounds)*n`: minima ordinates and all edges -/
def parseMinima : Nat → List String → Option (List Dy × List (DPt × DPt) × List String)
  | 0, ts => some ([], [], ts)
  | n + 1, y :: k :: ts =>
    match parseNum y, k.toNat? with
    | some yv, some kv =>
      match parseBounds kv ts with
      | some (es, rest) =>
        match parseMinima n rest with
        | some (ys, r, rest') => some (yv :: ys, es ++ r, rest')
        | none => none
      | none => none
    | _, _ => none
  | _ + 1, _ => none

def strictlyAscending : List Int → Bool
  | a :: b :: t => decide (a < b) && strictlyAscending (b :: t)
  | _ => true

/-- area `lmt`: `LM <#minima> … SB <#beams> …` for the operand A of the line -/
def judgeLmt (ws rts : List String) : String :=
  match parseCall ws, rts with
  | some (_, a, _), m :: rest =>
    match m.toNat? with
    | some mv =>
      match parseMinima mv rest with
      | some (ys, es, "SB" :: k :: rest') =>
        match k.toNat? with
        | some kv =>
          match parseNums kv rest' with
          | some (tab, []) =>
            let emin := tab.foldl (fun acc d => min acc d.e)
              (es.foldl (fun acc e => min acc (min (min e.1.1.e e.1.2.e) (min e.2.1.e e.2.2.e))) (minExp a 0))
            let A := scalePoly emin a
            let sp (q : DPt) : Pt := ⟨q.1.scaled emin, q.2.scaled emin⟩
            let E := es.map fun e => (sp e.1, sp e.2)
            let want := ((allEdges A).filter nonHoriz).map upEdge
            if !(lmtOK A E) then
              s!"invalid lmt: the edges of the bounds ({E.length}) are not the non-horizontal edges of the polygon ({want.length}), lower end first"
            else if !(strictlyAscending (ys.map (·.scaled emin))) then "invalid lmt: local minima not strictly ascending"
            else if tab.map (·.scaled emin) != scanBeamTable (want.flatMap fun e => [e.1.y, e.2.y]) then
              "invalid lmt: the scan-beam table is not the ascending list of the ordinates of the edges' end points"
            else s!"valid {E.length} edges-in {ys.length} minima"
          | _ => "invalid impl:unparsable-table"
        | none => "invalid impl:unparsable-table"
      | _ => "invalid impl:unparsable-table"
    | none => "invalid impl:unparsable-table"
  | none, _ => "bad-op"
  | _, [] => "invalid impl:unparsable-table"

/-- compare the bits the library's test returned with the transcription at the points that are to be judged;
    `none` = all agree (with the number judged), `some i` = first disagreeing point -/
def cmpBits (bits : List Char) (pts : List Pt) (judge : Pt → Bool) (model : Pt → Bool) : Nat × Option Nat :=
  let rec go (bs : List Char) (ps : List Pt) (i n : Nat) : Nat × Option Nat :=
    match bs, ps with
    | b :: bs', q :: ps' =>
      if b == '-' || !(judge q) then go bs' ps' (i + 1) n
      else if (b == '1') == model q then go bs' ps' (i + 1) (n + 1)
      else (n, some i)
    | _, _ => (n, none)
  go bits pts 0 0

/-- area `contains`: `CE <A> <B> CA <A> <B>`; a point is judged for a polygon iff it keeps the margin `mm` from all edges
    of that polygon and lies on none of them -/
def judgeContainsI (mm : Int) (A B : Polygon) (pts : List Pt) (rts : List String) : String :=
  match rts with
  | [ea, eb, "CA", ca, cb] =>
    let str (t : String) : List Char := if t == "." then [] else t.toList
    if [ea, eb, ca, cb].any (fun t => t != "." && t.length != pts.length) then "invalid impl:bit-count"
    else
      let jd (P : Polygon) (q : Pt) : Bool := clear mm P q && offEdges P q
      let r1 := cmpBits (str ea) pts (jd A) (containsEvenOdd A)
      let r2 := cmpBits (str eb) pts (jd B) (containsEvenOdd B)
      let r3 := cmpBits (str ca) pts (jd A) (containsAny A)
      let r4 := cmpBits (str cb) pts (jd B) (containsAny B)
      match r1.2, r2.2, r3.2, r4.2 with
      | some i, _, _, _ => s!"invalid contains: ContainsEvenOdd(A) at point {i} differs from the transcription"
      | _, some i, _, _ => s!"invalid contains: ContainsEvenOdd(B) at point {i} differs from the transcription"
      | _, _, some i, _ => s!"invalid contains: Contains(A) at point {i} differs from the transcription"
      | _, _, _, some i => s!"invalid contains: Contains(B) at point {i} differs from the transcription"
      | none, none, none, none =>
        let n := r1.1 + r2.1 + r3.1 + r4.1
        if n == 0 then "unjudged no-point-keeps-the-margin" else s!"valid {n} point-tests"
  | _ => "invalid impl:unparsable-bits"

def judgeContains (ws rts : List String) : String :=
  match ws with
  | o :: _ft :: "L" :: n :: rest =>
    match parseOp o, n.toNat?, parseAB rest with
    | some _, some N, some (a, b) =>
      match polyInts a, polyInts b with
      | some A, some B =>
        let pts := if N ≤ 64 then (List.range N).flatMap (fun j => (List.range N).map (fun i => centre2 i j)) else []
        judgeContainsI 1 (dblPoly A) (dblPoly B) pts rts
      | _, _ => "bad-op"
    | _, _, _ => "bad-op"
  | o :: _ft :: "P" :: m :: k :: rest =>
    match parseOp o, parseNum m, k.toNat? with
    | some _, some mv, some kv =>
      match parsePts kv rest with
      | some (pts, rest') =>
        match parseAB rest' with
        | some (a, b) =>
          if mv.m ≤ 0 then "bad-op margin-not-positive" else
          let emin := minExp [pts] (minExp b (minExp a (min 0 mv.e)))
          judgeContainsI (mv.scaled emin) (scalePoly emin a) (scalePoly emin b)
            (pts.map fun (x, y) => (⟨x.scaled emin, y.scaled emin⟩ : Pt)) rts
        | none => "bad-op"
      | none => "bad-op"
    | _, _, _ => "bad-op"
  | _ => "bad-op"

def judge (ws res : List String) : String :=
  match ws with
  | "chain" :: _ => if res.isEmpty then "bad-op" else judgeChainLine ws res
  | "emit" :: _ => judgeEmit ws res
  | "sbt" :: _ => judgeSbt ws res
  | _ =>
  match res with
  | "CE" :: rts => judgeContains ws rts
  | "LM" :: rts => judgeLmt ws rts
  | "NC" :: rts => judgePrune ws rts
  | ["unobserved"] => "unjudged pruning-step-not-observed(black-box build)"
  | "R" :: rts =>
    match ws with
    | o :: _ft :: "L" :: n :: rest =>
      match parseOp o, n.toNat?, parseAB rest with
      | some op, some N, some (a, b) =>
        match parsePoly rts with
        | some (r, []) => judgeLattice op N 0 0 0 a b r
        | _ => "invalid result-non-finite-or-unparsable"
      | _, _, _ => "bad-op"
    | o :: _ft :: "LT" :: n :: k :: ox :: oy :: rest =>
      match parseOp o, n.toNat?, k.toInt?, ox.toInt?, oy.toInt?, parseAB rest with
      | some op, some N, some kv, some x, some y, some (a, b) =>
        match parsePoly rts with
        | some (r, []) => judgeLattice op N kv x y a b r
        | _ => "invalid result-non-finite-or-unparsable"
      | _, _, _, _, _, _ => "bad-op"
    | o :: _ft :: "P" :: m :: k :: rest =>
      match parseOp o, parseNum m, k.toNat? with
      | some op, some mv, some kv =>
        match parsePts kv rest with
        | some (pts, rest') =>
          match parseAB rest' with
          | some (a, b) =>
            match parseResultX rts with
            | some (r, xs) => judgePoints op mv (pts ++ xs) a b r
            | none => "invalid result-non-finite-or-unparsable"
          | none => "bad-op"
        | none => "bad-op"
      | _, _, _ => "bad-op"
    | _ => "bad-op"
  | [] => "bad-op"
  | other => "invalid impl:" ++ "_".intercalate other

def step (_ : Unit) (line : String) : Unit × String :=
  let (ws, res) := splitArrow (words line)
  ((), judge ws res)

def main : IO Unit := Proto.run step ()
