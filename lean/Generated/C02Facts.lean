/-! GENERATED on every run by vlib/C02.py from the working tree's xmath/num/uint128.go, int128.go and from the
    toolchain's math/big/intconv.go — do not edit.  What the sources no longer spell in the expected form is `none` / `[]`. -/
namespace C02Facts

def signBit : Option Nat := none
def MaxUint128 : Option (Nat × Nat) := some (18446744073709551615, 18446744073709551615)
def MaxInt128 : Option (Nat × Nat) := none
def MinInt128 : Option (Nat × Nat) := none
def minInt128AsAbsUint128 : Option (Nat × Nat) := none
def maxInt128AsUint128 : Option (Nat × Nat) := none
def maxBigUint128 : Option Nat := none
def maxRepresentableUint128Float : Option Int := none
def minInt128Float : Option Int := none
def maxInt128Float : Option Int := none
def scanVerbs : List (Char × List Char × List Char) := [('b', ['0', 'b'], ['b', 'B']), ('o', ['0', 'o'], ['o', 'O']), ('O', ['0', 'o'], ['o', 'O']), ('d', [], ['b', 'B', 'o', 'O', 'x', 'X']), ('x', ['0', 'x'], ['x', 'X']), ('X', ['0', 'x'], ['x', 'X'])]
def fmtBases : List (Char × Nat) := [('b', 2), ('o', 8), ('O', 8), ('d', 10), ('s', 10), ('v', 10), ('x', 16), ('X', 16)]
def fmtSharp : List (Char × List Char) := [('b', ['0', 'b']), ('o', ['0']), ('x', ['0', 'x']), ('X', ['0', 'X'])]
def fmtAlways : List (Char × List Char) := [('O', ['0', 'o'])]

end C02Facts
