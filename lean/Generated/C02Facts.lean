/-! GENERATED on every run by vlib/C02.py from the working tree's xmath/num/uint128.go, int128.go and from the
    toolchain's math/big/intconv.go — do not edit.  What the sources no longer spell in the expected form is `none` / `[]`. -/
namespace C02Facts

def signBit : Option Nat := some 9223372036854775808
def MaxUint128 : Option (Nat × Nat) := some (18446744073709551615, 18446744073709551615)
def MaxInt128 : Option (Nat × Nat) := some (9223372036854775807, 18446744073709551615)
def MinInt128 : Option (Nat × Nat) := some (9223372036854775808, 0)
def minInt128AsAbsUint128 : Option (Nat × Nat) := some (9223372036854775808, 0)
def maxInt128AsUint128 : Option (Nat × Nat) := some (9223372036854775807, 18446744073709551615)
def maxBigUint128 : Option Nat := some 340282366920938463463374607431768211455
def maxRepresentableUint128Float : Option Int := some (340282366920938463463374607431768211455)
def minInt128Float : Option Int := some (-170141183460469231731687303715884105728)
def maxInt128Float : Option Int := some (170141183460469231731687303715884105727)
def scanVerbs : List (Char × List Char × List Char) := [('b', ['0', 'b'], ['b', 'B']), ('o', ['0', 'o'], ['o', 'O']), ('O', ['0', 'o'], ['o', 'O']), ('d', [], ['b', 'B', 'o', 'O', 'x', 'X']), ('x', ['0', 'x'], ['x', 'X']), ('X', ['0', 'x'], ['x', 'X'])]
def fmtBases : List (Char × Nat) := [('b', 2), ('o', 8), ('O', 8), ('d', 10), ('s', 10), ('v', 10), ('x', 16), ('X', 16)]
def fmtSharp : List (Char × List Char) := [('b', ['0', 'b']), ('o', ['0']), ('x', ['0', 'x']), ('X', ['0', 'X'])]
def fmtAlways : List (Char × List Char) := [('O', ['0', 'o'])]

end C02Facts
