import Generated.Lock_rate
import Lemmas.LockSound

/-! # C16 — the lock discipline of `rate`, checked against the source of the working tree

`Props/C16.lean` proves the limiter's clauses for a machine in which `Use`, `SetCap`, `New`, `Close`, the queries and
the ticker's reset each run inside the bracket of the ONE controller mutex shared by the whole limiter tree.  That the Go
code has this shape is decided here about `LockFacts.rate` / `LockFacts.rateEvents`, regenerated from the typed SSA form
of package `rate` on every run (instance-insensitively: one lock for all limiters of a tree). -/
namespace C16Lock
open LockFacts

/-- every access to the waiting list and to any limiter's children / capacity / used / last / closed — on a caller's
    goroutine or on the ticker goroutine, in whatever helper — is made with enough of the lock held on ALL paths -/
theorem accesses_under_the_lock : strictlyDisciplined rate = true := by decide

/-- the ticker goroutine's accesses (reset, grants to waiters) are all under the mutex -/
theorem ticker_under_the_mutex :
    (rate.filter (fun a => a.ctx == .spawned)).all (fun a => a.must == .exclusive) = true := by decide

/-- the lock is never acquired on a path that already holds it (`Use` on a child walks its ancestors inside ONE
    bracket) -/
theorem no_reacquisition : noReacquire rateEvents = true := by decide

/-- the blocking send that stops the ticker and the ticker's blocking receive happen with the lock free: `Close` cannot
    deadlock against a tick that is waiting for the lock -/
theorem blocking_channel_operations_unlocked : blockingUnlocked rateEvents = true := by decide

/-- exactly one `go` statement: one ticker goroutine per tree -/
theorem one_ticker_goroutine : spawnCount rateEvents = 1 := by decide

/-- non-vacuity: writes of caller goroutines and of the ticker are in the table, and at least five entry points plus the
    ticker acquire the lock -/
theorem table_not_vacuous :
    5 ≤ (rate.filter (fun a => a.kind == .write && a.ctx == .api)).length ∧
    2 ≤ (rate.filter (fun a => a.kind == .write && a.ctx == .spawned)).length ∧
    6 ≤ (rateEvents.filter Event.isAcquire).length ∧
    (rateEvents.any (fun e => e.isAcquire && e.ctx == .spawned)) = true := by decide

/-- consequence: under Go's mutual exclusion no two goroutines (callers or ticker) are ever simultaneously inside two
    accesses of which one is a write -/
theorem bodies_never_overlap {held : Nat → State} (hx : Exclusion held) {a b : Access}
    (ha : a ∈ rate) (hb : b ∈ rate) {t u : Nat} (htu : t ≠ u)
    (hea : Executing held t a) (heb : Executing held u b) : a.kind ≠ .write ∧ b.kind ≠ .write :=
  no_conflict accesses_under_the_lock hx ha hb htu hea heb

end C16Lock
