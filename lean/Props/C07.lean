import Lemmas.QuadTreeTree
import Lemmas.QuadTreeGeom
import Lemmas.QuadTreeFuel
import Lemmas.QuadTreeFuelTree
import Lemmas.QuadTreeFuelRat
import Lemmas.QuadTreeHist
/-! # C07 — QuadTree queries return exactly what a linear scan of the stored nodes would

Property theorems only.  `QT.Tree` / `QT.Node` are the executable model of `collection/quadtree` (`Model/QuadTree.lean`)
that the driver `drv_c07` runs against the Go code at `Geom.Rect Int` and `Geom.Rect Rat`.  The specification is a
multiset of ids (`QT.specRun`: `Insert` of a non-empty node adds its id, `Remove` erases one occurrence, `Clear`
empties, `Reorganize`/threshold changes do nothing) together with the function `bounds` from ids to rectangles — the
package's contract that `Bounds()` stays the same while a node is stored (`QT.OpOK`).  All theorems hold for every
fuel, every threshold and every coordinate type whose rectangles satisfy `QT.RectLaws` (proved for `geom`'s
rectangles over any linearly ordered commutative ring in `Lemmas/QuadTreeGeom.lean` from C18's theorems — the
geometry of the quadrants is never used). -/
namespace C07
open QT

section Generic
variable {R P : Type} [L : RectOps R P] [H : RectLaws R P]

/-- "All report[s] exactly the inserted, not-yet-removed nodes with non-empty bounds": after any history the ids
    returned by `All` are, as a multiset, the specification's; every stored item has the bounds of its id and is
    non-empty -/
theorem abs_run (bounds : Nat → R) (fuel : Nat) (k : Int) (ops : List (Op R)) (hops : ∀ op ∈ ops, OpOK bounds op) :
    (ids (Tree.run fuel k ops).all).Perm (specRun ops) ∧
    ∀ it ∈ (Tree.run fuel k ops).all, it.rect = bounds it.id ∧ L.empty it.rect = false := by
  obtain ⟨a, b⟩ := run_ok bounds fuel k ops hops
  exact ⟨b, a.keyed⟩

/-- "Size … report[s] exactly …": `Size` is the number of stored nodes -/
theorem size_run (bounds : Nat → R) (fuel : Nat) (k : Int) (ops : List (Op R)) (hops : ∀ op ∈ ops, OpOK bounds op) :
    (Tree.run fuel k ops).size = ((specRun ops).length : Int) := by
  obtain ⟨a, b⟩ := run_ok bounds fuel k ops hops
  rw [Tree.size, a.count, ← b.length_eq]; simp [ids]

/-- `Reorganize` sends a node to the outside list when the new root rectangle does not `Contains` it (possible only
    when the float union was rounded).  `abs_run` and the query theorems hold whatever that guard decides; in exact
    arithmetic it always holds: the union of all bounds contains each stored node -/
theorem reorganize_guard_exact (bounds : Nat → R) (fuel : Nat) (k : Int) (ops : List (Op R))
    (hops : ∀ op ∈ ops, OpOK bounds op) :
    let t := Tree.run fuel k ops
    ∀ it ∈ t.all, L.contains (t.all.foldl (fun r one => L.union r one.rect) L.zero) it.rect = true :=
  QT.reorganize_guard_exact bounds _ (run_ok bounds fuel k ops hops).1

/-- the general form behind the eight `Find*` theorems: a traversal whose node test `pr` is implied by "an item
    satisfying `f` is contained in the node" returns, as a multiset of ids, the linear scan of the specification -/
theorem find_spec (bounds : Nat → R) (fuel : Nat) (k : Int) (ops : List (Op R)) (hops : ∀ op ∈ ops, OpOK bounds op)
    (pr : R → Bool) (f : Item R → Bool)
    (hpr : ∀ (a : R) (it : Item R), L.contains a it.rect = true → f it = true → pr a = true) :
    (ids ((Tree.run fuel k ops).find pr f)).Perm ((specRun ops).filter (fun i => f ⟨i, bounds i⟩)) := by
  obtain ⟨a, b⟩ := run_ok bounds fuel k ops hops
  have h1 := (tree_find_perm bounds _ a pr f hpr).map (·.id)
  have h2 := keyed_filter_ids bounds _ a.keyed f
  simp only [ids] at h2 b ⊢
  rw [h2] at h1
  exact h1.trans (b.filter _)

variable (bounds : Nat → R) (fuel : Nat) (k : Int) (ops : List (Op R)) (hops : ∀ op ∈ ops, OpOK bounds op)
include hops

/-- `FindContainsPoint` = the nodes whose bounds the point is `In` -/
theorem findContainsPoint_eq_filter (p : P) :
    (ids ((Tree.run fuel k ops).findContainsPoint p)).Perm ((specRun ops).filter (fun i => L.inPt p (bounds i))) :=
  find_spec bounds fuel k ops hops _ _ (fun a it hc hf => H.prune_point a it.rect p hc hf)

/-- `FindMatchedContainsPoint` -/
theorem findMatchedContainsPoint_eq_filter (m : Item R → Bool) (p : P) :
    (ids ((Tree.run fuel k ops).findMatchedContainsPoint m p)).Perm
      ((specRun ops).filter (fun i => L.inPt p (bounds i) && m ⟨i, bounds i⟩)) :=
  find_spec bounds fuel k ops hops _ _ (fun a it hc hf => H.prune_point a it.rect p hc (by
    simp only [Bool.and_eq_true] at hf; exact hf.1))

/-- `FindIntersects` = the nodes whose bounds `Intersects` the query -/
theorem findIntersects_eq_filter (q : R) :
    (ids ((Tree.run fuel k ops).findIntersects q)).Perm ((specRun ops).filter (fun i => L.intersects (bounds i) q)) :=
  find_spec bounds fuel k ops hops _ _ (fun a it hc hf => H.prune_intersects a it.rect q hc hf)

/-- `FindMatchedIntersects` -/
theorem findMatchedIntersects_eq_filter (m : Item R → Bool) (q : R) :
    (ids ((Tree.run fuel k ops).findMatchedIntersects m q)).Perm
      ((specRun ops).filter (fun i => L.intersects (bounds i) q && m ⟨i, bounds i⟩)) :=
  find_spec bounds fuel k ops hops _ _ (fun a it hc hf => H.prune_intersects a it.rect q hc (by
    simp only [Bool.and_eq_true] at hf; exact hf.1))

/-- `FindContainsRect` = the nodes whose bounds `Contains` the query -/
theorem findContainsRect_eq_filter (q : R) :
    (ids ((Tree.run fuel k ops).findContainsRect q)).Perm ((specRun ops).filter (fun i => L.contains (bounds i) q)) :=
  find_spec bounds fuel k ops hops _ _ (fun a it hc hf => H.prune_containsRect a it.rect q hc hf)

/-- `FindMatchedContainsRect` -/
theorem findMatchedContainsRect_eq_filter (m : Item R → Bool) (q : R) :
    (ids ((Tree.run fuel k ops).findMatchedContainsRect m q)).Perm
      ((specRun ops).filter (fun i => L.contains (bounds i) q && m ⟨i, bounds i⟩)) :=
  find_spec bounds fuel k ops hops _ _ (fun a it hc hf => H.prune_containsRect a it.rect q hc (by
    simp only [Bool.and_eq_true] at hf; exact hf.1))

/-- `FindContainedByRect` = the nodes whose bounds the query `Contains` -/
theorem findContainedByRect_eq_filter (q : R) :
    (ids ((Tree.run fuel k ops).findContainedByRect q)).Perm ((specRun ops).filter (fun i => L.contains q (bounds i))) :=
  find_spec bounds fuel k ops hops _ _ (fun a it hc hf => H.prune_containedBy a it.rect q hc hf)

/-- `FindMatchedContainedByRect` -/
theorem findMatchedContainedByRect_eq_filter (m : Item R → Bool) (q : R) :
    (ids ((Tree.run fuel k ops).findMatchedContainedByRect m q)).Perm
      ((specRun ops).filter (fun i => L.contains q (bounds i) && m ⟨i, bounds i⟩)) :=
  find_spec bounds fuel k ops hops _ _ (fun a it hc hf => H.prune_containedBy a it.rect q hc (by
    simp only [Bool.and_eq_true] at hf; exact hf.1))

omit hops H

/-- "each boolean query being true exactly when its Find* counterpart is non-empty" — all eight pairs, for every tree
    state whatsoever -/
theorem bool_iff_find_nonempty (t : QT.Tree R) (m : Item R → Bool) (p : P) (q : R) :
    t.containsPoint p = !(t.findContainsPoint p).isEmpty ∧
    t.matchedContainsPoint m p = !(t.findMatchedContainsPoint m p).isEmpty ∧
    t.intersects q = !(t.findIntersects q).isEmpty ∧
    t.matchedIntersects m q = !(t.findMatchedIntersects m q).isEmpty ∧
    t.containsRect q = !(t.findContainsRect q).isEmpty ∧
    t.matchedContainsRect m q = !(t.findMatchedContainsRect m q).isEmpty ∧
    t.containedByRect q = !(t.findContainedByRect q).isEmpty ∧
    t.matchedContainedByRect m q = !(t.findMatchedContainedByRect m q).isEmpty :=
  ⟨tree_any_eq _ _ _, tree_any_eq _ _ _, tree_any_eq _ _ _, tree_any_eq _ _ _, tree_any_eq _ _ _, tree_any_eq _ _ _,
   tree_any_eq _ _ _, tree_any_eq _ _ _⟩

/-- node insertion (split-and-reinsert of a full leaf included), every threshold and fuel: keeps the invariant
    "everything below a node is contained in its rectangle", keeps the rectangle, adds exactly the item -/
theorem insert_ok (threshold fuel : Nat) (n : Node R) (it : Item R) (hn : Node.Inv n)
    (hc : L.contains n.rect it.rect = true) :
    Node.Inv (Node.insert threshold fuel n it) ∧ (Node.insert threshold fuel n it).all.Perm (it :: n.all) ∧
    (Node.insert threshold fuel n it).rect = n.rect := Node.insert_ok threshold fuel n it hn hc

/-- a successful node removal keeps rectangle and invariant and takes out exactly one item with that id -/
theorem remove_ok (id : Nat) (b : R) (n n' : Node R) (h : Node.remove id b n = some n') :
    n'.rect = n.rect ∧ (Node.Inv n → Node.Inv n') ∧ ∃ x, x.id = id ∧ n.all.Perm (x :: n'.all) :=
  Node.remove_ok id b n n' h

/-- pruning is sound for removal: a stored item whose bounds are the ones it was stored with is always found -/
theorem remove_complete (id : Nat) (b : R) (n : Node R) (hi : Node.Inv n) (x : Item R) (hx : x ∈ n.all)
    (hid : x.id = id) (hb : x.rect = b) : (Node.remove id b n).isSome = true :=
  Node.remove_complete id b n hi x hx hid hb

end Generic

section Hist
variable {R P : Type} [L : RectOps R P] [H : RectLaws R P]

/-! ### the contract as the package states it: bounds fixed only WHILE a node is stored

`abs_run` … `findMatchedContainedByRect_eq_filter` fix one bounds function per history (`OpOK`).  The package only
demands that `Bounds()` stays the same until the node is removed: an object that is not stored may come back with other
bounds.  `QT.HistOK` is that contract (checked against the specification state before each operation), the
specification `QT.specRunI` is the multiset of stored ITEMS (id with the bounds it was inserted with); the `OpOK` form
is the special case `hist_of_opOK`.  The harness does this to its objects (`ins same-object-new-bounds` in the
evidence). -/

/-- "Size and All report exactly the inserted, not-yet-removed nodes with non-empty bounds" under the history-dependent
    contract: the stored items are the specification's multiset, `Size` is their number, none is empty -/
theorem abs_run_hist (fuel : Nat) (k : Int) (ops : List (Op R)) (hops : HistOK ([] : List (Item R)) ops) :
    (Tree.run fuel k ops).all.Perm (specRunI ops) ∧ (Tree.run fuel k ops).size = ((specRunI ops).length : Int) ∧
    ∀ it ∈ (Tree.run fuel k ops).all, L.empty it.rect = false := by
  obtain ⟨⟨bd, hb⟩, hp⟩ := run_okI fuel k ops hops
  exact ⟨hp, size_okI fuel k ops hops, fun it hit => (hb.keyed it hit).2⟩

/-- all eight `Find*` queries under the history-dependent contract: each returns, as a multiset of items, the linear
    scan of the specification with the corresponding `geom` predicate (and the matcher) -/
theorem queries_hist (fuel : Nat) (k : Int) (ops : List (Op R)) (hops : HistOK ([] : List (Item R)) ops)
    (m : Item R → Bool) (p : P) (q : R) :
    let t := Tree.run fuel k ops
    let s := specRunI ops
    (t.findContainsPoint p).Perm (s.filter (fun it => L.inPt p it.rect)) ∧
    (t.findMatchedContainsPoint m p).Perm (s.filter (fun it => L.inPt p it.rect && m it)) ∧
    (t.findIntersects q).Perm (s.filter (fun it => L.intersects it.rect q)) ∧
    (t.findMatchedIntersects m q).Perm (s.filter (fun it => L.intersects it.rect q && m it)) ∧
    (t.findContainsRect q).Perm (s.filter (fun it => L.contains it.rect q)) ∧
    (t.findMatchedContainsRect m q).Perm (s.filter (fun it => L.contains it.rect q && m it)) ∧
    (t.findContainedByRect q).Perm (s.filter (fun it => L.contains q it.rect)) ∧
    (t.findMatchedContainedByRect m q).Perm (s.filter (fun it => L.contains q it.rect && m it)) := by
  have and1 : ∀ {a b : Bool}, (a && b) = true → a = true := fun h => by
    simp only [Bool.and_eq_true] at h; exact h.1
  exact ⟨find_okI fuel k ops hops _ _ (fun a it hc hf => H.prune_point a it.rect p hc hf),
    find_okI fuel k ops hops _ _ (fun a it hc hf => H.prune_point a it.rect p hc (and1 hf)),
    find_okI fuel k ops hops _ _ (fun a it hc hf => H.prune_intersects a it.rect q hc hf),
    find_okI fuel k ops hops _ _ (fun a it hc hf => H.prune_intersects a it.rect q hc (and1 hf)),
    find_okI fuel k ops hops _ _ (fun a it hc hf => H.prune_containsRect a it.rect q hc hf),
    find_okI fuel k ops hops _ _ (fun a it hc hf => H.prune_containsRect a it.rect q hc (and1 hf)),
    find_okI fuel k ops hops _ _ (fun a it hc hf => H.prune_containedBy a it.rect q hc hf),
    find_okI fuel k ops hops _ _ (fun a it hc hf => H.prune_containedBy a it.rect q hc (and1 hf))⟩

omit H in
/-- the one-bounds-function contract of `abs_run` is a special case of the history-dependent one -/
theorem hist_of_opOK (bounds : Nat → R) (ops : List (Op R)) (hops : ∀ op ∈ ops, OpOK bounds op) :
    HistOK ([] : List (Item R)) ops :=
  histOK_of_opOK bounds ops hops [] (fun x hx => by simp at hx)

/-- "This holds for every threshold" (and every fuel), and `Reorganize` / a change of `Threshold` are invisible: two
    runs of histories that differ only in the initial threshold, the fuel, and in `Reorganize` / `setThreshold`
    operations put anywhere (i.e. that have the same specification) answer every query with the same multiset -/
theorem threshold_reorganize_invisible (fuel fuel' : Nat) (k k' : Int) (ops ops' : List (Op R))
    (hops : HistOK ([] : List (Item R)) ops) (hops' : HistOK ([] : List (Item R)) ops')
    (hspec : (specRunI ops).Perm (specRunI ops'))
    (pr : R → Bool) (f : Item R → Bool)
    (hpr : ∀ (a : R) (it : Item R), L.contains a it.rect = true → f it = true → pr a = true) :
    ((Tree.run fuel k ops).find pr f).Perm ((Tree.run fuel' k' ops').find pr f) ∧
    (Tree.run fuel k ops).size = (Tree.run fuel' k' ops').size :=
  ⟨(find_okI fuel k ops hops pr f hpr).trans ((hspec.filter f).trans (find_okI fuel' k' ops' hops' pr f hpr).symm),
   by rw [size_okI fuel k ops hops, size_okI fuel' k' ops' hops', hspec.length_eq]⟩

omit H in
/-- the specification does not see `Reorganize` and `setThreshold`: appending them (the form in which
    `threshold_reorganize_invisible` is used most) leaves `specRunI` unchanged -/
theorem spec_ignores_reorganize (ops : List (Op R)) (k : Int) :
    specRunI (ops ++ [Op.reorganize]) = specRunI ops ∧ specRunI (ops ++ [Op.setThreshold k]) = specRunI ops := by
  simp [specRunI, List.foldl_append, specApplyI]

end Hist

/-! ### the two coordinate types that are run -/
open Geom

theorem abs_run_int (bounds : Nat → Rect Int) (fuel : Nat) (k : Int) (ops : List (Op (Rect Int)))
    (hops : ∀ op ∈ ops, OpOK bounds op) :
    (ids (Tree.run fuel k ops).all).Perm (specRun ops) ∧ (Tree.run fuel k ops).size = ((specRun ops).length : Int) :=
  ⟨(abs_run bounds fuel k ops hops).1, size_run bounds fuel k ops hops⟩

theorem abs_run_rat (bounds : Nat → Rect Rat) (fuel : Nat) (k : Int) (ops : List (Op (Rect Rat)))
    (hops : ∀ op ∈ ops, OpOK bounds op) :
    (ids (Tree.run fuel k ops).all).Perm (specRun ops) ∧ (Tree.run fuel k ops).size = ((specRun ops).length : Int) :=
  ⟨(abs_run bounds fuel k ops hops).1, size_run bounds fuel k ops hops⟩

/-- the four unmatched queries at `Rect Int`, with `geom`'s own predicates spelled out -/
theorem queries_int (bounds : Nat → Rect Int) (fuel : Nat) (k : Int) (ops : List (Op (Rect Int)))
    (hops : ∀ op ∈ ops, OpOK bounds op) (p : Point Int) (q : Rect Int) :
    (ids ((Tree.run fuel k ops).findContainsPoint p)).Perm ((specRun ops).filter (fun i => p.inRect (bounds i))) ∧
    (ids ((Tree.run fuel k ops).findIntersects q)).Perm ((specRun ops).filter (fun i => (bounds i).intersects q)) ∧
    (ids ((Tree.run fuel k ops).findContainsRect q)).Perm ((specRun ops).filter (fun i => (bounds i).contains q)) ∧
    (ids ((Tree.run fuel k ops).findContainedByRect q)).Perm ((specRun ops).filter (fun i => q.contains (bounds i))) :=
  ⟨findContainsPoint_eq_filter bounds fuel k ops hops p, findIntersects_eq_filter bounds fuel k ops hops q,
   findContainsRect_eq_filter bounds fuel k ops hops q, findContainedByRect_eq_filter bounds fuel k ops hops q⟩

/-- the same at `Rect Rat` (exact `float64`) -/
theorem queries_rat (bounds : Nat → Rect Rat) (fuel : Nat) (k : Int) (ops : List (Op (Rect Rat)))
    (hops : ∀ op ∈ ops, OpOK bounds op) (p : Point Rat) (q : Rect Rat) :
    (ids ((Tree.run fuel k ops).findContainsPoint p)).Perm ((specRun ops).filter (fun i => p.inRect (bounds i))) ∧
    (ids ((Tree.run fuel k ops).findIntersects q)).Perm ((specRun ops).filter (fun i => (bounds i).intersects q)) ∧
    (ids ((Tree.run fuel k ops).findContainsRect q)).Perm ((specRun ops).filter (fun i => (bounds i).contains q)) ∧
    (ids ((Tree.run fuel k ops).findContainedByRect q)).Perm ((specRun ops).filter (fun i => q.contains (bounds i))) :=
  ⟨findContainsPoint_eq_filter bounds fuel k ops hops p, findIntersects_eq_filter bounds fuel k ops hops q,
   findContainsRect_eq_filter bounds fuel k ops hops q, findContainedByRect_eq_filter bounds fuel k ops hops q⟩

/-! ### fuel -/

/-- **splitting terminates for integer coordinates**: `QT.Good` (every split node is non-empty, its empty children are
    untouched leaves and its non-empty children have a strictly smaller `W + H`) holds for a fresh leaf, is kept by
    node insertion with *every* threshold and fuel, and bounds the depth of every good node by `W + H` of its
    rectangle.  Hence no node of an integer quadtree ever sits deeper than `W + H` of the root, and fuel
    `W + H + 1` can never run out (`Tree.fuelOK`).  (False for the code before its repair: a 1×1 node had a 1×1
    child 3.) -/
theorem split_terminates_int (threshold fuel : Nat) (n : Node (Rect Int)) (it : Item (Rect Int))
    (hn : Good n) (hr : n.rect.empty = false) :
    Good (Node.insert threshold fuel n it) ∧ (Node.insert threshold fuel n it).rect = n.rect ∧
    (Node.insert threshold fuel n it).depth ≤ (n.rect.w + n.rect.h).toNat := by
  obtain ⟨a, b⟩ := insert_good threshold fuel n it hn hr
  refine ⟨a, b, ?_⟩
  have := depth_le_meas _ a (by rw [b]; exact hr)
  rw [b] at this; exact this

/-- the same over a whole `Reorganize`: the root built by the re-insertion loop from the fresh leaf is no deeper than
    `W + H` of the new root rectangle -/
theorem reorganize_depth_int (threshold fuel : Nat) (rect : Rect Int) (hr : rect.empty = false)
    (items : List (Item (Rect Int))) :
    (items.foldl (Tree.reorgStep rect threshold fuel) (Node.leaf rect [], [])).1.depth ≤ (rect.w + rect.h).toNat := by
  obtain ⟨a, b⟩ := reorgFold_good rect threshold fuel items (Node.leaf rect [], []) trivial rfl hr
  have := depth_le_meas _ a (by rw [b]; exact hr)
  rw [b] at this; exact this

/-- **fuel suffices, for every history**: if every inserted non-empty integer rectangle lies within a box and the fuel
    exceeds `W + H` of the box, then after any history (contract `OpOK` as in `abs_run`), and after each of its
    prefixes — the driver answers after every operation —, no node of the tree is deeper than `W + H` of the box and
    the driver's criterion `Tree.fuelOK` holds, i.e. the fuelled model never answers `out-of-fuel` on integer
    rectangles -/
theorem fuel_suffices_int (bounds : Nat → Rect Int) (box : Rect Int) (fuel : Nat) (k : Int)
    (ops : List (Op (Rect Int))) (hops : ∀ op ∈ ops, OpOK bounds op) (hbox : ∀ op ∈ ops, InBox box op)
    (hfuel : (box.w + box.h).toNat < fuel) (n : Nat) :
    (Tree.run fuel k (ops.take n)).fuelOK fuel = true ∧
    ∀ r, (Tree.run fuel k (ops.take n)).root = some r → r.depth ≤ (box.w + box.h).toNat := by
  have hf := run_finv bounds box fuel k (ops.take n) (fun op h => hops op (List.mem_of_mem_take h))
    (fun op h => hbox op (List.mem_of_mem_take h))
  have key : ∀ r, (Tree.run fuel k (ops.take n)).root = some r → r.depth ≤ (box.w + box.h).toNat := by
    intro r hr
    obtain ⟨g, ne, hb⟩ := hf.root r hr
    exact Nat.le_trans (depth_le_meas r g ne) (meas_mono box r.rect hb)
  refine ⟨?_, key⟩
  unfold Tree.fuelOK
  cases hr : (Tree.run fuel k (ops.take n)).root with
  | none => rfl
  | some r => simp only [decide_eq_true_eq]; exact Nat.lt_of_le_of_lt (key r hr) hfuel

/-- **the fuel does not influence the result**: on a good non-empty integer node any two fuels of at least `W + H` of
    its rectangle give the same tree, so the fuel-0 fallback is never taken and the fuelled recursion computes what the
    unbounded recursion of the Go code computes -/
theorem fuel_independent_int (threshold f f' : Nat) (n : Node (Rect Int)) (it : Item (Rect Int)) (hn : Good n)
    (hr : n.rect.empty = false) (h1 : (n.rect.w + n.rect.h).toNat ≤ f) (h2 : (n.rect.w + n.rect.h).toNat ≤ f') :
    Node.insert threshold f n it = Node.insert threshold f' n it :=
  insert_fuel_indep threshold f f' n it hn hr h1 h2

/-- **depth bound for exact rational coordinates** (float64 without rounding): halving never reaches zero, so there is no
    bound by `W + H`; instead every child is exactly half as wide as its parent and a node is split only while an item
    that it contains is being routed into it.  `QT.GoodQ m` (every stored item is at least `m` wide, every split node is
    at least `m` wide, children are half as wide) is kept by node insertion with every threshold and fuel, and a good
    node narrower than `m · 2^k` is at most `k` levels deep: the depth is logarithmic in root width / smallest item
    width.  With the driver's fuel 200 this covers every ratio below 2^199. -/
theorem split_depth_rat (m : Rat) (threshold fuel : Nat) (n : Node (Rect Rat)) (it : Item (Rect Rat))
    (hn : GoodQ m n) (hc : n.rect.contains it.rect = true) (hi : m ≤ it.rect.w) :
    GoodQ m (Node.insert threshold fuel n it) ∧ (Node.insert threshold fuel n it).rect = n.rect ∧
    ∀ k : Nat, n.rect.w < m * 2 ^ k → (Node.insert threshold fuel n it).depth ≤ k := by
  obtain ⟨a, b⟩ := insert_goodQ m threshold fuel n it hn hc hi
  exact ⟨a, b, fun k hk => depthQ m _ a k (by rw [b]; exact hk)⟩

/-- the same over a whole `Reorganize`: the root built by the re-insertion loop from the fresh leaf over `rect`, from
    items that are all at least `m` wide, is at most `k` levels deep if `rect` is narrower than `m · 2^k`.  (Not lifted
    to whole histories and no fuel-independence theorem for `Rat`: that would repeat `fuel_suffices_int` with the box
    replaced by "root width / smallest stored width".) -/
theorem reorganize_depth_rat (m : Rat) (threshold fuel : Nat) (rect : Rect Rat) (items : List (Item (Rect Rat)))
    (hitems : ∀ x ∈ items, m ≤ x.rect.w) (k : Nat) (hk : rect.w < m * 2 ^ k) :
    (items.foldl (Tree.reorgStep rect threshold fuel) (Node.leaf rect [], [])).1.depth ≤ k := by
  obtain ⟨a, b⟩ := reorgFold_goodQ m rect threshold fuel items hitems (Node.leaf rect [], [])
    (fun x hx => by simp at hx) rfl
  exact depthQ m _ a k (by rw [b]; exact hk)

/-- the step this rests on: when an integer node splits (`canSplit`: half-width or half-height positive), every child
    that can receive an item (non-empty child) has a strictly smaller `W + H` than its parent — including child 0
    with its `hw × hw` size -/
theorem split_progress_int (r : Rect Int) (hr : r.empty = false) (hs : canSplit halfInt r = true) :
    let q := quadrants halfInt r
    (q.1.empty = false → q.1.w + q.1.h < r.w + r.h) ∧ (q.2.1.empty = false → q.2.1.w + q.2.1.h < r.w + r.h) ∧
    (q.2.2.1.empty = false → q.2.2.1.w + q.2.2.1.h < r.w + r.h) ∧
    (q.2.2.2.empty = false → q.2.2.2.w + q.2.2.2.h < r.w + r.h) := by
  have hw : 0 < r.w ∧ 0 < r.h := nonempty_pos r hr
  have e1 : halfInt r.w = r.w / 2 := by
    unfold halfInt; exact Int.tdiv_eq_ediv_of_nonneg (by omega)
  have e2 : halfInt r.h = r.h / 2 := by
    unfold halfInt; exact Int.tdiv_eq_ediv_of_nonneg (by omega)
  simp only [canSplit, e1, e2, Bool.not_eq_true', Bool.and_eq_false_iff, decide_eq_false_iff_not, Int.not_le] at hs
  simp only [quadrants, e1, e2, Rect.empty, Bool.or_eq_false_iff, decide_eq_false_iff_not, Int.not_le]
  refine ⟨fun _ => ?_, fun _ => ?_, fun _ => ?_, fun _ => ?_⟩ <;> omega

/-! non-vacuity: a history that satisfies the contract -/
example : ∀ op ∈ ([Op.insert ⟨1, ⟨0, 0, 1, 1⟩⟩, Op.remove 1 ⟨0, 0, 1, 1⟩, Op.reorganize] : List (Op (Rect Int))),
    OpOK (fun _ => ⟨0, 0, 1, 1⟩) op := by
  intro op h
  simp only [List.mem_cons, List.not_mem_nil, or_false] at h
  rcases h with h | h | h <;> subst h <;> simp [OpOK]

/-! a history that satisfies the history-dependent contract but NO single bounds function: object 1 is stored at
    `(0,0,1,1)`, removed, and comes back at `(5,5,2,2)` -/
example : HistOK ([] : List (Item (Rect Int)))
    [Op.insert ⟨1, ⟨0, 0, 1, 1⟩⟩, Op.remove 1 ⟨0, 0, 1, 1⟩, Op.insert ⟨1, ⟨5, 5, 2, 2⟩⟩, Op.reorganize] := by
  simp [HistOK, OpOKI, specApplyI, RectOps.empty, Rect.empty]

example : ¬ ∃ bounds : Nat → Rect Int, ∀ op ∈ ([Op.insert ⟨1, ⟨0, 0, 1, 1⟩⟩, Op.remove 1 ⟨0, 0, 1, 1⟩,
    Op.insert ⟨1, ⟨5, 5, 2, 2⟩⟩] : List (Op (Rect Int))), OpOK bounds op := by
  intro ⟨b, h⟩
  have h1 := h (Op.insert ⟨1, ⟨0, 0, 1, 1⟩⟩) (by simp)
  have h2 := h (Op.insert ⟨1, ⟨5, 5, 2, 2⟩⟩) (by simp)
  simp only [OpOK] at h1 h2
  rw [← h1] at h2
  simp at h2

/-- the contract is needed (CONTRAST): if an object's bounds change WHILE it is stored, `Remove` — which descends below
    a subdivided tree node only when that node's rectangle contains the bounds it is given — does not find the entry, so
    `All` keeps a node the specification has removed.  Here node 1 sits in a quadrant of a subdivided 8×8 root and is
    removed under the bounds `(100,100,1,1)`, outside the root.  (Bounds that moved to ANOTHER QUADRANT of the same parent
    would still be found: below a containing parent all four children are tried.) -/
theorem contract_needed :
    let ops : List (Op (Rect Int)) :=
      [Op.insert ⟨0, ⟨0, 0, 8, 8⟩⟩, Op.reorganize, Op.insert ⟨1, ⟨1, 1, 1, 1⟩⟩, Op.insert ⟨2, ⟨1, 1, 1, 1⟩⟩,
       Op.insert ⟨3, ⟨1, 1, 1, 1⟩⟩, Op.insert ⟨4, ⟨1, 1, 1, 1⟩⟩, Op.remove 1 ⟨100, 100, 1, 1⟩]
    ¬ HistOK ([] : List (Item (Rect Int))) ops ∧
    ids (Tree.run 10 4 ops).all = [0, 1, 2, 3, 4] ∧ ids (specRunI ops) = [4, 3, 2, 0] := by
  refine ⟨?_, by decide, by decide⟩
  simp [HistOK, OpOKI, specApplyI, RectOps.empty, Rect.empty]

end C07
