import Lemmas.QuadTreeTree
import Lemmas.QuadTreeGeom
import Lemmas.QuadTreeFuel
import Lemmas.QuadTreeFuelTree
import Lemmas.QuadTreeFuelRat
import Lemmas.QuadTreeHist
import Lemmas.QuadTreeWrap
import Lemmas.QuadTreeFuelLogTree
import Lemmas.QuadTreeWrapFuel
import Lemmas.QuadTreeOrder
import Lemmas.QuadTreeFuelRatTree
import Lemmas.QuadTreeFuelRatIndep
import Lemmas.QuadTreeFuelSound
/-! # C07 — QuadTree queries return exactly what a linear scan of the stored nodes would

Property theorems only.  `QT.Tree` / `QT.Node` are the executable model of `collection/quadtree` (`Model/QuadTree.lean`)
that the driver `drv_c07` runs against the Go code at `Geom.Rect Int`, `Geom.Rect Rat`, `Geom.Rect Int64` (Go `int`) and
`Geom.Rect Float` (Go `float64`).  The specification is a
multiset of ids (`QT.specRun`: `Insert` of a non-empty node adds its id, `Remove` erases one occurrence, `Clear`
empties, `Reorganize`/threshold changes do nothing) together with the function `bounds` from ids to rectangles — the
package's contract that `Bounds()` stays the same while a node is stored (`QT.OpOK`).  All theorems hold for every
fuel and every threshold; `abs_run`, `size_run`, `abs_run_hist` and `find_spec` for EVERY instance of the rectangle
operations (no law is needed: also the machine instances at `Int64` and `Float`), the eight `Find*` theorems for every
coordinate type whose rectangles satisfy `QT.RectLaws` (proved for `geom`'s rectangles over any linearly ordered
commutative ring in `Lemmas/QuadTreeGeom.lean` from C18's theorems — the geometry of the quadrants is never used).
Further sections: the history-dependent contract (`HistOK`); fuel (`W + H`, logarithmic, rational); machine integers
(`int64_*`: the `Int64` instance is simulated by the `Int` instance inside `[-2^60, 2^60]²`); any arithmetic
(`queries_any_arithmetic*`: linear order only, arbitrary `+`/`-` — rounding and wrap-around included). -/
namespace C07
open QT

section Generic
variable {R P : Type} [L : RectOps R P] [H : RectLaws R P]

omit H in
/-- "All report[s] exactly the inserted, not-yet-removed nodes with non-empty bounds": after any history the ids
    returned by `All` are, as a multiset, the specification's; every stored item has the bounds of its id and is
    non-empty -/
theorem abs_run (bounds : Nat → R) (fuel : Nat) (k : Int) (ops : List (Op R)) (hops : ∀ op ∈ ops, OpOK bounds op) :
    (ids (Tree.run fuel k ops).all).Perm (specRun ops) ∧
    ∀ it ∈ (Tree.run fuel k ops).all, it.rect = bounds it.id ∧ L.empty it.rect = false := by
  obtain ⟨a, b⟩ := run_ok bounds fuel k ops hops
  exact ⟨b, a.keyed⟩

omit H in
/-- "Size … report[s] exactly …": `Size` is the number of stored nodes -/
theorem size_run (bounds : Nat → R) (fuel : Nat) (k : Int) (ops : List (Op R)) (hops : ∀ op ∈ ops, OpOK bounds op) :
    (Tree.run fuel k ops).size = ((specRun ops).length : Int) := by
  obtain ⟨a, b⟩ := run_ok bounds fuel k ops hops
  rw [Tree.size, a.count, ← b.length_eq]; simp [ids]

/-- `Reorganize` sends a node to the outside list when the new root rectangle does not `Contains` it (possible only
    when the float union was rounded).  `abs_run` and the query theorems hold whatever that guard decides; in exact
    arithmetic it always holds: the union of all bounds contains each stored node -/
theorem reorganize_guard_exact (bounds : Nat → R) (fuel : Nat) (k : Int) (ops : List (Op R))
    (hops : ∀ op ∈ ops, OpOK bounds op) :
    let t := Tree.run fuel k ops
    ∀ it ∈ t.all, L.contains (t.all.foldl (fun r one => L.union r one.rect) L.zero) it.rect = true :=
  QT.reorganize_guard_exact bounds _ (run_ok bounds fuel k ops hops).1

omit H in
/-- the general form behind the eight `Find*` theorems: a traversal whose node test `pr` is implied by "an item
    satisfying `f` is contained in the node" returns, as a multiset of ids, the linear scan of the specification -/
theorem find_spec (bounds : Nat → R) (fuel : Nat) (k : Int) (ops : List (Op R)) (hops : ∀ op ∈ ops, OpOK bounds op)
    (pr : R → Bool) (f : Item R → Bool)
    (hpr : ∀ (a : R) (it : Item R), L.contains a it.rect = true → f it = true → pr a = true) :
    (ids ((Tree.run fuel k ops).find pr f)).Perm ((specRun ops).filter (fun i => f ⟨i, bounds i⟩)) := by
  obtain ⟨a, b⟩ := run_ok bounds fuel k ops hops
  have h1 := (tree_find_perm bounds _ a pr f hpr).map (·.id)
  have h2 := keyed_filter_ids bounds _ a.keyed f
  simp only [ids] at h2 b ⊢
  rw [h2] at h1
  exact h1.trans (b.filter _)

variable (bounds : Nat → R) (fuel : Nat) (k : Int) (ops : List (Op R)) (hops : ∀ op ∈ ops, OpOK bounds op)
include hops

/-- `FindContainsPoint` = the nodes whose bounds the point is `In` -/
theorem findContainsPoint_eq_filter (p : P) :
    (ids ((Tree.run fuel k ops).findContainsPoint p)).Perm ((specRun ops).filter (fun i => L.inPt p (bounds i))) :=
  find_spec bounds fuel k ops hops _ _ (fun a it hc hf => H.prune_point a it.rect p hc hf)

/-- `FindMatchedContainsPoint` -/
theorem findMatchedContainsPoint_eq_filter (m : Item R → Bool) (p : P) :
    (ids ((Tree.run fuel k ops).findMatchedContainsPoint m p)).Perm
      ((specRun ops).filter (fun i => L.inPt p (bounds i) && m ⟨i, bounds i⟩)) :=
  find_spec bounds fuel k ops hops _ _ (fun a it hc hf => H.prune_point a it.rect p hc (by
    simp only [Bool.and_eq_true] at hf; exact hf.1))

/-- `FindIntersects` = the nodes whose bounds `Intersects` the query -/
theorem findIntersects_eq_filter (q : R) :
    (ids ((Tree.run fuel k ops).findIntersects q)).Perm ((specRun ops).filter (fun i => L.intersects (bounds i) q)) :=
  find_spec bounds fuel k ops hops _ _ (fun a it hc hf => H.prune_intersects a it.rect q hc hf)

/-- `FindMatchedIntersects` -/
theorem findMatchedIntersects_eq_filter (m : Item R → Bool) (q : R) :
    (ids ((Tree.run fuel k ops).findMatchedIntersects m q)).Perm
      ((specRun ops).filter (fun i => L.intersects (bounds i) q && m ⟨i, bounds i⟩)) :=
  find_spec bounds fuel k ops hops _ _ (fun a it hc hf => H.prune_intersects a it.rect q hc (by
    simp only [Bool.and_eq_true] at hf; exact hf.1))

/-- `FindContainsRect` = the nodes whose bounds `Contains` the query -/
theorem findContainsRect_eq_filter (q : R) :
    (ids ((Tree.run fuel k ops).findContainsRect q)).Perm ((specRun ops).filter (fun i => L.contains (bounds i) q)) :=
  find_spec bounds fuel k ops hops _ _ (fun a it hc hf => H.prune_containsRect a it.rect q hc hf)

/-- `FindMatchedContainsRect` -/
theorem findMatchedContainsRect_eq_filter (m : Item R → Bool) (q : R) :
    (ids ((Tree.run fuel k ops).findMatchedContainsRect m q)).Perm
      ((specRun ops).filter (fun i => L.contains (bounds i) q && m ⟨i, bounds i⟩)) :=
  find_spec bounds fuel k ops hops _ _ (fun a it hc hf => H.prune_containsRect a it.rect q hc (by
    simp only [Bool.and_eq_true] at hf; exact hf.1))

/-- `FindContainedByRect` = the nodes whose bounds the query `Contains` -/
theorem findContainedByRect_eq_filter (q : R) :
    (ids ((Tree.run fuel k ops).findContainedByRect q)).Perm ((specRun ops).filter (fun i => L.contains q (bounds i))) :=
  find_spec bounds fuel k ops hops _ _ (fun a it hc hf => H.prune_containedBy a it.rect q hc hf)

/-- `FindMatchedContainedByRect` -/
theorem findMatchedContainedByRect_eq_filter (m : Item R → Bool) (q : R) :
    (ids ((Tree.run fuel k ops).findMatchedContainedByRect m q)).Perm
      ((specRun ops).filter (fun i => L.contains q (bounds i) && m ⟨i, bounds i⟩)) :=
  find_spec bounds fuel k ops hops _ _ (fun a it hc hf => H.prune_containedBy a it.rect q hc (by
    simp only [Bool.and_eq_true] at hf; exact hf.1))

omit hops H

/-- "each boolean query being true exactly when its Find* counterpart is non-empty" — all eight pairs, for every tree
    state whatsoever -/
theorem bool_iff_find_nonempty (t : QT.Tree R) (m : Item R → Bool) (p : P) (q : R) :
    t.containsPoint p = !(t.findContainsPoint p).isEmpty ∧
    t.matchedContainsPoint m p = !(t.findMatchedContainsPoint m p).isEmpty ∧
    t.intersects q = !(t.findIntersects q).isEmpty ∧
    t.matchedIntersects m q = !(t.findMatchedIntersects m q).isEmpty ∧
    t.containsRect q = !(t.findContainsRect q).isEmpty ∧
    t.matchedContainsRect m q = !(t.findMatchedContainsRect m q).isEmpty ∧
    t.containedByRect q = !(t.findContainedByRect q).isEmpty ∧
    t.matchedContainedByRect m q = !(t.findMatchedContainedByRect m q).isEmpty :=
  ⟨tree_any_eq _ _ _, tree_any_eq _ _ _, tree_any_eq _ _ _, tree_any_eq _ _ _, tree_any_eq _ _ _, tree_any_eq _ _ _,
   tree_any_eq _ _ _, tree_any_eq _ _ _⟩

/-- node insertion (split-and-reinsert of a full leaf included), every threshold and fuel: keeps the invariant
    "everything below a node is contained in its rectangle", keeps the rectangle, adds exactly the item -/
theorem insert_ok (threshold fuel : Nat) (n : Node R) (it : Item R) (hn : Node.Inv n)
    (hc : L.contains n.rect it.rect = true) :
    Node.Inv (Node.insert threshold fuel n it) ∧ (Node.insert threshold fuel n it).all.Perm (it :: n.all) ∧
    (Node.insert threshold fuel n it).rect = n.rect := Node.insert_ok threshold fuel n it hn hc

/-- a successful node removal keeps rectangle and invariant and takes out exactly one item with that id -/
theorem remove_ok (id : Nat) (b : R) (n n' : Node R) (h : Node.remove id b n = some n') :
    n'.rect = n.rect ∧ (Node.Inv n → Node.Inv n') ∧ ∃ x, x.id = id ∧ n.all.Perm (x :: n'.all) :=
  Node.remove_ok id b n n' h

/-- pruning is sound for removal: a stored item whose bounds are the ones it was stored with is always found -/
theorem remove_complete (id : Nat) (b : R) (n : Node R) (hi : Node.Inv n) (x : Item R) (hx : x ∈ n.all)
    (hid : x.id = id) (hb : x.rect = b) : (Node.remove id b n).isSome = true :=
  Node.remove_complete id b n hi x hx hid hb

end Generic

section Hist
variable {R P : Type} [L : RectOps R P] [H : RectLaws R P]

/-! ### the contract as the package states it: bounds fixed only WHILE a node is stored

`abs_run` … `findMatchedContainedByRect_eq_filter` fix one bounds function per history (`OpOK`).  The package only
demands that `Bounds()` stays the same until the node is removed: an object that is not stored may come back with other
bounds.  `QT.HistOK` is that contract (checked against the specification state before each operation), the
specification `QT.specRunI` is the multiset of stored ITEMS (id with the bounds it was inserted with); the `OpOK` form
is the special case `hist_of_opOK`.  The harness does this to its objects (`ins same-object-new-bounds` in the
evidence). -/

omit H in
/-- "Size and All report exactly the inserted, not-yet-removed nodes with non-empty bounds" under the history-dependent
    contract: the stored items are the specification's multiset, `Size` is their number, none is empty -/
theorem abs_run_hist (fuel : Nat) (k : Int) (ops : List (Op R)) (hops : HistOK ([] : List (Item R)) ops) :
    (Tree.run fuel k ops).all.Perm (specRunI ops) ∧ (Tree.run fuel k ops).size = ((specRunI ops).length : Int) ∧
    ∀ it ∈ (Tree.run fuel k ops).all, L.empty it.rect = false := by
  obtain ⟨⟨bd, hb⟩, hp⟩ := run_okI fuel k ops hops
  exact ⟨hp, size_okI fuel k ops hops, fun it hit => (hb.keyed it hit).2⟩

/-- all eight `Find*` queries under the history-dependent contract: each returns, as a multiset of items, the linear
    scan of the specification with the corresponding `geom` predicate (and the matcher) -/
theorem queries_hist (fuel : Nat) (k : Int) (ops : List (Op R)) (hops : HistOK ([] : List (Item R)) ops)
    (m : Item R → Bool) (p : P) (q : R) :
    let t := Tree.run fuel k ops
    let s := specRunI ops
    (t.findContainsPoint p).Perm (s.filter (fun it => L.inPt p it.rect)) ∧
    (t.findMatchedContainsPoint m p).Perm (s.filter (fun it => L.inPt p it.rect && m it)) ∧
    (t.findIntersects q).Perm (s.filter (fun it => L.intersects it.rect q)) ∧
    (t.findMatchedIntersects m q).Perm (s.filter (fun it => L.intersects it.rect q && m it)) ∧
    (t.findContainsRect q).Perm (s.filter (fun it => L.contains it.rect q)) ∧
    (t.findMatchedContainsRect m q).Perm (s.filter (fun it => L.contains it.rect q && m it)) ∧
    (t.findContainedByRect q).Perm (s.filter (fun it => L.contains q it.rect)) ∧
    (t.findMatchedContainedByRect m q).Perm (s.filter (fun it => L.contains q it.rect && m it)) := by
  have and1 : ∀ {a b : Bool}, (a && b) = true → a = true := fun h => by
    simp only [Bool.and_eq_true] at h; exact h.1
  exact ⟨find_okI fuel k ops hops _ _ (fun a it hc hf => H.prune_point a it.rect p hc hf),
    find_okI fuel k ops hops _ _ (fun a it hc hf => H.prune_point a it.rect p hc (and1 hf)),
    find_okI fuel k ops hops _ _ (fun a it hc hf => H.prune_intersects a it.rect q hc hf),
    find_okI fuel k ops hops _ _ (fun a it hc hf => H.prune_intersects a it.rect q hc (and1 hf)),
    find_okI fuel k ops hops _ _ (fun a it hc hf => H.prune_containsRect a it.rect q hc hf),
    find_okI fuel k ops hops _ _ (fun a it hc hf => H.prune_containsRect a it.rect q hc (and1 hf)),
    find_okI fuel k ops hops _ _ (fun a it hc hf => H.prune_containedBy a it.rect q hc hf),
    find_okI fuel k ops hops _ _ (fun a it hc hf => H.prune_containedBy a it.rect q hc (and1 hf))⟩

omit H in
/-- the one-bounds-function contract of `abs_run` is a special case of the history-dependent one -/
theorem hist_of_opOK (bounds : Nat → R) (ops : List (Op R)) (hops : ∀ op ∈ ops, OpOK bounds op) :
    HistOK ([] : List (Item R)) ops :=
  histOK_of_opOK bounds ops hops [] (fun x hx => by simp at hx)

omit H in
/-- "This holds for every threshold" (and every fuel), and `Reorganize` / a change of `Threshold` are invisible: two
    runs of histories that differ only in the initial threshold, the fuel, and in `Reorganize` / `setThreshold`
    operations put anywhere (i.e. that have the same specification) answer every query with the same multiset -/
theorem threshold_reorganize_invisible (fuel fuel' : Nat) (k k' : Int) (ops ops' : List (Op R))
    (hops : HistOK ([] : List (Item R)) ops) (hops' : HistOK ([] : List (Item R)) ops')
    (hspec : (specRunI ops).Perm (specRunI ops'))
    (pr : R → Bool) (f : Item R → Bool)
    (hpr : ∀ (a : R) (it : Item R), L.contains a it.rect = true → f it = true → pr a = true) :
    ((Tree.run fuel k ops).find pr f).Perm ((Tree.run fuel' k' ops').find pr f) ∧
    (Tree.run fuel k ops).size = (Tree.run fuel' k' ops').size :=
  ⟨(find_okI fuel k ops hops pr f hpr).trans ((hspec.filter f).trans (find_okI fuel' k' ops' hops' pr f hpr).symm),
   by rw [size_okI fuel k ops hops, size_okI fuel' k' ops' hops', hspec.length_eq]⟩

omit H in
/-- the specification does not see `Reorganize` and `setThreshold`: appending them (the form in which
    `threshold_reorganize_invisible` is used most) leaves `specRunI` unchanged -/
theorem spec_ignores_reorganize (ops : List (Op R)) (k : Int) :
    specRunI (ops ++ [Op.reorganize]) = specRunI ops ∧ specRunI (ops ++ [Op.setThreshold k]) = specRunI ops := by
  simp [specRunI, List.foldl_append, specApplyI]

end Hist

/-! ### the two coordinate types that are run -/
open Geom

theorem abs_run_int (bounds : Nat → Rect Int) (fuel : Nat) (k : Int) (ops : List (Op (Rect Int)))
    (hops : ∀ op ∈ ops, OpOK bounds op) :
    (ids (Tree.run fuel k ops).all).Perm (specRun ops) ∧ (Tree.run fuel k ops).size = ((specRun ops).length : Int) :=
  ⟨(abs_run bounds fuel k ops hops).1, size_run bounds fuel k ops hops⟩

theorem abs_run_rat (bounds : Nat → Rect Rat) (fuel : Nat) (k : Int) (ops : List (Op (Rect Rat)))
    (hops : ∀ op ∈ ops, OpOK bounds op) :
    (ids (Tree.run fuel k ops).all).Perm (specRun ops) ∧ (Tree.run fuel k ops).size = ((specRun ops).length : Int) :=
  ⟨(abs_run bounds fuel k ops hops).1, size_run bounds fuel k ops hops⟩

/-- the four unmatched queries at `Rect Int`, with `geom`'s own predicates spelled out -/
theorem queries_int (bounds : Nat → Rect Int) (fuel : Nat) (k : Int) (ops : List (Op (Rect Int)))
    (hops : ∀ op ∈ ops, OpOK bounds op) (p : Point Int) (q : Rect Int) :
    (ids ((Tree.run fuel k ops).findContainsPoint p)).Perm ((specRun ops).filter (fun i => p.inRect (bounds i))) ∧
    (ids ((Tree.run fuel k ops).findIntersects q)).Perm ((specRun ops).filter (fun i => (bounds i).intersects q)) ∧
    (ids ((Tree.run fuel k ops).findContainsRect q)).Perm ((specRun ops).filter (fun i => (bounds i).contains q)) ∧
    (ids ((Tree.run fuel k ops).findContainedByRect q)).Perm ((specRun ops).filter (fun i => q.contains (bounds i))) :=
  ⟨findContainsPoint_eq_filter bounds fuel k ops hops p, findIntersects_eq_filter bounds fuel k ops hops q,
   findContainsRect_eq_filter bounds fuel k ops hops q, findContainedByRect_eq_filter bounds fuel k ops hops q⟩

/-- the same at `Rect Rat` (exact `float64`) -/
theorem queries_rat (bounds : Nat → Rect Rat) (fuel : Nat) (k : Int) (ops : List (Op (Rect Rat)))
    (hops : ∀ op ∈ ops, OpOK bounds op) (p : Point Rat) (q : Rect Rat) :
    (ids ((Tree.run fuel k ops).findContainsPoint p)).Perm ((specRun ops).filter (fun i => p.inRect (bounds i))) ∧
    (ids ((Tree.run fuel k ops).findIntersects q)).Perm ((specRun ops).filter (fun i => (bounds i).intersects q)) ∧
    (ids ((Tree.run fuel k ops).findContainsRect q)).Perm ((specRun ops).filter (fun i => (bounds i).contains q)) ∧
    (ids ((Tree.run fuel k ops).findContainedByRect q)).Perm ((specRun ops).filter (fun i => q.contains (bounds i))) :=
  ⟨findContainsPoint_eq_filter bounds fuel k ops hops p, findIntersects_eq_filter bounds fuel k ops hops q,
   findContainsRect_eq_filter bounds fuel k ops hops q, findContainedByRect_eq_filter bounds fuel k ops hops q⟩

/-! ### fuel -/

/-- **splitting terminates for integer coordinates**: `QT.Good` (every split node is non-empty, its empty children are
    untouched leaves and its non-empty children have a strictly smaller `W + H`) holds for a fresh leaf, is kept by
    node insertion with *every* threshold and fuel, and bounds the depth of every good node by `W + H` of its
    rectangle.  Hence no node of an integer quadtree ever sits deeper than `W + H` of the root, and fuel
    `W + H + 1` can never run out (`Tree.fuelOK`).  (False for the code before its repair: a 1×1 node had a 1×1
    child 3.) -/
theorem split_terminates_int (threshold fuel : Nat) (n : Node (Rect Int)) (it : Item (Rect Int))
    (hn : Good n) (hr : n.rect.empty = false) :
    Good (Node.insert threshold fuel n it) ∧ (Node.insert threshold fuel n it).rect = n.rect ∧
    (Node.insert threshold fuel n it).depth ≤ (n.rect.w + n.rect.h).toNat := by
  obtain ⟨a, b⟩ := insert_good threshold fuel n it hn hr
  refine ⟨a, b, ?_⟩
  have := depth_le_meas _ a (by rw [b]; exact hr)
  rw [b] at this; exact this

/-- the same over a whole `Reorganize`: the root built by the re-insertion loop from the fresh leaf is no deeper than
    `W + H` of the new root rectangle -/
theorem reorganize_depth_int (threshold fuel : Nat) (rect : Rect Int) (hr : rect.empty = false)
    (items : List (Item (Rect Int))) :
    (items.foldl (Tree.reorgStep rect threshold fuel) (Node.leaf rect [], [])).1.depth ≤ (rect.w + rect.h).toNat := by
  obtain ⟨a, b⟩ := reorgFold_good rect threshold fuel items (Node.leaf rect [], []) trivial rfl hr
  have := depth_le_meas _ a (by rw [b]; exact hr)
  rw [b] at this; exact this

/-- **fuel suffices, for every history**: if every inserted non-empty integer rectangle lies within a box and the fuel
    exceeds `W + H` of the box, then after any history (contract `OpOK` as in `abs_run`), and after each of its
    prefixes — the driver answers after every operation —, no node of the tree is deeper than `W + H` of the box and
    the driver's criterion `Tree.fuelOK` holds, i.e. the fuelled model never answers `out-of-fuel` on integer
    rectangles -/
theorem fuel_suffices_int (bounds : Nat → Rect Int) (box : Rect Int) (fuel : Nat) (k : Int)
    (ops : List (Op (Rect Int))) (hops : ∀ op ∈ ops, OpOK bounds op) (hbox : ∀ op ∈ ops, InBox box op)
    (hfuel : (box.w + box.h).toNat < fuel) (n : Nat) :
    (Tree.run fuel k (ops.take n)).fuelOK fuel = true ∧
    ∀ r, (Tree.run fuel k (ops.take n)).root = some r → r.depth ≤ (box.w + box.h).toNat := by
  have hf := run_finv bounds box fuel k (ops.take n) (fun op h => hops op (List.mem_of_mem_take h))
    (fun op h => hbox op (List.mem_of_mem_take h))
  have key : ∀ r, (Tree.run fuel k (ops.take n)).root = some r → r.depth ≤ (box.w + box.h).toNat := by
    intro r hr
    obtain ⟨g, ne, hb⟩ := hf.root r hr
    exact Nat.le_trans (depth_le_meas r g ne) (meas_mono box r.rect hb)
  refine ⟨?_, key⟩
  unfold Tree.fuelOK
  cases hr : (Tree.run fuel k (ops.take n)).root with
  | none => rfl
  | some r => simp only [decide_eq_true_eq]; exact Nat.lt_of_le_of_lt (key r hr) hfuel

/-- **the fuel does not influence the result**: on a good non-empty integer node any two fuels of at least `W + H` of
    its rectangle give the same tree, so the fuel-0 fallback is never taken and the fuelled recursion computes what the
    unbounded recursion of the Go code computes -/
theorem fuel_independent_int (threshold f f' : Nat) (n : Node (Rect Int)) (it : Item (Rect Int)) (hn : Good n)
    (hr : n.rect.empty = false) (h1 : (n.rect.w + n.rect.h).toNat ≤ f) (h2 : (n.rect.w + n.rect.h).toNat ≤ f') :
    Node.insert threshold f n it = Node.insert threshold f' n it :=
  insert_fuel_indep threshold f f' n it hn hr h1 h2

/-- **depth bound for exact rational coordinates** (float64 without rounding): halving never reaches zero, so there is no
    bound by `W + H`; instead every child is exactly half as wide as its parent and a node is split only while an item
    that it contains is being routed into it.  `QT.GoodQ m` (every stored item is at least `m` wide, every split node is
    at least `m` wide, children are half as wide) is kept by node insertion with every threshold and fuel, and a good
    node narrower than `m · 2^k` is at most `k` levels deep: the depth is logarithmic in root width / smallest item
    width.  With the driver's fuel 200 this covers every ratio below 2^199. -/
theorem split_depth_rat (m : Rat) (threshold fuel : Nat) (n : Node (Rect Rat)) (it : Item (Rect Rat))
    (hn : GoodQ m n) (hc : n.rect.contains it.rect = true) (hi : m ≤ it.rect.w) :
    GoodQ m (Node.insert threshold fuel n it) ∧ (Node.insert threshold fuel n it).rect = n.rect ∧
    ∀ k : Nat, n.rect.w < m * 2 ^ k → (Node.insert threshold fuel n it).depth ≤ k := by
  obtain ⟨a, b⟩ := insert_goodQ m threshold fuel n it hn hc hi
  exact ⟨a, b, fun k hk => depthQ m _ a k (by rw [b]; exact hk)⟩

/-- the same over a whole `Reorganize`: the root built by the re-insertion loop from the fresh leaf over `rect`, from
    items that are all at least `m` wide, is at most `k` levels deep if `rect` is narrower than `m · 2^k`.  (Lifted to whole
    histories by `fuel_suffices_rat`, fuel independence: `fuel_irrelevant_rat`.) -/
theorem reorganize_depth_rat (m : Rat) (threshold fuel : Nat) (rect : Rect Rat) (items : List (Item (Rect Rat)))
    (hitems : ∀ x ∈ items, m ≤ x.rect.w) (k : Nat) (hk : rect.w < m * 2 ^ k) :
    (items.foldl (Tree.reorgStep rect threshold fuel) (Node.leaf rect [], [])).1.depth ≤ k := by
  obtain ⟨a, b⟩ := reorgFold_goodQ m rect threshold fuel items hitems (Node.leaf rect [], [])
    (fun x hx => by simp at hx) rfl
  exact depthQ m _ a k (by rw [b]; exact hk)

/-- the step this rests on: when an integer node splits (`canSplit`: half-width or half-height positive), every child
    that can receive an item (non-empty child) has a strictly smaller `W + H` than its parent — including child 0
    with its `hw × hw` size -/
theorem split_progress_int (r : Rect Int) (hr : r.empty = false) (hs : canSplit halfInt r = true) :
    let q := quadrants halfInt r
    (q.1.empty = false → q.1.w + q.1.h < r.w + r.h) ∧ (q.2.1.empty = false → q.2.1.w + q.2.1.h < r.w + r.h) ∧
    (q.2.2.1.empty = false → q.2.2.1.w + q.2.2.1.h < r.w + r.h) ∧
    (q.2.2.2.empty = false → q.2.2.2.w + q.2.2.2.h < r.w + r.h) := by
  have hw : 0 < r.w ∧ 0 < r.h := nonempty_pos r hr
  have e1 : halfInt r.w = r.w / 2 := by
    unfold halfInt; exact Int.tdiv_eq_ediv_of_nonneg (by omega)
  have e2 : halfInt r.h = r.h / 2 := by
    unfold halfInt; exact Int.tdiv_eq_ediv_of_nonneg (by omega)
  simp only [canSplit, e1, e2, Bool.not_eq_true', Bool.and_eq_false_iff, decide_eq_false_iff_not, Int.not_le] at hs
  simp only [quadrants, e1, e2, Rect.empty, Bool.or_eq_false_iff, decide_eq_false_iff_not, Int.not_le]
  refine ⟨fun _ => ?_, fun _ => ?_, fun _ => ?_, fun _ => ?_⟩ <;> omega

/-! non-vacuity: a history that satisfies the contract -/
example : ∀ op ∈ ([Op.insert ⟨1, ⟨0, 0, 1, 1⟩⟩, Op.remove 1 ⟨0, 0, 1, 1⟩, Op.reorganize] : List (Op (Rect Int))),
    OpOK (fun _ => ⟨0, 0, 1, 1⟩) op := by
  intro op h
  simp only [List.mem_cons, List.not_mem_nil, or_false] at h
  rcases h with h | h | h <;> subst h <;> simp [OpOK]

/-! a history that satisfies the history-dependent contract but NO single bounds function: object 1 is stored at
    `(0,0,1,1)`, removed, and comes back at `(5,5,2,2)` -/
example : HistOK ([] : List (Item (Rect Int)))
    [Op.insert ⟨1, ⟨0, 0, 1, 1⟩⟩, Op.remove 1 ⟨0, 0, 1, 1⟩, Op.insert ⟨1, ⟨5, 5, 2, 2⟩⟩, Op.reorganize] := by
  simp [HistOK, OpOKI, specApplyI, RectOps.empty, Rect.empty]

example : ¬ ∃ bounds : Nat → Rect Int, ∀ op ∈ ([Op.insert ⟨1, ⟨0, 0, 1, 1⟩⟩, Op.remove 1 ⟨0, 0, 1, 1⟩,
    Op.insert ⟨1, ⟨5, 5, 2, 2⟩⟩] : List (Op (Rect Int))), OpOK bounds op := by
  intro ⟨b, h⟩
  have h1 := h (Op.insert ⟨1, ⟨0, 0, 1, 1⟩⟩) (by simp)
  have h2 := h (Op.insert ⟨1, ⟨5, 5, 2, 2⟩⟩) (by simp)
  simp only [OpOK] at h1 h2
  rw [← h1] at h2
  simp at h2

/-- the contract is needed (CONTRAST): if an object's bounds change WHILE it is stored, `Remove` — which descends below
    a subdivided tree node only when that node's rectangle contains the bounds it is given — does not find the entry, so
    `All` keeps a node the specification has removed.  Here node 1 sits in a quadrant of a subdivided 8×8 root and is
    removed under the bounds `(100,100,1,1)`, outside the root.  (Bounds that moved to ANOTHER QUADRANT of the same parent
    would still be found: below a containing parent all four children are tried.)  The history is built from the
    repository's own `MinQuadTreeThreshold` (`T` = the effective threshold it gives, `T + 1` unit squares make the root
    split), so the statement follows a change of the two threshold constants. -/
theorem contract_needed :
    let k : Int := Facts.quadtree_MinQuadTreeThreshold
    let T : Nat := (Tree.empty k : QT.Tree (Rect Int)).thr
    let ops : List (Op (Rect Int)) :=
      [Op.insert ⟨0, ⟨0, 0, 8, 8⟩⟩, Op.reorganize] ++
      (List.range (T + 1)).map (fun i => Op.insert ⟨i + 1, ⟨1, 1, 1, 1⟩⟩) ++ [Op.remove 1 ⟨100, 100, 1, 1⟩]
    ¬ HistOK ([] : List (Item (Rect Int))) ops ∧ 1 ∈ ids (Tree.run 10 k ops).all ∧ 1 ∉ ids (specRunI ops) := by
  intro k T ops
  have h1 : 1 ∈ ids (Tree.run 10 k ops).all := by decide
  have h2 : 1 ∉ ids (specRunI ops) := by decide
  refine ⟨fun h => ?_, h1, h2⟩
  have hp := ((abs_run_hist 10 k ops h).1.map (·.id)).mem_iff (a := 1)
  exact h2 (hp.mp h1)

/-! ### machine integers (Go `int`) -/

/-- what a history over machine integers must satisfy for the transfer: every inserted rectangle is empty or lies in
    the box `[-2^60, 2^60]²` (`QT.DItem`), and the bounds handed to `Remove` do not wrap (`QT.Safe`) -/
abbrev InBox64 (op : Op (Rect Int64)) : Prop := OpDom Safe DItem op

/-- **the tree over Go's `int` is the tree over ℤ**: for a history inside the box, the model run at machine integers
    (`QT.instI64`: wrapping `+`, `-`, truncating `/2`, signed comparisons — what the driver runs for the `w` histories
    and what the Go code computes) builds, node for node and entry for entry, the image under `Int64.toInt` of the tree
    the unbounded-integer model builds; no `Right()`, `Bottom()`, `Union` or quadrant computation wraps, including the
    `hw × hw` child 0 that sticks out of a wide parent -/
theorem int64_run (fuel : Nat) (k : Int) (ops : List (Op (Rect Int64))) (hops : ∀ op ∈ ops, InBox64 op) :
    QT.Tree.map toIntR (Tree.run fuel k ops) = Tree.run fuel k (ops.map (Op.map toIntR)) ∧
    (Tree.run fuel k ops).size = (Tree.run fuel k (ops.map (Op.map toIntR))).size ∧
    (Tree.run fuel k ops).fuelOK fuel = (Tree.run fuel k (ops.map (Op.map toIntR))).fuelOK fuel :=
  ⟨(run_sim simI64 fuel k ops hops).2, (obs_sim simI64 fuel k ops hops).1.symm, (obs_sim simI64 fuel k ops hops).2.2.1.symm⟩

/-- all sixteen queries of the machine-integer tree answer as the queries of the unbounded-integer tree do (query
    rectangle without wrap, any point, any matcher) -/
theorem int64_queries (fuel : Nat) (k : Int) (ops : List (Op (Rect Int64))) (hops : ∀ op ∈ ops, InBox64 op)
    (m : Item (Rect Int) → Bool) (p : Point Int64) (q : Rect Int64) (hq : Safe q) :
    let t := Tree.run fuel k ops
    let t' := Tree.run fuel k (ops.map (Op.map toIntR))
    let m' : Item (Rect Int64) → Bool := fun it => m (Item.map toIntR it)
    (ids (t.findContainsPoint p) = ids (t'.findContainsPoint (toIntP p)) ∧
      t.containsPoint p = t'.containsPoint (toIntP p)) ∧
    (ids (t.findMatchedContainsPoint m' p) = ids (t'.findMatchedContainsPoint m (toIntP p)) ∧
      t.matchedContainsPoint m' p = t'.matchedContainsPoint m (toIntP p)) ∧
    (ids (t.findIntersects q) = ids (t'.findIntersects (toIntR q)) ∧ t.intersects q = t'.intersects (toIntR q)) ∧
    (ids (t.findMatchedIntersects m' q) = ids (t'.findMatchedIntersects m (toIntR q)) ∧
      t.matchedIntersects m' q = t'.matchedIntersects m (toIntR q)) ∧
    (ids (t.findContainsRect q) = ids (t'.findContainsRect (toIntR q)) ∧ t.containsRect q = t'.containsRect (toIntR q)) ∧
    (ids (t.findMatchedContainsRect m' q) = ids (t'.findMatchedContainsRect m (toIntR q)) ∧
      t.matchedContainsRect m' q = t'.matchedContainsRect m (toIntR q)) ∧
    (ids (t.findContainedByRect q) = ids (t'.findContainedByRect (toIntR q)) ∧
      t.containedByRect q = t'.containedByRect (toIntR q)) ∧
    (ids (t.findMatchedContainedByRect m' q) = ids (t'.findMatchedContainedByRect m (toIntR q)) ∧
      t.matchedContainedByRect m' q = t'.matchedContainedByRect m (toIntR q)) := by
  intro t t' m'
  have key := (obs_sim simI64 fuel k ops hops).2.2.2
  have sym : ∀ {a b : List Nat} {c d : Bool}, a = b ∧ c = d → b = a ∧ d = c := fun h => ⟨h.1.symm, h.2.symm⟩
  have ip : ∀ r, Safe r → RectOps.inPt (toIntP p) (toIntR r) = RectOps.inPt p r := fun r h => inPt_toInt p r h
  have ix : ∀ r, Safe r → RectOps.intersects (toIntR r) (toIntR q) = RectOps.intersects r q :=
    fun r h => intersects_toInt r q h hq
  have c1 : ∀ r, Safe r → RectOps.contains (toIntR r) (toIntR q) = RectOps.contains r q :=
    fun r h => contains_toInt r q h hq
  have c2 : ∀ r, Safe r → RectOps.contains (toIntR q) (toIntR r) = RectOps.contains q r :=
    fun r h => contains_toInt q r hq h
  refine ⟨sym (key _ _ _ _ (fun r h => ip r h.safe) (fun it h => ip _ h.safe)),
    sym (key _ _ _ _ (fun r h => ip r h.safe) (fun it h => by simp only [Item.map_rect, ip _ h.safe]; rfl)),
    sym (key _ _ _ _ (fun r h => ix r h.safe) (fun it h => ix _ h.safe)),
    sym (key _ _ _ _ (fun r h => ix r h.safe) (fun it h => by simp only [Item.map_rect, ix _ h.safe]; rfl)),
    sym (key _ _ _ _ (fun r h => ix r h.safe) (fun it h => c1 _ h.safe)),
    sym (key _ _ _ _ (fun r h => ix r h.safe) (fun it h => by simp only [Item.map_rect, c1 _ h.safe]; rfl)),
    sym (key _ _ _ _ (fun r h => ix r h.safe) (fun it h => c2 _ h.safe)),
    sym (key _ _ _ _ (fun r h => ix r h.safe) (fun it h => by simp only [Item.map_rect, c2 _ h.safe]; rfl))⟩

/-- **the property for Go's `int`, stated with the machine's own predicates**: if every object's bounds are a non-empty
    rectangle inside the box `[-2^60, 2^60]²` or an `Empty` rectangle that does not wrap (`QT.DBounds`; `Insert` ignores
    those), then after any history (contract `OpOK`) `Size`/`All` of the
    machine-integer tree report the specification's multiset and the four `Find*` families return exactly the stored
    nodes whose bounds satisfy `geom`'s predicate AS THE MACHINE EVALUATES IT (`Geom.Rect Int64`), for every point and
    every query rectangle that does not wrap.  (Matched and boolean forms: `int64_queries` composed with the theorems
    above.) -/
theorem int64_linear_scan (bounds : Nat → Rect Int64) (hb : ∀ i, DBounds (bounds i)) (fuel : Nat) (k : Int)
    (ops : List (Op (Rect Int64))) (hops : ∀ op ∈ ops, OpOK bounds op) (p : Point Int64) (q : Rect Int64) (hq : Safe q) :
    let t := Tree.run fuel k ops
    (ids t.all).Perm (specRun ops) ∧ t.size = ((specRun ops).length : Int) ∧
    (ids (t.findContainsPoint p)).Perm ((specRun ops).filter (fun i => p.inRect (bounds i))) ∧
    (ids (t.findIntersects q)).Perm ((specRun ops).filter (fun i => (bounds i).intersects q)) ∧
    (ids (t.findContainsRect q)).Perm ((specRun ops).filter (fun i => (bounds i).contains q)) ∧
    (ids (t.findContainedByRect q)).Perm ((specRun ops).filter (fun i => q.contains (bounds i))) := by
  intro t
  have hdom : ∀ op ∈ ops, InBox64 op := fun op hop => opDom_of_opOK bounds hb op (hops op hop)
  have hops' := opOK_map bounds ops hops
  obtain ⟨a1, a2⟩ := abs_run_int _ fuel k _ hops'
  obtain ⟨q1, q2, q3, q4⟩ := queries_int _ fuel k _ hops' (toIntP p) (toIntR q)
  obtain ⟨_, s1, _⟩ := int64_run fuel k ops hdom
  obtain ⟨o1, o2, _, _⟩ := obs_sim simI64 fuel k ops hdom
  obtain ⟨⟨e1, _⟩, _, ⟨e3, _⟩, _, ⟨e5, _⟩, _, ⟨e7, _⟩, _⟩ := int64_queries fuel k ops hdom (fun _ => true) p q hq
  rw [specRun_map simI64] at a1 a2 q1 q2 q3 q4
  have f1 : (fun i => (toIntP p).inRect (toIntR (bounds i))) = (fun i => p.inRect (bounds i)) :=
    funext fun i => inPt_toInt p _ (hb i).safe
  have f2 : (fun i => (toIntR (bounds i)).intersects (toIntR q)) = (fun i => (bounds i).intersects q) :=
    funext fun i => intersects_toInt _ _ (hb i).safe hq
  have f3 : (fun i => (toIntR (bounds i)).contains (toIntR q)) = (fun i => (bounds i).contains q) :=
    funext fun i => contains_toInt _ _ (hb i).safe hq
  have f4 : (fun i => (toIntR q).contains (toIntR (bounds i))) = (fun i => q.contains (bounds i)) :=
    funext fun i => contains_toInt _ _ hq (hb i).safe
  rw [f1] at q1; rw [f2] at q2; rw [f3] at q3; rw [f4] at q4
  refine ⟨?_, ?_, ?_, ?_, ?_, ?_⟩
  · show (ids (Tree.run fuel k ops).all).Perm _; rw [← o2]; exact a1
  · show (Tree.run fuel k ops).size = _; rw [s1]; exact a2
  · show (ids ((Tree.run fuel k ops).findContainsPoint p)).Perm _; rw [e1]; exact q1
  · show (ids ((Tree.run fuel k ops).findIntersects q)).Perm _; rw [e3]; exact q2
  · show (ids ((Tree.run fuel k ops).findContainsRect q)).Perm _; rw [e5]; exact q3
  · show (ids ((Tree.run fuel k ops).findContainedByRect q)).Perm _; rw [e7]; exact q4

/-- the same for the four matched families (matcher on the node's identity, as the harness uses) -/
theorem int64_linear_scan_matched (bounds : Nat → Rect Int64) (hb : ∀ i, DBounds (bounds i)) (fuel : Nat) (k : Int)
    (ops : List (Op (Rect Int64))) (hops : ∀ op ∈ ops, OpOK bounds op) (mi : Nat → Bool) (p : Point Int64)
    (q : Rect Int64) (hq : Safe q) :
    let t := Tree.run fuel k ops
    let m : Item (Rect Int64) → Bool := fun it => mi it.id
    (ids (t.findMatchedContainsPoint m p)).Perm ((specRun ops).filter (fun i => p.inRect (bounds i) && mi i)) ∧
    (ids (t.findMatchedIntersects m q)).Perm ((specRun ops).filter (fun i => (bounds i).intersects q && mi i)) ∧
    (ids (t.findMatchedContainsRect m q)).Perm ((specRun ops).filter (fun i => (bounds i).contains q && mi i)) ∧
    (ids (t.findMatchedContainedByRect m q)).Perm ((specRun ops).filter (fun i => q.contains (bounds i) && mi i)) := by
  intro t m
  have hdom : ∀ op ∈ ops, InBox64 op := fun op hop => opDom_of_opOK bounds hb op (hops op hop)
  have hops' := opOK_map bounds ops hops
  have q1 := findMatchedContainsPoint_eq_filter _ fuel k _ hops' (fun it => mi it.id) (toIntP p)
  have q2 := findMatchedIntersects_eq_filter _ fuel k _ hops' (fun it => mi it.id) (toIntR q)
  have q3 := findMatchedContainsRect_eq_filter _ fuel k _ hops' (fun it => mi it.id) (toIntR q)
  have q4 := findMatchedContainedByRect_eq_filter _ fuel k _ hops' (fun it => mi it.id) (toIntR q)
  obtain ⟨_, ⟨e2, _⟩, _, ⟨e4, _⟩, _, ⟨e6, _⟩, _, ⟨e8, _⟩⟩ := int64_queries fuel k ops hdom (fun it => mi it.id) p q hq
  rw [specRun_map simI64] at q1 q2 q3 q4
  have f1 : (fun i => RectOps.inPt (toIntP p) (toIntR (bounds i)) && mi i) = (fun i => p.inRect (bounds i) && mi i) :=
    funext fun i => by rw [show RectOps.inPt (toIntP p) (toIntR (bounds i)) = _ from inPt_toInt p _ (hb i).safe]
  have f2 : (fun i => RectOps.intersects (toIntR (bounds i)) (toIntR q) && mi i) =
      (fun i => (bounds i).intersects q && mi i) :=
    funext fun i => by
      rw [show RectOps.intersects (toIntR (bounds i)) (toIntR q) = _ from intersects_toInt _ _ (hb i).safe hq]
  have f3 : (fun i => RectOps.contains (toIntR (bounds i)) (toIntR q) && mi i) = (fun i => (bounds i).contains q && mi i) :=
    funext fun i => by rw [show RectOps.contains (toIntR (bounds i)) (toIntR q) = _ from contains_toInt _ _ (hb i).safe hq]
  have f4 : (fun i => RectOps.contains (toIntR q) (toIntR (bounds i)) && mi i) = (fun i => q.contains (bounds i) && mi i) :=
    funext fun i => by rw [show RectOps.contains (toIntR q) (toIntR (bounds i)) = _ from contains_toInt _ _ hq (hb i).safe]
  rw [f1] at q1; rw [f2] at q2; rw [f3] at q3; rw [f4] at q4
  exact ⟨e2 ▸ q1, e4 ▸ q2, e6 ▸ q3, e8 ▸ q4⟩

/-- non-vacuity: a history over machine integers inside the box (a square of side 2^60 with a unit square in it) -/
example : ∀ op ∈ ([Op.insert ⟨0, ⟨-576460752303423488, -576460752303423488, 1152921504606846976, 1152921504606846976⟩⟩,
    Op.insert ⟨1, ⟨3, 3, 1, 1⟩⟩, Op.remove 1 ⟨3, 3, 1, 1⟩, Op.reorganize] : List (Op (Rect Int64))), InBox64 op := by
  intro op h
  simp only [List.mem_cons, List.not_mem_nil, or_false] at h
  rcases h with h | h | h | h <;> subst h
  · exact Or.inr (by decide)
  · exact Or.inr (by decide)
  · show Safe _; decide
  · trivial

/-- the box is needed (CONTRAST, a known finding of the unchanged code): at the end of the `int64` range `Right()` of
    the query wraps negative, `geom`'s `Contains` and `Intersects` become inconsistent, and the `Intersects`-pruned
    `FindContainsRect` of the machine-integer model — like the Go code — returns nothing although the stored node
    `Contains` the query by the machine's own predicate: node 6 = `(MaxInt64-27, 31, 10, 17)`, `Reorganize`, query
    `(MaxInt64-24, 46, 68, 1)`, whose computed `Right()` lies left of its `X` (the hypothesis `QT.Proper` of
    `queries_any_arithmetic` fails) -/
theorem int64_box_needed :
    let b : Rect Int64 := ⟨9223372036854775780, 31, 10, 17⟩
    let q : Rect Int64 := ⟨9223372036854775783, 46, 68, 1⟩
    let t := Tree.run 10 4 [Op.insert ⟨6, b⟩, Op.reorganize]
    ids t.all = [6] ∧ b.contains q = true ∧ ids (t.findContainsRect q) = [] ∧ ¬ Safe q ∧ ¬ q.x < q.right := by
  decide

/-- the second known finding (CONTRAST for the other condition of `queries_any_arithmetic`): a STORED rectangle whose
    `Right()` wraps.  Node 10 = `(MaxInt64-9, 8, 20, 2)`, `Reorganize`, query `(MaxInt64-122, 6, 46, 13)`: by the
    machine's predicate the query `Contains` the node, yet `FindContainedByRect` of the machine-integer model — like the
    Go code — returns nothing; the stored rectangle is not `Proper` -/
theorem int64_stored_wrap_needed :
    let b : Rect Int64 := ⟨9223372036854775798, 8, 20, 2⟩
    let q : Rect Int64 := ⟨9223372036854775685, 6, 46, 13⟩
    let t := Tree.run 10 4 [Op.insert ⟨10, b⟩, Op.reorganize]
    ids t.all = [10] ∧ q.contains b = true ∧ ids (t.findContainedByRect q) = [] ∧ ¬ b.x < b.right ∧ q.x < q.right := by
  decide

/-! ### fuel at the scale that is run -/

/-- **logarithmic depth, every history**: if every inserted non-empty integer rectangle lies within a box whose sides
    are at most `2^j`, then after any history and each of its prefixes no node is deeper than `j + 1`, and every fuel
    above `j + 1` passes the driver's criterion `Tree.fuelOK`.  (`fuel_suffices_int` needs fuel above `W + H` of the box,
    which the histories that are run — squares of side 2^60 — exceed by far; here `j = 61` and the driver's fuel 200
    suffice for every integer history inside `[-2^60, 2^60]²`.)  The measure behind it, `QT.LogFuel.meas`: the longer side
    of every non-empty child, the `hw × hw` child 0 included, is at most half (rounded up) the longer side of its
    parent. -/
theorem fuel_suffices_int_log (bounds : Nat → Rect Int) (box : Rect Int) (j : Nat) (hw : box.w ≤ 2 ^ j)
    (hh : box.h ≤ 2 ^ j) (fuel : Nat) (k : Int) (ops : List (Op (Rect Int))) (hops : ∀ op ∈ ops, OpOK bounds op)
    (hbox : ∀ op ∈ ops, InBox box op) (hfuel : j + 1 < fuel) (n : Nat) :
    (Tree.run fuel k (ops.take n)).fuelOK fuel = true ∧
    ∀ r, (Tree.run fuel k (ops.take n)).root = some r → r.depth ≤ j + 1 := by
  have hf := LogFuel.run_finv bounds box fuel k (ops.take n) (fun op h => hops op (List.mem_of_mem_take h))
    (fun op h => hbox op (List.mem_of_mem_take h))
  have hm := LogFuel.meas_le_of_sides box j hw hh
  have key : ∀ r, (Tree.run fuel k (ops.take n)).root = some r → r.depth ≤ j + 1 := by
    intro r hr
    obtain ⟨g, ne, hb⟩ := hf.root r hr
    exact Nat.le_trans (LogFuel.depth_le_meas r g ne) (Nat.le_trans (LogFuel.meas_mono box r.rect hb) hm)
  refine ⟨?_, key⟩
  unfold Tree.fuelOK
  cases hr : (Tree.run fuel k (ops.take n)).root with
  | none => rfl
  | some r => simp only [decide_eq_true_eq]; exact Nat.lt_of_le_of_lt (key r hr) hfuel

/-- **the fuel is not an observable**: inside such a box any two fuels above `j` build the SAME tree after every history —
    the fuel-0 fallback of the model is never taken, the fuelled recursion computes what the unbounded recursion
    `insert → splitIfNeeded → insert` of the Go code computes (`fuel_independent_int` says this for one node insertion
    and fuels above `W + H`) -/
theorem fuel_irrelevant_int (bounds : Nat → Rect Int) (box : Rect Int) (j : Nat) (hw : box.w ≤ 2 ^ j) (hh : box.h ≤ 2 ^ j)
    (f f' : Nat) (k : Int) (ops : List (Op (Rect Int))) (hops : ∀ op ∈ ops, OpOK bounds op)
    (hbox : ∀ op ∈ ops, InBox box op) (h1 : j + 1 ≤ f) (h2 : j + 1 ≤ f') :
    Tree.run f k ops = Tree.run f' k ops := by
  have hm := LogFuel.meas_le_of_sides box j hw hh
  exact LogFuel.run_indep bounds box f f' k ops hops hbox (by omega) (by omega)

/-- the same for Go's `int`: for a history whose objects all have non-empty bounds inside `[-2^60, 2^60]²` the tree of the
    machine-integer model is at most 62 levels deep after every prefix, so the driver's fuel (200) is never exhausted
    on the `w` histories inside the box — by `int64_run` the machine tree has the shape of the unbounded one -/
theorem int64_fuel_suffices (bounds : Nat → Rect Int64) (hb : ∀ i, DBounds (bounds i)) (fuel : Nat) (k : Int)
    (ops : List (Op (Rect Int64))) (hops : ∀ op ∈ ops, OpOK bounds op) (hfuel : 62 < fuel) (n : Nat) :
    (Tree.run fuel k (ops.take n)).fuelOK fuel = true := by
  have hops1 : ∀ op ∈ ops.take n, OpOK bounds op := fun op h => hops op (List.mem_of_mem_take h)
  have hdom : ∀ op ∈ ops.take n, InBox64 op := fun op hop => opDom_of_opOK bounds hb op (hops1 op hop)
  rw [(int64_run fuel k (ops.take n) hdom).2.2]
  have h := fuel_suffices_int_log (fun i => toIntR (bounds i)) box60 61 box60_sides.1 box60_sides.2 fuel k
    ((ops.take n).map (Op.map toIntR)) (opOK_map bounds _ hops1)
    (fun op hop => by
      obtain ⟨o, ho, rfl⟩ := List.mem_map.mp hop
      exact inBox_map o (hdom o ho)) hfuel ((ops.take n).map (Op.map toIntR)).length
  rw [List.take_length] at h
  exact h.1

/-! ### whatever the arithmetic: rounding floats, wrapping ints -/

/-- **Size and All at the machine types, rounding and wrapping included**: `abs_run` / `size_run` need no law of the
    rectangle operations at all, so they hold for the instances the driver runs at IEEE doubles (`QT.instF64`, core Lean's
    opaque `Float`) and at machine integers (`QT.instI64`) for EVERY history — non-dyadic floats, absorbed widths, NaN,
    rectangles that wrap around `MaxInt64` -/
theorem abs_run_machine :
    (∀ (bounds : Nat → Rect Float) (fuel : Nat) (k : Int) (ops : List (Op (Rect Float))), (∀ op ∈ ops, OpOK bounds op) →
      (ids (Tree.run fuel k ops).all).Perm (specRun ops) ∧ (Tree.run fuel k ops).size = ((specRun ops).length : Int)) ∧
    (∀ (bounds : Nat → Rect Int64) (fuel : Nat) (k : Int) (ops : List (Op (Rect Int64))), (∀ op ∈ ops, OpOK bounds op) →
      (ids (Tree.run fuel k ops).all).Perm (specRun ops) ∧ (Tree.run fuel k ops).size = ((specRun ops).length : Int)) :=
  ⟨fun bounds fuel k ops hops => ⟨(abs_run bounds fuel k ops hops).1, size_run bounds fuel k ops hops⟩,
   fun bounds fuel k ops hops => ⟨(abs_run bounds fuel k ops hops).1, size_run bounds fuel k ops hops⟩⟩

section AnyArithmetic
variable {α : Type} [LE α] [LT α] [DecidableLE α] [DecidableLT α] [Max α] [Min α] [Add α] [Sub α] [OfNat α 0]

/-- **the queries for ANY arithmetic and almost any comparison** (the "floating-point coordinates (whole or fractional)"
    clause under rounding, and integers under wrap-around): let the coordinate type have ANY `+`, `-`, halving, `min`,
    `max`, and a `≤`/`<` satisfying only the three transitivity laws `QT.OrdLaws` (no antisymmetry — `-0`/`+0` —, no
    totality — NaN —, nothing about `min`/`max`: IEEE-754 comparisons satisfy them for all doubles, machine integers by
    `ordLawsInt64`).  `geom`'s predicates only compare the computed `X`, `Y`, `Right()`, `Bottom()`, and the quadtree
    stores a node only below rectangles that `Contains` it by that very predicate, so after any history:
    `FindContainsPoint` and `FindIntersects` are exactly the linear scan, with no condition;
    `FindContainsRect` is, if the QUERY — when not `Empty` — has a representable point (`QT.Proper`: `X < Right()`,
    `Y < Bottom()` as computed); `FindContainedByRect` is, if every STORED rectangle has.  The two conditions are exactly
    what the known findings violate (a width absorbed by rounding; `X+Width` wrapping negative). -/
theorem queries_any_arithmetic (O : OrdLaws α) (half : α → α) (bounds : Nat → Rect α) (fuel : Nat) (k : Int) (ops : List (Op (Rect α)))
    (hops : ∀ op ∈ ops, OpOK bounds op) (p : Point α) (q : Rect α) :
    letI : RectOps (Rect α) (Point α) := geomOps half
    let t := Tree.run fuel k ops
    (ids (t.findContainsPoint p)).Perm ((specRun ops).filter (fun i => p.inRect (bounds i))) ∧
    (ids (t.findIntersects q)).Perm ((specRun ops).filter (fun i => (bounds i).intersects q)) ∧
    ((q.empty = false → Proper q) → (ids (t.findContainsRect q)).Perm ((specRun ops).filter (fun i => (bounds i).contains q))) ∧
    ((∀ i, (bounds i).empty = false → Proper (bounds i)) →
      (ids (t.findContainedByRect q)).Perm ((specRun ops).filter (fun i => q.contains (bounds i)))) := by
  let _ : RectOps (Rect α) (Point α) := geomOps half
  intro t
  obtain ⟨a, b⟩ := run_ok bounds fuel k ops hops
  have fin : ∀ (pr : Rect α → Bool) (f : Item (Rect α) → Bool),
      (∀ (x : Rect α), ∀ it ∈ (Tree.run fuel k ops).all, RectOps.contains x it.rect = true → f it = true → pr x = true) →
      (ids ((Tree.run fuel k ops).find pr f)).Perm ((specRun ops).filter (fun i => f ⟨i, bounds i⟩)) := by
    intro pr f hpr
    have h1 := (tree_find_perm_mem bounds _ a pr f hpr).map (·.id)
    have h2 := keyed_filter_ids bounds _ a.keyed f
    simp only [ids] at h2 b ⊢
    rw [h2] at h1
    exact h1.trans (b.filter _)
  refine ⟨fin _ _ (fun x it _ hc hf => prune_point_ord O x it.rect p hc hf),
    fin _ _ (fun x it _ hc hf => prune_intersects_ord O x it.rect q hc hf),
    fun hq => fin _ _ (fun x it _ hc hf => prune_containsRect_ord O x it.rect q hq hc hf),
    fun hb => fin _ _ (fun x it hit hc hf => prune_containedBy_ord O x it.rect q ?_ hc hf)⟩
  obtain ⟨e1, e2⟩ := a.keyed it hit
  rw [e1]
  exact hb it.id (by rw [← e1]; exact e2)

/-- the matched families and the eight boolean queries for any arithmetic: same statement as `queries_any_arithmetic` with
    the matcher conjoined; each boolean query is `true` exactly when the linear scan finds a node -/
theorem queries_any_arithmetic_matched (O : OrdLaws α) (half : α → α) (bounds : Nat → Rect α) (fuel : Nat) (k : Int)
    (ops : List (Op (Rect α))) (hops : ∀ op ∈ ops, OpOK bounds op) (m : Item (Rect α) → Bool) (p : Point α)
    (q : Rect α) :
    letI : RectOps (Rect α) (Point α) := geomOps half
    let t := Tree.run fuel k ops
    let s := specRun ops
    ((ids (t.findMatchedContainsPoint m p)).Perm (s.filter (fun i => p.inRect (bounds i) && m ⟨i, bounds i⟩)) ∧
      (t.matchedContainsPoint m p = (s.filter (fun i => p.inRect (bounds i) && m ⟨i, bounds i⟩)).any (fun _ => true)) ∧
      (t.containsPoint p = (s.filter (fun i => p.inRect (bounds i))).any (fun _ => true))) ∧
    ((ids (t.findMatchedIntersects m q)).Perm (s.filter (fun i => (bounds i).intersects q && m ⟨i, bounds i⟩)) ∧
      (t.matchedIntersects m q = (s.filter (fun i => (bounds i).intersects q && m ⟨i, bounds i⟩)).any (fun _ => true)) ∧
      (t.intersects q = (s.filter (fun i => (bounds i).intersects q)).any (fun _ => true))) ∧
    ((q.empty = false → Proper q) →
      (ids (t.findMatchedContainsRect m q)).Perm (s.filter (fun i => (bounds i).contains q && m ⟨i, bounds i⟩)) ∧
      (t.matchedContainsRect m q = (s.filter (fun i => (bounds i).contains q && m ⟨i, bounds i⟩)).any (fun _ => true)) ∧
      (t.containsRect q = (s.filter (fun i => (bounds i).contains q)).any (fun _ => true))) ∧
    ((∀ i, (bounds i).empty = false → Proper (bounds i)) →
      (ids (t.findMatchedContainedByRect m q)).Perm (s.filter (fun i => q.contains (bounds i) && m ⟨i, bounds i⟩)) ∧
      (t.matchedContainedByRect m q = (s.filter (fun i => q.contains (bounds i) && m ⟨i, bounds i⟩)).any (fun _ => true)) ∧
      (t.containedByRect q = (s.filter (fun i => q.contains (bounds i))).any (fun _ => true))) := by
  let _ : RectOps (Rect α) (Point α) := geomOps half
  intro t s
  obtain ⟨a, b⟩ := run_ok bounds fuel k ops hops
  have and1 : ∀ {x y : Bool}, (x && y) = true → x = true := fun h => by
    simp only [Bool.and_eq_true] at h; exact h.1
  -- a traversal whose pruning is justified on stored items: the ids found, and the boolean form
  have fin : ∀ (pr : Rect α → Bool) (f : Item (Rect α) → Bool),
      (∀ (x : Rect α), ∀ it ∈ (Tree.run fuel k ops).all, RectOps.contains x it.rect = true → f it = true → pr x = true) →
      (ids ((Tree.run fuel k ops).find pr f)).Perm ((specRun ops).filter (fun i => f ⟨i, bounds i⟩)) ∧
      (Tree.run fuel k ops).any pr f = ((specRun ops).filter (fun i => f ⟨i, bounds i⟩)).any (fun _ => true) := by
    intro pr f hpr
    have h1 := (tree_find_perm_mem bounds _ a pr f hpr).map (·.id)
    have h2 := keyed_filter_ids bounds _ a.keyed f
    simp only [ids] at h2 b ⊢
    rw [h2] at h1
    have hp := h1.trans (b.filter _)
    refine ⟨hp, ?_⟩
    rw [tree_any_eq]
    have e1 : ((Tree.run fuel k ops).find pr f).isEmpty = (List.map (·.id) ((Tree.run fuel k ops).find pr f)).isEmpty := by
      cases (Tree.run fuel k ops).find pr f <;> rfl
    have e2 : ∀ l : List Nat, l.any (fun _ => true) = !l.isEmpty := by intro l; cases l <;> rfl
    rw [e1, e2]
    have := hp.length_eq
    cases h3 : List.map (·.id) ((Tree.run fuel k ops).find pr f) <;>
      cases h4 : List.filter (fun i => f ⟨i, bounds i⟩) (specRun ops) <;> simp_all
  have P := fun (g : Item (Rect α) → Bool) =>
    fin (RectOps.inPt p) (fun it => RectOps.inPt p it.rect && g it)
      (fun x it _ hc hf => prune_point_ord O x it.rect p hc (and1 hf))
  have I := fun (g : Item (Rect α) → Bool) =>
    fin (RectOps.intersects · q) (fun it => RectOps.intersects it.rect q && g it)
      (fun x it _ hc hf => prune_intersects_ord O x it.rect q hc (and1 hf))
  have C := fun (hq : q.empty = false → Proper q) (g : Item (Rect α) → Bool) =>
    fin (RectOps.intersects · q) (fun it => RectOps.contains it.rect q && g it)
      (fun x it _ hc hf => prune_containsRect_ord O x it.rect q hq hc (and1 hf))
  have D := fun (hb : ∀ i, (bounds i).empty = false → Proper (bounds i)) (g : Item (Rect α) → Bool) =>
    fin (RectOps.intersects · q) (fun it => RectOps.contains q it.rect && g it)
      (fun x it hit hc hf => prune_containedBy_ord O x it.rect q (by
        obtain ⟨e1, e2⟩ := a.keyed it hit
        rw [e1]; exact hb it.id (by rw [← e1]; exact e2)) hc (and1 hf))
  refine ⟨⟨(P m).1, (P m).2, ?_⟩, ⟨(I m).1, (I m).2, ?_⟩, fun hq => ⟨(C hq m).1, (C hq m).2, ?_⟩,
    fun hb => ⟨(D hb m).1, (D hb m).2, ?_⟩⟩
  · have h := (P (fun _ => true)).2; simp only [Bool.and_true] at h; exact h
  · have h := (I (fun _ => true)).2; simp only [Bool.and_true] at h; exact h
  · have h := (C hq (fun _ => true)).2; simp only [Bool.and_true] at h; exact h
  · have h := (D hb (fun _ => true)).2; simp only [Bool.and_true] at h; exact h

/-- `queries_any_arithmetic` under the package's own contract (`HistOK`: bounds fixed only WHILE a node is stored; an
    object may come back with other bounds), as multisets of stored items: the condition of `FindContainedByRect` is then
    about the rectangles that are stored at the time of the query -/
theorem queries_hist_any_arithmetic (O : OrdLaws α) (half : α → α) (fuel : Nat) (k : Int) (ops : List (Op (Rect α))) (p : Point α)
    (q : Rect α) :
    letI : RectOps (Rect α) (Point α) := geomOps half
    HistOK ([] : List (Item (Rect α))) ops →
    let t := Tree.run fuel k ops
    let s := specRunI ops
    t.all.Perm s ∧ t.size = (s.length : Int) ∧
    (t.findContainsPoint p).Perm (s.filter (fun it => p.inRect it.rect)) ∧
    (t.findIntersects q).Perm (s.filter (fun it => it.rect.intersects q)) ∧
    ((q.empty = false → Proper q) → (t.findContainsRect q).Perm (s.filter (fun it => it.rect.contains q))) ∧
    ((∀ it ∈ s, Proper it.rect) → (t.findContainedByRect q).Perm (s.filter (fun it => q.contains it.rect))) := by
  let _ : RectOps (Rect α) (Point α) := geomOps half
  intro hops t s
  obtain ⟨⟨bd, hb⟩, hp⟩ := run_okI fuel k ops hops
  have fin : ∀ (pr : Rect α → Bool) (f : Item (Rect α) → Bool),
      (∀ (x : Rect α), ∀ it ∈ (Tree.run fuel k ops).all, RectOps.contains x it.rect = true → f it = true → pr x = true) →
      ((Tree.run fuel k ops).find pr f).Perm ((specRunI ops).filter f) :=
    fun pr f hpr => (tree_find_perm_mem bd _ hb pr f hpr).trans (hp.filter f)
  exact ⟨hp, size_okI fuel k ops hops,
    fin _ _ (fun x it _ hc hf => prune_point_ord O x it.rect p hc hf),
    fin _ _ (fun x it _ hc hf => prune_intersects_ord O x it.rect q hc hf),
    fun hq => fin _ _ (fun x it _ hc hf => prune_containsRect_ord O x it.rect q hq hc hf),
    fun hs => fin _ _ (fun x it hit hc hf => prune_containedBy_ord O x it.rect q (hs it (hp.subset hit)) hc hf)⟩

end AnyArithmetic
/-- `queries_any_arithmetic` at the machine-integer instance the driver runs (`QT.instI64`), for EVERY history — also
    outside the box of `int64_run`, up to and across the ends of the `int64` range: point and intersection queries are
    the linear scan with the machine's predicates unconditionally, the two containment queries as long as the query
    (resp. every stored rectangle) does not wrap (`X < Right()`, `Y < Bottom()` as computed) -/
theorem queries_int64_everywhere (bounds : Nat → Rect Int64) (fuel : Nat) (k : Int) (ops : List (Op (Rect Int64)))
    (hops : ∀ op ∈ ops, OpOK bounds op) (p : Point Int64) (q : Rect Int64) :
    let t := Tree.run fuel k ops
    (ids (t.findContainsPoint p)).Perm ((specRun ops).filter (fun i => p.inRect (bounds i))) ∧
    (ids (t.findIntersects q)).Perm ((specRun ops).filter (fun i => (bounds i).intersects q)) ∧
    ((q.empty = false → q.x < q.right ∧ q.y < q.bottom) →
      (ids (t.findContainsRect q)).Perm ((specRun ops).filter (fun i => (bounds i).contains q))) ∧
    ((∀ i, (bounds i).empty = false → (bounds i).x < (bounds i).right ∧ (bounds i).y < (bounds i).bottom) →
      (ids (t.findContainedByRect q)).Perm ((specRun ops).filter (fun i => q.contains (bounds i)))) :=
  queries_any_arithmetic ordLawsInt64 halfI64 bounds fuel k ops hops p q

/-- **fuel suffices for exact rational coordinates, every history**: if every inserted non-empty rectangle lies within a
    box and is at least `m` wide, and the box is narrower than `m · 2^j`, then after any history and each of its prefixes
    no node is deeper than `j` and every fuel above `j` passes the driver's criterion `Tree.fuelOK` (`split_depth_rat`
    lifted from one insertion to histories with `Remove`, `Reorganize`, `Clear` and threshold changes; the driver's
    fuel 200 covers every width ratio below 2^199 — the `f` histories stay below 2^24) -/
theorem fuel_suffices_rat (bounds : Nat → Rect Rat) (m : Rat) (box : Rect Rat) (j : Nat) (hw : box.w < m * 2 ^ j)
    (fuel : Nat) (k : Int) (ops : List (Op (Rect Rat))) (hops : ∀ op ∈ ops, OpOK bounds op)
    (hbox : ∀ op ∈ ops, InBoxQ m box op) (hfuel : j < fuel) (n : Nat) :
    (Tree.run fuel k (ops.take n)).fuelOK fuel = true ∧
    ∀ r, (Tree.run fuel k (ops.take n)).root = some r → r.depth ≤ j := by
  have hf := run_finvQ bounds m box fuel k (ops.take n) (fun op h => hops op (List.mem_of_mem_take h))
    (fun op h => hbox op (List.mem_of_mem_take h))
  have key : ∀ r, (Tree.run fuel k (ops.take n)).root = some r → r.depth ≤ j := by
    intro r hr
    obtain ⟨g, hb⟩ := hf.root r hr
    exact depthQ m r g j (lt_of_le_of_lt (contains_width box r.rect hb) hw)
  refine ⟨?_, key⟩
  unfold Tree.fuelOK
  cases hr : (Tree.run fuel k (ops.take n)).root with
  | none => rfl
  | some r => simp only [decide_eq_true_eq]; exact Nat.lt_of_le_of_lt (key r hr) hfuel

/-- **the fuel is not an observable for exact rational coordinates either**: under the hypotheses of `fuel_suffices_rat`
    any two fuels of at least `j` build the SAME tree after every history — with `fuel_irrelevant_int` this makes the
    fuelled recursion of the model equal to the unbounded recursion of the Go code at both coordinate types the theorems
    speak about -/
theorem fuel_irrelevant_rat (bounds : Nat → Rect Rat) (m : Rat) (box : Rect Rat) (j : Nat) (hw : box.w < m * 2 ^ j)
    (f f' : Nat) (k : Int) (ops : List (Op (Rect Rat))) (hops : ∀ op ∈ ops, OpOK bounds op)
    (hbox : ∀ op ∈ ops, InBoxQ m box op) (h1 : j ≤ f) (h2 : j ≤ f') :
    Tree.run f k ops = Tree.run f' k ops :=
  run_indepQ bounds m box f f' j k ops hops hbox hw h1 h2

/-- **the instance the driver runs at IEEE doubles** (`QT.instF64`: core Lean's `Float` with its own `≤`, `<`, `min`,
    `max`, `+`, `-`, `/2` — rounding, signed zeros, NaN and all): `queries_any_arithmetic` applies to it verbatim.  The
    only thing Lean cannot see is inside `O`: `Float`'s comparisons are opaque to the logic, so the three transitivity
    laws — which IEEE-754 guarantees for every pair of doubles — are a hypothesis; nothing is assumed about the
    arithmetic, the zeros, NaN or `min`/`max`.  (Go's builtin `min`/`max` differ from core's on `(+0,-0)` and NaN; they
    only enter the root rectangle of `Reorganize`, which the theorem does not constrain — that the Float instance
    computes what Go computes is what area `quadfloat` checks.) -/
theorem queries_float64 (O : OrdLaws Float) (bounds : Nat → Rect Float) (fuel : Nat) (k : Int)
    (ops : List (Op (Rect Float))) (hops : ∀ op ∈ ops, OpOK bounds op) (p : Point Float) (q : Rect Float) :
    let t := Tree.run fuel k ops
    (ids (t.findContainsPoint p)).Perm ((specRun ops).filter (fun i => p.inRect (bounds i))) ∧
    (ids (t.findIntersects q)).Perm ((specRun ops).filter (fun i => (bounds i).intersects q)) ∧
    ((q.empty = false → q.x < q.right ∧ q.y < q.bottom) →
      (ids (t.findContainsRect q)).Perm ((specRun ops).filter (fun i => (bounds i).contains q))) ∧
    ((∀ i, (bounds i).empty = false → (bounds i).x < (bounds i).right ∧ (bounds i).y < (bounds i).bottom) →
      (ids (t.findContainedByRect q)).Perm ((specRun ops).filter (fun i => q.contains (bounds i)))) :=
  queries_any_arithmetic O halfF64 bounds fuel k ops hops p q

/-- non-vacuity of `QT.OrdLaws`: the integers and the machine integers satisfy it (for `Float` it is IEEE-754, outside
    the logic) -/
example : OrdLaws Int ∧ OrdLaws Int64 := ⟨ordLawsInt, ordLawsInt64⟩

/-- **Go's `int` without the box**: for EVERY history over machine integers in which no stored rectangle and no query
    rectangle wraps (`QT.Safe`: `X+Width` and `Y+Height` stay within `int64`) — wherever in the range they lie, also when
    the union of the stored rectangles is wider than 2^63 and the root computed by `Reorganize` wraps — the four `Find*`
    families of the machine-integer model return exactly the stored nodes that satisfy the MATHEMATICAL predicate
    (`geom`'s predicate evaluated in ℤ on the values of the coordinates).  This is the whole domain the `intwrap` oracle
    judges; `int64_run` (same tree as over ℤ) needs the box, this does not. -/
theorem int64_safe_linear_scan (bounds : Nat → Rect Int64) (hb : ∀ i, Safe (bounds i)) (fuel : Nat) (k : Int)
    (ops : List (Op (Rect Int64))) (hops : ∀ op ∈ ops, OpOK bounds op) (p : Point Int64) (q : Rect Int64) (hq : Safe q) :
    let t := Tree.run fuel k ops
    (ids t.all).Perm (specRun ops) ∧ t.size = ((specRun ops).length : Int) ∧
    (ids (t.findContainsPoint p)).Perm ((specRun ops).filter (fun i => (toIntP p).inRect (toIntR (bounds i)))) ∧
    (ids (t.findIntersects q)).Perm ((specRun ops).filter (fun i => (toIntR (bounds i)).intersects (toIntR q))) ∧
    (ids (t.findContainsRect q)).Perm ((specRun ops).filter (fun i => (toIntR (bounds i)).contains (toIntR q))) ∧
    (ids (t.findContainedByRect q)).Perm ((specRun ops).filter (fun i => (toIntR q).contains (toIntR (bounds i)))) := by
  intro t
  obtain ⟨q1, q2, q3, q4⟩ := queries_int64_everywhere bounds fuel k ops hops p q
  have q3 := q3 (proper_of_safe q hq)
  have q4 := q4 (fun i => proper_of_safe (bounds i) (hb i))
  have f1 : (fun i => (toIntP p).inRect (toIntR (bounds i))) = (fun i => p.inRect (bounds i)) :=
    funext fun i => inPt_toInt p _ (hb i)
  have f2 : (fun i => (toIntR (bounds i)).intersects (toIntR q)) = (fun i => (bounds i).intersects q) :=
    funext fun i => intersects_toInt _ _ (hb i) hq
  have f3 : (fun i => (toIntR (bounds i)).contains (toIntR q)) = (fun i => (bounds i).contains q) :=
    funext fun i => contains_toInt _ _ (hb i) hq
  have f4 : (fun i => (toIntR q).contains (toIntR (bounds i))) = (fun i => q.contains (bounds i)) :=
    funext fun i => contains_toInt _ _ hq (hb i)
  rw [f1, f2, f3, f4]
  exact ⟨(abs_run bounds fuel k ops hops).1, size_run bounds fuel k ops hops, q1, q2, q3, q4⟩

/-- **the driver's run-time fuel test is sound — for every instance of the rectangle operations** (no law, no box: the
    IEEE-double histories with fuel 2300, the machine-integer histories outside `[-2^60, 2^60]²`): if `Tree.fuelOK`
    holds after every prefix of a history — what the driver tests after every line before it answers anything but
    `out-of-fuel` — then the fuel-0 fallback of the model was never taken and the tree is the tree of every larger fuel,
    i.e. of the unbounded recursion `insert → splitIfNeeded → insert` of the Go code.  (Insertion never makes a tree
    shallower and the fallback can only be reached `fuel` levels down, so a result shallower than the fuel was computed
    without it.)  This turns the comment on `Tree.fuelOK` into a theorem; where a fuel BOUND is proved
    (`fuel_suffices_int_log`, `fuel_suffices_rat`, `int64_fuel_suffices`) the hypothesis is discharged a priori. -/
theorem fuel_test_sound {R P : Type} [RectOps R P] (f j : Nat) (k : Int) (ops : List (Op R))
    (h : ∀ n, (Tree.run f k (ops.take n)).fuelOK f = true) : Tree.run f k ops = Tree.run (f + j) k ops :=
  Tree.run_sound f j k ops h

/-- the test can fail and then the fuel matters (CONTRAST): more than `Threshold` unit squares on one cell of an 8×8
    root (history built from the repository's `MinQuadTreeThreshold`, as in `contract_needed`) — with fuel 1 the model
    stops subdividing after one level and `fuelOK` reports it; with fuel 5 the tree is 3 deep and the test passes -/
theorem fuel_test_contrast :
    let k : Int := Facts.quadtree_MinQuadTreeThreshold
    let T : Nat := (Tree.empty k : QT.Tree (Rect Int)).thr
    let ops : List (Op (Rect Int)) := [Op.insert ⟨0, ⟨0, 0, 8, 8⟩⟩, Op.reorganize] ++
      (List.range (T + 1)).map (fun i => Op.insert ⟨i + 1, ⟨1, 1, 1, 1⟩⟩)
    let d : Nat → Nat := fun f => match (Tree.run f k ops).root with | some r => r.depth | none => 0
    (Tree.run 1 k ops).fuelOK 1 = false ∧ d 1 = 1 ∧ d 5 = 3 ∧ (Tree.run 5 k ops).fuelOK 5 = true := by
  decide

/-! non-vacuity of the box hypotheses of the fuel theorems and of `QT.DBounds` (an `Empty` object is allowed) -/
example : ∀ op ∈ ([Op.insert ⟨1, ⟨0, 0, 4, 4⟩⟩, Op.insert ⟨2, ⟨3, 3, 0, 5⟩⟩, Op.remove 1 ⟨0, 0, 4, 4⟩] : List (Op (Rect Int))),
    InBox ⟨-8, -8, 16, 16⟩ op := by
  intro op h
  simp only [List.mem_cons, List.not_mem_nil, or_false] at h
  rcases h with h | h | h <;> subst h
  · exact Or.inr (by decide)
  · exact Or.inl (by decide)
  · trivial

example : ∀ op ∈ ([Op.insert ⟨1, ⟨0, 0, 1/2, 1/2⟩⟩, Op.reorganize] : List (Op (Rect Rat))),
    InBoxQ (1/4) ⟨-8, -8, 16, 16⟩ op := by
  intro op h
  simp only [List.mem_cons, List.not_mem_nil, or_false] at h
  rcases h with h | h <;> subst h
  · exact Or.inr ⟨by norm_num [Rect.contains, Rect.empty, Rect.right, Rect.bottom], by norm_num⟩
  · trivial

example : DBounds (⟨3, 3, 0, 5⟩ : Rect Int64) ∧ DBounds (⟨3, 3, 2, 5⟩ : Rect Int64) :=
  ⟨Or.inl (by decide), Or.inr (by decide)⟩

end C07
