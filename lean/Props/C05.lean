import Lemmas.EvenOdd
import Lemmas.EvenOddOutside
import Lemmas.EvenOddPerm
import Lemmas.EvenOddMargin
import Lemmas.EvenOddDyadic
import Lemmas.EvenOddEmpty
import Lemmas.EvenOddFull
import Lemmas.EvenOddPrune
import Lemmas.EvenOddEmit
import Lemmas.EvenOddContains
import Lemmas.EvenOddJordan
import Lemmas.EvenOddLmt
/-! # C05 — polygon Boolean operations compute the pointwise Boolean combination of regions

**Level: translation validation with a proved validator.**  The clipper of `/repo/xmath/geom/poly` (a ~1900-line
float port of the GPC scan-beam algorithm with an ε-bundling test) is NOT modelled beyond the stages before and after
the sweep (trivial-result shortcut, bounding-box pruning, scan-beam table, contour emission; the local minima table is
validated per call; see below) and NOTHING universal is proved about the sweep itself.  Every individual call of the
real `Union / Intersect / Sub / Xor` made by the check is validated by the
executable oracle of `Model/EvenOdd.lean` (`EO.validateLattice`, `EO.validatePoints`, run by `drv_c05` on the exact
values of the operands and of the result the real code returned).  The theorems below are about that oracle — the same
definitions the driver executes — and say what a `true` verdict means in terms of the even-odd rule over ℚ written
with the usual crossing test (`EOQ.crosses`, `EOQ.inside`):

* `validateLattice_sound_everywhere` — a `true` verdict on a lattice call implies the Boolean law at EVERY rational
  point of the plane (cells, lattice lines, edges, outside the square): with the half-open crossing rule a point on a
  lattice line is classified like the cell to its upper right, so the `N²` cell centres decide the whole plane;
  `regionEmpty_iff_everywhere`, `validateLattice_empty_full` — the validator's emptiness flag is exactly "the combined
  region is empty at every point", and then the result must be `Polygon.Empty` ("return an empty polygon when the
  combined region is empty" at full strength for lattice calls);
* `prune_sound`, `nonContributing_sound`, `prune_contrast_sub`, `prune_contrast_touch`, `shortCircuit_region_empty` —
  the first stage of the clipper IS modelled: `EO.nonContributing` transcribes `identifyNonContributingContours`
  (with `Contour.Bounds` and `geom.Rect.Intersects`) and `EO.shortCircuit` the trivial-result test of `construct`;
  dropping the contours the rule flags changes the region at no point, for all operands; and the flags the REAL
  function returns (overlay) are checked by `EO.pruneOK` on every line of the area `prune`;
* `generate_region`, `emit_sound`, `generate_contrast` (contour emission `polygonNode.generate` = `EO.generate`: the
  emitted polygon contains exactly the points of the output chains), `scanBeamTable_spec` (`scanBeamTree` =
  `EO.scanBeamTable`: strictly ascending, exactly the ordinates added), `lmt_sound`, `lmt_contrast` (the local minima
  table the real code builds, validated by `EO.lmtOK`: the sweep is handed exactly the non-horizontal edges of the
  operand), `containsEvenOdd_is_inside`, `containsAny_is_union`, `contains_contrast` (the library's own
  `Polygon.ContainsEvenOdd` / `Contains`, transcribed, are the even-odd rule resp. the union of the contours off the
  edges) - each compared with the real code on every run (areas `emit`, `sbt`, `lmt`, `contains`);
* `validateLattice_sound` — a `true` verdict on a lattice call implies the Boolean law at EVERY point of EVERY open
  unit cell of `[0,N]²` (a finite check of `N²` cell centres decides uncountably many points);
* `validateLattice_outside`, `validateLattice_sound_outside` — and no point strictly outside the square is inside any
  of the three polygons (the parity argument: a closed contour crosses a horizontal line evenly often), so the law
  holds there too;
* `validateLattice_empty` — "empty when the combined region is empty" is part of the verdict;
* `emptyCert_sound`, `validateGeneral_sound`, `resultEmpty_no_region` — "empty when the combined region is empty" for
  sampled calls: `EO.emptyCert` is an exact certificate that the combined region is empty at EVERY point (an operand
  without edges; identical operands for Sub/Xor; operands separated by a vertical or horizontal line for Intersect; B a
  literal axis-parallel rectangle around all vertices of A for Sub); when it holds the validator `EO.validateGeneral`
  (what the driver runs on a sampled call) accepts only an empty result.  "Empty polygon" is `Polygon.Empty()`: no
  contour has a vertex (`EO.resultEmpty`); such a polygon contains no point.  (On every certified call of the runs so
  far the real code returned no contour at all — evidence key `certified_empty_results_that_had_contours` = 0.)
  The certificate for Intersect also recognises operands separated by the line through one of their edges
  (`EO.sepLine`, `noContact_disjoint_partial`: every pair of disjoint convex contours, overlapping boxes or not — the
  case in which the clipper's SWEEP, not its bounding-box shortcut, has to produce the empty result).  Beyond the
  certificate the validator applies the general judgement `EO.emptyJudged` (`noContact` for Intersect: every edge of one
  operand apart from every edge of the other, no edge of one starting inside the other; `containedIn` for Sub) and
  demands an empty result; its soundness is PROVED (`noContact_disjoint`, `containedIn_subset`,
  `emptyJudged_region_empty`, `validateGeneral_judged` - a Jordan-type theorem for the even-odd rule,
  `Lemmas/EvenOddJordan.lean`; key lemma `inside_const_along_segment`); contrast `noContact_contrast`;
* `validatePoints_sound`, `clear_not_on_edge` — a `true` verdict on a sampled call is the law at every listed sample
  point that keeps the margin, and such points do not lie on any edge (sampling: nothing follows for other points);
* `inside_int_iff_rat`, `inside_scale`, `inside_translate` — the executable division-free integer test is the ℚ-level rule, and scaling all
  numbers of a call to a common denominator (or shifting them by a common offset) does not change it;
* `decodeBits_exact`, `decodeBits_none_iff`, `scaled_exact`, `toInt_exact` — exactness of the float decoding: for
  EVERY bit pattern of a finite float `EO.decodeBits` returns a dyadic whose value is the IEEE-754 value
  `(-1)^s · m · 2^e` (`EOQ.ieeeValue`), only infinities/NaN are rejected, and the integers the driver hands to the
  validators are those values times the common power of two;
* `xor_concat`, `xor_concat_rat`, `inside_rotate`, `inside_reverse` (and `_rat` versions) — properties of the
  specification itself: `Xor` is concatenation of contour lists; start vertex and direction of a contour are
  irrelevant.

Lattice calls at other magnitudes (`LT`: coordinates `(lattice + offset)·2^k`) are brought back to `[0,N]²` by the driver
(`inside_scale`, `inside_translate`); a chain line is a sequence of calls each validated by `validateLattice` on the
exact values the real code returned for the earlier calls; the row-wise edge filter of `EO.cellsOK` is justified by
`EOQ.insideE_filter` and is part of `validateLattice_sound`.

Not proved: anything about the clipper over all inputs; the driver's text parsing and its choice of the common exponent
(`minExp`, a fold of `min` over all exponents of the call) are trusted glue; points lying exactly on lattice lines
(not on an edge) are not covered by `validateLattice_sound` but are by `validateLattice_sound_everywhere`; for
general-position inputs only sample points are judged.
Known findings of the real code on DEGENERATE non-rectilinear lattice inputs (panics, wrong regions — outside the
property's general-position quantifier) are the fixed corpus `corpus/C05/degenerate.known.ops`. -/
namespace C05
open EOQ

/-- the executable integer test is the even-odd rule over ℚ (crossing test with the division) -/
theorem inside_int_iff_rat (P : EO.Polygon) (p : EO.Pt) : EO.inside P p = true ↔ inside (polyQ P) (toQ p) :=
  inside_toQ P p

/-- bringing all numbers of a call to a common denominator (uniform positive scaling) does not change `inside` -/
theorem inside_scale (s : ℚ) (hs : 0 < s) (P : QPolygon) (p : QPt) :
    inside (scalePoly s P) (scale s p) ↔ inside P p :=
  EOQ.inside_scale s hs P p

/-- a common offset of all numbers of a call does not change `inside` (lattice calls at large magnitudes are brought back
    to `[0,N]²` by the driver) -/
theorem inside_translate (t : QPt) (P : QPolygon) (p : QPt) :
    inside (translatePoly t P) (translate t p) ↔ inside P p :=
  EOQ.inside_translate t P p

/-- under the even-odd rule, concatenating the contours of two polygons is their symmetric difference
    (independent oracle for `Xor`) — executable definition -/
theorem xor_concat (A B : EO.Polygon) (p : EO.Pt) :
    EO.inside (A ++ B) p = (EO.inside A p != EO.inside B p) := by
  unfold EO.inside EO.crossCount EO.allEdges
  rw [List.flatMap_append, List.countP_append]
  generalize List.countP _ (List.flatMap EO.edgesOf A) = m
  generalize List.countP _ (List.flatMap EO.edgesOf B) = n
  rcases Nat.mod_two_eq_zero_or_one m with hm | hm <;> rcases Nat.mod_two_eq_zero_or_one n with hn | hn <;>
    simp [Nat.add_mod, hm, hn]

/-- the same over ℚ -/
theorem xor_concat_rat (A B : QPolygon) (p : QPt) : inside (A ++ B) p ↔ (inside A p ↔ ¬ inside B p) := by
  unfold inside crossCount EO.allEdges
  rw [List.flatMap_append, List.countP_append]
  omega

/-- on rectilinear lattice polygons a check of the cell centre decides the whole open cell -/
theorem lattice_cell_complete (A B R : QPolygon) (hA : LatticeRectilinear A) (hB : LatticeRectilinear B)
    (hR : LatticeRectilinear R) (op : Prop → Prop → Prop) (i j : ℤ)
    (hcheck : inside R (centre i j) ↔ op (inside A (centre i j)) (inside B (centre i j))) :
    ∀ p : QPt, InCell i j p → (inside R p ↔ op (inside A p) (inside B p)) :=
  EOQ.lattice_cell_complete A B R hA hB hR op i j hcheck

/-- **soundness of the lattice validator**: if `validateLattice N A B R op` answers `true` then at every rational
    point of every open unit cell of `[0,N]²` the result `R` contains the point exactly when the Boolean combination
    `op` of "inside A" and "inside B" holds -/
theorem validateLattice_sound (N : Nat) (A B R : EO.Polygon) (op : EO.Op)
    (h : EO.validateLattice N A B R op = true) (i j : Nat) (hi : i < N) (hj : j < N) (p : QPt)
    (hp : InCell i j p) :
    inside (polyQ R) p ↔ holds op (inside (polyQ A) p) (inside (polyQ B) p) := by
  unfold EO.validateLattice at h
  simp only [Bool.and_eq_true] at h
  obtain ⟨⟨⟨⟨hA, hB⟩, hR⟩, hc⟩, _⟩ := h
  have hl := cellsOK_cell N _ _ _ op hc i j hi hj
  rw [lawAt_iff, inside_centre, inside_centre, inside_centre] at hl
  exact EOQ.lattice_cell_complete (polyQ A) (polyQ B) (polyQ R) (latticeOK_rectilinear N A hA)
    (latticeOK_rectilinear N B hB) (latticeOK_rectilinear N R hR) (holds op) i j hl p hp

/-- "empty when the combined region is empty": a `true` verdict on a call whose combined region contains no cell
    means the returned polygon is empty (`Polygon.Empty`) -/
theorem validateLattice_empty (N : Nat) (A B R : EO.Polygon) (op : EO.Op)
    (h : EO.validateLattice N A B R op = true)
    (hempty : EO.regionEmpty N (EO.dblPoly A) (EO.dblPoly B) op = true) : EO.resultEmpty R = true := by
  unfold EO.validateLattice at h
  simp only [Bool.and_eq_true, Bool.or_eq_true, Bool.not_eq_true'] at h
  rcases h.2 with h2 | h2
  · rw [hempty] at h2; cases h2
  · exact h2

/-- a `true` verdict of the sample-point validator is the Boolean law at every listed sample point that keeps the
    margin `m` from all edges of A, B and R -/
theorem validatePoints_sound (m : Int) (A B R : EO.Polygon) (op : EO.Op) (pts : List EO.Pt)
    (h : EO.validatePoints m A B R op pts = true) (p : EO.Pt) (hp : p ∈ pts)
    (hc : EO.clearAll m A B R p = true) :
    inside (polyQ R) (toQ p) ↔ holds op (inside (polyQ A) (toQ p)) (inside (polyQ B) (toQ p)) := by
  unfold EO.validatePoints at h
  rw [List.all_eq_true] at h
  have h1 := h p hp
  unfold EO.pointOK at h1
  rw [hc] at h1
  simp only [Bool.not_true, Bool.false_or] at h1
  rw [lawAt_iff, inside_toQ, inside_toQ, inside_toQ] at h1
  exact h1

/-- no point strictly outside the closed square `[0,N]²` is inside A, B or R when the lattice validator accepts
    (all vertices lie in the square) -/
theorem validateLattice_outside (N : Nat) (A B R : EO.Polygon) (op : EO.Op)
    (h : EO.validateLattice N A B R op = true) (p : QPt)
    (hout : p.x < 0 ∨ (N : ℚ) < p.x ∨ p.y < 0 ∨ (N : ℚ) < p.y) :
    ¬ inside (polyQ A) p ∧ ¬ inside (polyQ B) p ∧ ¬ inside (polyQ R) p := by
  unfold EO.validateLattice at h
  simp only [Bool.and_eq_true] at h
  obtain ⟨⟨⟨⟨hA, hB⟩, hR⟩, _⟩, _⟩ := h
  exact ⟨outside_not_inside N _ (latticeOK_inSquareRect N A hA) p hout,
    outside_not_inside N _ (latticeOK_inSquareRect N B hB) p hout,
    outside_not_inside N _ (latticeOK_inSquareRect N R hR) p hout⟩

/-- hence the Boolean law also holds at every point strictly outside the square -/
theorem validateLattice_sound_outside (N : Nat) (A B R : EO.Polygon) (op : EO.Op)
    (h : EO.validateLattice N A B R op = true) (p : QPt)
    (hout : p.x < 0 ∨ (N : ℚ) < p.x ∨ p.y < 0 ∨ (N : ℚ) < p.y) :
    inside (polyQ R) p ↔ holds op (inside (polyQ A) p) (inside (polyQ B) p) := by
  obtain ⟨hA, hB, hR⟩ := validateLattice_outside N A B R op h p hout
  cases op <;> simp [holds, hA, hB, hR]

/-- **the lattice verdict at EVERY point of the plane** (full strength; supersedes the three statements above): if
    `validateLattice N A B R op` answers `true` then at every rational point - inside a cell, on a lattice line, on an
    edge, outside the square - the result `R` contains the point exactly when the Boolean combination holds.  With the
    half-open crossing rule a point on a lattice line is classified like the cell to its upper right
    (`EOQ.inside_constHO`), every point lies in the half-open cell of its floors, and nothing is inside outside
    `[0,N)²`.  In particular the law holds at every point NOT lying on an edge of A, B or R - the domain the property
    quantifies over. -/
theorem lattice_law_everywhere (N : Nat) (A B R : EO.Polygon) (op : EO.Op)
    (hA : EO.latticeOK N A = true) (hB : EO.latticeOK N B = true) (hR : EO.latticeOK N R = true)
    (hc : EO.cellsOK N (EO.dblPoly A) (EO.dblPoly B) (EO.dblPoly R) op = true) (p : QPt) :
    inside (polyQ R) p ↔ holds op (inside (polyQ A) p) (inside (polyQ B) p) := by
  rcases floor_cases N p with ⟨i, j, hi, hj, hp⟩ | hout
  · have hl := cellsOK_cell N _ _ _ op hc i j hi hj
    rw [lawAt_iff, inside_centre, inside_centre, inside_centre] at hl
    rw [inside_constHO _ (latticeOK_rectilinear N R hR) i j p hp, hl,
      propext (inside_constHO _ (latticeOK_rectilinear N A hA) i j p hp),
      propext (inside_constHO _ (latticeOK_rectilinear N B hB) i j p hp)]
  · have nA := outside_not_insideHO N _ (latticeOK_inSquareRect N A hA) p hout
    have nB := outside_not_insideHO N _ (latticeOK_inSquareRect N B hB) p hout
    have nR := outside_not_insideHO N _ (latticeOK_inSquareRect N R hR) p hout
    cases op <;> simp [holds, nA, nB, nR]

/-- the same, from the verdict of the validator the driver runs on a lattice call -/
theorem validateLattice_sound_everywhere (N : Nat) (A B R : EO.Polygon) (op : EO.Op)
    (h : EO.validateLattice N A B R op = true) (p : QPt) :
    inside (polyQ R) p ↔ holds op (inside (polyQ A) p) (inside (polyQ B) p) := by
  unfold EO.validateLattice at h
  simp only [Bool.and_eq_true] at h
  obtain ⟨⟨⟨⟨hA, hB⟩, hR⟩, hc⟩, _⟩ := h
  exact lattice_law_everywhere N A B R op hA hB hR hc p

/-- the emptiness flag the validator computes from the `N²` cell centres is exactly "the combined region is empty at
    every point of the plane" -/
theorem regionEmpty_iff_everywhere (N : Nat) (A B : EO.Polygon) (op : EO.Op)
    (hA : EO.latticeOK N A = true) (hB : EO.latticeOK N B = true) :
    EO.regionEmpty N (EO.dblPoly A) (EO.dblPoly B) op = true ↔
      ∀ p : QPt, ¬ holds op (inside (polyQ A) p) (inside (polyQ B) p) := by
  constructor
  · intro h p
    rcases floor_cases N p with ⟨i, j, hi, hj, hp⟩ | hout
    · have hc := regionEmpty_cell N _ _ op h i j hi hj
      rw [← Bool.not_eq_true, apply_iff, inside_centre, inside_centre] at hc
      rw [propext (inside_constHO _ (latticeOK_rectilinear N A hA) i j p hp),
        propext (inside_constHO _ (latticeOK_rectilinear N B hB) i j p hp)]
      exact hc
    · have nA := outside_not_insideHO N _ (latticeOK_inSquareRect N A hA) p hout
      have nB := outside_not_insideHO N _ (latticeOK_inSquareRect N B hB) p hout
      cases op <;> simp [holds, nA, nB]
  · intro h
    apply regionEmpty_of_cells
    intro i j _ _
    rw [← Bool.not_eq_true, apply_iff, inside_centre, inside_centre]
    exact h (centre i j)

/-- sample points that pass the margin test (margin > 0) lie on no edge of A, B or R: they belong to the domain the
    property quantifies over ("every point not lying on an edge of A, B or the result") -/
theorem clear_not_on_edge (m : Int) (hm : 0 < m) (A B R : EO.Polygon) (p : EO.Pt)
    (hc : EO.clearAll m A B R p = true) :
    ∀ e ∈ EO.allEdges A ++ EO.allEdges B ++ EO.allEdges R, ¬ OnSeg (toQ e.1) (toQ e.2) (toQ p) := by
  unfold EO.clearAll at hc
  simp only [Bool.and_eq_true] at hc
  obtain ⟨⟨hA, hB⟩, hR⟩ := hc
  intro e he
  simp only [List.mem_append] at he
  rcases he with (he | he) | he
  · exact EOQ.clear_not_on_edge m hm A p hA e he
  · exact EOQ.clear_not_on_edge m hm B p hB e he
  · exact EOQ.clear_not_on_edge m hm R p hR e he

/-- the start vertex of a contour does not matter (executable definition) -/
theorem inside_rotate (P₁ P₂ : EO.Polygon) (l₁ l₂ : EO.Contour) (p : EO.Pt) :
    EO.inside (P₁ ++ (l₂ ++ l₁) :: P₂) p = EO.inside (P₁ ++ (l₁ ++ l₂) :: P₂) p :=
  inside_rotate_int P₁ P₂ l₁ l₂ p

/-- the direction of a contour does not matter (executable definition) -/
theorem inside_reverse (P₁ P₂ : EO.Polygon) (c : EO.Contour) (p : EO.Pt) :
    EO.inside (P₁ ++ c.reverse :: P₂) p = EO.inside (P₁ ++ c :: P₂) p :=
  inside_reverse_int P₁ P₂ c p

/-- the same over ℚ -/
theorem inside_rotate_rat (P₁ P₂ : QPolygon) (l₁ l₂ : QContour) (p : QPt) :
    inside (P₁ ++ (l₂ ++ l₁) :: P₂) p ↔ inside (P₁ ++ (l₁ ++ l₂) :: P₂) p :=
  EOQ.inside_rotate P₁ P₂ l₁ l₂ p

theorem inside_reverse_rat (P₁ P₂ : QPolygon) (c : QContour) (p : QPt) :
    inside (P₁ ++ c.reverse :: P₂) p ↔ inside (P₁ ++ c :: P₂) p :=
  EOQ.inside_reverse P₁ P₂ c p

/-- exactness of the common-denominator scaling used for sampled calls -/
theorem scaled_exact (d : EO.Dy) (emin : Int) (h : emin ≤ d.e) :
    ((d.scaled emin : Int) : ℚ) = dyVal d * (2 : ℚ) ^ (-emin) :=
  scaled_val d emin h

/-- exactness of the lattice coordinates used for lattice calls -/
theorem toInt_exact (d : EO.Dy) (n : Int) (h : d.toInt? = some n) : (n : ℚ) = dyVal d :=
  toInt?_val d n h

/-- exactness of the float decoding, for every bit pattern of a finite float of any binary format -/
theorem decodeBits_exact (eb mb bits : Nat) (d : EO.Dy) (h : EO.decodeBits eb mb bits = some d) :
    dyVal d = ieeeValue eb mb bits :=
  EOQ.decodeBits_exact eb mb bits d h

/-- only the patterns with all exponent bits set (infinities, NaN) are rejected -/
theorem decodeBits_none_iff (eb mb bits : Nat) :
    EO.decodeBits eb mb bits = none ↔ bits / 2 ^ mb % 2 ^ eb = 2 ^ eb - 1 :=
  EOQ.decodeBits_none_iff eb mb bits

/-- **soundness of the emptiness certificate**: if `EO.emptyCert op A B` holds, the Boolean combination is false at
    every rational point — the combined region is empty -/
theorem emptyCert_sound (op : EO.Op) (A B : EO.Polygon) (h : EO.emptyCert op A B = true) (p : QPt) :
    ¬ holds op (inside (polyQ A) p) (inside (polyQ B) p) :=
  EOQ.emptyCert_sound op A B h p

/-- an empty polygon in the sense of `Polygon.Empty` (no contour has a vertex) contains no point -/
theorem resultEmpty_no_region (R : EO.Polygon) (h : EO.resultEmpty R = true) (p : QPt) : ¬ inside (polyQ R) p := by
  apply noEdges_not_inside
  unfold EO.noEdges EO.allEdges
  unfold EO.resultEmpty at h
  rw [List.all_eq_true] at h
  rw [List.isEmpty_iff, List.flatMap_eq_nil_iff]
  intro c hc
  have := h c hc
  rw [List.isEmpty_iff] at this
  rw [this]; rfl

/-- **"return an empty polygon when the combined region is empty", full strength for lattice calls**: if the validator
    accepts and the Boolean combination of A and B holds at NO point, the returned polygon is empty (`Polygon.Empty`)
    and contains no point -/
theorem validateLattice_empty_full (N : Nat) (A B R : EO.Polygon) (op : EO.Op)
    (h : EO.validateLattice N A B R op = true)
    (hempty : ∀ p : QPt, ¬ holds op (inside (polyQ A) p) (inside (polyQ B) p)) :
    EO.resultEmpty R = true ∧ ∀ p : QPt, ¬ inside (polyQ R) p := by
  have h0 := h
  unfold EO.validateLattice at h
  simp only [Bool.and_eq_true] at h
  obtain ⟨⟨⟨⟨hA, hB⟩, _⟩, _⟩, _⟩ := h
  have he := validateLattice_empty N A B R op h0 ((regionEmpty_iff_everywhere N A B op hA hB).mpr hempty)
  exact ⟨he, resultEmpty_no_region R he⟩

/-- **the validator of a sampled call** (`EO.validateGeneral`, what the driver runs): the law at every listed sample
    point that keeps the margin, and — whenever the region is certified empty — an empty result, which then satisfies
    the law at EVERY point -/
theorem validateGeneral_sound (m : Int) (A B R : EO.Polygon) (op : EO.Op) (pts : List EO.Pt)
    (h : EO.validateGeneral m A B R op pts = true) :
    (∀ p ∈ pts, EO.clearAll m A B R p = true →
      (inside (polyQ R) (toQ p) ↔ holds op (inside (polyQ A) (toQ p)) (inside (polyQ B) (toQ p)))) ∧
    (EO.emptyCert op A B = true → EO.resultEmpty R = true ∧
      ∀ p : QPt, (inside (polyQ R) p ↔ holds op (inside (polyQ A) p) (inside (polyQ B) p))) := by
  unfold EO.validateGeneral at h
  simp only [Bool.and_eq_true] at h
  obtain ⟨⟨hp, he⟩, _⟩ := h
  refine ⟨fun p hpm hc => validatePoints_sound m A B R op pts hp p hpm hc, ?_⟩
  intro hcert
  unfold EO.validateEmpty at he
  rw [hcert] at he
  simp only [Bool.not_true, Bool.false_or] at he
  refine ⟨he, fun p => ?_⟩
  constructor
  · intro hR; exact absurd hR (resultEmpty_no_region R he p)
  · intro hop; exact absurd hop (emptyCert_sound op A B hcert p)

/-- **soundness of the general disjointness judgement** (a Jordan-type theorem for the even-odd rule, formerly only
    stated): if every edge of `A` is apart from every edge of `B` (`EO.segApart`), no edge of `A` starts inside `B` and no
    edge of `B` starts inside `A`, then NO point of the plane is inside both.  Proof (`Lemmas/EvenOddJordan.lean`):
    `inside` does not change along a segment that is apart from every edge (`EOQ.inside_const_segment`), and the first
    boundary point hit by the ray from a common point would contradict it (`EOQ.first_hit`). -/
theorem noContact_disjoint (A B : EO.Polygon) (h : EO.noContact A B = true) (p : QPt) :
    ¬ (inside (polyQ A) p ∧ inside (polyQ B) p) :=
  noContact_sound A B h p

/-- **soundness of the general containment judgement** (formerly only stated): boundaries apart, every edge of `A` starts
    inside `B`, no edge of `B` starts inside `A` ⇒ every point inside `A` is inside `B` (so `A.Sub(B)` is empty) -/
theorem containedIn_subset (A B : EO.Polygon) (h : EO.containedIn A B = true) (p : QPt)
    (ha : inside (polyQ A) p) : inside (polyQ B) p :=
  containedIn_sound A B h p ha

/-- the lemma that carries both: along a segment `u q` that is apart from every edge of `P`, `inside P` is constant -/
theorem inside_const_along_segment (P : QPolygon) (u q : QPt)
    (hap : ∀ e ∈ EO.allEdges P, ApartQ u q e.1 e.2) : inside P u ↔ inside P q :=
  inside_const_segment P u q hap

/-- the regions the validator judges empty (`EO.emptyJudged`: Intersect of `noContact` operands, Sub of a `containedIn`
    receiver) ARE empty at every point -/
theorem emptyJudged_region_empty (op : EO.Op) (A B : EO.Polygon) (h : EO.emptyJudged op A B = true) (p : QPt) :
    ¬ holds op (inside (polyQ A) p) (inside (polyQ B) p) :=
  emptyJudged_sound op A B h p

/-- hence the validator's demand is the property's clause "return an empty polygon when the combined region is empty":
    on a sampled call that it accepts and whose region is judged empty, the result is `Polygon.Empty` and the Boolean
    law holds at EVERY point of the plane -/
theorem validateGeneral_judged (m : Int) (A B R : EO.Polygon) (op : EO.Op) (pts : List EO.Pt)
    (h : EO.validateGeneral m A B R op pts = true) (hj : EO.emptyJudged op A B = true) :
    EO.resultEmpty R = true ∧
      ∀ p : QPt, (inside (polyQ R) p ↔ holds op (inside (polyQ A) p) (inside (polyQ B) p)) := by
  unfold EO.validateGeneral at h
  simp only [Bool.and_eq_true] at h
  have he := h.2
  unfold EO.validateEmptyJudged at he
  rw [hj] at he
  have hR : EO.resultEmpty R = true := by simpa using he
  refine ⟨hR, fun p => ⟨fun hin => absurd hin (resultEmpty_no_region R hR p),
    fun hop => absurd hop (emptyJudged_sound op A B hj p)⟩⟩

/-- CONTRAST: without the test of the edges' first end points, apart boundaries alone do not make regions disjoint: a
    small square inside a large one has apart boundaries and every point of it is inside both; `EO.noContact` rejects
    the pair, `EO.containedIn` accepts it -/
theorem noContact_contrast :
    let big : EO.Polygon := [[⟨0,0⟩,⟨6,0⟩,⟨6,6⟩,⟨0,6⟩]]
    let small : EO.Polygon := [[⟨2,2⟩,⟨4,2⟩,⟨4,4⟩,⟨2,4⟩]]
    EO.boundariesApart (EO.allEdges small) (EO.allEdges big) = true ∧ EO.noContact small big = false ∧
    EO.containedIn small big = true ∧ EO.inside small ⟨3,3⟩ = true ∧ EO.inside big ⟨3,3⟩ = true := by
  decide

/-- **soundness of the pruning check** (mechanism "bounding-box pruning of non-contributing contours",
    `Polygon.identifyNonContributingContours`): if `EO.pruneOK op A B fa fb` accepts the flags the real function
    returned for the operands of a call, then dropping the flagged contours from A and from B changes the combined
    region at NO point of the plane - the sweep may ignore them -/
theorem prune_sound (op : EO.Op) (A B : EO.Polygon) (fa fb : List Bool) (h : EO.pruneOK op A B fa fb = true)
    (p : QPt) :
    holds op (inside (polyQ A) p) (inside (polyQ B) p) ↔
      holds op (inside (polyQ (EO.keep fa A)) p) (inside (polyQ (EO.keep fb B)) p) :=
  pruneOK_sound op A B fa fb h p

/-- **the library's own `Polygon.ContainsEvenOdd` is the even-odd rule of the specification** (about the transcription
    `EO.containsEvenOdd` of `Contour.Contains` / `Polygon.ContainsEvenOdd`, exact arithmetic) at every point that lies
    on no edge of the polygon - the domain the property quantifies over -/
theorem containsEvenOdd_is_inside (P : EO.Polygon) (p : EO.Pt) (h : EO.offEdges P p = true) :
    EO.containsEvenOdd P p = true ↔ inside (polyQ P) (toQ p) := by
  rw [containsEvenOdd_eq_inside P p h]; exact inside_toQ P p

/-- `Polygon.Contains` is the UNION of the contours' even-odd regions -/
theorem containsAny_is_union (P : EO.Polygon) (p : EO.Pt) (h : EO.offEdges P p = true) :
    EO.containsAny P p = P.any (fun c => EO.inside [c] p) :=
  containsAny_eq P p h

/-- CONTRAST: `Polygon.Contains` is NOT the even-odd rule: in the hole of a ring it answers `true`, `ContainsEvenOdd`
    and the specification answer `false`; and on an edge the library's test and the specification may differ (the point
    (3,1) on the sloped edge of a triangle), which is why the property excludes points on edges -/
theorem contains_contrast :
    let ring : EO.Polygon := [[⟨0,0⟩,⟨6,0⟩,⟨6,6⟩,⟨0,6⟩], [⟨2,2⟩,⟨4,2⟩,⟨4,4⟩,⟨2,4⟩]]
    EO.containsAny ring ⟨3,3⟩ = true ∧ EO.containsEvenOdd ring ⟨3,3⟩ = false ∧ EO.inside ring ⟨3,3⟩ = false ∧
    EO.containsEvenOdd [[⟨0,0⟩,⟨4,0⟩,⟨2,2⟩]] ⟨3,1⟩ = true ∧ EO.inside [[⟨0,0⟩,⟨4,0⟩,⟨2,2⟩]] ⟨3,1⟩ = false ∧
    EO.offEdges [[⟨0,0⟩,⟨4,0⟩,⟨2,2⟩]] ⟨3,1⟩ = false := by
  decide

/-- **the local minima table hands the whole boundary to the sweep** (mechanism "local minima table / bound
    construction", `buildLocalMinimaTable`; translation validation of that stage): if `EO.lmtOK P E` accepts the edges `E`
    of all bounds of the table the REAL code built for `P`, then counting the crossings of the rightward ray over `E` is
    the even-odd test of `P` at every rational point - the contour optimisation and the forward / reverse passes lost
    nothing and invented nothing -/
theorem lmt_sound (P : EO.Polygon) (E : List (EO.Pt × EO.Pt)) (h : EO.lmtOK P E = true) (p : QPt) :
    (E.countP (crossAt p)) % 2 = 1 ↔ inside (polyQ P) p :=
  lmtOK_sound_rat P E h p

/-- CONTRAST: a table that lacks one edge of a square, or lists a horizontal edge, is rejected -/
theorem lmt_contrast :
    let sq : EO.Polygon := [[⟨0,0⟩,⟨2,0⟩,⟨2,2⟩,⟨0,2⟩]]
    EO.lmtOK sq [(⟨2,0⟩,⟨2,2⟩), (⟨0,0⟩,⟨0,2⟩)] = true ∧ EO.lmtOK sq [(⟨2,0⟩,⟨2,2⟩)] = false ∧
    EO.lmtOK sq [(⟨2,0⟩,⟨2,2⟩), (⟨0,0⟩,⟨0,2⟩), (⟨0,0⟩,⟨2,0⟩)] = false := by
  decide

/-- **the emission step preserves the region** (mechanism "contour merge and emission", `polygonNode.generate`; about
    the transcription `EO.generate`): the polygon it returns contains exactly the points the active output chains
    contain under the even-odd rule - dropping repeated vertices, dropping chains with at most two vertices and writing
    chains back to front change nothing, at any point of the plane -/
theorem generate_region (chains : List (Bool × List EO.Pt)) (p : QPt) :
    inside (polyQ (EO.generate chains)) p ↔ inside (polyQ (EO.activeChains chains)) p :=
  EOQ.generate_region chains p

/-- what the verdict of the area `emit` means: if `EO.sameRegionLattice` accepts the polygon `R` the REAL `generate`
    returned for the chains, then `R` contains exactly the points the active chains contain, at every point of the
    plane -/
theorem emit_sound (N : Nat) (chains : List (Bool × List EO.Pt)) (R : EO.Polygon)
    (h : EO.sameRegionLattice N (EO.activeChains chains) R = true) (p : QPt) :
    inside (polyQ R) p ↔ inside (polyQ (EO.activeChains chains)) p := by
  unfold EO.sameRegionLattice at h
  simp only [Bool.and_eq_true] at h
  obtain ⟨⟨hA, hR⟩, hc⟩ := h
  have hB : EO.latticeOK N [] = true := by simp [EO.latticeOK, EO.allEdges]
  have := lattice_law_everywhere N _ [] R .union hA hB hR hc p
  simpa [holds, show ¬ inside (polyQ []) p from not_inside_nil p] using this

/-- CONTRAST: a chain of two vertices must be dropped, not emitted as it is: `[a, b]` has no region, and `generate`
    returns nothing for it and for a chain that only repeats one vertex; a stuttering square is emitted without the
    repeats -/
theorem generate_contrast :
    EO.generate [(true, [⟨0,0⟩,⟨2,0⟩]), (true, [⟨1,1⟩,⟨1,1⟩,⟨1,1⟩]), (false, [⟨0,0⟩,⟨2,0⟩,⟨2,2⟩,⟨0,2⟩])] = [] ∧
    EO.generate [(true, [⟨0,0⟩,⟨0,0⟩,⟨2,0⟩,⟨2,2⟩,⟨2,2⟩,⟨0,2⟩])] = [[⟨0,2⟩,⟨2,2⟩,⟨2,0⟩,⟨0,0⟩]] := by
  decide

/-- **the scan-beam table** (`scanBeamTree.add` + `buildScanBeamTable`; about the transcription `EO.scanBeamTable`):
    strictly ascending and holding exactly the ordinates that were added - the sweep visits every vertex ordinate once,
    from bottom to top, whatever the order of insertion -/
theorem scanBeamTable_spec (ys : List Int) :
    (EO.scanBeamTable ys).Pairwise (· < ·) ∧ ∀ z, z ∈ EO.scanBeamTable ys ↔ z ∈ ys :=
  EOQ.scanBeamTable_spec ys

example : EO.scanBeamTable [5, 3, 5, 9, 3, -1, 4] = [-1, 3, 4, 5, 9] := by decide

/-- **the pruning rule of the code is sound** (about the transcription `EO.nonContributing` of
    `Polygon.identifyNonContributingContours` with `Contour.Bounds` and `geom.Rect.Intersects`, in exact arithmetic;
    `one` > 0 is the number 1 in the coordinates of the call): dropping the contours the rule flags changes the
    combined region at no point, for every pair of operands and every operation -/
theorem nonContributing_sound (one : Int) (h1 : 0 < one) (op : EO.Op) (A B : EO.Polygon) (p : QPt) :
    holds op (inside (polyQ A) p) (inside (polyQ B) p) ↔
      holds op (inside (polyQ (EO.keep (EO.nonContributing one op A B).1 A)) p)
        (inside (polyQ (EO.keep (EO.nonContributing one op A B).2 B)) p) :=
  pruneOK_sound op A B _ _ (nonContributing_pruneOK one h1 op A B) p

/-- non-vacuity: the rule flags the far contours of a three-contour Intersect (and only those), nothing for Union -/
example : EO.nonContributing 1 .inter [[⟨0,0⟩,⟨2,0⟩,⟨2,2⟩,⟨0,2⟩], [⟨6,6⟩,⟨8,6⟩,⟨8,8⟩,⟨6,8⟩]]
    [[⟨1,1⟩,⟨4,1⟩,⟨4,4⟩,⟨1,4⟩], [⟨20,0⟩,⟨22,0⟩,⟨22,2⟩,⟨20,2⟩]] = ([false, true], [false, true]) := by decide
example : EO.nonContributing 1 .union [[⟨0,0⟩,⟨2,0⟩,⟨2,2⟩,⟨0,2⟩]] [[⟨20,0⟩,⟨22,0⟩,⟨22,2⟩,⟨20,2⟩]] =
    ([false], [false]) := by decide

/-- CONTRAST: pruning the receiver's contours for Sub as it is done for Intersect is wrong.  The receiver `A` is a unit
    square far from the argument `B`; flagging it is rejected by `EO.pruneOK`, and rightly so: the point (1/2,1/2) (in
    doubled coordinates (1,1)) is in `A \ B` but not in `(A without the flagged contour) \ B`. -/
theorem prune_contrast_sub :
    let A : EO.Polygon := [[⟨0,0⟩,⟨2,0⟩,⟨2,2⟩,⟨0,2⟩]]
    let B : EO.Polygon := [[⟨10,0⟩,⟨12,0⟩,⟨12,2⟩,⟨10,2⟩]]
    EO.pruneOK .sub A B [true] [false] = false ∧ EO.pruneOK .inter A B [true] [true] = true ∧
    EO.Op.sub.apply (EO.inside A ⟨1,1⟩) (EO.inside B ⟨1,1⟩) = true ∧
    EO.Op.sub.apply (EO.inside (EO.keep [true] A) ⟨1,1⟩) (EO.inside (EO.keep [false] B) ⟨1,1⟩) = false := by
  decide

/-- CONTRAST: contours whose boxes overlap in a strip, however thin, must not be flagged on the strength of a box test
    (they are not `EO.sepPts`); contours whose boxes merely touch may be - no point is inside both -/
theorem prune_contrast_touch :
    EO.sepPts [⟨0,0⟩,⟨3,0⟩,⟨3,3⟩,⟨0,3⟩] [⟨2,2⟩,⟨4,2⟩,⟨4,4⟩,⟨2,4⟩] = false ∧
    EO.sepPts [⟨0,0⟩,⟨2,0⟩,⟨2,2⟩,⟨0,2⟩] [⟨2,0⟩,⟨4,0⟩,⟨4,2⟩,⟨2,2⟩] = true := by
  decide

/-- the trivial-result shortcut at the head of `Polygon.construct` is taken only where the combined region is empty
    at every point, and it is subsumed by the emptiness certificate the validator applies -/
theorem shortCircuit_region_empty (op : EO.Op) (A B : EO.Polygon) (h : EO.shortCircuit op A B = true) :
    (∀ p : QPt, ¬ holds op (inside (polyQ A) p) (inside (polyQ B) p)) ∧ EO.emptyCert op A B = true := by
  refine ⟨fun p => shortCircuit_sound op A B h p, ?_⟩
  unfold EO.shortCircuit at h
  simp only [Bool.or_eq_true, Bool.and_eq_true, List.isEmpty_iff, beq_iff_eq] at h
  rcases h with (⟨hA, hB⟩ | ⟨hA, ho⟩) | ⟨hB, ho⟩
  · subst hA; subst hB; cases op <;> simp [EO.emptyCert, EO.noEdges, EO.allEdges]
  · subst hA; rcases ho with ho | ho <;> subst ho <;> simp [EO.emptyCert, EO.noEdges, EO.allEdges]
  · subst hB; subst ho; simp [EO.emptyCert, EO.noEdges, EO.allEdges]

/-- operands separated by the line through one of their edges (every pair of disjoint convex contours, whatever their
    bounding boxes) have disjoint regions (the part of the certificate `EO.emptyCert` that needs no Jordan argument) -/
theorem noContact_disjoint_partial (A B : EO.Polygon) (h : EO.sepLine A B = true) (p : QPt) :
    ¬ (inside (polyQ A) p ∧ inside (polyQ B) p) :=
  sepLine_sound A B h p

/-! IEEE decoding on concrete patterns: 1.5 (float64), 0.1f (float32), -0.0, the smallest float32 denormal, +Inf -/
example : EO.decodeBits 11 52 0x3FF8000000000000 = some ⟨3 * 2 ^ 51, -52⟩ := by decide
example : EO.decodeBits 8 23 0x3DCCCCCD = some ⟨13421773, -27⟩ := by decide
example : EO.decodeBits 11 52 0x8000000000000000 = some ⟨0, 0⟩ := by decide
example : EO.decodeBits 8 23 0x00000001 = some ⟨1, -149⟩ := by decide
example : EO.decodeBits 8 23 0x7F800000 = none := by decide

/-! non-vacuity: the unit square united with its right neighbour is the 2×1 rectangle; the validator accepts it, and
    rejects the same result for the intersection. -/
example : EO.validateLattice 2 [[⟨0,0⟩,⟨1,0⟩,⟨1,1⟩,⟨0,1⟩]] [[⟨1,0⟩,⟨2,0⟩,⟨2,1⟩,⟨1,1⟩]]
    [[⟨0,0⟩,⟨2,0⟩,⟨2,1⟩,⟨0,1⟩]] .union = true := by decide
example : EO.validateLattice 2 [[⟨0,0⟩,⟨1,0⟩,⟨1,1⟩,⟨0,1⟩]] [[⟨1,0⟩,⟨2,0⟩,⟨2,1⟩,⟨1,1⟩]]
    [[⟨0,0⟩,⟨2,0⟩,⟨2,1⟩,⟨0,1⟩]] .inter = false := by decide

end C05
