import Lemmas.EvenOdd
import Lemmas.EvenOddOutside
import Lemmas.EvenOddPerm
import Lemmas.EvenOddMargin
import Lemmas.EvenOddDyadic
import Lemmas.EvenOddEmpty
/-! # C05 — polygon Boolean operations compute the pointwise Boolean combination of regions

**Level: translation validation with a proved validator.**  The clipper of `/repo/xmath/geom/poly` (a ~1900-line
float port of the GPC scan-beam algorithm with an ε-bundling test) is NOT modelled and NOTHING universal is proved
about it.  Every individual call of the real `Union / Intersect / Sub / Xor` made by the check is validated by the
executable oracle of `Model/EvenOdd.lean` (`EO.validateLattice`, `EO.validatePoints`, run by `drv_c05` on the exact
values of the operands and of the result the real code returned).  The theorems below are about that oracle — the same
definitions the driver executes — and say what a `true` verdict means in terms of the even-odd rule over ℚ written
with the usual crossing test (`EOQ.crosses`, `EOQ.inside`):

* `validateLattice_sound` — a `true` verdict on a lattice call implies the Boolean law at EVERY point of EVERY open
  unit cell of `[0,N]²` (a finite check of `N²` cell centres decides uncountably many points);
* `validateLattice_outside`, `validateLattice_sound_outside` — and no point strictly outside the square is inside any
  of the three polygons (the parity argument: a closed contour crosses a horizontal line evenly often), so the law
  holds there too;
* `validateLattice_empty` — "empty when the combined region is empty" is part of the verdict;
* `emptyCert_sound`, `validateGeneral_sound`, `resultEmpty_no_region` — "empty when the combined region is empty" for
  sampled calls: `EO.emptyCert` is an exact certificate that the combined region is empty at EVERY point (an operand
  without edges; identical operands for Sub/Xor; operands separated by a vertical or horizontal line for Intersect; B a
  literal axis-parallel rectangle around all vertices of A for Sub); when it holds the validator `EO.validateGeneral`
  (what the driver runs on a sampled call) accepts only an empty result.  "Empty polygon" is `Polygon.Empty()`: no
  contour has a vertex (`EO.resultEmpty`); such a polygon contains no point.  (On every certified call of the runs so
  far the real code returned no contour at all — evidence key `certified_empty_results_that_had_contours` = 0.)
  The certificate for Intersect also recognises operands separated by the line through one of their edges
  (`EO.sepLine`, `noContact_disjoint_partial`: every pair of disjoint convex contours, overlapping boxes or not — the
  case in which the clipper's SWEEP, not its bounding-box shortcut, has to produce the empty result).  Beyond the
  proved certificate the validator applies the exact general judgement `EO.emptyJudged` (`noContact` for Intersect:
  boundaries do not meet and no vertex of one is inside the other; `containedIn` for Sub) and demands an empty result
  (`validateGeneral_judged`); the soundness of that judgement is a topological fact that is STATED, NOT PROVED
  (`noContact_disjoint_Statement`, `containedIn_subset_Statement`) — if it were false the effect would be false
  alarms, not misses;
* `validatePoints_sound`, `clear_not_on_edge` — a `true` verdict on a sampled call is the law at every listed sample
  point that keeps the margin, and such points do not lie on any edge (sampling: nothing follows for other points);
* `inside_int_iff_rat`, `inside_scale`, `inside_translate` — the executable division-free integer test is the ℚ-level rule, and scaling all
  numbers of a call to a common denominator (or shifting them by a common offset) does not change it;
* `decodeBits_exact`, `decodeBits_none_iff`, `scaled_exact`, `toInt_exact` — exactness of the float decoding: for
  EVERY bit pattern of a finite float `EO.decodeBits` returns a dyadic whose value is the IEEE-754 value
  `(-1)^s · m · 2^e` (`EOQ.ieeeValue`), only infinities/NaN are rejected, and the integers the driver hands to the
  validators are those values times the common power of two;
* `xor_concat`, `xor_concat_rat`, `inside_rotate`, `inside_reverse` (and `_rat` versions) — properties of the
  specification itself: `Xor` is concatenation of contour lists; start vertex and direction of a contour are
  irrelevant.

Lattice calls at other magnitudes (`LT`: coordinates `(lattice + offset)·2^k`) are brought back to `[0,N]²` by the driver
(`inside_scale`, `inside_translate`); a chain line is a sequence of calls each validated by `validateLattice` on the
exact values the real code returned for the earlier calls; the row-wise edge filter of `EO.cellsOK` is justified by
`EOQ.insideE_filter` and is part of `validateLattice_sound`.

Not proved: anything about the clipper over all inputs; the driver's text parsing and its choice of the common exponent
(`minExp`, a fold of `min` over all exponents of the call) are trusted glue; points lying exactly on lattice lines
(not on an edge) are not covered by `validateLattice_sound`; for general-position inputs only sample points are judged.
Known findings of the real code on DEGENERATE non-rectilinear lattice inputs (panics, wrong regions — outside the
property's general-position quantifier) are the fixed corpus `corpus/C05/degenerate.known.ops`. -/
namespace C05
open EOQ

/-- the executable integer test is the even-odd rule over ℚ (crossing test with the division) -/
theorem inside_int_iff_rat (P : EO.Polygon) (p : EO.Pt) : EO.inside P p = true ↔ inside (polyQ P) (toQ p) :=
  inside_toQ P p

/-- bringing all numbers of a call to a common denominator (uniform positive scaling) does not change `inside` -/
theorem inside_scale (s : ℚ) (hs : 0 < s) (P : QPolygon) (p : QPt) :
    inside (scalePoly s P) (scale s p) ↔ inside P p :=
  EOQ.inside_scale s hs P p

/-- a common offset of all numbers of a call does not change `inside` (lattice calls at large magnitudes are brought back
    to `[0,N]²` by the driver) -/
theorem inside_translate (t : QPt) (P : QPolygon) (p : QPt) :
    inside (translatePoly t P) (translate t p) ↔ inside P p :=
  EOQ.inside_translate t P p

/-- under the even-odd rule, concatenating the contours of two polygons is their symmetric difference
    (independent oracle for `Xor`) — executable definition -/
theorem xor_concat (A B : EO.Polygon) (p : EO.Pt) :
    EO.inside (A ++ B) p = (EO.inside A p != EO.inside B p) := by
  unfold EO.inside EO.crossCount EO.allEdges
  rw [List.flatMap_append, List.countP_append]
  generalize List.countP _ (List.flatMap EO.edgesOf A) = m
  generalize List.countP _ (List.flatMap EO.edgesOf B) = n
  rcases Nat.mod_two_eq_zero_or_one m with hm | hm <;> rcases Nat.mod_two_eq_zero_or_one n with hn | hn <;>
    simp [Nat.add_mod, hm, hn]

/-- the same over ℚ -/
theorem xor_concat_rat (A B : QPolygon) (p : QPt) : inside (A ++ B) p ↔ (inside A p ↔ ¬ inside B p) := by
  unfold inside crossCount EO.allEdges
  rw [List.flatMap_append, List.countP_append]
  omega

/-- on rectilinear lattice polygons a check of the cell centre decides the whole open cell -/
theorem lattice_cell_complete (A B R : QPolygon) (hA : LatticeRectilinear A) (hB : LatticeRectilinear B)
    (hR : LatticeRectilinear R) (op : Prop → Prop → Prop) (i j : ℤ)
    (hcheck : inside R (centre i j) ↔ op (inside A (centre i j)) (inside B (centre i j))) :
    ∀ p : QPt, InCell i j p → (inside R p ↔ op (inside A p) (inside B p)) :=
  EOQ.lattice_cell_complete A B R hA hB hR op i j hcheck

/-- **soundness of the lattice validator**: if `validateLattice N A B R op` answers `true` then at every rational
    point of every open unit cell of `[0,N]²` the result `R` contains the point exactly when the Boolean combination
    `op` of "inside A" and "inside B" holds -/
theorem validateLattice_sound (N : Nat) (A B R : EO.Polygon) (op : EO.Op)
    (h : EO.validateLattice N A B R op = true) (i j : Nat) (hi : i < N) (hj : j < N) (p : QPt)
    (hp : InCell i j p) :
    inside (polyQ R) p ↔ holds op (inside (polyQ A) p) (inside (polyQ B) p) := by
  unfold EO.validateLattice at h
  simp only [Bool.and_eq_true] at h
  obtain ⟨⟨⟨⟨hA, hB⟩, hR⟩, hc⟩, _⟩ := h
  have hl := cellsOK_cell N _ _ _ op hc i j hi hj
  rw [lawAt_iff, inside_centre, inside_centre, inside_centre] at hl
  exact EOQ.lattice_cell_complete (polyQ A) (polyQ B) (polyQ R) (latticeOK_rectilinear N A hA)
    (latticeOK_rectilinear N B hB) (latticeOK_rectilinear N R hR) (holds op) i j hl p hp

/-- "empty when the combined region is empty": a `true` verdict on a call whose combined region contains no cell
    means the returned polygon is empty (`Polygon.Empty`) -/
theorem validateLattice_empty (N : Nat) (A B R : EO.Polygon) (op : EO.Op)
    (h : EO.validateLattice N A B R op = true)
    (hempty : EO.regionEmpty N (EO.dblPoly A) (EO.dblPoly B) op = true) : EO.resultEmpty R = true := by
  unfold EO.validateLattice at h
  simp only [Bool.and_eq_true, Bool.or_eq_true, Bool.not_eq_true'] at h
  rcases h.2 with h2 | h2
  · rw [hempty] at h2; cases h2
  · exact h2

/-- a `true` verdict of the sample-point validator is the Boolean law at every listed sample point that keeps the
    margin `m` from all edges of A, B and R -/
theorem validatePoints_sound (m : Int) (A B R : EO.Polygon) (op : EO.Op) (pts : List EO.Pt)
    (h : EO.validatePoints m A B R op pts = true) (p : EO.Pt) (hp : p ∈ pts)
    (hc : EO.clearAll m A B R p = true) :
    inside (polyQ R) (toQ p) ↔ holds op (inside (polyQ A) (toQ p)) (inside (polyQ B) (toQ p)) := by
  unfold EO.validatePoints at h
  rw [List.all_eq_true] at h
  have h1 := h p hp
  unfold EO.pointOK at h1
  rw [hc] at h1
  simp only [Bool.not_true, Bool.false_or] at h1
  rw [lawAt_iff, inside_toQ, inside_toQ, inside_toQ] at h1
  exact h1

/-- no point strictly outside the closed square `[0,N]²` is inside A, B or R when the lattice validator accepts
    (all vertices lie in the square) -/
theorem validateLattice_outside (N : Nat) (A B R : EO.Polygon) (op : EO.Op)
    (h : EO.validateLattice N A B R op = true) (p : QPt)
    (hout : p.x < 0 ∨ (N : ℚ) < p.x ∨ p.y < 0 ∨ (N : ℚ) < p.y) :
    ¬ inside (polyQ A) p ∧ ¬ inside (polyQ B) p ∧ ¬ inside (polyQ R) p := by
  unfold EO.validateLattice at h
  simp only [Bool.and_eq_true] at h
  obtain ⟨⟨⟨⟨hA, hB⟩, hR⟩, _⟩, _⟩ := h
  exact ⟨outside_not_inside N _ (latticeOK_inSquareRect N A hA) p hout,
    outside_not_inside N _ (latticeOK_inSquareRect N B hB) p hout,
    outside_not_inside N _ (latticeOK_inSquareRect N R hR) p hout⟩

/-- hence the Boolean law also holds at every point strictly outside the square -/
theorem validateLattice_sound_outside (N : Nat) (A B R : EO.Polygon) (op : EO.Op)
    (h : EO.validateLattice N A B R op = true) (p : QPt)
    (hout : p.x < 0 ∨ (N : ℚ) < p.x ∨ p.y < 0 ∨ (N : ℚ) < p.y) :
    inside (polyQ R) p ↔ holds op (inside (polyQ A) p) (inside (polyQ B) p) := by
  obtain ⟨hA, hB, hR⟩ := validateLattice_outside N A B R op h p hout
  cases op <;> simp [holds, hA, hB, hR]

/-- sample points that pass the margin test (margin > 0) lie on no edge of A, B or R: they belong to the domain the
    property quantifies over ("every point not lying on an edge of A, B or the result") -/
theorem clear_not_on_edge (m : Int) (hm : 0 < m) (A B R : EO.Polygon) (p : EO.Pt)
    (hc : EO.clearAll m A B R p = true) :
    ∀ e ∈ EO.allEdges A ++ EO.allEdges B ++ EO.allEdges R, ¬ OnSeg (toQ e.1) (toQ e.2) (toQ p) := by
  unfold EO.clearAll at hc
  simp only [Bool.and_eq_true] at hc
  obtain ⟨⟨hA, hB⟩, hR⟩ := hc
  intro e he
  simp only [List.mem_append] at he
  rcases he with (he | he) | he
  · exact EOQ.clear_not_on_edge m hm A p hA e he
  · exact EOQ.clear_not_on_edge m hm B p hB e he
  · exact EOQ.clear_not_on_edge m hm R p hR e he

/-- the start vertex of a contour does not matter (executable definition) -/
theorem inside_rotate (P₁ P₂ : EO.Polygon) (l₁ l₂ : EO.Contour) (p : EO.Pt) :
    EO.inside (P₁ ++ (l₂ ++ l₁) :: P₂) p = EO.inside (P₁ ++ (l₁ ++ l₂) :: P₂) p :=
  inside_rotate_int P₁ P₂ l₁ l₂ p

/-- the direction of a contour does not matter (executable definition) -/
theorem inside_reverse (P₁ P₂ : EO.Polygon) (c : EO.Contour) (p : EO.Pt) :
    EO.inside (P₁ ++ c.reverse :: P₂) p = EO.inside (P₁ ++ c :: P₂) p :=
  inside_reverse_int P₁ P₂ c p

/-- the same over ℚ -/
theorem inside_rotate_rat (P₁ P₂ : QPolygon) (l₁ l₂ : QContour) (p : QPt) :
    inside (P₁ ++ (l₂ ++ l₁) :: P₂) p ↔ inside (P₁ ++ (l₁ ++ l₂) :: P₂) p :=
  EOQ.inside_rotate P₁ P₂ l₁ l₂ p

theorem inside_reverse_rat (P₁ P₂ : QPolygon) (c : QContour) (p : QPt) :
    inside (P₁ ++ c.reverse :: P₂) p ↔ inside (P₁ ++ c :: P₂) p :=
  EOQ.inside_reverse P₁ P₂ c p

/-- exactness of the common-denominator scaling used for sampled calls -/
theorem scaled_exact (d : EO.Dy) (emin : Int) (h : emin ≤ d.e) :
    ((d.scaled emin : Int) : ℚ) = dyVal d * (2 : ℚ) ^ (-emin) :=
  scaled_val d emin h

/-- exactness of the lattice coordinates used for lattice calls -/
theorem toInt_exact (d : EO.Dy) (n : Int) (h : d.toInt? = some n) : (n : ℚ) = dyVal d :=
  toInt?_val d n h

/-- exactness of the float decoding, for every bit pattern of a finite float of any binary format -/
theorem decodeBits_exact (eb mb bits : Nat) (d : EO.Dy) (h : EO.decodeBits eb mb bits = some d) :
    dyVal d = ieeeValue eb mb bits :=
  EOQ.decodeBits_exact eb mb bits d h

/-- only the patterns with all exponent bits set (infinities, NaN) are rejected -/
theorem decodeBits_none_iff (eb mb bits : Nat) :
    EO.decodeBits eb mb bits = none ↔ bits / 2 ^ mb % 2 ^ eb = 2 ^ eb - 1 :=
  EOQ.decodeBits_none_iff eb mb bits

/-- **soundness of the emptiness certificate**: if `EO.emptyCert op A B` holds, the Boolean combination is false at
    every rational point — the combined region is empty -/
theorem emptyCert_sound (op : EO.Op) (A B : EO.Polygon) (h : EO.emptyCert op A B = true) (p : QPt) :
    ¬ holds op (inside (polyQ A) p) (inside (polyQ B) p) :=
  EOQ.emptyCert_sound op A B h p

/-- an empty polygon in the sense of `Polygon.Empty` (no contour has a vertex) contains no point -/
theorem resultEmpty_no_region (R : EO.Polygon) (h : EO.resultEmpty R = true) (p : QPt) : ¬ inside (polyQ R) p := by
  apply noEdges_not_inside
  unfold EO.noEdges EO.allEdges
  unfold EO.resultEmpty at h
  rw [List.all_eq_true] at h
  rw [List.isEmpty_iff, List.flatMap_eq_nil_iff]
  intro c hc
  have := h c hc
  rw [List.isEmpty_iff] at this
  rw [this]; rfl

/-- **the validator of a sampled call** (`EO.validateGeneral`, what the driver runs): the law at every listed sample
    point that keeps the margin, and — whenever the region is certified empty — an empty result, which then satisfies
    the law at EVERY point -/
theorem validateGeneral_sound (m : Int) (A B R : EO.Polygon) (op : EO.Op) (pts : List EO.Pt)
    (h : EO.validateGeneral m A B R op pts = true) :
    (∀ p ∈ pts, EO.clearAll m A B R p = true →
      (inside (polyQ R) (toQ p) ↔ holds op (inside (polyQ A) (toQ p)) (inside (polyQ B) (toQ p)))) ∧
    (EO.emptyCert op A B = true → EO.resultEmpty R = true ∧
      ∀ p : QPt, (inside (polyQ R) p ↔ holds op (inside (polyQ A) p) (inside (polyQ B) p))) := by
  unfold EO.validateGeneral at h
  simp only [Bool.and_eq_true] at h
  obtain ⟨⟨hp, he⟩, _⟩ := h
  refine ⟨fun p hpm hc => validatePoints_sound m A B R op pts hp p hpm hc, ?_⟩
  intro hcert
  unfold EO.validateEmpty at he
  rw [hcert] at he
  simp only [Bool.not_true, Bool.false_or] at he
  refine ⟨he, fun p => ?_⟩
  constructor
  · intro hR; exact absurd hR (resultEmpty_no_region R he p)
  · intro hop; exact absurd hop (emptyCert_sound op A B hcert p)

/-- the validator also demands an empty result whenever the exact disjointness / containment judgement
    `EO.emptyJudged` holds (Intersect of `noContact` operands, Sub of a `containedIn` receiver) -/
theorem validateGeneral_judged (m : Int) (A B R : EO.Polygon) (op : EO.Op) (pts : List EO.Pt)
    (h : EO.validateGeneral m A B R op pts = true) (hj : EO.emptyJudged op A B = true) :
    EO.resultEmpty R = true := by
  unfold EO.validateGeneral at h
  simp only [Bool.and_eq_true] at h
  have he := h.2
  unfold EO.validateEmptyJudged at he
  rw [hj] at he
  simpa using he

/-- operands separated by the line through one of their edges (every pair of disjoint convex contours, whatever their
    bounding boxes) have disjoint regions: the part of `noContact_disjoint_Statement` that is proved -/
theorem noContact_disjoint_partial (A B : EO.Polygon) (h : EO.sepLine A B = true) (p : QPt) :
    ¬ (inside (polyQ A) p ∧ inside (polyQ B) p) :=
  sepLine_sound A B h p

/-- NOT PROVED (a topological fact about the even-odd rule): if no edge of `A` meets an edge of `B`, no vertex of `A`
    is inside `B` and no vertex of `B` is inside `A`, the regions are disjoint.  The validator uses `EO.noContact` as an
    exact judgement (an empty Intersect is demanded); its soundness rests on this statement.  If it were false the
    effect would be a false alarm, never a missed violation. -/
def noContact_disjoint_Statement : Prop :=
  ∀ A B : EO.Polygon, EO.noContact A B = true → ∀ p : QPt, ¬ (inside (polyQ A) p ∧ inside (polyQ B) p)

/-- NOT PROVED: if the boundaries do not meet, every vertex of `A` is inside `B` and no vertex of `B` is inside `A`,
    then `A ⊆ B` (so `A.Sub(B)` is empty).  Proved instances: `A = B` and `B` a covering rectangle (`emptyCert_sound`). -/
def containedIn_subset_Statement : Prop :=
  ∀ A B : EO.Polygon, EO.containedIn A B = true → ∀ p : QPt, inside (polyQ A) p → inside (polyQ B) p

/-! IEEE decoding on concrete patterns: 1.5 (float64), 0.1f (float32), -0.0, the smallest float32 denormal, +Inf -/
example : EO.decodeBits 11 52 0x3FF8000000000000 = some ⟨3 * 2 ^ 51, -52⟩ := by decide
example : EO.decodeBits 8 23 0x3DCCCCCD = some ⟨13421773, -27⟩ := by decide
example : EO.decodeBits 11 52 0x8000000000000000 = some ⟨0, 0⟩ := by decide
example : EO.decodeBits 8 23 0x00000001 = some ⟨1, -149⟩ := by decide
example : EO.decodeBits 8 23 0x7F800000 = none := by decide

/-! non-vacuity: the unit square united with its right neighbour is the 2×1 rectangle; the validator accepts it, and
    rejects the same result for the intersection. -/
example : EO.validateLattice 2 [[⟨0,0⟩,⟨1,0⟩,⟨1,1⟩,⟨0,1⟩]] [[⟨1,0⟩,⟨2,0⟩,⟨2,1⟩,⟨1,1⟩]]
    [[⟨0,0⟩,⟨2,0⟩,⟨2,1⟩,⟨0,1⟩]] .union = true := by decide
example : EO.validateLattice 2 [[⟨0,0⟩,⟨1,0⟩,⟨1,1⟩,⟨0,1⟩]] [[⟨1,0⟩,⟨2,0⟩,⟨2,1⟩,⟨1,1⟩]]
    [[⟨0,0⟩,⟨2,0⟩,⟨2,1⟩,⟨0,1⟩]] .inter = false := by decide

end C05
