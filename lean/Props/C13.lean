import Lemmas.LogHandlers
import Lemmas.LogHandlersErrs
import Lemmas.TraceProto
import Lemmas.TraceSync
import Lemmas.LogEntry
import Lemmas.LogLine
import Lemmas.LogFanout
import Lemmas.LogNest
import Lemmas.LogTree
import Lemmas.LogNestErrs
import Lemmas.LogFanoutAny
import Lemmas.TraceBuf
import Lemmas.LogFanoutLive
/-! # C13 — log handlers deliver each record whole, once, to every sink

Property theorems only.  The definitions (`TL.render`, `TL.deliver`, `TL.withGroup`, `TL.withAttrs`, `TL.Buf.*`,
`ML.handle`, `ML.withGroup`, `ML.withAttrs`) are those of `Model/LogHandlers.lean`, which the driver `drv_c13` executes
against the Go code on every check.  `TLSpec.line` (in `Lemmas/LogHandlers.lean`) is the declarative specification of a
record's bytes.  The clauses about concurrent loggers are theorems about the protocol models `TraceProto` (buffered
mode) and `TraceSync` (synchronous mode, an instance of the generic mutex machine); `Props/C13Lock.lean` decides that the
source has the lock / channel shape of these protocols, `Props/C13Facts.lean` that the constants are the source's. -/
namespace C13
open TL ML TLSpec

/-! ## tracelog: the bytes of a record -/

/-- "one line with the level tag, timestamp, message and every attribute (prefixed by the groups in force)"
    ("one line" = one line feed at the end of the main line PROVIDED the message, the keys, the group names and the
    rendered non-string values contain none: `tracelog.go:142,226,233-234` write them raw, only string values are
    quoted; the model does the same and the correspondence stream contains such inputs):
    what a handler writes for a record is the specification line — header, then every non-empty attribute exactly
    once, in order (handler attributes first, then the record's), each named by the dot-joined groups in force at its
    position, empty groups and empty attributes elided, then the stack text when the record carries one -/
theorem format_spec (σ : Store) (h : TL.Handler) (r : Record) :
    TL.render σ h r = TLSpec.line h.names (σ.view h.list) r :=
  format_eq_line h.names (σ.view h.list) r

/-- the specification made concrete for the common shape: a handler under groups `g₁ … gₙ` (all non-empty) and a record
    with plain attributes `k₁=t₁ … kₘ=tₘ` (m > 0) writes `header | g₁.….gₙ.k₁=t₁ … g₁.….gₙ.kₘ=tₘ\n` -/
theorem format_flat (σ : Store) (h : TL.Handler) (r : Record) (groups : List Bytes) (kvs : List (Bytes × Bytes))
    (hg : σ.view h.list = groups.map Entry.grp) (hne : ∀ g ∈ groups, g ≠ [])
    (ha : r.attrs = kvs.map (fun kv => Attr.leaf kv.1 kv.2)) (hm : kvs ≠ []) :
    TL.render σ h r =
      TL.header h.names r ++ [32, 124] ++
        kvs.flatMap (fun kv => [32] ++ groups.flatMap (· ++ [46]) ++ kv.1 ++ [61] ++ kv.2) ++ [10] := by
  rw [format_spec, hg]
  have hp : ∀ (gs : List Bytes) (p : Bytes), (∀ g ∈ gs, g ≠ []) →
      prefixE p (gs.map Entry.grp) = p ++ gs.flatMap (· ++ [46]) ∧ piecesE p (gs.map Entry.grp) = [] := by
    intro gs
    induction gs with
    | nil => intro p _; simp [prefixE, piecesE]
    | cons g gs ih =>
      intro p hgs
      have h1 : g ≠ [] := hgs g (List.mem_cons_self ..)
      have := ih (p ++ (g ++ [46])) (fun x hx => hgs x (List.mem_cons_of_mem _ hx))
      simp [prefixE, piecesE, h1, this]
  have hl : ∀ (l : List (Bytes × Bytes)) (p : Bytes),
      piecesL p (l.map (fun kv => Attr.leaf kv.1 kv.2)) = l.map (fun kv => Piece.kv (p ++ kv.1) kv.2) := by
    intro l p
    induction l with
    | nil => simp [piecesL]
    | cons kv l ih => simp [piecesL, pieces, ih]
  obtain ⟨h1, h2⟩ := hp groups [] hne
  have hall : allPieces (groups.map Entry.grp) r =
      kvs.map (fun kv => Piece.kv (groups.flatMap (· ++ [46]) ++ kv.1) kv.2) := by
    simp [allPieces, h1, h2, ha, hl]
  have hv : anyVisible (allPieces (groups.map Entry.grp) r) = true := by
    rw [hall]
    cases kvs with
    | nil => exact absurd rfl hm
    | cons kv l => simp [anyVisible, Piece.visible]
  have hs : lastStack (allPieces (groups.map Entry.grp) r) = none := by
    rw [hall]; simp [lastStack, Piece.trace?]
  have ht : texts (allPieces (groups.map Entry.grp) r) =
      kvs.flatMap (fun kv => [32] ++ groups.flatMap (· ++ [46]) ++ kv.1 ++ [61] ++ kv.2) := by
    rw [hall]; simp [texts, List.flatMap_map, Piece.text]
  simp [line, mainLine, hs, hv, ht]

/-- "followed by the stack-trace lines when the record carries an errs stack" — READING (DESIGN Appendix B; the code,
    `tracelog.go:194`, picks the stack up only while no group is in force): the theorem has the hypothesis
    `prefixE [] view = []`, i.e. it excludes handlers under any non-empty `WithGroup`; there the same record prints
    the stack as an ordinary attribute `g.stack_trace=[…]` on the main line (covered by `format_spec`, not by this
    theorem).  With no group in force, a record whose
    last stack carrier is `stack_trace=<carrier tr>` is written as the main line, a line feed, the stack text `tr`
    and a final line feed — in the same byte string, hence the same `Write` (see `one_write_per_record`) -/
theorem stack_lines_follow (σ : Store) (h : TL.Handler) (r : Record) (pre post : List Attr) (tr : Bytes) (fb : Attr)
    (hg : prefixE [] (σ.view h.list) = []) (hr : r.attrs = pre ++ [.stack stackKey tr fb] ++ post)
    (hp : carrierFreeL post = true) :
    TL.render σ h r = mainLine h.names (σ.view h.list) r ++ [10] ++ tr ++ [10] := by
  rw [format_spec, line, lastStack_of_last_carrier _ r pre post tr fb hg hr hp]

/-- without a stack carrier picked up, the record is exactly the main line and one line feed -/
theorem no_stack_one_line (σ : Store) (h : TL.Handler) (r : Record)
    (hn : lastStack (allPieces (σ.view h.list) r) = none) :
    TL.render σ h r = mainLine h.names (σ.view h.list) r ++ [10] := by
  rw [format_spec, line, hn]

/-! ## tracelog: delivery -/

/-- "exactly one Write to the sink" and "synchronous mode … returns the sink's error": with `BufferDepth` 0, `Handle`
    performs exactly one `Write`, of the whole record, leaves the shared state alone, and returns nil / the sink's
    error / propagates the sink's panic according to what the sink's `Write` did -/
theorem one_write_per_record (sk : SinkSt) (sink : Nat) (line : Bytes) (hb : sk.buf = none) :
    TL.deliver sk sink line =
      (sk, [line], match sk.mode with | .ok => Ret.nil | .fail k => Ret.err sink k | .panic => Ret.panic sink) := by
  unfold TL.deliver
  rw [hb]
  simp only [handleSync]
  cases sk.mode <;> rfl

/-- `Enabled` is the level threshold (at or above the configured level) -/
theorem enabled_iff (h : TL.Handler) (level : Int) : TL.enabled h level = true ↔ level ≥ h.level := by
  simp [TL.enabled]

/-! ## tracelog: derivation -/

/-- "WithAttrs/WithGroup never affecting the parent handler".  `Store.derive` transcribes `withGroupOrAttrs`
    (`make(len+1)`, `copy`, assign): it only ever adds a fresh array, so in this model isolation follows from the way
    the code derives; that the code really derives this way is carried by the differential tie (sibling trees at
    every depth; seeds ind-c13-a, own-c13-1), and the contrast example below (`Store.deriveAppend`) shows the model
    can express the aliasing failure.  Deriving with `WithGroup` changes the rendering of NO
    existing handler (the parent, its ancestors, its other children); existing slices stay valid; the new handler
    shares level, names and sink and sees the parent's list plus the group -/
theorem derive_isolated_group (σ : Store) (h : TL.Handler) (name : Bytes) :
    (∀ (h' : TL.Handler) (r : Record), σ.valid h'.list →
        (TL.withGroup σ h name).1.valid h'.list ∧ TL.render (TL.withGroup σ h name).1 h' r = TL.render σ h' r) ∧
    (name ≠ [] →
      (TL.withGroup σ h name).1.view (TL.withGroup σ h name).2.1.list = σ.view h.list ++ [.grp name] ∧
      (TL.withGroup σ h name).1.valid (TL.withGroup σ h name).2.1.list) ∧
    (name = [] → TL.withGroup σ h name = (σ, h, true)) := by
  by_cases hn : name = []
  · simp [TL.withGroup, hn]
  · refine ⟨fun h' r hv => ?_, fun _ => ?_, fun h0 => absurd h0 hn⟩
    · have := Store.derive_frame σ h.list (.grp name) h'.list hv
      simp only [TL.withGroup, hn, if_false, TL.render]
      exact ⟨this.1, by rw [this.2]⟩
    · have := Store.derive_new σ h.list (.grp name)
      simp only [TL.withGroup, hn, if_false]
      exact ⟨this.2, this.1⟩

/-- the same for `WithAttrs` -/
theorem derive_isolated_attrs (σ : Store) (h : TL.Handler) (as : List Attr) :
    (∀ (h' : TL.Handler) (r : Record), σ.valid h'.list →
        (TL.withAttrs σ h as).1.valid h'.list ∧ TL.render (TL.withAttrs σ h as).1 h' r = TL.render σ h' r) ∧
    (as ≠ [] →
      (TL.withAttrs σ h as).1.view (TL.withAttrs σ h as).2.1.list = σ.view h.list ++ [.attrs as] ∧
      (TL.withAttrs σ h as).1.valid (TL.withAttrs σ h as).2.1.list) ∧
    (as = [] → TL.withAttrs σ h as = (σ, h, true)) := by
  by_cases hn : as = []
  · simp [TL.withAttrs, hn]
  · have hne : as.isEmpty = false := by cases as <;> simp_all
    refine ⟨fun h' r hv => ?_, fun _ => ?_, fun h0 => absurd h0 hn⟩
    · have := Store.derive_frame σ h.list (.attrs as) h'.list hv
      simp only [TL.withAttrs, hne, Bool.false_eq_true, if_false, TL.render]
      exact ⟨this.1, by rw [this.2]⟩
    · have := Store.derive_new σ h.list (.attrs as)
      simp only [TL.withAttrs, hne, Bool.false_eq_true, if_false]
      exact ⟨this.2, this.1⟩

/-- `derive_isolated`, in one line: whatever handler `h` is derived from and however (`WithGroup` or `WithAttrs`), every
    handler `h'` that existed before (the parent `h` itself, an ancestor, a sibling) prints every record exactly as it
    did before -/
theorem derive_isolated (σ : Store) (h h' : TL.Handler) (name : Bytes) (as : List Attr) (r : Record)
    (hv : σ.valid h'.list) :
    TL.render (TL.withGroup σ h name).1 h' r = TL.render σ h' r ∧
    TL.render (TL.withAttrs σ h as).1 h' r = TL.render σ h' r :=
  ⟨((derive_isolated_group σ h name).1 h' r hv).2, ((derive_isolated_attrs σ h as).1 h' r hv).2⟩

/-- siblings: a second derivation from the same parent (here `WithAttrs` twice) does not change what the first child
    prints — the case a shared backing array would break -/
theorem derive_isolated_sibling (σ : Store) (h : TL.Handler) (as bs : List Attr) (r : Record) (ha : as ≠ [])
    (hv : σ.valid h.list) :
    let d1 := TL.withAttrs σ h as
    let d2 := TL.withAttrs d1.1 h bs
    TL.render d2.1 d1.2.1 r = TL.render d1.1 d1.2.1 r ∧ TL.render d2.1 h r = TL.render σ h r := by
  intro d1 d2
  have a1 := derive_isolated_attrs σ h as
  have a2 := derive_isolated_attrs d1.1 h bs
  have v1 := (a1.2.1 ha).2
  have p1 := a1.1 h r hv
  exact ⟨(a2.1 d1.2.1 r v1).2, ((a2.1 h r p1.1).2).trans p1.2⟩

/-- contrast (what isolation rests on): the `derive_isolated*` theorems hold because `withGroupOrAttrs` allocates
    `len+1` and copies.  Written with `append(h.list, ga)` instead (`Store.deriveAppend`: in place when the backing
    array has a free slot) the second child derived from a parent OVERWRITES the entry of the first: below the first
    child `a` (group "a") sees the group "b" after its sibling has been derived.  The model can express the failure;
    the code's way of deriving excludes it. -/
example :
    let names (l : List Entry) : List TL.Bytes := l.map fun e => match e with | .grp n => n | .attrs _ => []
    let p := ({} : Store).deriveAppend { arr := 0, len := 0 } (.grp [112])      -- the parent: one entry, capacity 2
    let a := p.1.deriveAppend p.2 (.grp [97])
    let b := a.1.deriveAppend p.2 (.grp [98])
    names (a.1.view a.2) = [[112], [97]] ∧ names (b.1.view a.2) = [[112], [98]] ∧
    -- the code's derivation on the same store: the first child is untouched
    names ((a.1.derive p.2 (.grp [98])).1.view a.2) = [[112], [97]] := by
  decide

/-! ### derivation TREES (siblings, cousins, any order of derivations)

`runD ops` replays a history of derivations — each one from ANY handler made so far — with the code's `Store.derive`;
`paths ops` computes, without any store, the entries on the path from the root to every handler. -/

/-- "WithAttrs/WithGroup never affecting the parent handler", for every derivation TREE: after any history of
    derivations, from any handlers, in any order, every handler sees through its slice exactly the entries on the path
    from the root to it — whatever its siblings, its aunts and its cousins were given, before or after it was made -/
theorem derivation_tree_view_is_path (ops : List DOp) (i : Nat) (s : Slice) (hi : (runD ops).hs[i]? = some s) :
    (runD ops).store.view s = ((paths ops)[i]?).getD [] ∧ (runD ops).store.valid s :=
  ⟨((runD_inv ops).2 i s hi).2, ((runD_inv ops).2 i s hi).1⟩

/-- … hence what a handler PRINTS is a function of its path alone, and no later derivation (by anybody, from anybody)
    changes a byte of it: handler `i` after the longer history `ops ++ more` renders every record as it did after `ops` -/
theorem derivation_tree_later_derivations_change_nothing (ops more : List DOp) (i : Nat) (s s' : Slice)
    (hi : (runD ops).hs[i]? = some s) (hi' : (runD (ops ++ more)).hs[i]? = some s')
    (level : Int) (names : List (Int × Bytes)) (sink : Nat) (r : Record) :
    TL.render (runD (ops ++ more)).store { level := level, names := names, sink := sink, list := s' } r =
      TL.render (runD ops).store { level := level, names := names, sink := sink, list := s } r := by
  have h1 := (derivation_tree_view_is_path ops i s hi).1
  have h2 := (derivation_tree_view_is_path (ops ++ more) i s' hi').1
  have hlt : i < (paths ops).length := by
    rw [← (runD_inv ops).1]
    rcases Nat.lt_or_ge i (runD ops).hs.length with h | h
    · exact h
    · rw [List.getElem?_eq_none h] at hi; cases hi
  simp only [TL.render]
  rw [h1, h2, paths_append ops more i hlt]

/-- the steps of `runD` ARE the calls the driver executes: one step of a derivation history is `TL.withGroup` /
    `TL.withAttrs` (non-empty name / list) on the store, applied to a handler whose list is the parent's slice — the new
    store is the step's store and the new handler's list is the slice the step appends.  (So the two theorems above speak
    about any sequence of `wg` / `wa` operations the driver runs, the driver's handler table playing the part of `hs`.) -/
theorem derivation_tree_steps_are_with_calls (d : DState) (parent : Nat) (h : TL.Handler) (name : Bytes)
    (as : List Attr) (hl : h.list = (d.hs[parent]?).getD { arr := 0, len := 0 }) (hn : name ≠ []) (ha : as ≠ []) :
    (d.step ⟨parent, .grp name⟩).store = (TL.withGroup d.store h name).1 ∧
    (d.step ⟨parent, .grp name⟩).hs = d.hs ++ [(TL.withGroup d.store h name).2.1.list] ∧
    (d.step ⟨parent, .attrs as⟩).store = (TL.withAttrs d.store h as).1 ∧
    (d.step ⟨parent, .attrs as⟩).hs = d.hs ++ [(TL.withAttrs d.store h as).2.1.list] := by
  have hne : as.isEmpty = false := by cases as <;> simp_all
  simp [DState.step, TL.withGroup, TL.withAttrs, hn, hne, hl]

/-- contrast (round 7, the shape of ind7-c13-b one level up): the same tree — parent `p`, its children `a` and `b`,
    then `c` under `a` and `d` under `b` — derived with `append` in place of `make+copy`: `b` overwrites the entry of its
    SIBLING `a`, and the COUSIN `c`, derived from `a` afterwards, inherits the wrong entry; with the code's derivation every
    handler shows its own path -/
example :
    let names (l : List Entry) : List TL.Bytes := l.map fun e => match e with | .grp n => n | .attrs _ => []
    let ops : List DOp := [⟨0, .grp [112]⟩, ⟨1, .grp [97]⟩, ⟨1, .grp [98]⟩, ⟨2, .grp [99]⟩, ⟨3, .grp [100]⟩]
    let bad := runDAppend ops
    let good := runD ops
    bad.hs.map (fun s => names (bad.store.view s)) =
      [[], [[112]], [[112], [98]], [[112], [98]], [[112], [98], [99]], [[112], [98], [100]]] ∧
    good.hs.map (fun s => names (good.store.view s)) =
      [[], [[112]], [[112], [97]], [[112], [98]], [[112], [97], [99]], [[112], [98], [100]]] ∧
    (paths ops).map names = good.hs.map (fun s => names (good.store.view s)) := by
  decide

/-! ## tracelog: buffered mode (the bounded FIFO under every schedule of producer and consumer steps) -/

/-- "buffered mode … never blocks": `Handle` on a buffered handler is a single step that returns nil whatever the
    state of the channel and of the sink (stalled or not, full or not), touches the sink only when the sink is not
    stalled, and keeps the channel within its capacity.  (In the sequential model "does not block" is the totality of
    this step: its result never depends on a later consumer step.) -/
theorem buf_handle_returns_nil (sk : SinkSt) (sink : Nat) (line : Bytes) (b : Buf) (hb : sk.buf = some b)
    (hq : b.queue.length ≤ b.cap) :
    (TL.deliver sk sink line).2.2 = Ret.nil ∧
    (sk.held = true → (TL.deliver sk sink line).2.1 = []) ∧
    ∃ b', (TL.deliver sk sink line).1.buf = some b' ∧ b'.queue.length ≤ b'.cap ∧ b'.cap = b.cap := by
  have hsend : (b.send line).1.queue.length ≤ (b.send line).1.cap ∧ (b.send line).1.cap = b.cap := by
    by_cases hl : b.queue.length < b.cap <;> simp [Buf.send, hl] <;> omega
  have htake : ∀ c : Buf, c.queue.length ≤ c.cap → c.take.queue.length ≤ c.take.cap ∧ c.take.cap = c.cap := by
    intro c hc
    obtain ⟨cap, inflight, queue⟩ := c
    cases inflight <;> cases queue <;> simp_all [Buf.take] <;> omega
  have h2 := htake _ hsend.1
  unfold TL.deliver
  rw [hb]
  by_cases hh : sk.held = true
  · simp only [hh, if_true]
    exact ⟨trivial, fun _ => trivial, _, rfl, h2.1, h2.2.trans hsend.2⟩
  · simp only [hh, Bool.false_eq_true, if_false]
    refine ⟨trivial, fun h0 => h0.elim, _, rfl, ?_, ?_⟩
    · simp [Buf.drain]
    · simp only [Buf.drain]; exact h2.2.trans hsend.2

/-- "may drop records when full": a record is dropped exactly when the channel is full at that moment -/
theorem buf_send_drops_iff_full (b : Buf) (x : Bytes) :
    ((b.send x).2 = false ↔ b.queue.length ≥ b.cap) ∧
    ((b.send x).2 = true → (b.send x).1.queue = b.queue ++ [x]) ∧
    ((b.send x).2 = false → (b.send x).1 = b) := by
  by_cases h : b.queue.length < b.cap <;> simp [Buf.send, h] <;> omega

/-- "never tears, duplicates": for every schedule `ops` of sends, receives, write completions and drains starting from
    an empty channel, what reached the sink is a prefix of the accepted records (FIFO, each whole and unchanged),
    the rest is still pending, nothing else exists; and the accepted records are a subsequence of the records sent —
    so no record reaches the sink twice or out of order, and none is invented or cut -/
theorem buf_fifo_no_dup_no_tear (cap : Nat) (ops : List BOp) :
    let t := ops.foldl Run.step { buf := { cap := cap } }
    t.written ++ t.buf.pending = t.accepted ∧ t.accepted.Sublist (sentOf ops) ∧ t.buf.queue.length ≤ cap := by
  intro t
  have inv := Run.foldl_inv cap ops { buf := { cap := cap } } (by simp [Run.Inv, Buf.pending])
  obtain ⟨more, hm, hs⟩ := Run.accepted_sublist ops { buf := { cap := cap } }
  refine ⟨inv.1, ?_, inv.2.1⟩
  simp only [List.nil_append] at hm
  show (ops.foldl Run.step { buf := { cap := cap } }).accepted.Sublist (sentOf ops)
  rw [hm]; exact hs

/-! ## tracelog, buffered mode: the protocol under EVERY schedule (`Model/TraceProto.lean`)

`N` producer goroutines, one delivery goroutine, a channel of capacity `cfg.cap`; `Handle` = the atomic step `fmt`
(format into a fresh buffer) followed by the atomic step `send` (the `select` with `default`); the delivery goroutine
alternates `recv` and `finish o` (the sink's `Write` returns — after any number of steps of the others — normally,
with an error that is ignored, or by a panic that kills the goroutine).  A schedule is any list of actions. -/

section Protocol
open TraceProto

/-- "buffered mode … never blocks": a `Handle` call is exactly two steps of its own goroutine and both are enabled in
    EVERY state — whatever the channel holds (also when it is full), whatever the delivery goroutine is doing (idle,
    stuck inside a `Write` that never returns, dead) and whatever the other producers do in between (`mid`: any
    actions of others): after `fmt p`, `mid`, `send p` the producer has finished the call (`pending = none`) and moved
    on to its next record -/
theorem buffered_never_blocks (cfg : Config) (s : State) (p : Nat) (pr : Prod) (l : TraceProto.Bytes) (mid : List Act)
    (hp : s.prods[p]? = some pr) (hidle : pr.pending = none) (hrec : cfg.line p pr.next = some l)
    (hmid : ∀ a ∈ mid, a.ofProd p = false) :
    (run cfg s (Act.fmt p :: mid ++ [Act.send p])).prods[p]? = some { next := pr.next + 1, pending := none } := by
  have h1 := fmt_completes cfg s p pr l hp hidle hrec
  have h2 := run_other cfg mid (step cfg s (.fmt p)) p hmid
  rw [h1] at h2
  have h3 := send_completes cfg (run cfg (step cfg s (.fmt p)) mid) p _ ⟨p, pr.next, l⟩ h2 rfl
  simpa [run, List.foldl_append] using h3

/-- "… never tears, duplicates" and per-producer FIFO, for every number of producers and every schedule from the
    start: every `Write` the sink received is exactly the line `Handle` formatted for one record of one producer; no
    record reaches the sink twice; the records of each producer arrive in that producer's program order; and
    globally the sink has received, in order, a prefix of the accepted sends (what was accepted and is not yet
    written is in the delivery goroutine's hands or in the channel — nothing else exists) -/
theorem buffered_no_tear_no_dup (cfg : Config) (n : Nat) (sched : List Act) :
    let s := run cfg (init n) sched
    (∀ x ∈ s.writes, cfg.line x.pid x.idx = some x.line) ∧
    (s.writes.map fun x => (x.pid, x.idx)).Nodup ∧
    (∀ p, ((s.writes.filter (·.pid == p)).map (·.idx)).Pairwise (· < ·)) ∧
    s.writes ++ s.cons.items ++ s.chan = accepted s ∧
    s.writes.Sublist (s.events.map (·.item)) := by
  intro s
  have h := inv_run cfg sched (init n) (inv_init cfg n)
  exact ⟨writes_lines cfg s h, nodup_of_before _ (writes_before cfg s h),
    fun p => producer_order_of_before _ p (writes_before cfg s h), h.fifo, writes_sublist_events cfg s h⟩

/-- "may drop records when full": a record is dropped ONLY if the channel held `BufferDepth` records at its `select`
    step, and it is accepted whenever it held fewer; the channel never exceeds its capacity -/
theorem buffered_drop_only_when_full (cfg : Config) (n : Nat) (sched : List Act) :
    let s := run cfg (init n) sched
    (∀ e ∈ s.events, (e.accepted = false → e.lenAtSend = cfg.cap) ∧ (e.lenAtSend < cfg.cap → e.accepted = true)) ∧
    s.chan.length ≤ cfg.cap := by
  intro s
  have h := inv_run cfg sched (init n) (inv_init cfg n)
  refine ⟨fun e he => ?_, h.cap⟩
  obtain ⟨h1, h2⟩ := h.full e he
  refine ⟨fun hf => ?_, h2.mpr⟩
  by_cases hlt : e.lenAtSend < cfg.cap
  · rw [h2.mpr hlt] at hf; cases hf
  · omega

/-- every completed `select` is in the log exactly once, in each producer's program order, with the line that was
    formatted for it (accepted or dropped): nothing handled is lost track of -/
theorem buffered_events_in_program_order (cfg : Config) (n : Nat) (sched : List Act) :
    let s := run cfg (init n) sched
    (∀ e ∈ s.events, cfg.line e.item.pid e.item.idx = some e.item.line) ∧
    ((s.events.map (·.item)).map fun x => (x.pid, x.idx)).Nodup ∧
    (∀ p, (((s.events.map (·.item)).filter (·.pid == p)).map (·.idx)).Pairwise (· < ·)) := by
  intro s
  have h := inv_run cfg sched (init n) (inv_init cfg n)
  exact ⟨h.lines, nodup_of_before _ h.order, fun p => producer_order_of_before _ p h.order⟩

/-- "never tears", one level down: what travels through the channel is `buffer.Bytes()`, a REFERENCE to the buffer
    `Handle` formatted into, which the sink reads only when the delivery goroutine gets to it.  In the buffer-level
    protocol (`BState`: `fmt` writes the buffer, `finish` hands the sink what the buffer holds at that moment) with the
    policy of the code — a fresh `bytes.Buffer` per call, never written again — under EVERY schedule the bytes of every
    `Write` are exactly the line that was formatted for that record: `sunk` is `writes` byte for byte -/
theorem buffered_payload_stable (cfg : Config) (n : Nat) (sched : List Act) :
    let b := runB cfg .fresh { s := init n } sched
    b.sunk = b.s.writes.map (·.line) ∧ b.s = run cfg (init n) sched ∧
    (∀ x ∈ b.s.writes, cfg.line x.pid x.idx = some x.line) := by
  intro b
  have h := binv_run cfg sched { s := init n } (binv_init cfg n)
  exact ⟨h.sunk, runB_s cfg .fresh sched { s := init n }, writes_lines cfg b.s h.base⟩

/-- contrast: with ONE buffer per goroutine that the next call resets and reuses (a buffer pool), the record that is
    still queued when its producer formats the next one reaches the sink with the next one's bytes — a duplicate and
    a loss; with the code's fresh buffers the same schedule delivers both records intact -/
example :
    let cfg : Config := { cap := 2, line := fun _ i => some [65 + i] }
    let sched : List Act := [.fmt 0, .send 0, .fmt 0, .send 0, .recv, .finish .ok, .recv, .finish .ok]
    (runB cfg .pooled { s := init 1 } sched).sunk = [[66], [66]] ∧
    (runB cfg .fresh { s := init 1 } sched).sunk = [[65], [66]] := by
  decide

/-- contrast (round 7, ind7-c13-a): the buffer comes from a `sync.Pool` shared by all goroutines and is put back by a
    `defer` when `Handle` returns — while its bytes are still referenced from the channel.  TWO producers, two records
    in flight: producer 0 logs "A" (queued, call returned, buffer back in the pool), producer 1 logs "C" into the same
    buffer: the sink receives "C" twice and never "A" — also when "A" is already in the delivery goroutine's hands,
    inside a `Write` that has not read the bytes yet.  With the code's fresh buffers both schedules deliver "A", "C". -/
example :
    let cfg : Config := { cap := 2, line := fun p i => some [65 + 2 * p + i] }
    let queued : List Act := [.fmt 0, .send 0, .fmt 1, .send 1, .recv, .finish .ok, .recv, .finish .ok]
    let inWrite : List Act := [.fmt 0, .send 0, .recv, .fmt 1, .send 1, .finish .ok, .recv, .finish .ok]
    (runB cfg .shared { s := init 2 } queued).sunk = [[67], [67]] ∧
    (runB cfg .shared { s := init 2 } inWrite).sunk = [[67], [67]] ∧
    (runB cfg .fresh { s := init 2 } queued).sunk = [[65], [67]] ∧
    (runB cfg .fresh { s := init 2 } inWrite).sunk = [[65], [67]] := by
  decide

/-- non-vacuity: three producers, capacity 1, a sink that never returns — the first record is in the delivery
    goroutine's hands, the second in the channel, the third is dropped having seen a full channel; all three calls
    have returned -/
example :
    let cfg : Config := { cap := 1, line := fun p i => if i = 0 then some [p] else none }
    let s := run cfg (init 3) [.fmt 0, .send 0, .recv, .fmt 1, .send 1, .fmt 2, .send 2]
    s.events.map (fun e => (e.accepted, e.lenAtSend)) = [(true, 0), (true, 0), (false, 1)] ∧
    s.cons = .writing ⟨0, 0, [0]⟩ ∧ s.chan = [⟨1, 0, [1]⟩] ∧ s.prods.map (·.pending) = [none, none, none] := by
  decide

/-! ### the two models of buffered mode are one: `TL.Buf` (run by `TL.deliver` for the `log` stream, theorems `buf_*`) is
the abstraction `absBuf` of the protocol state (run for the `sched` stream, theorems `buffered_*`) -/

/-- every step of the protocol IS the corresponding operation of the bounded FIFO on the abstraction: formatting does
    nothing to it; the `select` of a producer holding item `it` is `Buf.send it.line`, accepted exactly when `Buf.send`
    accepts; a receive of the living delivery goroutine is `Buf.take`; the return of `Write` is `Buf.finish`, and exactly
    the item in flight has been written; a whole `Handle` call (`fmt p`, `send p`) is `Buf.send` of the formatted line —
    the operation the buffered branch of `TL.deliver` starts with -/
theorem buffer_model_is_abstraction_of_protocol (cfg : Config) (s : State) :
    (∀ p, absBuf cfg (step cfg s (.fmt p)) = absBuf cfg s) ∧
    (∀ p pr it, s.prods[p]? = some pr → pr.pending = some it →
      absBuf cfg (step cfg s (.send p)) = ((absBuf cfg s).send it.line).1 ∧
      (step cfg s (.send p)).events = s.events ++ [⟨it, s.chan.length, ((absBuf cfg s).send it.line).2⟩]) ∧
    (s.cons ≠ .dead → absBuf cfg (step cfg s .recv) = (absBuf cfg s).take) ∧
    (absBuf cfg (step cfg s (.finish .ok)) = (absBuf cfg s).finish.1 ∧
      (step cfg s (.finish .ok)).writes.map (·.line) = s.writes.map (·.line) ++ (absBuf cfg s).finish.2) ∧
    (∀ p pr l, s.prods[p]? = some pr → pr.pending = none → cfg.line p pr.next = some l →
      absBuf cfg (run cfg s [.fmt p, .send p]) = ((absBuf cfg s).send l).1) :=
  ⟨fmt_refines cfg s, fun p pr it hp hpen => send_refines cfg s p pr it hp hpen, recv_refines cfg s,
    finish_refines cfg s, fun p pr l hp hi hl => handle_refines cfg s p pr l hp hi hl⟩

/-- … and the macro-step `Buf.drain` of `TL.deliver` (the test sink is not stalled: everything pending is written before
    the next operation) is the delivery goroutine's loop `finish; take` run until the channel is empty — so `TL.deliver`
    on a buffered sink is the protocol run `fmt p, send p, recv` followed, when the sink is free, by `(finish, recv)*`:
    "never blocks" is `buffered_never_blocks` about these steps, not the totality of `TL.deliver` -/
theorem buffer_drain_is_delivery_loop (cap : Nat) (q : List TL.Bytes) (i : Option TL.Bytes) :
    TL.Buf.settle (q.length + 1) { cap := cap, inflight := i, queue := q } =
      TL.Buf.drain { cap := cap, inflight := i, queue := q } :=
  TL.Buf.drain_is_settle cap q i

/-- the exploration behind the forced-schedule judge is fuel-bounded and NO theorem says the fuel suffices; instead a
    cut-short exploration is MARKED: out of fuel with work left, `closure` adds `exhaustMark`, nothing removes it, the
    judge answers "inconclusive" (reported in the evidence, neither a pass nor a finding).  Non-vacuity: fuel 0 with one
    state to do is marked; the scripts the check runs are not (here: two producers, capacity 1, two permits) -/
example :
    let cfg : Config := { cap := 1, line := fun _ _ => some [] }
    let x0 : XState := { s := init 2, permits := 0 }
    inconclusiveIn (closure cfg 0 [x0] []) = true ∧ inconclusiveIn (closure cfg 0 [] [x0]) = false ∧
    inconclusive cfg x0 [.handle 0, .handle 1, .permits 2, .handle 0] = false ∧
    (outcomes cfg x0 [.handle 0, .handle 1, .permits 2, .handle 0]).length > 0 := by
  decide

end Protocol

/-! ## tracelog, synchronous mode: every schedule of goroutines that log through one handler family

Instance `TraceSync.sys` of the generic mutex-bracket machine (`Model/Mutex.lean`, linearizability theorem
`Mutex.linearizable_fun` in `Lemmas/MutexLin.lean`): an operation is the bracketed part of `Handle`
(`Lock(); sink.Write(line); Unlock(); return err`), `Write` hands the line to the sink ONE BYTE PER MICRO-STEP (the sink
is not assumed atomic) and returns the error the sink scripted for that call.  `progs t` is the list of lines goroutine
`t` logs, `sch` any schedule, `c` the configuration it reaches. -/

section Sync
open Mutex TraceSync

/-- "concurrent logging never interleaves two records": under EVERY schedule, whenever the lock is free the sink's
    byte stream is exactly the lines of the finished calls one after the other, in the order in which the calls took
    the lock; and while a goroutine is inside the bracket the stream is that, followed by a prefix of ITS line — no
    byte of any other record can be in between -/
theorem sync_records_never_interleave (errAt : Nat → Bool) (progs : Nat → List TraceSync.Bytes) (sch : List Nat)
    (c : Mutex.Config Sink TraceSync.Bytes K Bool) (he : exec (sys errAt) true (init {} progs) sch = some c) :
    (c.holder = none → c.shared.out = lines c.acq ∧ c.shared.calls = c.acq.length) ∧
    (∀ t, c.holder = some t → ∃ line pre rest, c.acq = strip c.log ++ [(t, line)] ∧ pre ++ rest = line ∧
      c.shared.out = lines (strip c.log) ++ pre) := by
  obtain ⟨sm, hseq, hfree, hheld, _, _⟩ := linearizable (sys errAt) {} progs sch c he
  have hsm := seqRuns_seqExec (sys errAt) (write errAt) (fun _ => True)
    (fun op s _ => runs_write errAt op s) (fun _ _ _ => trivial) {} c.log sm trivial hseq
  rw [seqExec_write] at hsm
  have hout : sm.out = lines (strip c.log) := by
    have := congrArg (fun x => x.2.out) hsm.1; simpa using this.symm
  have hcalls : sm.calls = (strip c.log).length := by
    have := congrArg (fun x => x.2.calls) hsm.1; simpa using this.symm
  refine ⟨fun hn => ?_, fun t ht => ?_⟩
  · obtain ⟨e1, e2⟩ := hfree hn
    rw [e1, e2]; exact ⟨hout, hcalls⟩
  · obtain ⟨op, k, _, hreach, hacq⟩ := hheld t ht
    obtain ⟨pre, h1, h2⟩ := reach_prefix errAt op sm k c.shared hreach
    exact ⟨op, pre, k.rest, hacq, h2, by rw [h1, hout]⟩

/-- "synchronous mode preserves each goroutine's order": the order in which the calls took the lock — which by
    `sync_records_never_interleave` is the order of the records in the sink — contains the calls of every goroutine in
    that goroutine's program order: what `t` has logged so far, followed by what it still has to log, is its program -/
theorem sync_preserves_goroutine_order (errAt : Nat → Bool) (progs : Nat → List TraceSync.Bytes) (sch : List Nat)
    (c : Mutex.Config Sink TraceSync.Bytes K Bool) (he : exec (sys errAt) true (init {} progs) sch = some c) :
    ∀ t, opsOf t c.acq ++ (c.threads t).todo = progs t := by
  obtain ⟨_, _, _, _, _, hord⟩ := linearizable (sys errAt) {} progs sch c he
  exact hord

/-- "… and returns the sink's error": under every schedule, the `i`-th call to take the lock is the sink's `i`-th
    `Write`, and what that call returns is the error the sink gave for exactly that `Write` (`errAt i`) — never the
    error of another goroutine's record, never nil for a failed write; every goroutine's results are its part of
    that log, in its own order -/
theorem sync_returns_sink_error (errAt : Nat → Bool) (progs : Nat → List TraceSync.Bytes) (sch : List Nat)
    (c : Mutex.Config Sink TraceSync.Bytes K Bool) (he : exec (sys errAt) true (init {} progs) sch = some c)
    (hfree : c.holder = none) :
    c.log = resultsFrom errAt 0 c.acq ∧ (∀ t, (c.threads t).res = resOf t c.log) := by
  obtain ⟨h1, _, hres, _⟩ := linearizable_fun (sys errAt) (write errAt) (fun _ => True)
    (fun op s _ => runs_write errAt op s) (fun _ _ _ => trivial) {} trivial progs sch c he hfree
  rw [seqExec_write] at h1
  exact ⟨(congrArg Prod.fst h1).symm, hres⟩

/-- the lock is what does it: the same machine WITHOUT the bracket (`lock := false`) has a schedule on which the two
    records "ab" and "cd" of two goroutines reach the sink as "acbd" — and none on which this happens with the lock -/
example :
    (exec (sys fun _ => false) false (init {} (fun t => if t = 0 then [[97, 98]] else if t = 1 then [[99, 100]] else []))
      [0, 1, 0, 1, 0, 1, 0, 1, 0, 1]).map (fun c => c.shared.out) = some [97, 99, 98, 100] := by
  decide

/-- non-vacuity with the lock: a schedule of the same two goroutines; the second call's write fails and it is the
    second caller that gets the error -/
example :
    (exec (sys fun i => i == 1) true (init {} (fun t => if t = 0 then [[97, 98]] else if t = 1 then [[99, 100]] else []))
      [1, 1, 1, 1, 1, 0, 0, 0, 0, 0]).map (fun c => (c.shared.out, c.log)) =
      some ([99, 100, 97, 98], [(1, [99, 100], false), (0, [97, 98], true)]) := by
  decide

end Sync

/-! ## multilog -/

/-- "hands each record exactly once to every child enabled for its level … a child that fails or panics does not stop
    delivery to the others": the children called are exactly the enabled ones, once each, in order, whatever the
    outcomes.  (`ML.handle` is a plain fold: on it this holds by the shape of the loop.  `fanout_survives_panics`
    below derives that shape from the control flow of a panic and the per-child recover frame of `runHandler`; that
    the real loop has that frame is carried by the differential tie — seeds ind-c13-b, own-c13-4, own-c13-5.) -/
theorem fanout_each_enabled_once (cs : List Child) (level : Int) :
    (ML.handle cs level).deliveries = (cs.filter (·.enabled level)).map (·.id) := by
  have := (handle_gen cs level {}).1
  simpa [ML.handle] using this

/-- "hands each record exactly once to every child enabled for its level", down to the `Write` calls
    (`ML.handleTL`, which the driver executes for every record given to a fan-out handler: each enabled child renders the
    record with ITS OWN groups and attributes and delivers it to ITS sink, the states of the sinks threaded through
    because children may share one): with synchronous sinks the sinks receive, in the order of the children, exactly
    one `Write` per enabled child, whose bytes are that child's whole rendering of the record — nothing for a disabled
    child, nothing twice, whatever the other children's sinks do (fail, panic); every delivery ends the way its own sink
    dictates; and the sinks' states are what they were -/
theorem fanout_writes_each_enabled_child_once (σ : Store) (ss : ML.Sinks) (m : ML.Handler) (r : Record)
    (hs : ML.AllSync ss) :
    (ML.handleTL σ ss m r).writes =
      (m.children.filter (TL.enabled · r.level)).map (fun c => (c.sink, TL.render σ c r)) ∧
    (ML.handleTL σ ss m r).rets =
      (m.children.filter (TL.enabled · r.level)).map (fun c => (c.sink, ML.syncRet ss c)) ∧
    (∀ i, ML.getSink (ML.handleTL σ ss m r).sinks i = ML.getSink ss i) := by
  obtain ⟨h1, h2, h3⟩ := ML.foldl_stepTL_sync σ r ss hs m.children { sinks := ss } (fun _ => rfl)
  exact ⟨by simpa [ML.handleTL] using h2, by simpa [ML.handleTL] using h3, h1⟩

/-- non-vacuity: three children on three sinks — the second below its level, the third's sink panics: the first and
    the third sink each receive the record once, the second nothing -/
example :
    let mk (k : Nat) (lvl : Int) : TL.Handler := { level := lvl, names := [], sink := k, list := { arr := 0, len := 0 } }
    let f := ML.handleTL {} [(3, { mode := .panic })] { children := [mk 1 0, mk 2 8, mk 3 0] }
      { level := 4, ts := [64], msg := [109], attrs := [] }
    f.writes = [(1, [87, 82, 78, 64, 109, 10]), (3, [87, 82, 78, 64, 109, 10])] ∧
    f.rets = [(1, .nil), (3, .panic 3)] := by
  decide

/-- the same WITHOUT any assumption on the sinks (synchronous, buffered, stalled, failing, shared by several children):
    seen from any one sink `k`, a fan-out `Handle` is exactly the successive `TL.deliver` of the renderings of the enabled
    children that write to `k` (`ML.linesFor`), in child order, on `k`'s own state — final state, `Write` calls and
    per-call outcomes; the other children and sinks do not exist for it -/
theorem fanout_any_sinks_per_sink (σ : Store) (ss : ML.Sinks) (m : ML.Handler) (r : Record) (k : Nat) :
    ML.getSink (ML.handleTL σ ss m r).sinks k =
      (ML.seqDeliver k (ML.getSink ss k) (ML.linesFor σ r k m.children)).1 ∧
    ML.writesAt k (ML.handleTL σ ss m r) = (ML.seqDeliver k (ML.getSink ss k) (ML.linesFor σ r k m.children)).2.1 ∧
    ML.retsAt k (ML.handleTL σ ss m r) = (ML.seqDeliver k (ML.getSink ss k) (ML.linesFor σ r k m.children)).2.2 := by
  have := ML.foldl_stepTL_at σ r k m.children { sinks := ss }
  simpa [ML.handleTL, ML.writesAt, ML.retsAt] using this

/-- fan-out over BUFFERED children: for a sink `k` with a delivery channel, every delivery of the fan-out `Handle` to `k`
    returns nil (the caller never waits for the sink), and what `k` has received by the end of the call followed by what
    it is still owed (the item inside `Write`, then the channel) is what it was owed before followed by a SUBLIST of the
    renderings of the enabled children of `k`, each whole, in child order, none twice — a missing one met a full channel
    (`ML.deliver_buffered`: accepted exactly when the queue was below its capacity at that moment) -/
theorem fanout_buffered_sink_whole_once_or_dropped (σ : Store) (ss : ML.Sinks) (m : ML.Handler) (r : Record) (k : Nat)
    (b : Buf) (hb : (ML.getSink ss k).buf = some b) :
    ML.retsAt k (ML.handleTL σ ss m r) = (ML.linesFor σ r k m.children).map (fun _ => Ret.nil) ∧
    ∃ acc, acc.Sublist (ML.linesFor σ r k m.children) ∧
      ML.writesAt k (ML.handleTL σ ss m r) ++ ML.owed (ML.getSink (ML.handleTL σ ss m r).sinks k) =
        ML.owed (ML.getSink ss k) ++ acc := by
  obtain ⟨h1, h2, h3⟩ := fanout_any_sinks_per_sink σ ss m r k
  obtain ⟨i1, acc, hsub, i3⟩ := ML.seqDeliver_buffered k (ML.linesFor σ r k m.children) (ML.getSink ss k) b hb
  exact ⟨by rw [h3, i1], acc, hsub, by rw [h1, h2, i3]⟩

/-- the scheduler hypothesis of the "eventually" half, named: after `Handle` has returned, the delivery goroutine of the
    buffered sink keeps being scheduled and its `Write` calls return, i.e. it runs its loop `finish; take`
    (`TL.Buf.settle`, which is the protocol's `finish`/`recv` steps by `buffer_model_is_abstraction_of_protocol`) until the
    channel is empty — `queue.length + 1` rounds; `written` is what the sink receives in those rounds and `rest` the channel
    afterwards.  Nothing in the Go code guarantees this (a `Write` that never returns stalls the goroutine for ever):
    it is an assumption about the scheduler and the sink, as the fairness predicates of C16 are. -/
def DeliveryGoroutineRuns (b : Buf) (written : List Bytes) (rest : Buf) : Prop :=
  (TL.Buf.settle (b.queue.length + 1) b) = (rest, written)

/-- "deliver each record whole, once, to every sink", for a fan-out `Handle` over ANY MIX of synchronous and buffered
    children, sink by sink (`k`; `ML.linesFor` = the renderings of the enabled children that write to `k`, in child order).
    * `k` SYNCHRONOUS: when `Handle` returns, `k` has received exactly those renderings — one whole `Write` per enabled
      child, in order, none for a disabled child — and its state is what it was.
    * `k` BUFFERED: every delivery to `k` returned nil (the caller never waits); there is a sublist `acc` of those
      renderings — each whole, in order, none twice, nothing that was not handed over: the records that found room in the
      channel; the others met a full channel at their `select` (`ML.deliver_buffered`) and are in NO later `Write` — such
      that received-so-far ++ still-owed = owed-before ++ `acc` (SAFETY, no assumption); and UNDER `DeliveryGoroutineRuns`
      the sink ends up having received exactly owed-before ++ `acc`, with nothing left in the channel (EVENTUALLY). -/
theorem fanout_mixed_sinks_each_record_whole_once (σ : Store) (ss : ML.Sinks) (m : ML.Handler) (r : Record) (k : Nat) :
    ((ML.getSink ss k).buf = none →
      ML.writesAt k (ML.handleTL σ ss m r) = ML.linesFor σ r k m.children ∧
      ML.getSink (ML.handleTL σ ss m r).sinks k = ML.getSink ss k) ∧
    (∀ b, (ML.getSink ss k).buf = some b →
      ML.retsAt k (ML.handleTL σ ss m r) = (ML.linesFor σ r k m.children).map (fun _ => Ret.nil) ∧
      ∃ acc b', acc.Sublist (ML.linesFor σ r k m.children) ∧
        (ML.getSink (ML.handleTL σ ss m r).sinks k).buf = some b' ∧
        ML.writesAt k (ML.handleTL σ ss m r) ++ (b'.inflight.toList ++ b'.queue) = ML.owed (ML.getSink ss k) ++ acc ∧
        (∀ written rest, DeliveryGoroutineRuns b' written rest →
          ML.writesAt k (ML.handleTL σ ss m r) ++ written = ML.owed (ML.getSink ss k) ++ acc ∧
          rest.inflight = none ∧ rest.queue = [])) := by
  obtain ⟨h1, h2, h3⟩ := fanout_any_sinks_per_sink σ ss m r k
  refine ⟨fun hn => ?_, fun b hb => ?_⟩
  · obtain ⟨i1, i2, _⟩ := ML.seqDeliver_sync k (ML.linesFor σ r k m.children) (ML.getSink ss k) hn
    exact ⟨by rw [h2, i2], by rw [h1, i1]⟩
  · obtain ⟨j1, acc, hsub, j3⟩ := ML.seqDeliver_buffered k (ML.linesFor σ r k m.children) (ML.getSink ss k) b hb
    obtain ⟨b', hb'⟩ := ML.seqDeliver_buffered' k (ML.linesFor σ r k m.children) (ML.getSink ss k) b hb
    have hfin : (ML.getSink (ML.handleTL σ ss m r).sinks k).buf = some b' := by rw [h1]; exact hb'
    have howed : ML.owed (ML.getSink (ML.handleTL σ ss m r).sinks k) = b'.inflight.toList ++ b'.queue := by
      simp [ML.owed, hfin]
    have hsafe : ML.writesAt k (ML.handleTL σ ss m r) ++ (b'.inflight.toList ++ b'.queue) =
        ML.owed (ML.getSink ss k) ++ acc := by
      rw [← howed, h1, h2]; exact j3
    refine ⟨by rw [h3, j1], acc, b', hsub, hfin, hsafe, fun written rest hrun => ?_⟩
    obtain ⟨s1, s2, s3⟩ := ML.settle_all b'
    unfold DeliveryGoroutineRuns at hrun
    rw [hrun] at s1 s2 s3
    exact ⟨by rw [show written = _ from s1]; exact hsafe, s2, s3⟩

/-- non-vacuity of the hypothesis and of both halves: sink 1 synchronous, sink 7 buffered with depth 1 and stalled with one
    item in flight; children on 1, 7, 7: sink 1 has the record at once; sink 7 queues the first and drops the second; when
    its delivery goroutine runs, it receives the old item and the record once — and `DeliveryGoroutineRuns` holds of that -/
example :
    let mk (k : Nat) : TL.Handler := { level := 0, names := [], sink := k, list := { arr := 0, len := 0 } }
    let ss : ML.Sinks := [(7, { buf := some { cap := 1, inflight := some [1] }, held := true })]
    let f := ML.handleTL {} ss { children := [mk 1, mk 7, mk 7] } { level := 0, ts := [64], msg := [109], attrs := [] }
    ML.writesAt 1 f = [[73, 78, 70, 64, 109, 10]] ∧ ML.writesAt 7 f = [] ∧
    (ML.getSink f.sinks 7).buf.map (fun b => (b.inflight, b.queue)) = some (some [1], [[73, 78, 70, 64, 109, 10]]) ∧
    (TL.Buf.settle 2 { cap := 1, inflight := some [1], queue := [[73, 78, 70, 64, 109, 10]] }).2 =
      [[1], [73, 78, 70, 64, 109, 10]] := by
  decide

example : ∃ rest, DeliveryGoroutineRuns { cap := 1, inflight := some [1], queue := [[73, 78, 70, 64, 109, 10]] }
    [[1], [73, 78, 70, 64, 109, 10]] rest := ⟨_, rfl⟩

/-- non-vacuity: two children on ONE buffered sink of depth 1 whose `Write` is stalled with one item in flight: the
    first child's record is queued, the second child's meets a full channel and is dropped; both deliveries return nil -/
example :
    let mk (lvl : Int) : TL.Handler := { level := lvl, names := [], sink := 7, list := { arr := 0, len := 0 } }
    let ss : ML.Sinks := [(7, { buf := some { cap := 1, inflight := some [1] }, held := true })]
    let f := ML.handleTL {} ss { children := [mk 0, mk 0] } { level := 0, ts := [64], msg := [109], attrs := [] }
    f.writes = [] ∧ f.rets = [(7, .nil), (7, .nil)] ∧
    ML.owed (ML.getSink f.sinks 7) = [[1], [73, 78, 70, 64, 109, 10]] := by
  decide

/-! ### nested fan-out handlers (`multilog.New(multilog.New(a, b), c)`): trees, executed by the driver as trees -/

/-- NESTING IS TRANSPARENT, by theorem: `Handle` of a tree of fan-out handlers — at every level the loop asks each child
    for `Enabled` (a fan-out child: "some child of mine is enabled") and calls `Handle` of the enabled ones, a fan-out
    child running the same loop one level down — produces exactly the sink states, the `Write` calls (per sink, in
    order) and the per-delivery outcomes (errors, panics, in order) of the FLAT loop `ML.handleTL` over the leaves; and
    `Enabled` of the tree is "some leaf is enabled" -/
theorem nested_handle_is_flat (σ : Store) (ss : ML.Sinks) (ks : List ML.Node) (r : Record) :
    (ML.Node.fan ks).handle σ r { sinks := ss } = ML.handleTL σ ss { children := (ML.Node.fan ks).leaves } r ∧
    ((ML.Node.fan ks).enabled r.level = true ↔ ∃ c ∈ (ML.Node.fan ks).leaves, TL.enabled c r.level = true) := by
  refine ⟨?_, ?_⟩
  · simp only [ML.Node.handle, ML.handleTL, ML.Node.leaves]
    exact ML.handleKids_eq σ r ks _
  · rw [ML.Node.enabled_eq]; simp

/-- … so "hands each record exactly once to every child enabled for its level" holds for NESTED handlers down to the
    `Write` calls: with synchronous sinks, exactly one whole `Write` per enabled LEAF, in left-to-right order of the
    tree, nothing for a leaf below its level (even inside an enabled subtree), every delivery ending as its own sink
    dictates -/
theorem nested_fanout_writes_each_enabled_leaf_once (σ : Store) (ss : ML.Sinks) (ks : List ML.Node) (r : Record)
    (hs : ML.AllSync ss) :
    ((ML.Node.fan ks).handle σ r { sinks := ss }).writes =
      ((ML.Node.fan ks).leaves.filter (TL.enabled · r.level)).map (fun c => (c.sink, TL.render σ c r)) ∧
    ((ML.Node.fan ks).handle σ r { sinks := ss }).rets =
      ((ML.Node.fan ks).leaves.filter (TL.enabled · r.level)).map (fun c => (c.sink, ML.syncRet ss c)) := by
  rw [(nested_handle_is_flat σ ss ks r).1]
  exact ⟨(fanout_writes_each_enabled_child_once σ ss _ r hs).1, (fanout_writes_each_enabled_child_once σ ss _ r hs).2.1⟩

/-- "applies WithAttrs/WithGroup to all children", nested: deriving a tree derives exactly its leaves, left to right,
    with the store threaded the same way as the flat `ML.withAttrs` / `ML.withGroup` — so `with_applies_to_all` and
    `with_group_applies_to_all` speak about every leaf of a nested handler -/
theorem nested_with_reaches_every_leaf (σ : Store) (n : ML.Node) (as : List Attr) (name : Bytes) (hn : name ≠ []) :
    (n.withAttrs σ as).1 = (ML.withAttrs σ { children := n.leaves } as).1 ∧
    (n.withAttrs σ as).2.leaves = (ML.withAttrs σ { children := n.leaves } as).2.1.children ∧
    (n.withGroup σ name).1 = (ML.withGroup σ { children := n.leaves } name).1 ∧
    (n.withGroup σ name).2.leaves = (ML.withGroup σ { children := n.leaves } name).2.1.children ∧
    n.withGroup σ [] = (σ, n) := by
  have ha := ML.Node.derive_eq (fun s c => TL.withAttrs s c as) n σ
  have hg := ML.Node.derive_eq (fun s c => TL.withGroup s c name) n σ
  refine ⟨?_, ?_, ?_, ?_, by simp [ML.Node.withGroup]⟩
  · simpa [ML.Node.withAttrs, ML.withAttrs] using ha.1
  · simpa [ML.Node.withAttrs, ML.withAttrs] using ha.2
  · simpa [ML.Node.withGroup, ML.withGroup, hn] using hg.1
  · simpa [ML.Node.withGroup, ML.withGroup, hn] using hg.2

/-- non-vacuity: `multilog.New(multilog.New(a, b), multilog.New(d), c)` with `a`, `c` at level 0 and `b`, `d` at level 8,
    a record at level 4: the inner handler over `a`, `b` is entered and delivers to `a` only, the one over `d` alone is
    not even entered, `c` gets the record; `c`'s sink panics and it is still reported after `a`'s outcome -/
example :
    let mk (k : Nat) (lvl : Int) : TL.Handler := { level := lvl, names := [], sink := k, list := { arr := 0, len := 0 } }
    let tree := ML.Node.fan [.fan [.leaf (mk 1 0), .leaf (mk 2 8)], .fan [.leaf (mk 4 8)], .leaf (mk 3 0)]
    let f := tree.handle {} { level := 4, ts := [64], msg := [109], attrs := [] } { sinks := [(3, { mode := .panic })] }
    f.writes = [(1, [87, 82, 78, 64, 109, 10]), (3, [87, 82, 78, 64, 109, 10])] ∧ f.rets = [(1, .nil), (3, .panic 3)] ∧
    (ML.Node.fan [.leaf (mk 4 8)]).enabled 4 = false ∧ tree.enabled 4 = true := by
  decide

/-- "Handle returns nil exactly when every delivery succeeded" -/
theorem fanout_nil_iff_all_ok (cs : List Child) (level : Int) :
    (ML.handle cs level).isNil = true ↔ ∀ c ∈ cs, c.enabled level = true → runChild c = none := by
  have h := (handle_gen cs level {}).2
  unfold Result.isNil ML.handle
  rw [h]
  simp only [List.nil_append, List.isEmpty_iff]
  rw [List.filterMap_eq_nil_iff]
  constructor
  · intro hh c hc he; exact hh c (by simp [hc, he])
  · intro hh c hc
    simp at hc
    exact hh c hc.1 hc.2

/-- "… and the children's errors otherwise": the accumulated error holds, in order, one item per enabled child that
    returned an error or panicked (the panic recovered into an error), and nothing else -/
theorem fanout_errors_collected (cs : List Child) (level : Int) :
    (ML.handle cs level).errors = (cs.filter (·.enabled level)).filterMap runChild := by
  have := (handle_gen cs level {}).2
  simpa [ML.handle] using this

/-- a child's outcome is reported faithfully: ok ↦ nothing, error ↦ that error, panic ↦ a recovered-panic error -/
theorem runChild_cases (c : Child) :
    (c.outcome = .ok → runChild c = none) ∧
    (∀ m, c.outcome = .err m → runChild c = some (.plain m)) ∧
    (∀ m, c.outcome = .panic m → runChild c = some (.recovered m)) := by
  refine ⟨fun h => ?_, fun m h => ?_, fun m h => ?_⟩ <;> simp [runChild, h]

/-! ### the same on the heap of `*errs.Error` cells (the C11 model `Errs`), where a child's error value is an object
that could be shared and modified.  `ML.accumulate h rets` is the loop `var result *errs.Error; result =
errs.Append(result, err)` over the values `rets` the deliveries returned (`nilIface` for a success); the driver runs
it on a heap that holds every sink's long-lived sentinel error and prints `Count`/`Message` of the sentinels after
every record.  What the list model above cannot say — values there are immutable — is said here.  Not expressible
even here: what a child does with its own error value between two calls, and stack traces (cells carry only a flag). -/

/-- "Handle returns … the children's errors": on the heap, the returned aggregate holds exactly the errors of this
    record's deliveries, in order (nil and typed-nil results contribute nothing; an aggregate returned by a child is
    flattened), and the heap stays well formed so the statement applies to the next record -/
theorem handle_errors_collected_heap (h : Errs.Heap) (rets : List Errs.Val) (hwf : Errs.WF h)
    (hids : ∀ id, Errs.Val.ref id ∈ rets → id < h.size) :
    Errs.argItems (ML.accumulate h rets).1 (ML.accumulate h rets).2 = rets.flatMap (Errs.argItems h) ∧
    Errs.WF (ML.accumulate h rets).1 :=
  ML.accumulate_items h rets hwf hids

/-- **Handle never modifies an error value a child returned** (nor any other `*errs.Error` that existed before the
    call): every pre-existing cell is bit for bit what it was — the aggregate is built from copies and fresh cells.
    In particular a sentinel error a child returns on every call never accumulates other children's failures. -/
theorem handle_keeps_child_errors (h : Errs.Heap) (rets : List Errs.Val) (hwf : Errs.WF h)
    (hids : ∀ id, Errs.Val.ref id ∈ rets → id < h.size) :
    (∀ i, i < h.size → (ML.accumulate h rets).1[i]? = h[i]?) ∧
    (∀ id, id < h.size → Errs.items (ML.accumulate h rets).1 id = Errs.items h id ∧
      Errs.count (ML.accumulate h rets).1 id = Errs.count h id) := by
  refine ⟨ML.accumulate_frame h rets hwf hids, fun id hid => ?_⟩
  have hi := ML.accumulate_keeps_items h rets hwf hids id hid
  exact ⟨hi, by rw [Errs.count_eq_items, Errs.count_eq_items, hi]⟩

/-- "Handle returns nil exactly when every delivery succeeded", about the function the driver prints (`ML.returned` =
    `result.ErrorOrNil()` on the heap): for EVERY well-formed heap and every list of values the deliveries returned —
    plain errors, `*errs.Error`s, aggregates a child built itself, nil interfaces, typed nils — the interface value
    `Handle` returns is the nil interface exactly when no delivery returned an error, and otherwise it is a non-nil
    `*errs.Error` holding exactly this record's errors.  (`fanout_nil_iff_all_ok` is the same statement on the list
    model, where it holds by construction; the unrepaired code — `var result error` — fails THIS statement.) -/
theorem handle_nil_iff_heap (h : Errs.Heap) (rets : List Errs.Val) (hwf : Errs.WF h)
    (hids : ∀ id, Errs.Val.ref id ∈ rets → id < h.size) :
    (ML.returned h rets = .nilIface ↔ ∀ v ∈ rets, Errs.argItems h v = []) ∧
    (ML.returned h rets ≠ .nilIface →
      ∃ r, ML.returned h rets = .ref r ∧ Errs.items (ML.accumulate h rets).1 r = rets.flatMap (Errs.argItems h)) :=
  ⟨ML.returned_nil_iff h rets hwf hids, ML.returned_ref h rets hwf hids⟩

/-- NESTED fan-out handlers, "the children's errors otherwise": the outer handler's deliveries returned `a`, then an inner
    fan-out handler ran (its own deliveries returned `ri`; its `Handle` returned `ML.returned h ri`: nil or ONE aggregate),
    then the deliveries `b`.  What the outer `Handle` ends with holds exactly the errors of `a`, of the inner handler's
    deliveries and of `b`, in that order — the items of the flat handler over all the leaves (`errs.Append` flattens an
    aggregate argument) — and no error value that existed before is modified -/
theorem nested_errors_flatten (h : Errs.Heap) (a ri b : List Errs.Val) (hwf : Errs.WF h)
    (ha : ∀ id, Errs.Val.ref id ∈ a → id < h.size) (hri : ∀ id, Errs.Val.ref id ∈ ri → id < h.size)
    (hb : ∀ id, Errs.Val.ref id ∈ b → id < h.size) :
    Errs.argItems (ML.accumulate (ML.accumulate h ri).1 (a ++ [ML.returned h ri] ++ b)).1
        (ML.accumulate (ML.accumulate h ri).1 (a ++ [ML.returned h ri] ++ b)).2 =
      (a ++ ri ++ b).flatMap (Errs.argItems h) ∧
    (∀ i, i < h.size → (ML.accumulate (ML.accumulate h ri).1 (a ++ [ML.returned h ri] ++ b)).1[i]? = h[i]?) :=
  ML.nested_accumulate_flattens h a ri b hwf ha hri hb

/-- non-vacuity: outer error, inner handler with one failing and one succeeding child, outer error: three errors; an
    inner handler whose children all succeed hands back nil and contributes nothing -/
example :
    let ri : List Errs.Val := [.plain 2 "y", .typedNil]
    let o := ML.accumulate (ML.accumulate #[] ri).1 [.plain 1 "x", ML.returned #[] ri, .plain 3 "z"]
    (match o.2 with | .ref id => Errs.count o.1 id | _ => 0) = 3 ∧
    ML.returned #[] [.typedNil, .nilIface] = .nilIface ∧
    (match (ML.accumulate #[] [.plain 1 "x", ML.returned #[] [.typedNil, .nilIface]]).2 with
      | .ref id => Errs.count (ML.accumulate #[] [.plain 1 "x", ML.returned #[] [.typedNil, .nilIface]]).1 id | _ => 0) = 1 := by
  decide

/-- which returned values count as "the delivery succeeded": the nil interface, a nil `*errs.Error` inside a non-nil
    interface (the shape of the original defect of this property), a nil pointer of a foreign error type, and an
    empty `*errs.Error`; every other value — a plain error, a non-empty `*errs.Error` — is an error -/
theorem child_value_is_error (h : Errs.Heap) (hwf : Errs.WF h) :
    Errs.argItems h .nilIface = [] ∧ Errs.argItems h .typedNil = [] ∧ Errs.argItems h .foreignNil = [] ∧
    (∀ u m, Errs.argItems h (.plain u m) ≠ []) ∧
    (∀ id, id < h.size → (Errs.argItems h (.ref id) = [] ↔ Errs.isEmpty h id = true)) := by
  refine ⟨by simp [Errs.argItems, Errs.isNil], by simp [Errs.argItems, Errs.isNil], by simp [Errs.argItems, Errs.isNil],
    by intro u m; simp [Errs.argItems, Errs.isNil], ?_⟩
  intro id hid
  simp only [Errs.argItems]
  constructor
  · intro hx
    cases he : Errs.isEmpty h id with
    | true => rfl
    | false => exact absurd hx (Errs.items_ne_nil hwf hid he)
  · exact Errs.items_of_empty h id

/-- "a child that fails or panics does not stop delivery to the others", with the control flow of a panic explicit
    (`ML.handleExc`: a panic unwinds until a frame with `recover`): because `multilog.go` puts that frame around each
    child call (`runHandler`), the loop with unwinding is the plain loop `ML.handle`, to which `fanout_*` apply -/
theorem fanout_survives_panics (cs : List Child) (level : Int) : ML.handleExc true cs level = ML.handle cs level := by
  unfold ML.handleExc ML.handle
  have := ML.foldl_stepExc_true level cs {}
  exact congrArg ML.LoopSt.res this

/-- contrast: with ONE recover frame around the whole loop the child after a panicking one never sees the record -/
example :
    (ML.handleExc false [{ id := 0, minLevel := 0, outcome := .panic "x" }, { id := 1, minLevel := 0, outcome := .ok }] 4).deliveries
      = [0] ∧
    (ML.handleExc true [{ id := 0, minLevel := 0, outcome := .panic "x" }, { id := 1, minLevel := 0, outcome := .ok }] 4).deliveries
      = [0, 1] := by
  decide

/-- multilog's `Enabled`: some child is enabled -/
theorem fanout_enabled_iff (cs : List Child) (level : Int) :
    ML.enabled cs level = true ↔ ∃ c ∈ cs, c.enabled level = true := by
  simp [ML.enabled]

/-- "applies WithAttrs/WithGroup to all children" (`WithAttrs`, non-empty list): the new handler has one child per
    old child, in order, each seeing its old list plus the attributes, with level, names and sink unchanged; and no
    existing handler (in particular no old child) changes its rendering -/
theorem with_applies_to_all (σ : Store) (m : ML.Handler) (as : List Attr) (ha : as ≠ [])
    (hv : ∀ c ∈ m.children, σ.valid c.list) :
    let d := ML.withAttrs σ m as
    d.2.1.children.length = m.children.length ∧
    (∀ (i : Nat) c c', m.children[i]? = some c → d.2.1.children[i]? = some c' →
      d.1.view c'.list = σ.view c.list ++ [.attrs as] ∧ c'.level = c.level ∧ c'.names = c.names ∧ c'.sink = c.sink) ∧
    (∀ (h' : TL.Handler) (r : Record), σ.valid h'.list → TL.render d.1 h' r = TL.render σ h' r) := by
  have hne : as.isEmpty = false := by cases as <;> simp_all
  have hf : Appends (fun s c => TL.withAttrs s c as) (.attrs as) := by
    intro s c; simp [TL.withAttrs, hne]
  obtain ⟨frame, rel⟩ := mapDerive_spec _ _ hf m.children σ hv
  obtain ⟨hl, hg⟩ := AllDerived.get _ _ _ _ _ rel
  refine ⟨hl, fun i c c' hc hc' => ?_, fun h' r hh => ?_⟩
  · obtain ⟨h1, _, h3, h4, h5⟩ := hg i c c' hc hc'
    exact ⟨h1, h3, h4, h5⟩
  · simp only [ML.withAttrs, TL.render]
    rw [(frame h'.list hh).2]

/-- the same for `WithGroup` with a non-empty name; with an empty name the receiver itself is returned -/
theorem with_group_applies_to_all (σ : Store) (m : ML.Handler) (name : Bytes)
    (hv : ∀ c ∈ m.children, σ.valid c.list) :
    let d := ML.withGroup σ m name
    (name = [] → d = (σ, m, true)) ∧
    (name ≠ [] →
      d.2.1.children.length = m.children.length ∧
      (∀ (i : Nat) c c', m.children[i]? = some c → d.2.1.children[i]? = some c' →
        d.1.view c'.list = σ.view c.list ++ [.grp name] ∧ c'.level = c.level ∧ c'.names = c.names ∧
          c'.sink = c.sink) ∧
      (∀ (h' : TL.Handler) (r : Record), σ.valid h'.list → TL.render d.1 h' r = TL.render σ h' r)) := by
  by_cases hn : name = []
  · simp [ML.withGroup, hn]
  · refine ⟨fun h0 => absurd h0 hn, fun _ => ?_⟩
    have hf : Appends (fun s c => TL.withGroup s c name) (.grp name) := by
      intro s c; simp [TL.withGroup, hn]
    obtain ⟨frame, rel⟩ := mapDerive_spec _ _ hf m.children σ hv
    obtain ⟨hl, hg⟩ := AllDerived.get _ _ _ _ _ rel
    simp only [ML.withGroup, hn, if_false]
    refine ⟨hl, fun i c c' hc hc' => ?_, fun h' r hh => ?_⟩
    · obtain ⟨h1, _, h3, h4, h5⟩ := hg i c c' hc hc'
      exact ⟨h1, h3, h4, h5⟩
    · simp only [TL.render]
      rw [(frame h'.list hh).2]

/-- `WithAttrs` with no attributes hands every child its own `WithAttrs(nil)`, which returns the child itself -/
theorem with_attrs_empty (σ : Store) (m : ML.Handler) :
    (ML.withAttrs σ m []).1 = σ ∧ (ML.withAttrs σ m []).2.1.children = m.children := by
  have := mapDerive_same (fun s c => TL.withAttrs s c []) (by intro s c; simp [TL.withAttrs]) m.children σ
  simp [ML.withAttrs, this]

/-! ## errs.Log* over tracelog (`errs/log.go`: `createRecord`, `log`/`logAttrs`, `stackValue`)

`ELog.logToTL` is the body shared by the ten entry points (`Log`, `LogTo`, `LogContext`, `LogContextTo`, `LogWithLevel` and
their `LogAttrs*` twins) run over a tracelog handler: enabled? — `createRecord` — the caller's attributes — `Handle`, result
dropped.  The driver runs `ELog.logToTL` (tracelog handlers) / `ELog.logRecord` (multilog handlers) for every `logx` line, the real
stack text being replaced by a placeholder after the harness has checked it; `stackValue.LogValue` is compared with
`ELog.logValueText` byte for byte through the attribute word `s` (the library's own `*stackValue` over a scripted stack
text, in every position an attribute can take). -/

section ErrsLog
open ELog

/-- "followed by the stack-trace lines when the record carries an errs stack", END TO END from the entry point: an
    error logged through `errs.Log*` into a synchronous tracelog handler that is enabled for the level and has no group
    in force results in exactly ONE `Write`: the main line — level tag, time stamp, the error's `Message()`, then the
    handler's and the caller's attributes exactly as for a record WITHOUT the stack attribute (the carrier prints
    nothing on the main line) — a line feed, the error's `StackTrace(true)`, a line feed; the sink's error is dropped,
    its panic reaches the caller.  (Hypothesis `hp`: the caller's own attributes carry no second stack; `hg`: the
    reading of Appendix B, see `stack_lines_follow`.) -/
theorem errlog_stack_lines_follow (σ : Store) (h : TL.Handler) (sk : SinkSt) (level : Int) (now : Bytes) (e : EErr)
    (attrs : List Attr) (hen : level ≥ h.level) (hb : sk.buf = none) (hg : prefixE [] (σ.view h.list) = [])
    (hp : carrierFreeL attrs = true) :
    logToTL σ h sk level now (some e) attrs =
      (sk, [mainLine h.names (σ.view h.list) { level := level, ts := now, msg := e.msg, attrs := attrs } ++ [10] ++
              e.trace ++ [10]],
        match sk.mode with | .panic => some h.sink | _ => none) ∧
    TL.header h.names (createRecord level now (some e) attrs) = TL.levelTag h.names level ++ now ++ e.msg := by
  have hen' : TL.enabled h level = true := (enabled_iff h level).mpr hen
  have hr := stack_lines_follow σ h (createRecord level now (some e) attrs) [] attrs e.trace
    (.leaf stackKey (logValueText e.trace)) hg (by simp [createRecord, stackAttr]) hp
  have hm : mainLine h.names (σ.view h.list) (createRecord level now (some e) attrs) =
      mainLine h.names (σ.view h.list) { level := level, ts := now, msg := e.msg, attrs := attrs } := by
    simp [mainLine, allPieces, hg, createRecord, stackAttr, piecesL, pieces, anyVisible, texts, Piece.visible,
      Piece.text, TL.header]
  refine ⟨?_, rfl⟩
  simp only [logToTL, logRecord, hen', if_true]
  rw [one_write_per_record sk h.sink _ hb, hr, hm]
  cases sk.mode <;> rfl

/-- the same through a fan-out handler: `errs.Log*` of an error into `multilog.New(children…)` whose children are
    synchronous tracelog handlers with no group in force — EVERY child enabled for the level receives exactly one
    `Write`: ITS main line (its level names, its `WithAttrs` attributes, the caller's attributes), a line feed, the
    error's stack text, a line feed; the children below the level receive nothing; whatever the sinks answer -/
theorem errlog_fanout_stack_lines_follow (σ : Store) (ss : ML.Sinks) (m : ML.Handler) (level : Int) (now : Bytes)
    (e : EErr) (attrs : List Attr) (hs : ML.AllSync ss)
    (hg : ∀ c ∈ m.children, prefixE [] (σ.view c.list) = []) (hp : carrierFreeL attrs = true) :
    (ML.handleTL σ ss m (createRecord level now (some e) attrs)).writes =
      (m.children.filter (TL.enabled · level)).map fun c =>
        (c.sink, mainLine c.names (σ.view c.list) { level := level, ts := now, msg := e.msg, attrs := attrs } ++ [10] ++
                  e.trace ++ [10]) := by
  have hlv : (createRecord level now (some e) attrs).level = level := rfl
  rw [(fanout_writes_each_enabled_child_once σ ss m _ hs).1, hlv]
  apply List.map_congr_left
  intro c hc
  have hcm : c ∈ m.children := (List.mem_filter.mp hc).1
  have hr := stack_lines_follow σ c (createRecord level now (some e) attrs) [] attrs e.trace
    (.leaf stackKey (logValueText e.trace)) (hg c hcm) (by simp [createRecord, stackAttr]) hp
  have hm : mainLine c.names (σ.view c.list) (createRecord level now (some e) attrs) =
      mainLine c.names (σ.view c.list) { level := level, ts := now, msg := e.msg, attrs := attrs } := by
    simp [mainLine, allPieces, hg c hcm, createRecord, stackAttr, piecesL, pieces, anyVisible, texts, Piece.visible,
      Piece.text, TL.header]
  rw [hr, hm]

/-- "every record AT OR ABOVE the configured level": below it, `errs.Log*` does nothing at all — no `Write`, the sink
    state untouched, nothing reaches the caller -/
theorem errlog_disabled_is_silent (σ : Store) (h : TL.Handler) (sk : SinkSt) (level : Int) (now : Bytes)
    (err : Option EErr) (attrs : List Attr) (hlt : level < h.level) :
    logToTL σ h sk level now err attrs = (sk, [], none) := by
  have : TL.enabled h level = false := by simp [TL.enabled]; omega
  simp [logToTL, logRecord, this]

/-- a nil error (`errs.Log(nil, …)`, also a typed nil) is logged with an empty message and NO stack attribute: the one
    `Write` is the main line of the caller's attributes and one line feed (unless the handler's own `WithAttrs` or the
    caller's attributes carry a stack: hypothesis `hn`) -/
theorem errlog_nil_error_one_line (σ : Store) (h : TL.Handler) (sk : SinkSt) (level : Int) (now : Bytes)
    (attrs : List Attr) (hen : level ≥ h.level) (hb : sk.buf = none)
    (hn : lastStack (allPieces (σ.view h.list) { level := level, ts := now, msg := [], attrs := attrs }) = none) :
    (logToTL σ h sk level now none attrs).2.1 =
      [mainLine h.names (σ.view h.list) { level := level, ts := now, msg := [], attrs := attrs } ++ [10]] := by
  have hen' : TL.enabled h level = true := (enabled_iff h level).mpr hen
  simp only [logToTL, logRecord, hen', if_true, createRecord]
  rw [one_write_per_record sk h.sink _ hb, no_stack_one_line σ h _ hn]

/-- the other half of the reading: under `WithGroup` (a non-empty prefix in force) the stack attribute of
    `createRecord` is NOT picked up; it resolves through `stackValue.LogValue` and the record is, byte for byte, the
    record that has the plain attribute `stack_trace=[l1 l2 …]` in its place -/
theorem errlog_under_group_is_attribute (σ : Store) (h : TL.Handler) (level : Int) (now : Bytes) (e : EErr)
    (attrs : List Attr) (hg : prefixE [] (σ.view h.list) ≠ []) :
    TL.render σ h (createRecord level now (some e) attrs) =
      TL.render σ h { level := level, ts := now, msg := e.msg,
                      attrs := .leaf stackKey (logValueText e.trace) :: attrs } := by
  rw [format_spec, format_spec]
  have : allPieces (σ.view h.list) (createRecord level now (some e) attrs) =
      allPieces (σ.view h.list) { level := level, ts := now, msg := e.msg,
                                  attrs := .leaf stackKey (logValueText e.trace) :: attrs } := by
    simp [allPieces, createRecord, stackAttr, piecesL, pieces, hg]
  simp only [line, mainLine, this]
  rfl

/-- … made concrete: a handler under the groups `g₁ … gₙ` (n > 0) writes, for an error with message `m` and stack text
    `tr` and plain caller attributes `kvs`, the ONE line
    `header | g₁.….gₙ.stack_trace=[l1 l2 …] g₁.….gₙ.k₁=t₁ …\n` — and it IS one line as far as the stack goes: what
    `LogValue` prints contains no line feed whatever the stack text is (the lines are split at the line feeds, trimmed
    and joined by spaces; joining them by line feeds instead gives the stack text back: nothing else is removed by the
    split) -/
theorem errlog_under_group_one_line (σ : Store) (h : TL.Handler) (level : Int) (now : Bytes) (e : EErr)
    (groups : List Bytes) (kvs : List (Bytes × Bytes)) (hv : σ.view h.list = groups.map Entry.grp)
    (hne : ∀ g ∈ groups, g ≠ []) (hgs : groups ≠ []) :
    TL.render σ h (createRecord level now (some e) (kvs.map fun kv => Attr.leaf kv.1 kv.2)) =
      TL.levelTag h.names level ++ now ++ e.msg ++ [32, 124] ++
        ([32] ++ groups.flatMap (· ++ [46]) ++ stackKey ++ [61] ++ logValueText e.trace) ++
        kvs.flatMap (fun kv => [32] ++ groups.flatMap (· ++ [46]) ++ kv.1 ++ [61] ++ kv.2) ++ [10] ∧
    10 ∉ logValueText e.trace ∧ joinLF (splitLF e.trace) = e.trace := by
  have hpre : ∀ (gs : List Bytes) (p : Bytes), (∀ g ∈ gs, g ≠ []) →
      prefixE p (gs.map Entry.grp) = p ++ gs.flatMap (· ++ [46]) := by
    intro gs
    induction gs with
    | nil => intro p _; simp [prefixE]
    | cons g gs ih =>
      intro p hgs'
      have h1 : g ≠ [] := hgs' g (List.mem_cons_self ..)
      have := ih (p ++ (g ++ [46])) (fun x hx => hgs' x (List.mem_cons_of_mem _ hx))
      simp [prefixE, h1, this]
  have hg : prefixE [] (σ.view h.list) ≠ [] := by
    rw [hv, hpre groups [] hne]
    cases groups with
    | nil => exact absurd rfl hgs
    | cons g gs => simp
  refine ⟨?_, logValueText_no_lf e.trace, joinLF_splitLF e.trace⟩
  rw [errlog_under_group_is_attribute σ h level now e _ hg]
  have := format_flat σ h
    { level := level, ts := now, msg := e.msg,
      attrs := .leaf stackKey (logValueText e.trace) :: kvs.map (fun kv => Attr.leaf kv.1 kv.2) } groups
    ((stackKey, logValueText e.trace) :: kvs) hv hne (by simp) (by simp)
  rw [this]
  simp [TL.header, List.append_assoc]

/-- non-vacuity: an error with a two-frame stack logged under group "g" -/
example :
    logValueText (TL.ascii "    [main.f] f.go:12\n    [main.g] g.go:3") = TL.ascii "[[main.f] f.go:12 [main.g] g.go:3]" ∧
    logValueText [] = TL.ascii "[]" ∧ trimSpace [32, 0xC2, 0xA0, 97, 32, 98, 0xE2, 0x80, 0x83, 9] = [97, 32, 98] := by
  decide

end ErrsLog

/-! ## errs.Recovery and multilog's per-child protection (`errs/recovery.go`, `multilog.go:64-68`)

`Rec.recovery guarded eh handler p?` is `Recovery(handler)` running as the deferred call of a function that unwinds with
the panic `p?` (or returns normally: `none`); `guarded = true` is the code (`defer Recovery(nil)` before the handler is
called).  The driver runs it for every `rec` line (area `rec`, compared with `errs.Recovery` call by call) and — as
`Rec.runHandler` — for every multilog delivery. -/

section Recovery
open Rec

/-- "a child that … panics does not stop delivery": NO panic leaves a function protected by `defer errs.Recovery(h)` —
    not the panic in flight (whatever its value: an error, a runtime error, a non-error), and not a panic of the
    handler itself -/
theorem recovery_contains_every_panic (eh : Errs.Heap) (h : HKind) (p? : Option PVal) :
    (recovery true eh h p?).2.escaped = none := by
  cases p? with
  | none => rfl
  | some p => cases h <;> cases p <;> rfl

/-- contrast: without the line `defer Recovery(nil)` the panic of a bad handler escapes — the statement above is about
    that line, not about the shape of the model -/
example :
    (recovery false #[] (.panics (.other "bad handler")) (some (.other "boom"))).2.escaped = some (.other "bad handler") ∧
    (recovery true #[] (.panics (.other "bad handler")) (some (.other "boom"))).2.escaped = none := by
  decide

/-- the handler is called exactly once when there is a panic and a handler, and not at all otherwise; the error it
    receives is a fresh non-empty `*errs.Error` "recovered from panic" whose cause is the panic value ITSELF when that
    is an error (identity, not a copy; a typed-nil error is no cause) and otherwise a fresh `*errs.Error` whose message
    is the `%+v` text of the value -/
theorem recovery_calls_handler_once (g : Bool) (eh : Errs.Heap) (h : HKind) (p? : Option PVal) :
    ((p? = none ∨ h = .nil) → recovery g eh h p? = (eh, {})) ∧
    (∀ p, p? = some p → h ≠ .nil →
      ∃ r, (recovery g eh h p?).2.calls = [.ref r] ∧ eh.size ≤ r ∧ r < (recovery g eh h p?).1.size ∧
        Errs.msgOf (recovery g eh h p?).1 r = "recovered from panic" ∧
        Errs.isEmpty (recovery g eh h p?).1 r = false ∧
        (∀ v, p = .err v → Errs.unwrap (recovery g eh h p?).1 (.ref r) = (if Errs.isNil v then .nilIface else v)) ∧
        (∀ t, p = .other t → Errs.unwrap (recovery g eh h p?).1 (.ref r) = .ref eh.size ∧
          Errs.msgOf (recovery g eh h p?).1 eh.size = t)) := by
  refine ⟨fun hh => ?_, fun p hp hn => ?_⟩
  · rcases hh with hh | hh
    · subst hh; rfl
    · subst hh; cases p? <;> rfl
  · subst hp
    exact recovery_arg g eh h p hn

/-- `Recovery` never modifies an error value that existed before — in particular not the `*errs.Error` a child
    panicked with: every old cell is bit for bit what it was, and the heap stays well formed -/
theorem recovery_keeps_panic_value (g : Bool) (eh : Errs.Heap) (h : HKind) (p? : Option PVal) (hwf : Errs.WF eh) :
    Errs.WF (recovery g eh h p?).1 ∧ ∀ i, i < eh.size → (recovery g eh h p?).1[i]? = eh[i]? :=
  ⟨(recovery_heap g eh h p? hwf).1, (recovery_heap g eh h p? hwf).2.2⟩

/-- `multilog.runHandler`: never panics (it is a total function of how the child ended); hands back exactly what the
    child returned, and for a child that panicked a fresh non-empty `*errs.Error` "recovered from panic" -/
theorem run_handler_reports (eh : Errs.Heap) (f : Flow) :
    (∀ v, f = .ret v → runHandler eh f = (eh, v)) ∧
    (∀ p, f = .panic p → ∃ r, (runHandler eh f).2 = .ref r ∧ eh.size ≤ r ∧ r < (runHandler eh f).1.size ∧
      Errs.isEmpty (runHandler eh f).1 r = false ∧ Errs.msgOf (runHandler eh f).1 r = "recovered from panic") :=
  runHandler_val eh f

/-- "Handle returns nil exactly when every delivery succeeded", WITH panics, end to end on the heap: run every enabled
    child under `runHandler` (`Rec.runAll`, the heap threaded through), accumulate what came back (`ML.returned`): the
    interface value `Handle` returns is nil exactly when every child RETURNED — none panicked — a value that counts as
    no error.  One panicking child, whatever it panicked with, makes the result non-nil; and no error value that
    existed before is modified by all of this. -/
theorem fanout_nil_iff_no_failure_no_panic (eh : Errs.Heap) (fl : List Flow) (hwf : Errs.WF eh)
    (hids : ∀ id, Flow.ret (.ref id) ∈ fl → id < eh.size) :
    (ML.returned (runAll eh fl).1 (runAll eh fl).2 = .nilIface ↔
      ∀ f ∈ fl, ∃ v, f = .ret v ∧ Errs.argItems eh v = []) ∧
    (∀ i, i < eh.size → (ML.accumulate (runAll eh fl).1 (runAll eh fl).2).1[i]? = eh[i]?) := by
  obtain ⟨x, hb, hiff⟩ := runAll_spec fl eh hwf hids
  refine ⟨?_, fun i hi => ?_⟩
  · rw [(handle_nil_iff_heap _ _ x.wf hb).1, hiff]
  · rw [ML.accumulate_frame _ _ x.wf hb i (Nat.lt_of_lt_of_le hi x.sz), x.fr i hi]

/-- non-vacuity: three children — ok, panics with a string, returns a plain error — give a non-nil result holding the
    recovered panic and the error; three successes give nil -/
example :
    let r := runAll #[] [.ret .nilIface, .panic (.other "boom"), .ret (.plain 1 "e")]
    ML.returned r.1 r.2 ≠ .nilIface ∧ r.2 = [.nilIface, .ref 1, .plain 1 "e"] ∧
    (let r0 := runAll #[] [.ret .nilIface, .ret .typedNil, .ret .foreignNil]; ML.returned r0.1 r0.2 = .nilIface) := by
  decide

end Recovery

/-! ## "one line" -/

/-- "… exactly one Write to the sink consisting of ONE LINE …, followed by the stack-trace lines": when the level tag,
    the time stamp, the message, the group names and every key and rendered value the record can print contain no line
    feed (`NoLFE` / `NoLFL`: the code writes them raw, see `format_spec`), the bytes of the `Write` are a main line
    WITHOUT any line feed, one line feed, and then either nothing or the stack text and a final line feed.  So the
    first line feed of the `Write` ends the record's line; nothing of another line precedes the stack text.  (The stack
    text of a carrier is not constrained: it is what follows the line.) -/
theorem record_is_one_line_then_stack (σ : Store) (h : TL.Handler) (r : Record)
    (hh : 10 ∉ TL.header h.names r) (he : NoLFE (σ.view h.list)) (ha : NoLFL r.attrs) :
    10 ∉ mainLine h.names (σ.view h.list) r ∧
    ((lastStack (allPieces (σ.view h.list) r) = none ∧
        TL.render σ h r = mainLine h.names (σ.view h.list) r ++ [10]) ∨
     (∃ tr, lastStack (allPieces (σ.view h.list) r) = some tr ∧
        TL.render σ h r = mainLine h.names (σ.view h.list) r ++ [10] ++ tr ++ [10])) := by
  refine ⟨mainLine_noLF _ _ _ hh he ha, ?_⟩
  have hr : TL.render σ h r = line h.names (σ.view h.list) r := format_eq_line h.names (σ.view h.list) r
  rw [hr, line]
  cases hl : lastStack (allPieces (σ.view h.list) r) with
  | none => exact Or.inl ⟨rfl, rfl⟩
  | some tr => exact Or.inr ⟨tr, rfl, rfl⟩

/-- the hypothesis about the header, for the level tags the code writes itself: with no configured names, a header is
    free of line feeds as soon as the time stamp and the message are, for the four named levels -/
theorem header_clean_named_levels (r : Record) (hl : r.level = -4 ∨ r.level = 0 ∨ r.level = 4 ∨ r.level = 8)
    (ht : 10 ∉ r.ts) (hm : 10 ∉ r.msg) : 10 ∉ TL.header [] r := by
  rcases hl with h | h | h | h <;> simp [TL.header, TL.levelTag, h, ht, hm, List.lookup]

section ErrsLogLine
open ELog

/-- "one line" for `errs.Log*`, whatever the stack text is: the record `createRecord` builds for an error prints no
    line feed through its stack attribute — picked up (no group in force) it prints nothing on the line, and under
    `WithGroup` it prints `LogValue()`, which contains none (`logValueText_no_lf`) — so with clean caller attributes
    `record_is_one_line_then_stack` applies to it -/
theorem errlog_record_attrs_clean (level : Int) (now : Bytes) (err : Option EErr) (attrs : List Attr)
    (ha : NoLFL attrs) : NoLFL (createRecord level now err attrs).attrs := by
  cases err with
  | none => simpa [createRecord] using ha
  | some e =>
    have hk : (10 : Nat) ∉ stackKey := by decide
    simp [createRecord, stackAttr, NoLFL, NoLF, ha, hk, logValueText_no_lf e.trace]

/-- what `stackValue.LogValue` prints (`errs/log.go:115-132`), declaratively: the stack text is cut exactly at its line
    feeds (joining the pieces by line feeds gives it back, no piece contains one), and each piece is replaced by a
    contiguous part of itself that neither begins nor ends with a white-space rune (`strings.TrimSpace` for the
    code points `unicode.IsSpace` accepts, `ELog.spaceSeqs`) -/
theorem logvalue_lines_cut_and_trimmed (trace : Bytes) :
    joinLF (splitLF trace) = trace ∧ (∀ l ∈ splitLF trace, 10 ∉ l) ∧
    (∀ l : Bytes, trimSpace l <:+: l ∧ stripOne spaceSeqs (trimSpace l) = none ∧
      stripOne (spaceSeqs.map List.reverse) (trimSpace l).reverse = none) :=
  ⟨joinLF_splitLF trace, fun l hl => splitLF_no_lf trace l hl,
    fun l => ⟨trimSpace_infix l, trimSpace_no_leading_space l, trimSpace_no_trailing_space l⟩⟩

/-- non-vacuity: U+2003 EM SPACE and a tab are trimmed, U+200B ZERO WIDTH SPACE and the information separator 0x1F are
    not white space for `unicode.IsSpace` and stay; an inner no-break space stays -/
example :
    trimSpace [0xE2, 0x80, 0x83, 9, 97, 0xC2, 0xA0, 98, 0xE2, 0x80, 0x8B, 32] = [97, 0xC2, 0xA0, 98, 0xE2, 0x80, 0x8B] ∧
    trimSpace [0x1F, 97, 13] = [0x1F, 97] ∧ trimSpace [32, 9, 0xE3, 0x80, 0x80] = [] ∧
    logValueText [32, 10, 10, 97, 32] = [91, 32, 32, 97, 93] := by
  decide

end ErrsLogLine

/-- non-vacuity of `record_is_one_line_then_stack`, and the raw line feed the hypotheses exclude: a key with a line
    feed is written as it is (two "lines" for one record) -/
example :
    TL.format [] [] { level := 0, ts := [64], msg := [109], attrs := [.leaf [107, 10, 108] [118]] } =
      [73, 78, 70, 64, 109, 32, 124, 32, 107, 10, 108, 61, 118, 10] ∧
    NoLFL [.leaf [107] [118], .group [103] [.leaf [97] [98]]] := by
  refine ⟨by decide, ?_⟩
  simp [NoLFL, NoLF]

/-! ## non-vacuity: the hypotheses are met by concrete values -/

/-- a handler under group "g" writes `INF<ts>m | g.k=v` and a line feed -/
example :
    let d := TL.withGroup {} { level := 0, names := [], sink := 1, list := { arr := 0, len := 0 } } [103]
    TL.render d.1 d.2.1 { level := 0, ts := [64], msg := [109], attrs := [.leaf [107] [118]] } =
      [73, 78, 70, 64, 109, 32, 124, 32, 103, 46, 107, 61, 118, 10] := by
  decide

/-- a top-level stack carrier followed by a plain attribute: the stack text follows the main line -/
example :
    TL.format [] [] { level := 8, ts := [64], msg := [109],
                      attrs := [.stack stackKey [84] (.leaf stackKey [102]), .leaf [107] [118]] } =
      [69, 82, 82, 64, 109, 32, 124, 32, 107, 61, 118, 10, 84, 10] := by
  decide

/-- two children, the first fails: the second is still called, and the result is not nil -/
example :
    (ML.handle [{ id := 0, minLevel := 0, outcome := .err "x" }, { id := 1, minLevel := 0, outcome := .ok }] 4).deliveries
      = [0, 1] ∧
    (ML.handle [{ id := 0, minLevel := 0, outcome := .err "x" }, { id := 1, minLevel := 0, outcome := .ok }] 4).isNil
      = false := by
  decide

end C13
