import Lemmas.GenTieGeom
import Props.C18
/-! # C18 / C07, second tie — the geometry definitions regenerated from the Go source are the model

`Generated/SSA_Geom.lean` is written by `gossa/ssagen … geom` from the typed SSA form of package `xmath/geom` of the
repository's working tree on every run of `./check C18`.  The type parameter `T` (`xmath.Numeric`, `constraints.Float`)
becomes an abstract Lean type `α` with exactly the operations the Go body uses (`+ - * /`, the comparisons, the `min` /
`max` builtins, small integer constants): the exact operations — machine overflow and float rounding are outside the
theorems of `Props/C18.lean` by their stated reading.  Each theorem says that a regenerated definition is the function
of `Model/Geom.lean` that those theorems are about (after forgetting that a Go `Rect` is a `Point` and a `Size`), for
EVERY `α` with these operations — in particular for `Int` and `Rat`, the two types the model is run and proved at; no
law of `α` is used.  `CenterX` / `CenterY` divide by the constant 2: the model takes the halving as a parameter
(`halfInt` truncates like Go's integer division, `halfRat` is exact), the theorem identifies it with `· / 2` of whatever
division `α` carries.  Theorems are wrapped in `when_translated` (see `Props/C03Gen.lean`). -/
set_option linter.unusedVariables false
set_option linter.unusedSectionVars false
namespace C18Gen
open Gen GenTieGeom

variable {α : Type} [Add α] [Sub α] [Mul α] [Div α] [Neg α] [LE α] [LT α] [Max α] [Min α] [OfNat α 0] [OfNat α 1]
  [OfNat α 2] [DecidableLE α] [DecidableLT α] [DecidableEq α]

/-! ## Rect -/

when_translated Gen.Geom_Rect_Empty in
theorem Geom_Rect_Empty_eq (r : Geom_Rect α) : Geom_Rect_Empty r = (flatR r).empty := by
  geo_tie [Gen.Geom_Rect_Empty, Geom.Rect.empty] []
when_translated Gen.Geom_Rect_Right in
theorem Geom_Rect_Right_eq (r : Geom_Rect α) : Geom_Rect_Right r = (flatR r).right := by
  geo_tie [Gen.Geom_Rect_Right, Geom.Rect.right] []
when_translated Gen.Geom_Rect_Bottom in
theorem Geom_Rect_Bottom_eq (r : Geom_Rect α) : Geom_Rect_Bottom r = (flatR r).bottom := by
  geo_tie [Gen.Geom_Rect_Bottom, Geom.Rect.bottom] []
when_translated Gen.Geom_Rect_TopLeft in
theorem Geom_Rect_TopLeft_eq (r : Geom_Rect α) : flatP (Geom_Rect_TopLeft r) = (flatR r).topLeft := by
  geo_tie [Gen.Geom_Rect_TopLeft, Geom.Rect.topLeft] []
when_translated Gen.Geom_Rect_TopRight in
theorem Geom_Rect_TopRight_eq (r : Geom_Rect α) : flatP (Geom_Rect_TopRight r) = (flatR r).topRight := by
  geo_tie [Gen.Geom_Rect_TopRight, Geom.Rect.topRight] [Geom.Rect.right]
when_translated Gen.Geom_Rect_BottomRight in
theorem Geom_Rect_BottomRight_eq (r : Geom_Rect α) : flatP (Geom_Rect_BottomRight r) = (flatR r).bottomRight := by
  geo_tie [Gen.Geom_Rect_BottomRight, Geom.Rect.bottomRight] [Geom.Rect.right, Geom.Rect.bottom]
when_translated Gen.Geom_Rect_BottomLeft in
theorem Geom_Rect_BottomLeft_eq (r : Geom_Rect α) : flatP (Geom_Rect_BottomLeft r) = (flatR r).bottomLeft := by
  geo_tie [Gen.Geom_Rect_BottomLeft, Geom.Rect.bottomLeft] [Geom.Rect.bottom]
when_translated Gen.Geom_Rect_CenterX in
theorem Geom_Rect_CenterX_eq (r : Geom_Rect α) : Geom_Rect_CenterX r = (flatR r).centerX (· / 2) := by
  geo_tie [Gen.Geom_Rect_CenterX, Geom.Rect.centerX] []
when_translated Gen.Geom_Rect_CenterY in
theorem Geom_Rect_CenterY_eq (r : Geom_Rect α) : Geom_Rect_CenterY r = (flatR r).centerY (· / 2) := by
  geo_tie [Gen.Geom_Rect_CenterY, Geom.Rect.centerY] []
when_translated Gen.Geom_Rect_Contains in
theorem Geom_Rect_Contains_eq (r i : Geom_Rect α) : Geom_Rect_Contains r i = (flatR r).contains (flatR i) := by
  geo_tie [Gen.Geom_Rect_Contains, Geom.Rect.contains] [Geom.Rect.empty, Geom.Rect.right, Geom.Rect.bottom]
when_translated Gen.Geom_Rect_Intersects in
theorem Geom_Rect_Intersects_eq (r o : Geom_Rect α) : Geom_Rect_Intersects r o = (flatR r).intersects (flatR o) := by
  geo_tie [Gen.Geom_Rect_Intersects, Geom.Rect.intersects] [Geom.Rect.empty, Geom.Rect.right, Geom.Rect.bottom]
when_translated Gen.Geom_Rect_Intersect in
theorem Geom_Rect_Intersect_eq (r o : Geom_Rect α) :
    flatR (Geom_Rect_Intersect r o) = (flatR r).intersect (flatR o) := by
  geo_tie [Gen.Geom_Rect_Intersect, Geom.Rect.intersect] [Geom.Rect.empty, Geom.Rect.right, Geom.Rect.bottom, Geom.Rect.zero]
when_translated Gen.Geom_Rect_Union in
theorem Geom_Rect_Union_eq (r o : Geom_Rect α) : flatR (Geom_Rect_Union r o) = (flatR r).union (flatR o) := by
  geo_tie [Gen.Geom_Rect_Union, Geom.Rect.union] [Geom.Rect.empty, Geom.Rect.right, Geom.Rect.bottom, Geom.Rect.zero]
when_translated Gen.Geom_Rect_Expand in
theorem Geom_Rect_Expand_eq (r : Geom_Rect α) (p : Geom_Point α) :
    flatR (Geom_Rect_Expand r p) = (flatR r).expand (flatP p) := by
  geo_tie [Gen.Geom_Rect_Expand, Geom.Rect.expand] [Geom.Rect.right, Geom.Rect.bottom]
when_translated Gen.Geom_Rect_Inset in
theorem Geom_Rect_Inset_eq (r : Geom_Rect α) (i : Geom_Insets α) :
    flatR (Geom_Rect_Inset r i) = (flatR r).inset (flatI i) := by
  geo_tie [Gen.Geom_Rect_Inset, Geom.Rect.inset] [Geom.Insets.width, Geom.Insets.height]

/-! ## Point, Insets -/

when_translated Gen.Geom_Point_In in
theorem Geom_Point_In_eq (p : Geom_Point α) (r : Geom_Rect α) : Geom_Point_In p r = (flatP p).inRect (flatR r) := by
  geo_tie [Gen.Geom_Point_In, Geom.Point.inRect] [Geom.Rect.empty, Geom.Rect.right, Geom.Rect.bottom]
when_translated Gen.Geom_Insets_Width in
theorem Geom_Insets_Width_eq (i : Geom_Insets α) : Geom_Insets_Width i = (flatI i).width := by
  geo_tie [Gen.Geom_Insets_Width, Geom.Insets.width] []
when_translated Gen.Geom_Insets_Height in
theorem Geom_Insets_Height_eq (i : Geom_Insets α) : Geom_Insets_Height i = (flatI i).height := by
  geo_tie [Gen.Geom_Insets_Height, Geom.Insets.height] []

/-! ## Matrix -/

when_translated Gen.Geom_NewIdentityMatrix in
theorem Geom_NewIdentityMatrix_eq : flatM (Geom_NewIdentityMatrix (α := α)) = Geom.Matrix.identity := by
  geo_tie [Gen.Geom_NewIdentityMatrix, Geom.Matrix.identity] []
when_translated Gen.Geom_NewTranslationMatrix in
theorem Geom_NewTranslationMatrix_eq (tx ty : α) :
    flatM (Geom_NewTranslationMatrix tx ty) = Geom.Matrix.newTranslation tx ty := by
  geo_tie [Gen.Geom_NewTranslationMatrix, Geom.Matrix.newTranslation] []
when_translated Gen.Geom_NewScaleMatrix in
theorem Geom_NewScaleMatrix_eq (sx sy : α) : flatM (Geom_NewScaleMatrix sx sy) = Geom.Matrix.newScale sx sy := by
  geo_tie [Gen.Geom_NewScaleMatrix, Geom.Matrix.newScale] []
when_translated Gen.Geom_Matrix_Translate in
theorem Geom_Matrix_Translate_eq (m : Geom_Matrix α) (tx ty : α) :
    flatM (Geom_Matrix_Translate m tx ty) = (flatM m).translate tx ty := by
  geo_tie [Gen.Geom_Matrix_Translate, Geom.Matrix.translate] []
when_translated Gen.Geom_Matrix_Scale in
theorem Geom_Matrix_Scale_eq (m : Geom_Matrix α) (sx sy : α) :
    flatM (Geom_Matrix_Scale m sx sy) = (flatM m).scale sx sy := by
  geo_tie [Gen.Geom_Matrix_Scale, Geom.Matrix.scale] []
when_translated Gen.Geom_Matrix_Multiply in
theorem Geom_Matrix_Multiply_eq (m o : Geom_Matrix α) :
    flatM (Geom_Matrix_Multiply m o) = (flatM m).multiply (flatM o) := by
  geo_tie [Gen.Geom_Matrix_Multiply, Geom.Matrix.multiply] []
when_translated Gen.Geom_Matrix_TransformPoint in
theorem Geom_Matrix_TransformPoint_eq (m : Geom_Matrix α) (p : Geom_Point α) :
    flatP (Geom_Matrix_TransformPoint m p) = (flatM m).transformPoint (flatP p) := by
  geo_tie [Gen.Geom_Matrix_TransformPoint, Geom.Matrix.transformPoint] []

/-! ## transported specifications, at the two types the model is run and proved at -/

when_translated Gen.Geom_Rect_Intersect in
/-- the regenerated `Rect.Intersect` at Go `int` coordinates: a point is in the intersection iff it is in both
    (`C18.intersect_spec_int`; the regenerated `Point.In` on both sides) -/
theorem gen_intersect_spec_int (a b : Geom_Rect Int) (p : Geom_Point Int) :
    Geom_Point_In p (Geom_Rect_Intersect a b) = (Geom_Point_In p a && Geom_Point_In p b) := by
  rw [Geom_Point_In_eq, Geom_Point_In_eq, Geom_Point_In_eq, Geom_Rect_Intersect_eq]
  exact C18.intersect_spec_int _ _ _
when_translated Gen.Geom_Rect_Contains in
/-- the regenerated `Rect.Contains` at exact rational coordinates (`C18.contains_iff_rat`) -/
theorem gen_contains_iff_rat (a b : Geom_Rect Rat) :
    Geom_Rect_Contains a b = true ↔
      (flatR b).empty = false ∧ ∀ p : Geom.Point Rat, p.inRect (flatR b) = true → p.inRect (flatR a) = true := by
  rw [Geom_Rect_Contains_eq]; exact C18.contains_iff_rat _ _
when_translated Gen.Geom_Matrix_Multiply in
/-- the regenerated `Matrix.Multiply` / `TransformPoint` compose (`C18.transform_multiply_rat`) -/
theorem gen_transform_multiply_rat (m n : Geom_Matrix Rat) (p : Geom_Point Rat) :
    flatP (Geom_Matrix_TransformPoint (Geom_Matrix_Multiply m n) p)
      = flatP (Geom_Matrix_TransformPoint n (Geom_Matrix_TransformPoint m p)) := by
  rw [Geom_Matrix_TransformPoint_eq, Geom_Matrix_Multiply_eq, Geom_Matrix_TransformPoint_eq,
    Geom_Matrix_TransformPoint_eq]
  exact C18.transform_multiply_rat (flatM m) (flatM n) (flatP p)

end C18Gen
