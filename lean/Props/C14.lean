import Lemmas.SafeFile
import Lemmas.SafeFileTemp
/-! # C14 — safe file replacement is all-or-nothing at every crash or fault point

Property theorems only (helper lemmas: `Lemmas/SafeFile.lean`; executable model: `Model/SafeFile.lean`).
`writeFile tmp dst N mode pieces cb fault : Res × List Act` is the model of `safe.WriteFileWithMode`: the result code and
the system calls issued in the destination directory, for a callback that hands `pieces` to a `bufio.Writer` of size
`N`, under an injected `fault`.  `run umask fs acts` is the directory after the actions; `acts.take k` is what has
happened when the process is killed on entry to system call number `k`.  The same definitions are executed by the
model driver and compared with strace runs of the real code on every check.

All theorems quantify over every initial directory `fs`, every umask, mode, buffer size, piece list (hence every
content and every way of cutting it), every fault and every kill point. The only hypothesis is that the temporary
name differs from the destination name (`O_EXCL` guarantees it). -/
namespace C14
open Safe

/-- **all-or-nothing at every kill point, under every fault**: after any prefix of the action sequence the
    destination holds its previous state (content and mode, or absence) or the complete new content with the
    requested mode less the umask — never a prefix, a mixture or an empty file -/
theorem dest_old_or_new_at_every_prefix (u : Nat) (fs : FS) (tmp dst : Path) (hne : tmp ≠ dst) (N mode : Nat)
    (pieces : List Bytes) (cb : CbMode) (fault : Fault) (k : Nat) :
    run u fs ((writeFile tmp dst N mode pieces cb fault).2.take k) dst = fs dst ∨
    run u fs ((writeFile tmp dst N mode pieces cb fault).2.take k) dst = some (newFile mode u pieces) := by
  simp only [writeFile_closed] at *
  obtain ⟨ws, tl, hacts, hws, htl, _, hcommit⟩ := writeFile_shape tmp dst N mode pieces fault
  rw [hacts]
  have := shape_atomic u fs tmp dst hne mode ws tl (chunks N pieces) k hws htl hcommit
  rw [chunks_flatten] at this
  exact this

/-- **rename comes after all bytes**: whenever the action sequence contains a rename, it is `rename tmp dst`, the
    temporary file holds the complete new content (with the final mode) at that moment, and the call just before
    it is the successful `close` of the temporary file -/
theorem rename_after_all_bytes (u : Nat) (fs : FS) (tmp dst : Path) (N mode : Nat) (pieces : List Bytes) (cb : CbMode)
    (fault : Fault) (i : Nat) (s d : Path)
    (h : (writeFile tmp dst N mode pieces cb fault).2[i]? = some (.rename s d)) :
    s = tmp ∧ d = dst ∧
    run u fs ((writeFile tmp dst N mode pieces cb fault).2.take i) tmp = some (newFile mode u pieces) ∧
    ∃ j, i = j + 1 ∧ (writeFile tmp dst N mode pieces cb fault).2[j]? = some (.close tmp) := by
  simp only [writeFile_closed] at *
  obtain ⟨ws, tl, hacts, hws, htl, _, hcommit⟩ := writeFile_shape tmp dst N mode pieces fault
  rw [hacts] at h ⊢
  -- a rename can only sit in the tail
  have hnotws : ∀ a ∈ [Act.createExcl tmp mode] ++ ws, a ≠ Act.rename s d := by
    intro a ha
    simp only [List.mem_append, List.mem_singleton] at ha
    rcases ha with rfl | ha
    · simp
    · rcases hws a ha with ⟨c, rfl⟩ | ⟨n, rfl⟩ <;> simp
  have hlen : ([Act.createExcl tmp mode] ++ ws).length ≤ i := by
    apply Nat.le_of_not_lt
    intro hlt
    rw [List.getElem?_append_left hlt] at h
    exact hnotws _ (List.mem_of_getElem? h) rfl
  rw [List.getElem?_append_right hlen] at h
  generalize hm : i - ([Act.createExcl tmp mode] ++ ws).length = m at h
  have hi : i = ([Act.createExcl tmp mode] ++ ws).length + m := by omega
  cases htl with
  | abort => match m, h with
    | 0, h => simp at h
    | 1, h => simp at h
    | m + 2, h => simp at h
  | closeFail => match m, h with
    | 0, h => simp at h
    | 1, h => simp at h
    | m + 2, h => simp at h
  | renameFail => match m, h with
    | 0, h => simp at h
    | 1, h => simp at h
    | 2, h => simp at h
    | m + 3, h => simp at h
  | commit =>
    have hws' := hcommit rfl
    match m, h with
    | 0, h => simp at h
    | m + 2, h => simp at h
    | 1, h =>
      simp at h
      obtain ⟨rfl, rfl⟩ := h
      refine ⟨rfl, rfl, ?_, ([Act.createExcl tmp mode] ++ ws).length, hi, ?_⟩
      · have htake : ([Act.createExcl tmp mode] ++ ws ++ [Act.close tmp, Act.rename tmp dst]).take i =
            [Act.createExcl tmp mode] ++ ws ++ [Act.close tmp] := by
          rw [hi, List.take_append, List.take_of_length_le (by omega)]
          simp
        rw [htake, hws', before_rename_tmp, chunks_flatten]; rfl
      · rw [List.getElem?_append_right (Nat.le_refl _)]
        simp

/-- **the error is returned**: a fault that fires makes the call return an error (the callback's own error, or the
    failing system call's), and without a firing fault the call returns nil -/
theorem error_returned_iff (tmp dst : Path) (N mode : Nat) (pieces : List Bytes) (cb : CbMode) (fault : Fault) :
    (writeFile tmp dst N mode pieces cb fault).1 ≠ .ok ↔ fault.fires N pieces := by
  simp only [writeFile_closed] at *
  rw [Ne, writeFile_ok_iff]
  exact Classical.not_not

/-- **failure leaves the destination untouched**: if the callback, a write (inside the callback or in the flush),
    the close or the rename fails, the destination is exactly what it was -/
theorem failure_leaves_dst (u : Nat) (fs : FS) (tmp dst : Path) (hne : tmp ≠ dst) (N mode : Nat)
    (pieces : List Bytes) (cb : CbMode) (fault : Fault) (hf : (writeFile tmp dst N mode pieces cb fault).1 ≠ .ok) :
    run u fs (writeFile tmp dst N mode pieces cb fault).2 dst = fs dst := by
  simp only [writeFile_closed] at *
  obtain ⟨ws, tl, hacts, hws, htl, hok, _⟩ := writeFile_shape tmp dst N mode pieces fault
  have hd : dst ≠ tmp := fun e => hne e.symm
  have hnc : tl ≠ [.close tmp, .rename tmp dst] := fun e => hf (hok.mpr e)
  rw [hacts]
  apply run_untouched
  intro a ha
  simp only [List.mem_append, List.mem_singleton] at ha
  rcases ha with (rfl | ha) | ha
  · simp [targets, hd]
  · exact onlyWrites_targets tmp dst hd ws hws a ha
  · cases htl with
    | commit => exact absurd rfl hnc
    | abort => simp at ha; rcases ha with rfl | rfl <;> simp [targets, hd]
    | closeFail => simp at ha; rcases ha with rfl | rfl <;> simp [targets, hd]
    | renameFail => simp at ha; rcases ha with rfl | rfl | rfl <;> simp [targets, hd]

/-- **failure removes the temporary file**: after any failing call no temporary file remains -/
theorem failure_removes_tmp (u : Nat) (fs : FS) (tmp dst : Path) (N mode : Nat)
    (pieces : List Bytes) (cb : CbMode) (fault : Fault) (hf : (writeFile tmp dst N mode pieces cb fault).1 ≠ .ok) :
    run u fs (writeFile tmp dst N mode pieces cb fault).2 tmp = none := by
  simp only [writeFile_closed] at *
  obtain ⟨ws, tl, hacts, _, htl, hok, _⟩ := writeFile_shape tmp dst N mode pieces fault
  have hnc : tl ≠ [.close tmp, .rename tmp dst] := fun e => hf (hok.mpr e)
  rw [hacts, run_append]
  cases htl with
  | commit => exact absurd rfl hnc
  | abort => simp [run, applyAct, set_same]
  | closeFail => simp [run, applyAct, set_same]
  | renameFail => simp [run, applyAct, set_same]

/-- **the callback's treatment of write errors is irrelevant**: result and system calls are the same whether the
    callback returns the error of `w.Write`, swallows it and stops, or swallows it and keeps writing — bufio's sticky
    error stops all further writes and the final `Flush` reports it even when nothing is buffered -/
theorem callback_mode_irrelevant (tmp dst : Path) (N mode : Nat) (pieces : List Bytes) (cb cb' : CbMode) (fault : Fault) :
    writeFile tmp dst N mode pieces cb fault = writeFile tmp dst N mode pieces cb' fault := by
  rw [writeFile_closed, writeFile_closed]

/-- **a failing `write(2)` at any position, whatever the callback returns**: if write number `k` of the run fails
    (`k` below the number of writes of the fault-free run — inside the callback, buffered or by-passing the buffer,
    or inside the final `Flush`), the call returns the error, the destination is untouched at the end (and by
    `dest_old_or_new_at_every_prefix` at every kill point) and no temporary file remains -/
theorem write_failure_whatever_callback (u : Nat) (fs : FS) (tmp dst : Path) (hne : tmp ≠ dst) (N mode : Nat)
    (pieces : List Bytes) (cb : CbMode) (k : Nat) (hk : k < (chunks N pieces).length) :
    (writeFile tmp dst N mode pieces cb (.write k)).1 = .errno ∧
    run u fs (writeFile tmp dst N mode pieces cb (.write k)).2 dst = fs dst ∧
    run u fs (writeFile tmp dst N mode pieces cb (.write k)).2 tmp = none := by
  have hres : (writeFile tmp dst N mode pieces cb (.write k)).1 = .errno := by
    rw [writeFile_closed]
    unfold writeFileClosed
    have hcreate : File.create tmp dst mode = (openFile tmp dst, [.createExcl tmp mode]) := rfl
    simp only [hcreate, Fault.writeAt, attempted, writeAll_lt tmp dst _ k hk]
    simp
  have hne' : (writeFile tmp dst N mode pieces cb (.write k)).1 ≠ .ok := by rw [hres]; simp
  exact ⟨hres, failure_leaves_dst u fs tmp dst hne N mode pieces cb _ hne',
    failure_removes_tmp u fs tmp dst N mode pieces cb _ hne'⟩

/-- **no failed write goes unnoticed**: if any `write(2)` of the run returned an error — under any fault, any
    callback behaviour — the call does not return nil (so, by the two theorems around this one, the destination is
    untouched and the temporary file removed) -/
theorem failed_write_returns_error (tmp dst : Path) (N mode : Nat) (pieces : List Bytes) (cb : CbMode) (fault : Fault)
    (n : Nat) (h : Act.writeFail tmp n ∈ (writeFile tmp dst N mode pieces cb fault).2) :
    (writeFile tmp dst N mode pieces cb fault).1 ≠ .ok := by
  simp only [writeFile_closed] at *
  obtain ⟨ws, tl, hacts, _, _, hiff, hcommit⟩ := writeFile_shape tmp dst N mode pieces fault
  intro hok
  have htl := hiff.mp hok
  have hws := hcommit htl
  rw [hacts, htl, hws] at h
  simp at h

/-- **a panicking callback**: if the callback panics after any number `j` of pieces (nothing, less than a buffer,
    exactly a buffer or more than a buffer handed over before it), the panic leaves the call (result `panic`), the
    action sequence contains no rename at all, the destination is untouched after EVERY prefix of the actions (every
    kill point, and the moment the panic reaches the caller) and at the end no temporary file remains -/
theorem callback_panic_leaves_dst (u : Nat) (fs : FS) (tmp dst : Path) (hne : tmp ≠ dst) (N mode : Nat)
    (pieces : List Bytes) (cb : CbMode) (j k : Nat) :
    (writeFile tmp dst N mode pieces cb (.panic j)).1 = .panic ∧
    (∀ s d, Act.rename s d ∉ (writeFile tmp dst N mode pieces cb (.panic j)).2) ∧
    run u fs ((writeFile tmp dst N mode pieces cb (.panic j)).2.take k) dst = fs dst ∧
    run u fs (writeFile tmp dst N mode pieces cb (.panic j)).2 tmp = none := by
  have hres : (writeFile tmp dst N mode pieces cb (.panic j)).1 = .panic := by
    rw [writeFile_closed]
    unfold writeFileClosed
    have hcreate : File.create tmp dst mode = (openFile tmp dst, [.createExcl tmp mode]) := rfl
    simp only [hcreate, Fault.writeAt, attempted, writeAll_none]
    simp [Fault.isCallback, Fault.stopRes]
  have hne' : (writeFile tmp dst N mode pieces cb (.panic j)).1 ≠ .ok := by rw [hres]; simp
  refine ⟨hres, ?_, ?_, failure_removes_tmp u fs tmp dst N mode pieces cb _ hne'⟩
  · intro s d hmem
    simp only [writeFile_closed] at hmem hne'
    obtain ⟨ws, tl, hacts, hws, htl, hiff, _⟩ := writeFile_shape tmp dst N mode pieces (.panic j)
    have hnc : tl ≠ [.close tmp, .rename tmp dst] := fun e => hne' (hiff.mpr e)
    rw [hacts] at hmem
    simp only [List.mem_append, List.mem_singleton] at hmem
    rcases hmem with (h | h) | h
    · cases h
    · rcases hws _ h with ⟨c, hc⟩ | ⟨n, hn⟩ <;> simp at *
    · cases htl with
      | commit => exact hnc rfl
      | abort => simp at h
      | closeFail => simp at h
      | renameFail => simp at h
  · simp only [writeFile_closed] at hne' ⊢
    obtain ⟨ws, tl, hacts, hws, htl, hiff, _⟩ := writeFile_shape tmp dst N mode pieces (.panic j)
    have hnc : tl ≠ [.close tmp, .rename tmp dst] := fun e => hne' (hiff.mpr e)
    have hd : dst ≠ tmp := fun e => hne e.symm
    rw [hacts]
    apply run_untouched
    intro a ha
    have ha := List.mem_of_mem_take ha
    simp only [List.mem_append, List.mem_singleton] at ha
    rcases ha with (rfl | ha) | ha
    · simp [targets, hd]
    · exact onlyWrites_targets tmp dst hd ws hws a ha
    · cases htl with
      | commit => exact absurd rfl hnc
      | abort => simp at ha; rcases ha with rfl | rfl <;> simp [targets, hd]
      | closeFail => simp at ha; rcases ha with rfl | rfl <;> simp [targets, hd]
      | renameFail => simp at ha; rcases ha with rfl | rfl | rfl <;> simp [targets, hd]

/-- **a failing call leaves the whole directory as it was** (the temporary name was free, as `O_EXCL` demands):
    same listing, same contents, same modes -/
theorem failure_clean (u : Nat) (fs : FS) (tmp dst : Path) (hne : tmp ≠ dst) (N mode : Nat)
    (pieces : List Bytes) (cb : CbMode) (fault : Fault) (hfree : fs tmp = none)
    (hf : (writeFile tmp dst N mode pieces cb fault).1 ≠ .ok) :
    run u fs (writeFile tmp dst N mode pieces cb fault).2 = fs := by
  simp only [writeFile_closed] at *
  funext p
  by_cases hp : p = tmp
  · subst hp; have := failure_removes_tmp u fs p dst N mode pieces cb fault (by rw [writeFile_closed]; exact hf)
    rw [writeFile_closed] at this
    rw [this, hfree]
  · by_cases hq : p = dst
    · subst hq; have := failure_leaves_dst u fs tmp p hne N mode pieces cb fault (by rw [writeFile_closed]; exact hf)
      rw [writeFile_closed] at this
      exact this
    · obtain ⟨ws, tl, hacts, hws, htl, _, _⟩ := writeFile_shape tmp dst N mode pieces fault
      rw [hacts]
      apply run_untouched
      intro a ha
      simp only [List.mem_append, List.mem_singleton] at ha
      rcases ha with (rfl | ha) | ha
      · simp [targets, hp]
      · exact onlyWrites_targets tmp p hp ws hws a ha
      · cases htl with
        | commit => simp at ha; rcases ha with rfl | rfl <;> simp [targets, hp, hq]
        | abort => simp at ha; rcases ha with rfl | rfl <;> simp [targets, hp]
        | closeFail => simp at ha; rcases ha with rfl | rfl <;> simp [targets, hp]
        | renameFail => simp at ha; rcases ha with rfl | rfl | rfl <;> simp [targets, hp]

/-- **successful commit**: when the call returns nil the destination holds exactly the bytes written, with the
    requested mode less the umask; the temporary file is gone; nothing else in the directory changed -/
theorem commit_result (u : Nat) (fs : FS) (tmp dst : Path) (hne : tmp ≠ dst) (N mode : Nat)
    (pieces : List Bytes) (cb : CbMode) (fault : Fault) (hok : (writeFile tmp dst N mode pieces cb fault).1 = .ok) :
    run u fs (writeFile tmp dst N mode pieces cb fault).2 dst = some ⟨pieces.flatten, lessUmask mode u⟩ ∧
    run u fs (writeFile tmp dst N mode pieces cb fault).2 tmp = none ∧
    ∀ p, p ≠ tmp → p ≠ dst → run u fs (writeFile tmp dst N mode pieces cb fault).2 p = fs p := by
  simp only [writeFile_closed] at *
  obtain ⟨ws, tl, hacts, hws, _, hiff, hcommit⟩ := writeFile_shape tmp dst N mode pieces fault
  have htl := hiff.mp hok
  have hws' := hcommit htl
  have hd : dst ≠ tmp := fun e => hne e.symm
  rw [hacts, htl]
  have hsplit : [Act.createExcl tmp mode] ++ ws ++ [Act.close tmp, Act.rename tmp dst] =
      ([Act.createExcl tmp mode] ++ ws ++ [Act.close tmp]) ++ [Act.rename tmp dst] := by simp
  have htmp : run u fs ([Act.createExcl tmp mode] ++ ws ++ [Act.close tmp]) tmp = some (newFile mode u pieces) := by
    rw [hws', before_rename_tmp, chunks_flatten]; rfl
  refine ⟨?_, ?_, ?_⟩
  · rw [hsplit, run_rename u fs _ tmp dst _ htmp, set_same]; rfl
  · rw [hsplit, run_rename u fs _ tmp dst _ htmp, set_other _ _ _ _ (fun e => hd e.symm), set_same]
  · intro p hp hq
    apply run_untouched
    intro a ha
    simp only [List.mem_append, List.mem_singleton] at ha
    rcases ha with (rfl | ha) | ha
    · simp [targets, hp]
    · exact onlyWrites_targets tmp p hp ws hws a ha
    · simp at ha; rcases ha with rfl | rfl <;> simp [targets, hp, hq]

/-- **Close and Commit after a Commit are harmless**: once `Commit` has been called (whatever its outcome) every
    further `Close` or `Commit` returns nil, issues no system call and leaves the handle as it is -/
theorem close_commit_idempotent (f : File) (h : f.committed = true) (a b : Bool) :
    f.commit a b = (f, .ok, []) ∧ f.close a = (f, .ok, []) := by
  simp [File.commit, File.close, h]

/-- `Commit` on a handle that is still open always marks it committed — so the previous theorem applies after it -/
theorem commit_marks_committed (f : File) (hc : f.closed = false) (a b : Bool) : (f.commit a b).1.committed = true := by
  cases hcm : f.committed <;> cases hfd : f.fdOpen <;> cases a <;> cases b <;> simp [File.commit, hcm, hc, hfd]

/-- **Close without Commit**: close, then unlink — the destination is not named by any action, so it is untouched at
    every kill point, and afterwards the temporary file is gone -/
theorem close_without_commit (u : Nat) (fs : FS) (f : File) (hne : f.tmp ≠ f.dst) (hc : f.committed = false)
    (hcl : f.closed = false) (a : Bool) (k : Nat) :
    run u fs ((f.close a).2.2.take k) f.dst = fs f.dst ∧ run u fs (f.close a).2.2 f.tmp = none ∧
    (f.close a).1.closed = true ∧ (f.close a).1.committed = false := by
  have hd : f.dst ≠ f.tmp := fun e => hne e.symm
  have hun : ∀ l : List Act, (∀ x ∈ l, f.dst ∉ targets x) → run u fs (l.take k) f.dst = fs f.dst :=
    fun l hl => run_untouched u fs f.dst _ (fun x hx => hl x (List.mem_of_mem_take hx))
  have key : (f.close a).1 = { f with closed := true, fdOpen := false } ∧
      ((f.close a).2.2 = [.unlink f.tmp] ∨ (f.close a).2.2 = [.closeFail f.tmp, .unlink f.tmp] ∨
       (f.close a).2.2 = [.close f.tmp, .unlink f.tmp]) := by
    cases hfd : f.fdOpen <;> cases a <;> simp [File.close, hc, hcl, hfd]
  obtain ⟨k1, k2⟩ := key
  refine ⟨?_, ?_, by rw [k1], by rw [k1]; exact hc⟩
  · rcases k2 with h | h | h <;> rw [h] <;> apply hun <;> intro x hx <;> simp at hx
    · subst hx; simp [targets, hd]
    · rcases hx with rfl | rfl <;> simp [targets, hd]
    · rcases hx with rfl | rfl <;> simp [targets, hd]
  · rcases k2 with h | h | h <;> rw [h] <;> simp [run, applyAct, set_same]

/-- after `Close` (without `Commit`) further `Close`/`Commit` calls issue no system call (they return `ErrInvalid`) -/
theorem closed_handle_inert (f : File) (hc : f.committed = false) (hcl : f.closed = true) (a b : Bool) :
    f.commit a b = (f, .invalid, []) ∧ f.close a = (f, .invalid, []) := by
  simp [File.commit, File.close, hc, hcl]

/-- **every history of the safe.File API is all-or-nothing at every kill point**: for any sequence of
    `Write` / `Commit` / `Close` / embedded `Close` calls after `CreateWithMode`, with any of their system calls
    failing, after any prefix of the resulting actions the destination is what it was, or the history commits `p`
    (its first `Commit`/`Close` is a `Commit` whose close and rename succeed; `p` = exactly the bytes written before
    it) and the destination holds `p` with the requested mode less the umask -/
theorem history_dest_old_or_new (u : Nat) (fs : FS) (tmp dst : Path) (hne : tmp ≠ dst) (mode : Nat) (ops : List Op)
    (k : Nat) :
    run u fs (((File.create tmp dst mode).2 ++ ((File.create tmp dst mode).1.steps ops).2).take k) dst = fs dst ∨
    ∃ p, committed true ops = some p ∧
      run u fs (((File.create tmp dst mode).2 ++ ((File.create tmp dst mode).1.steps ops).2).take k) dst =
        some ⟨p, lessUmask mode u⟩ := by
  have hd : dst ≠ tmp := fun e => hne e.symm
  show run u fs (([Act.createExcl tmp mode] ++ ((openFile tmp dst).steps ops).2).take k) dst = fs dst ∨ _
  rcases run_take_append u fs dst [Act.createExcl tmp mode] ((openFile tmp dst).steps ops).2 k
    (by intro x hx; simp at hx; subst hx; simp [targets, hd]) with h | h
  · exact Or.inl h
  · have h0 : run u fs [Act.createExcl tmp mode] tmp = some ⟨[], lessUmask mode u⟩ := by
      simp [run, applyAct, set_same]
    have hdst : run u fs [Act.createExcl tmp mode] dst = fs dst :=
      run_untouched u fs dst _ (by intro x hx; simp at hx; subst hx; simp [targets, hd])
    rcases steps_atomic u tmp dst hne (lessUmask mode u) ops (openFile tmp dst) (run u fs [Act.createExcl tmp mode]) []
      (k - [Act.createExcl tmp mode].length) rfl rfl rfl rfl h0 with h2 | ⟨p, hp, h2⟩
    · left; rw [h, h2, hdst]
    · right
      refine ⟨p, hp, ?_⟩
      show run u fs (([Act.createExcl tmp mode] ++ ((openFile tmp dst).steps ops).2).take k) dst = _
      rw [h, h2]; simp

/-- the handle is inert once closed: after `Commit` or `Close` no later call of the history issues a system call -/
theorem history_after_close_silent (f : File) (hcl : f.closed = true) (hfd : f.fdOpen = false) (ops : List Op) :
    (f.steps ops).2 = [] := steps_closed f hcl hfd ops

/-- **the File API used directly** (`CreateWithMode`, one `Write` per piece, then `Commit`+`Close` or `Close` alone,
    under any fault): old or new at every kill point -/
theorem file_api_dest_old_or_new (u : Nat) (fs : FS) (tmp dst : Path) (hne : tmp ≠ dst) (mode : Nat)
    (pieces : List Bytes) (doCommit : Bool) (fault : Fault) (k : Nat) :
    run u fs ((fileRun tmp dst mode pieces doCommit fault).2.take k) dst = fs dst ∨
    run u fs ((fileRun tmp dst mode pieces doCommit fault).2.take k) dst = some ⟨pieces.flatten, lessUmask mode u⟩ := by
  obtain ⟨ws, tl, hacts, hws, htl, _, hcommit⟩ := fileRun_shape tmp dst mode pieces doCommit fault
  rw [hacts]
  exact shape_atomic u fs tmp dst hne mode ws tl pieces k hws htl hcommit

/-- **Close without Commit, or any failure, through the File API**: destination untouched, no temporary file left -/
theorem file_api_abort_or_failure_clean (u : Nat) (fs : FS) (tmp dst : Path) (hne : tmp ≠ dst) (mode : Nat)
    (pieces : List Bytes) (doCommit : Bool) (fault : Fault)
    (h : ¬ ((fileRun tmp dst mode pieces doCommit fault).1 = .ok ∧ doCommit = true)) :
    run u fs (fileRun tmp dst mode pieces doCommit fault).2 dst = fs dst ∧
    run u fs (fileRun tmp dst mode pieces doCommit fault).2 tmp = none := by
  obtain ⟨ws, tl, hacts, hws, htl, hiff, _⟩ := fileRun_shape tmp dst mode pieces doCommit fault
  rw [hacts]
  exact shape_failure u fs tmp dst hne mode ws tl hws htl (fun e => h (hiff.mp e))

/-- **successful Commit through the File API**: exactly the bytes written, requested mode less the umask -/
theorem file_api_commit_result (u : Nat) (fs : FS) (tmp dst : Path) (hne : tmp ≠ dst) (mode : Nat)
    (pieces : List Bytes) (fault : Fault) (h : (fileRun tmp dst mode pieces true fault).1 = .ok) :
    run u fs (fileRun tmp dst mode pieces true fault).2 dst = some ⟨pieces.flatten, lessUmask mode u⟩ ∧
    run u fs (fileRun tmp dst mode pieces true fault).2 tmp = none := by
  obtain ⟨ws, tl, hacts, _, _, hiff, hcommit⟩ := fileRun_shape tmp dst mode pieces true fault
  have htl := hiff.mpr ⟨h, rfl⟩
  rw [hacts, htl, hcommit htl]
  exact shape_commit u fs tmp dst hne mode pieces

/-- **chunking**: the `write(2)` chunks bufio produces concatenate to exactly the bytes the callback wrote -/
theorem chunks_concat (N : Nat) (pieces : List Bytes) : (chunks N pieces).flatten = pieces.flatten :=
  chunks_flatten N pieces

/-- **chunking**: no chunk is longer than `M` when the buffer and every piece are at most `M`; in particular every
    chunk is at most the buffer size when no single `Write` exceeds it (a larger `Write` by-passes the buffer) -/
theorem chunk_le (N M : Nat) (hN : N ≤ M) (pieces : List Bytes) (hp : ∀ p ∈ pieces, p.length ≤ M) :
    ∀ c ∈ chunks N pieces, c.length ≤ M := by
  intro c hc
  simp only [chunks, List.mem_append] at hc
  rcases hc with hc | hc
  · exact feed_chunk_le N [] pieces (by simp) M hN hp c hc
  · have hb := feed_buf_le N [] pieces (by simp)
    unfold flush at hc
    split at hc
    · simp at hc
    · simp at hc; subst hc; omega

/-- **chunking**: every chunk written during the callback is at least a full buffer, and the chunk written by the
    final `Flush` is not empty — bufio issues no zero-length and no early small writes -/
theorem chunk_ge (N : Nat) (pieces : List Bytes) :
    (∀ c ∈ (feed N [] pieces).1, N ≤ c.length) ∧ (∀ c ∈ flush (feed N [] pieces).2, 0 < c.length ∧ c.length ≤ N) := by
  refine ⟨feed_chunk_ge N [] pieces (by simp), ?_⟩
  intro c hc
  have hb := feed_buf_le N [] pieces (by simp)
  unfold flush at hc
  split at hc
  · simp at hc
  · simp at hc; subst hc; omega

/-! non-vacuity: the hypotheses are satisfiable, and both outcomes of `dest_old_or_new_at_every_prefix` occur -/
example : (1 : Path) ≠ 0 := by decide
example : (writeFile 1 0 4 0o644 [[1, 2, 3], [4, 5, 6]] .propagate .none).1 = .ok := by decide
example : (writeFile 1 0 4 0o644 [[1, 2, 3], [4, 5, 6]] .swallowStop (.write 1)).1 ≠ .ok := by decide
example : (writeFile 1 0 4 0o644 [[1, 2, 3], [4, 5, 6]] .propagate .none).2 =
    [.createExcl 1 0o644, .write 1 [1, 2, 3, 4], .write 1 [5, 6], .close 1, .rename 1 0] := by decide
example : (Fault.write 1).fires 4 [[1, 2, 3], [4, 5, 6]] := by
  show 1 < (chunks 4 [[1, 2, 3], [4, 5, 6]]).length
  decide

/-! ## Extension: the name handling of `CreateWithMode`, the loop of `CreateTemp`, a failing unlink

`createWithMode code tmpdir filename mode rands faults fs` transcribes `safe.CreateWithMode` + `internal.CreateTemp`:
`code` is any naming of paths, `rands` the stream of numbers the random source yields, `faults` an arbitrary fault
assignment for the `openat`s (EEXIST on a free name, or another error), `fs` the file system. `writeFileFull` is the
whole of `WriteFileWithMode` on top of it, with `unlinkFails` for the `Remove` of the cleanup path.  All theorems
quantify over every directory content, every stream of random numbers and every fault assignment. -/

/-- **Create opens nothing that exists**: `CreateWithMode` issues at most 1000 system calls; each is an
    `openat(O_CREAT|O_EXCL)` that fails without effect, except possibly the last, which creates a name that was FREE
    (absent from the directory) — so no existing entry, the destination or a look-alike of a temporary name, is
    opened, truncated or removed: every existing entry is unchanged after every prefix of the calls.  On success the
    name created is one of the first 1000 candidates and the state is the old one plus that empty file; on failure
    nothing has changed at all. -/
theorem create_touches_no_existing_entry (u : Nat) (code : Str → Path) (tmpdir filename : Str) (mode : Nat)
    (rands : Nat → Nat) (faults : Nat → Option OpenFault) (fs : FS) :
    (createWithMode code tmpdir filename mode rands faults fs).2.length ≤ 1000 ∧
    (∀ q k, fs q ≠ none → run2 u fs ((createWithMode code tmpdir filename mode rands faults fs).2.take k) q = fs q) ∧
    (∀ f, (createWithMode code tmpdir filename mode rands faults fs).1 = .ok f →
      fs f.tmp = none ∧
      (∃ c j, validName filename = some c ∧ j < 1000 ∧ f.dst = code c ∧
        f.tmp = code (tempName tmpdir (dirOf c) safePattern (rands j))) ∧
      (∀ a ∈ (createWithMode code tmpdir filename mode rands faults fs).2,
        a.isFail = true ∨ a = .base (.createExcl f.tmp mode)) ∧
      run2 u fs (createWithMode code tmpdir filename mode rands faults fs).2 =
        fs.set f.tmp (some ⟨[], lessUmask mode u⟩)) ∧
    ((∀ f, (createWithMode code tmpdir filename mode rands faults fs).1 ≠ .ok f) →
      (∀ a ∈ (createWithMode code tmpdir filename mode rands faults fs).2, a.isFail = true) ∧
      run2 u fs (createWithMode code tmpdir filename mode rands faults fs).2 = fs) := by
  obtain ⟨fails, hfail, hlen, hcase⟩ := createWithMode_spec code tmpdir filename mode rands faults fs
  rcases hcase with ⟨c, j, hv, hj, hlj, heq, hfree, _⟩ | ⟨hno, hacts⟩
  · rw [heq]
    refine ⟨by simp; omega, ?_, ?_, ?_⟩
    · intro q k hq
      rw [run2_take_fails_append u fs fails _ hfail]
      cases hk : k - fails.length with
      | zero => simp [run2]
      | succ n =>
        simp only [List.take_succ_cons, List.take_nil, run2, applyAct2, applyAct]
        have hne : q ≠ code (tempName tmpdir (dirOf c) safePattern (rands j)) := by
          intro e; rw [e] at hq; exact hq hfree
        simp [FS.set, hne]
    · intro f hf
      simp only [CreateRes.ok.injEq] at hf
      subst hf
      refine ⟨hfree, ⟨c, j, hv, hj, rfl, rfl⟩, ?_, ?_⟩
      · intro a ha
        rcases List.mem_append.mp ha with h | h
        · exact Or.inl (hfail a h)
        · simp at h; exact Or.inr h
      · rw [run2_append, run2_fails u fs fails hfail]
        simp [run2, applyAct2, applyAct]
    · intro hno; exact absurd rfl (hno _)
  · rw [hacts]
    refine ⟨hlen, ?_, ?_, ?_⟩
    · intro q k _
      rw [run2_fails u fs _ (fun a ha => hfail a (List.mem_of_mem_take ha))]
    · intro f hf; exact absurd hf (hno f)
    · intro _; exact ⟨hfail, run2_fails u fs fails hfail⟩

/-- the temporary file never is the destination when the destination exists (its name is not free) -/
theorem temp_is_not_existing_destination (code : Str → Path) (tmpdir filename : Str) (mode : Nat)
    (rands : Nat → Nat) (faults : Nat → Option OpenFault) (fs : FS) (f : File)
    (h : (createWithMode code tmpdir filename mode rands faults fs).1 = .ok f) (hd : fs f.dst ≠ none) :
    f.tmp ≠ f.dst := by
  have := ((create_touches_no_existing_entry 0 code tmpdir filename mode rands faults fs).2.2.1 f h).1
  intro e; rw [e] at this; exact hd this

/-- **the loop gives up after exactly 1000 attempts**: when each of the first 1000 candidates collides (the name exists,
    or EEXIST is injected) the call returns `os.ErrExist` after 1000 failed `openat`s and the directory is unchanged -/
theorem create_gives_up_after_1000 (u : Nat) (code : Str → Path) (tmpdir filename c : Str) (mode : Nat)
    (rands : Nat → Nat) (faults : Nat → Option OpenFault) (fs : FS) (hv : validName filename = some c)
    (hall : ∀ j, j < 1000 → faults j ≠ some .other ∧
      (faults j = some .exist ∨ (fs (code (tempName tmpdir (dirOf c) safePattern (rands j)))).isSome = true)) :
    (createWithMode code tmpdir filename mode rands faults fs).1 = .temp .errExist ∧
    (createWithMode code tmpdir filename mode rands faults fs).2.length = 1000 ∧
    (∀ a ∈ (createWithMode code tmpdir filename mode rands faults fs).2, ∃ p, a = Act2.openFail p mode true) ∧
    run2 u fs (createWithMode code tmpdir filename mode rands faults fs).2 = fs := by
  have hns : hasSep safePattern = false := by decide
  obtain ⟨h1, h2, h3⟩ := tempLoop_exhaust mode (fun i => code (tempName tmpdir (dirOf c) safePattern (rands i))) faults fs
    1000 0 rfl (by omega) (fun j _ hj => hall j hj)
  unfold createWithMode createTemp
  simp only [hv, hns, Bool.false_eq_true, if_false]
  generalize tempLoop mode (fun i => code (tempName tmpdir (dirOf c) safePattern (rands i))) faults fs 1000 0 = r
    at h1 h2 h3
  obtain ⟨r1, r2⟩ := r
  simp only at h1 h2 h3
  subst h1
  refine ⟨rfl, h2, h3, ?_⟩
  apply run2_fails
  intro a ha; obtain ⟨p, rfl⟩ := h3 a ha; rfl

/-- a bad name is refused before any system call -/
theorem invalid_name_no_syscall (code : Str → Path) (tmpdir filename : Str) (mode : Nat) (rands : Nat → Nat)
    (faults : Nat → Option OpenFault) (fs : FS) (hv : validName filename = none) :
    createWithMode code tmpdir filename mode rands faults fs = (.invalid, []) := by
  simp [createWithMode, hv]

/-- a pattern with a path separator is refused by `CreateTemp` before any system call -/
theorem pattern_with_separator_no_syscall (code : Str → Path) (tmpdir dir pat : Str) (mode : Nat) (rands : Nat → Nat)
    (faults : Nat → Option OpenFault) (fs : FS) (h : hasSep pat = true) :
    createTemp code tmpdir dir pat mode rands faults fs = (.errSep, []) := by
  simp [createTemp, h]

/-- **all-or-nothing for the complete call** — name check, `CreateTemp` with any collisions and faults, callback of
    any behaviour, any fault of write/flush/close/rename, and a `Remove` that fails or not: after every prefix of the
    system calls the destination holds its old state or the complete new content.  The one hypothesis: the
    destination exists, or no candidate name IS the destination's name (see the example after the theorems: an absent
    destination called `safe123` can be hit by the random name `safe123`). -/
theorem full_dest_old_or_new (u : Nat) (code : Str → Path) (tmpdir filename c : Str) (N mode : Nat)
    (pieces : List Bytes) (cb : CbMode) (fault : Fault) (rands : Nat → Nat) (ofaults : Nat → Option OpenFault)
    (unlinkFails : Bool) (fs : FS) (k : Nat) (hv : validName filename = some c)
    (hclash : fs (code c) ≠ none ∨ ∀ j, code (tempName tmpdir (dirOf c) safePattern (rands j)) ≠ code c) :
    run2 u fs ((writeFileFull code tmpdir filename N mode pieces cb fault rands ofaults unlinkFails fs).2.take k) (code c) =
      fs (code c) ∨
    run2 u fs ((writeFileFull code tmpdir filename N mode pieces cb fault rands ofaults unlinkFails fs).2.take k) (code c) =
      some (newFile mode u pieces) := by
  obtain ⟨fails, hfail, _, hcase⟩ := createWithMode_spec code tmpdir filename mode rands ofaults fs
  rcases hcase with ⟨c', j, hv', _, _, heq, hfree, _⟩ | ⟨hno, hacts⟩
  · rw [hv] at hv'; cases hv'
    rw [writeFileFull_eq code tmpdir filename N mode pieces cb fault rands ofaults unlinkFails fs _ _ fails heq]
    simp only
    rw [run2_take_fails_append u fs fails _ hfail]
    obtain ⟨k', hk'⟩ := mapU_prefix_sim u fs unlinkFails _ (writeFile_unlinkLast _ (code c) N mode pieces cb fault)
      (k - fails.length)
    rw [hk']
    have hne : code (tempName tmpdir (dirOf c) safePattern (rands j)) ≠ code c := by
      rcases hclash with h | h
      · intro e; rw [e] at hfree; exact h hfree
      · exact h j
    exact dest_old_or_new_at_every_prefix u fs _ (code c) hne N mode pieces cb fault k'
  · left
    have : (writeFileFull code tmpdir filename N mode pieces cb fault rands ofaults unlinkFails fs).2 = fails := by
      unfold writeFileFull
      generalize createWithMode code tmpdir filename mode rands ofaults fs = r at hno hacts
      obtain ⟨r1, r2⟩ := r
      cases r1 with
      | ok f => exact absurd rfl (hno f)
      | invalid => exact hacts
      | temp e => exact hacts
    rw [this, run2_fails u fs _ (fun a ha => hfail a (List.mem_of_mem_take ha))]

/-- **a failing unlink changes nothing but what remains**: the result of the complete call is the same with and
    without the unlink fault (inside `WriteFileWithMode` the error of `Remove` is never the one reported — there
    always is an earlier error, and that one is returned) -/
theorem full_result_independent_of_unlink (code : Str → Path) (tmpdir filename : Str) (N mode : Nat)
    (pieces : List Bytes) (cb : CbMode) (fault : Fault) (rands : Nat → Nat) (ofaults : Nat → Option OpenFault) (fs : FS) :
    (writeFileFull code tmpdir filename N mode pieces cb fault rands ofaults true fs).1 =
    (writeFileFull code tmpdir filename N mode pieces cb fault rands ofaults false fs).1 := by
  obtain ⟨fails, _, _, hcase⟩ := createWithMode_spec code tmpdir filename mode rands ofaults fs
  rcases hcase with ⟨c', j, _, _, _, heq, _, _⟩ | ⟨hno, _⟩
  · rw [writeFileFull_eq code tmpdir filename N mode pieces cb fault rands ofaults true fs _ _ fails heq,
      writeFileFull_eq code tmpdir filename N mode pieces cb fault rands ofaults false fs _ _ fails heq]
  · unfold writeFileFull
    generalize createWithMode code tmpdir filename mode rands ofaults fs = r at hno
    obtain ⟨r1, r2⟩ := r
    cases r1 with
    | ok f => exact absurd rfl (hno f)
    | invalid => rfl
    | temp e => rfl

/-- **what a failed complete call leaves behind**: every path except the temporary file is exactly as before (the
    destination included); the temporary file is gone too unless it was the unlink that failed — then, and only then,
    it may remain (with whatever had been written to it) -/
theorem full_failure_leaves_only_the_temp (u : Nat) (code : Str → Path) (tmpdir filename c : Str) (N mode : Nat)
    (pieces : List Bytes) (cb : CbMode) (fault : Fault) (rands : Nat → Nat) (ofaults : Nat → Option OpenFault)
    (unlinkFails : Bool) (fs : FS) (hv : validName filename = some c)
    (hclash : fs (code c) ≠ none ∨ ∀ j, code (tempName tmpdir (dirOf c) safePattern (rands j)) ≠ code c)
    (hf : (writeFileFull code tmpdir filename N mode pieces cb fault rands ofaults unlinkFails fs).1 ≠ .res .ok) :
    run2 u fs (writeFileFull code tmpdir filename N mode pieces cb fault rands ofaults unlinkFails fs).2 (code c) =
      fs (code c) ∧
    ((∀ f, (createWithMode code tmpdir filename mode rands ofaults fs).1 ≠ .ok f) →
      run2 u fs (writeFileFull code tmpdir filename N mode pieces cb fault rands ofaults unlinkFails fs).2 = fs) ∧
    (∀ f, (createWithMode code tmpdir filename mode rands ofaults fs).1 = .ok f →
      (∀ q, q ≠ f.tmp →
        run2 u fs (writeFileFull code tmpdir filename N mode pieces cb fault rands ofaults unlinkFails fs).2 q = fs q) ∧
      (unlinkFails = false →
        run2 u fs (writeFileFull code tmpdir filename N mode pieces cb fault rands ofaults unlinkFails fs).2 = fs)) := by
  obtain ⟨fails, hfail, _, hcase⟩ := createWithMode_spec code tmpdir filename mode rands ofaults fs
  rcases hcase with ⟨c', j, hv', _, _, heq, hfree, _⟩ | ⟨hno, hacts⟩
  · rw [hv] at hv'; cases hv'
    have hne : code (tempName tmpdir (dirOf c) safePattern (rands j)) ≠ code c := by
      rcases hclash with h | h
      · intro e; rw [e] at hfree; exact h hfree
      · exact h j
    rw [writeFileFull_eq code tmpdir filename N mode pieces cb fault rands ofaults unlinkFails fs _ _ fails heq] at hf ⊢
    simp only at hf ⊢
    have hf' : (writeFile (code (tempName tmpdir (dirOf c) safePattern (rands j))) (code c) N mode pieces cb fault).1 ≠ .ok :=
      fun e => hf (by rw [e])
    -- the state at the end, for every path but the temporary file
    have key : ∀ q, q ≠ code (tempName tmpdir (dirOf c) safePattern (rands j)) →
        run2 u fs (fails ++ mapU unlinkFails
          (writeFile (code (tempName tmpdir (dirOf c) safePattern (rands j))) (code c) N mode pieces cb fault).2) q = fs q := by
      intro q hq
      rw [run2_append, run2_fails u fs fails hfail]
      cases unlinkFails with
      | false =>
        rw [mapU_false, run2_map_base, failure_clean u fs _ (code c) hne N mode pieces cb fault hfree hf']
      | true =>
        have hf'' := hf'
        rw [writeFile_closed] at hf'' ⊢
        obtain ⟨ws, tl, hacts, hws, htl, hiff, _⟩ :=
          writeFile_shape (code (tempName tmpdir (dirOf c) safePattern (rands j))) (code c) N mode pieces fault
        have hnc : tl ≠ [.close _, .rename _ (code c)] := fun e => hf'' (hiff.mpr e)
        have hpre : ∀ a ∈ [Act.createExcl (code (tempName tmpdir (dirOf c) safePattern (rands j))) mode] ++ ws,
            isUnlink a = false := by
          intro a ha
          rcases List.mem_append.mp ha with h | h
          · simp at h; subst h; rfl
          · exact onlyWrites_noUnlink _ ws hws a h
        obtain ⟨body, hbody, hsplit, hmem⟩ := (tail_unlinkLast _ (code c) _ tl hpre htl).2 hnc
        rw [hacts, hsplit, mapU_true_final u fs body hbody]
        apply run_untouched
        intro a ha
        rcases hmem a ha with h | rfl | rfl | rfl
        · rcases List.mem_append.mp h with h | h
          · simp at h; subst h; simp [targets, hq]
          · exact onlyWrites_targets _ q hq ws hws a h
        · simp [targets]
        · simp [targets]
        · simp [targets]
    refine ⟨key (code c) (fun e => hne e.symm), fun hno => absurd (by rw [heq]) (hno _), ?_⟩
    intro f hfe
    rw [heq] at hfe
    simp only [CreateRes.ok.injEq] at hfe
    subst hfe
    refine ⟨key, ?_⟩
    intro hu
    subst hu
    rw [run2_append, run2_fails u fs fails hfail, mapU_false, run2_map_base,
      failure_clean u fs _ (code c) hne N mode pieces cb fault hfree hf']
  · have hacts' : (writeFileFull code tmpdir filename N mode pieces cb fault rands ofaults unlinkFails fs).2 = fails := by
      unfold writeFileFull
      generalize createWithMode code tmpdir filename mode rands ofaults fs = r at hno hacts
      obtain ⟨r1, r2⟩ := r
      cases r1 with
      | ok f => exact absurd rfl (hno f)
      | invalid => exact hacts
      | temp e => exact hacts
    rw [hacts', run2_fails u fs fails hfail]
    exact ⟨rfl, fun _ => rfl, fun f hfe => absurd hfe (hno f)⟩

/-- **successful complete call**: when `WriteFileWithMode` — name check, any collisions, any callback behaviour —
    returns nil, the destination holds exactly the bytes written with the requested mode less the umask, and EVERY
    other path of the directory is as before (the temporary file was free before and is gone again) -/
theorem full_commit_result (u : Nat) (code : Str → Path) (tmpdir filename c : Str) (N mode : Nat)
    (pieces : List Bytes) (cb : CbMode) (fault : Fault) (rands : Nat → Nat) (ofaults : Nat → Option OpenFault)
    (unlinkFails : Bool) (fs : FS) (hv : validName filename = some c)
    (hclash : fs (code c) ≠ none ∨ ∀ j, code (tempName tmpdir (dirOf c) safePattern (rands j)) ≠ code c)
    (hok : (writeFileFull code tmpdir filename N mode pieces cb fault rands ofaults unlinkFails fs).1 = .res .ok) :
    run2 u fs (writeFileFull code tmpdir filename N mode pieces cb fault rands ofaults unlinkFails fs).2 (code c) =
      some ⟨pieces.flatten, lessUmask mode u⟩ ∧
    ∀ q, q ≠ code c →
      run2 u fs (writeFileFull code tmpdir filename N mode pieces cb fault rands ofaults unlinkFails fs).2 q = fs q := by
  obtain ⟨fails, hfail, _, hcase⟩ := createWithMode_spec code tmpdir filename mode rands ofaults fs
  rcases hcase with ⟨c', j, hv', _, _, heq, hfree, _⟩ | ⟨hno, hacts⟩
  · rw [hv] at hv'; cases hv'
    have hne : code (tempName tmpdir (dirOf c) safePattern (rands j)) ≠ code c := by
      rcases hclash with h | h
      · intro e; rw [e] at hfree; exact h hfree
      · exact h j
    rw [writeFileFull_eq code tmpdir filename N mode pieces cb fault rands ofaults unlinkFails fs _ _ fails heq] at hok ⊢
    simp only at hok ⊢
    have hok' : (writeFile (code (tempName tmpdir (dirOf c) safePattern (rands j))) (code c) N mode pieces cb fault).1 = .ok := by
      injection hok
    -- a successful run issues no unlink: the unlink fault has nothing to bite on
    have hnou : mapU unlinkFails (writeFile (code (tempName tmpdir (dirOf c) safePattern (rands j))) (code c) N mode pieces cb fault).2 =
        (writeFile (code (tempName tmpdir (dirOf c) safePattern (rands j))) (code c) N mode pieces cb fault).2.map .base := by
      apply mapU_noUnlink
      have hok'' := hok'
      rw [writeFile_closed] at hok'' ⊢
      obtain ⟨ws, tl, hacts, hws, _, hiff, _⟩ :=
        writeFile_shape (code (tempName tmpdir (dirOf c) safePattern (rands j))) (code c) N mode pieces fault
      rw [hacts, hiff.mp hok'']
      intro a ha
      simp only [List.mem_append, List.mem_singleton] at ha
      rcases ha with (rfl | ha) | ha
      · rfl
      · exact onlyWrites_noUnlink _ ws hws a ha
      · simp at ha; rcases ha with rfl | rfl <;> rfl
    rw [hnou, run2_append, run2_fails u fs fails hfail, run2_map_base]
    obtain ⟨h1, h2, h3⟩ := commit_result u fs _ (code c) hne N mode pieces cb fault hok'
    refine ⟨h1, ?_⟩
    intro q hq
    by_cases hqt : q = code (tempName tmpdir (dirOf c) safePattern (rands j))
    · rw [hqt, h2, hfree]
    · exact h3 q hqt hq
  · exfalso
    have : (writeFileFull code tmpdir filename N mode pieces cb fault rands ofaults unlinkFails fs).1 ≠ .res .ok := by
      unfold writeFileFull
      generalize createWithMode code tmpdir filename mode rands ofaults fs = r at hno
      obtain ⟨r1, r2⟩ := r
      cases r1 with
      | ok f => exact absurd rfl (hno f)
      | invalid => simp [CreateRes.err]
      | temp e => cases e <;> simp [CreateRes.err] <;> exact absurd rfl (hno _)
    exact this hok

/-- **the safe.File API, complete, with a failing unlink**: `CreateWithMode` (name check, any collisions and open
    faults), one `Write` per piece, then `Commit` + `Close` or `Close` alone, under any fault of write/close/rename and a
    `Remove` that fails or not — after every prefix of the system calls the destination holds its old state or exactly
    the bytes written -/
theorem full_history_dest_old_or_new (u : Nat) (code : Str → Path) (tmpdir filename c : Str) (mode : Nat)
    (pieces : List Bytes) (doCommit : Bool) (fault : Fault) (rands : Nat → Nat) (ofaults : Nat → Option OpenFault)
    (unlinkFails : Bool) (fs : FS) (k : Nat) (hv : validName filename = some c)
    (hclash : fs (code c) ≠ none ∨ ∀ j, code (tempName tmpdir (dirOf c) safePattern (rands j)) ≠ code c) :
    run2 u fs ((fileRunFull code tmpdir filename mode pieces doCommit fault rands ofaults unlinkFails fs).2.take k) (code c) =
      fs (code c) ∨
    run2 u fs ((fileRunFull code tmpdir filename mode pieces doCommit fault rands ofaults unlinkFails fs).2.take k) (code c) =
      some ⟨pieces.flatten, lessUmask mode u⟩ := by
  obtain ⟨fails, hfail, _, hcase⟩ := createWithMode_spec code tmpdir filename mode rands ofaults fs
  rcases hcase with ⟨c', j, hv', _, _, heq, hfree, _⟩ | ⟨hno, hacts⟩
  · rw [hv] at hv'; cases hv'
    rw [(fileRunFull_acts code tmpdir filename mode pieces doCommit fault rands ofaults unlinkFails fs _ _ fails heq).1,
      run2_take_fails_append u fs fails _ hfail]
    obtain ⟨k', hk'⟩ := mapU_prefix_sim u fs unlinkFails _ (fileRun_unlinkLast _ (code c) mode pieces doCommit fault).1
      (k - fails.length)
    rw [hk']
    have hne : code (tempName tmpdir (dirOf c) safePattern (rands j)) ≠ code c := by
      rcases hclash with h | h
      · intro e; rw [e] at hfree; exact h hfree
      · exact h j
    exact file_api_dest_old_or_new u fs _ (code c) hne mode pieces doCommit fault k'
  · left
    have : (fileRunFull code tmpdir filename mode pieces doCommit fault rands ofaults unlinkFails fs).2 = fails := by
      unfold fileRunFull
      generalize createWithMode code tmpdir filename mode rands ofaults fs = r at hno hacts
      obtain ⟨r1, r2⟩ := r
      cases r1 with
      | ok f => exact absurd rfl (hno f)
      | invalid => exact hacts
      | temp e => exact hacts
    rw [this, run2_fails u fs _ (fun a ha => hfail a (List.mem_of_mem_take ha))]

/-- **the File API, complete: what a run that does not commit leaves behind** (Close without Commit, or any failure):
    the destination and every other path except the temporary file are exactly as before; the temporary file is gone
    too unless the unlink failed — then, and only then, it may remain -/
theorem full_history_failure_leaves_only_the_temp (u : Nat) (code : Str → Path) (tmpdir filename c : Str) (mode : Nat)
    (pieces : List Bytes) (doCommit : Bool) (fault : Fault) (rands : Nat → Nat) (ofaults : Nat → Option OpenFault)
    (unlinkFails : Bool) (fs : FS) (hv : validName filename = some c)
    (hclash : fs (code c) ≠ none ∨ ∀ j, code (tempName tmpdir (dirOf c) safePattern (rands j)) ≠ code c)
    (hf : ¬ ((fileRunFull code tmpdir filename mode pieces doCommit fault rands ofaults unlinkFails fs).1 = .res .ok ∧
      doCommit = true)) :
    run2 u fs (fileRunFull code tmpdir filename mode pieces doCommit fault rands ofaults unlinkFails fs).2 (code c) =
      fs (code c) ∧
    ((∀ f, (createWithMode code tmpdir filename mode rands ofaults fs).1 ≠ .ok f) →
      run2 u fs (fileRunFull code tmpdir filename mode pieces doCommit fault rands ofaults unlinkFails fs).2 = fs) ∧
    (∀ f, (createWithMode code tmpdir filename mode rands ofaults fs).1 = .ok f →
      (∀ q, q ≠ f.tmp →
        run2 u fs (fileRunFull code tmpdir filename mode pieces doCommit fault rands ofaults unlinkFails fs).2 q = fs q) ∧
      (unlinkFails = false →
        run2 u fs (fileRunFull code tmpdir filename mode pieces doCommit fault rands ofaults unlinkFails fs).2 = fs)) := by
  obtain ⟨fails, hfail, _, hcase⟩ := createWithMode_spec code tmpdir filename mode rands ofaults fs
  rcases hcase with ⟨c', j, hv', _, _, heq, hfree, _⟩ | ⟨hno, hacts⟩
  · rw [hv] at hv'; cases hv'
    have hne : code (tempName tmpdir (dirOf c) safePattern (rands j)) ≠ code c := by
      rcases hclash with h | h
      · intro e; rw [e] at hfree; exact h hfree
      · exact h j
    obtain ⟨hacts, hres⟩ :=
      fileRunFull_acts code tmpdir filename mode pieces doCommit fault rands ofaults unlinkFails fs _ _ fails heq
    -- the run of the first model does not commit either
    have hf' : ¬ ((fileRun (code (tempName tmpdir (dirOf c) safePattern (rands j))) (code c) mode pieces doCommit fault).1 = .ok ∧
        doCommit = true) := by
      intro ⟨h1, h2⟩
      apply hf
      refine ⟨?_, h2⟩
      rcases hres with h | ⟨_, h3, _, _⟩
      · rw [h, h1]
      · rw [h2] at h3; cases h3
    obtain ⟨body, hbody, hsplit, htargets⟩ := (fileRun_unlinkLast _ (code c) mode pieces doCommit fault).2 hf'
    rw [hacts]
    have key : ∀ q, q ≠ code (tempName tmpdir (dirOf c) safePattern (rands j)) →
        run2 u fs (fails ++ mapU unlinkFails
          (fileRun (code (tempName tmpdir (dirOf c) safePattern (rands j))) (code c) mode pieces doCommit fault).2) q = fs q := by
      intro q hq
      rw [run2_append, run2_fails u fs fails hfail, hsplit]
      cases unlinkFails with
      | true =>
        rw [mapU_true_final u fs body hbody]
        exact run_untouched u fs q body (fun a ha => htargets a ha q hq)
      | false =>
        rw [mapU_false, run2_map_base]
        apply run_untouched
        intro a ha
        rcases List.mem_append.mp ha with h | h
        · exact htargets a h q hq
        · simp at h; subst h; simp [targets, hq]
    refine ⟨key (code c) (fun e => hne e.symm), fun hno => absurd (by rw [heq]) (hno _), ?_⟩
    intro f hfe
    rw [heq] at hfe
    simp only [CreateRes.ok.injEq] at hfe
    subst hfe
    refine ⟨key, ?_⟩
    intro hu
    subst hu
    funext q
    by_cases hq : q = code (tempName tmpdir (dirOf c) safePattern (rands j))
    · rw [hq, run2_append, run2_fails u fs fails hfail, mapU_false, run2_map_base,
        (file_api_abort_or_failure_clean u fs _ (code c) hne mode pieces doCommit fault hf').2, hfree]
    · exact key q hq
  · have hacts' : (fileRunFull code tmpdir filename mode pieces doCommit fault rands ofaults unlinkFails fs).2 = fails := by
      unfold fileRunFull
      generalize createWithMode code tmpdir filename mode rands ofaults fs = r at hno hacts
      obtain ⟨r1, r2⟩ := r
      cases r1 with
      | ok f => exact absurd rfl (hno f)
      | invalid => exact hacts
      | temp e => exact hacts
    rw [hacts', run2_fails u fs fails hfail]
    exact ⟨rfl, fun _ => rfl, fun f hfe => absurd hfe (hno f)⟩

/-- **successful Commit through the complete File API**: exactly the bytes written, every other path as before -/
theorem full_history_commit_result (u : Nat) (code : Str → Path) (tmpdir filename c : Str) (mode : Nat)
    (pieces : List Bytes) (fault : Fault) (rands : Nat → Nat) (ofaults : Nat → Option OpenFault)
    (unlinkFails : Bool) (fs : FS) (hv : validName filename = some c)
    (hclash : fs (code c) ≠ none ∨ ∀ j, code (tempName tmpdir (dirOf c) safePattern (rands j)) ≠ code c)
    (hok : (fileRunFull code tmpdir filename mode pieces true fault rands ofaults unlinkFails fs).1 = .res .ok) :
    run2 u fs (fileRunFull code tmpdir filename mode pieces true fault rands ofaults unlinkFails fs).2 (code c) =
      some ⟨pieces.flatten, lessUmask mode u⟩ ∧
    ∀ q, q ≠ code c →
      run2 u fs (fileRunFull code tmpdir filename mode pieces true fault rands ofaults unlinkFails fs).2 q = fs q := by
  obtain ⟨fails, hfail, _, hcase⟩ := createWithMode_spec code tmpdir filename mode rands ofaults fs
  rcases hcase with ⟨c', j, hv', _, _, heq, hfree, _⟩ | ⟨hno, hacts⟩
  · rw [hv] at hv'; cases hv'
    have hne : code (tempName tmpdir (dirOf c) safePattern (rands j)) ≠ code c := by
      rcases hclash with h | h
      · intro e; rw [e] at hfree; exact h hfree
      · exact h j
    obtain ⟨hacts, hres⟩ :=
      fileRunFull_acts code tmpdir filename mode pieces true fault rands ofaults unlinkFails fs _ _ fails heq
    have hok' : (fileRun (code (tempName tmpdir (dirOf c) safePattern (rands j))) (code c) mode pieces true fault).1 = .ok := by
      rcases hres with h | ⟨_, h3, _, _⟩
      · rw [h] at hok; injection hok
      · cases h3
    obtain ⟨ws, tl, hshape, hws, _, hiff, hcommit⟩ :=
      fileRun_shape (code (tempName tmpdir (dirOf c) safePattern (rands j))) (code c) mode pieces true fault
    have htl := hiff.mpr ⟨hok', rfl⟩
    have hnou : mapU unlinkFails (fileRun (code (tempName tmpdir (dirOf c) safePattern (rands j))) (code c) mode pieces true fault).2 =
        (fileRun (code (tempName tmpdir (dirOf c) safePattern (rands j))) (code c) mode pieces true fault).2.map .base := by
      apply mapU_noUnlink
      rw [hshape, htl]
      intro a ha
      simp only [List.mem_append, List.mem_singleton] at ha
      rcases ha with (rfl | ha) | ha
      · rfl
      · exact onlyWrites_noUnlink _ ws hws a ha
      · simp at ha; rcases ha with rfl | rfl <;> rfl
    rw [hacts, hnou, run2_append, run2_fails u fs fails hfail, run2_map_base]
    obtain ⟨hd, ht⟩ := file_api_commit_result u fs _ (code c) hne mode pieces fault hok'
    refine ⟨hd, ?_⟩
    intro q hq
    by_cases hqt : q = code (tempName tmpdir (dirOf c) safePattern (rands j))
    · rw [hqt, ht, hfree]
    · rw [hshape, htl, hcommit htl]
      apply run_untouched
      intro a ha
      simp only [List.mem_append, List.mem_singleton] at ha
      rcases ha with (rfl | ha) | ha
      · simp [targets, hqt]
      · simp at ha; obtain ⟨x, _, rfl⟩ := ha; simp [targets, hqt]
      · simp at ha; rcases ha with rfl | rfl <;> simp [targets, hqt, hq]
  · exfalso
    have : (fileRunFull code tmpdir filename mode pieces true fault rands ofaults unlinkFails fs).1 ≠ .res .ok := by
      unfold fileRunFull
      generalize createWithMode code tmpdir filename mode rands ofaults fs = r at hno
      obtain ⟨r1, r2⟩ := r
      cases r1 with
      | ok f => exact absurd rfl (hno f)
      | invalid => simp [CreateRes.err]
      | temp e => cases e <;> simp [CreateRes.err] <;> exact absurd rfl (hno _)
    exact this hok

/-- **which cleanup reports the unlink error**: `Close` without `Commit` returns it when (and only when) closing the
    descriptor succeeded; `Commit` never does — it returns the close or rename error that sent it to the cleanup.
    In both the destination is not named by any action. -/
theorem unlink_error_reporting (f : File) (hc : f.committed = false) (hcl : f.closed = false) (hfd : f.fdOpen = true)
    (a b : Bool) :
    (f.closeU false true).2.1 = .errno ∧ (f.closeU true true).2.1 = .errno ∧
    (f.closeU false false).2.1 = .ok ∧
    (f.commitU a b true).2.1 = (f.commit a b).2.1 ∧
    (∀ x ∈ (f.closeU a true).2.2, x = .base (.close f.tmp) ∨ x = .base (.closeFail f.tmp) ∨ x = .unlinkFail f.tmp) := by
  refine ⟨by simp [File.closeU, hc, hcl, hfd], by simp [File.closeU, hc, hcl, hfd], by simp [File.closeU, hc, hcl, hfd],
    by rw [commitU_eq], ?_⟩
  intro x hx
  cases a <;> simp [File.closeU, hc, hcl, hfd, rmAct] at hx <;> rcases hx with rfl | rfl <;> simp

/-- **shape of the temporary name**: the prefix computed from directory and pattern, then at least one decimal digit
    and nothing but decimal digits, then the suffix -/
theorem temp_name_shape (tmpdir dir pat : Str) (r : Nat) :
    ∃ digits : Str, digits ≠ [] ∧ (∀ ch ∈ digits, ch.isDigit = true) ∧
      tempName tmpdir dir pat r = tempPrefix tmpdir dir pat ++ digits ++ (splitStar pat).2 :=
  ⟨decimal r, (decimal_digits r).1, (decimal_digits r).2, rfl⟩

/-- **look-alikes**: the candidate names of `safe.Create` are `<prefix><digits>`; a destination that does not start with
    that prefix, or continues after it with anything that is not a decimal digit (`safe2023-q4.csv`, `safe1.db`,
    `safe`, `safe*`), is never a candidate name — for every random number and every injective naming of paths -/
theorem no_clash_unless_lookalike (code : Str → Path) (hinj : ∀ a b, code a = code b → a = b) (tmpdir c : Str)
    (h : ¬ (tempPrefix tmpdir (dirOf c) safePattern <+: c) ∨
      ∃ rest, c = tempPrefix tmpdir (dirOf c) safePattern ++ rest ∧ (rest = [] ∨ ∃ ch ∈ rest, ch.isDigit = false)) :
    ∀ r, code (tempName tmpdir (dirOf c) safePattern r) ≠ code c := by
  intro r e
  have hname := hinj _ _ e
  have hsuf : (splitStar safePattern).2 = [] := by decide
  unfold tempName at hname
  rw [hsuf, List.append_nil] at hname
  rcases h with h | ⟨rest, hc, hrest⟩
  · exact h ⟨decimal r, hname⟩
  · generalize tempPrefix tmpdir (dirOf c) safePattern = pre at hname hc
    rw [hc] at hname
    have hd := List.append_cancel_left hname
    rcases hrest with h0 | ⟨ch, hmem, hnd⟩
    · exact (decimal_digits r).1 (by rw [hd, h0])
    · have := (decimal_digits r).2 ch (by rw [hd]; exact hmem)
      rw [this] at hnd; cases hnd

/-! non-vacuity of the extension, and the one case the hypothesis `hclash` excludes -/

/-- `codeStr`, the naming the driver runs, is injective -/
example : ∀ a b : Str, codeStr a = codeStr b → a = b := codeStr_inj

/-- the candidate names of `safe.Create("/d/x")` are `/d/safe<digits>` -/
example : tempName "/tmp".toList (dirOf "/d/x".toList) safePattern 123 = "/d/safe123".toList := by decide

/-- `safe2023-q4.csv` is not a candidate name (hypothesis of `no_clash_unless_lookalike` met) -/
example : ∃ rest, "/d/safe2023-q4.csv".toList = tempPrefix "/tmp".toList (dirOf "/d/safe2023-q4.csv".toList) safePattern ++ rest ∧
    (rest = [] ∨ ∃ ch ∈ rest, ch.isDigit = false) :=
  ⟨"2023-q4.csv".toList, by decide, Or.inr ⟨'-', by decide, by decide⟩⟩

/-- three collisions, then a free name: the loop retries and creates the fourth candidate -/
example : (createWithMode codeStr "/tmp".toList "/d/x".toList 0o644 (fun i => i)
      (fun i => if i < 3 then some .exist else none) (fun _ => none)).1 =
    .ok { tmp := codeStr "/d/safe3".toList, dst := codeStr "/d/x".toList } := by decide

/-- names that are refused: `/` (ends in a separator after cleaning) -/
example : validName "/".toList = none := by decide
example : validName "".toList = some ".".toList := by decide

/-- **the excluded case is real**: an ABSENT destination whose name is itself a candidate name (`/d/safe123`) and a
    random source that yields that number: `O_EXCL` accepts the name, the "temporary" file IS the destination — after
    the first system call the destination exists as an empty file although nothing has been committed (here the
    callback then fails; the cleanup removes the file again).  Probability 2⁻⁶³ per attempt with the crypto source. -/
example : run2 0o22 (fun _ => none)
      ((writeFileFull codeStr "/tmp".toList "/d/safe123".toList 4 0o644 [[1, 2, 3]] .propagate (.callback 1)
        (fun _ => 123) (fun _ => none) false (fun _ => none)).2.take 1) (codeStr "/d/safe123".toList) =
    some ⟨[], 0o644⟩ := by decide

end C14
