import Lemmas.SafeFileRaceHist
import Props.C14Hist
/-! # C14, fourth part — two `safe.File` handles on one destination, any histories, faults everywhere, every instant

Two handles created for the same destination (two goroutines, two processes), each running ANY history of
`Write`/`Commit`/`Close`/embedded `Close` with a fault on ANY of its system calls; the kernel sees some interleaving
(`Safe.Interleave`) of the two sequences of system calls.  The definitions are the ones the driver executes in the stream
`hist` (`File.stepsU`); the temporary names differ because `O_EXCL` created both. -/
namespace C14
open Safe

/-- **two handles, any two histories, any faults, every interleaving, every instant**: the destination holds its old
    state, or exactly the bytes handle A's history commits, or exactly the bytes handle B's history commits (each with the
    requested mode less the umask) — never a mixture, a prefix or an empty file; and it can hold A's (B's) bytes only if
    A's (B's) history does commit (`committedU`: its first `Commit`/`Close` is a `Commit` whose close and rename succeed). -/
theorem two_histories_old_or_A_or_B (u : Nat) (fs : FS) (tmpA tmpB dst : Path) (hA : tmpA ≠ dst) (hB : tmpB ≠ dst)
    (hAB : tmpA ≠ tmpB) (modeA modeB : Nat) (opsA opsB : List OpU) (l : List Act2)
    (hl : Interleave
      ((File.create tmpA dst modeA).2.map Act2.base ++ ((File.create tmpA dst modeA).1.stepsU opsA).2.2)
      ((File.create tmpB dst modeB).2.map Act2.base ++ ((File.create tmpB dst modeB).1.stepsU opsB).2.2) l)
    (k : Nat) :
    run2 u fs (l.take k) dst = fs dst ∨
    (∃ p, committedU true opsA = some p ∧ run2 u fs (l.take k) dst = some ⟨p, lessUmask modeA u⟩) ∨
    (∃ p, committedU true opsB = some p ∧ run2 u fs (l.take k) dst = some ⟨p, lessUmask modeB u⟩) := by
  have hlocA := history_local tmpA dst modeA opsA
  have hlocB := history_local tmpB dst modeB opsB
  have hloc : ∀ x ∈ l, dst ∉ targets2 x ∨ ∃ s, s ≠ dst ∧ x = .base (.rename s dst) := by
    intro x hx
    rcases hl.mem x hx with h | h
    · exact localTo2_dst tmpA dst hA x (hlocA x h)
    · exact localTo2_dst tmpB dst hB x (hlocB x h)
  rcases dst_from_a_rename2 u fs dst l hloc k with h | ⟨i, s, c, _, h1, h2, h3⟩
  · exact Or.inl h
  · right
    obtain ⟨ia, ib, hint, hsrc⟩ := hl.split i _ h1
    rcases hsrc with hsrc | hsrc
    · left
      obtain ⟨hs, _, p, hp, hcont⟩ := history_rename u modeA fs tmpA dst hA opsA ia s dst hsrc
      subst hs
      have := interleave_tmp2 u s dst hA hint
        (fun x hx => hlocA x (List.mem_of_mem_take hx))
        (fun y hy => localTo2_not_other tmpB dst s hAB hA y (hlocB y (List.mem_of_mem_take hy))) fs fs rfl
      exact ⟨p, hp, by rw [h3, ← h2, this, hcont]⟩
    · right
      obtain ⟨hs, _, p, hp, hcont⟩ := history_rename u modeB fs tmpB dst hB opsB ib s dst hsrc
      subst hs
      have := interleave_tmp2 u s dst hB hint.symm
        (fun x hx => hlocB x (List.mem_of_mem_take hx))
        (fun y hy => localTo2_not_other tmpA dst s (fun e => hAB e.symm) hB y (hlocA y (List.mem_of_mem_take hy))) fs fs rfl
      exact ⟨p, hp, by rw [h3, ← h2, this, hcont]⟩

/-- **each handle's temporary file is its own**: in any interleaving, handle A's temporary file goes through exactly the
    states of A's solo run — handle B never reads, writes, renames or removes it -/
theorem two_histories_temp_isolated (u : Nat) (fs : FS) (tmpA tmpB dst : Path) (hA : tmpA ≠ dst) (hAB : tmpA ≠ tmpB)
    (modeA modeB : Nat) (opsA opsB : List OpU) (l : List Act2)
    (hl : Interleave
      ((File.create tmpA dst modeA).2.map Act2.base ++ ((File.create tmpA dst modeA).1.stepsU opsA).2.2)
      ((File.create tmpB dst modeB).2.map Act2.base ++ ((File.create tmpB dst modeB).1.stepsU opsB).2.2) l) :
    run2 u fs l tmpA =
      run2 u fs ((File.create tmpA dst modeA).2.map Act2.base ++ ((File.create tmpA dst modeA).1.stepsU opsA).2.2) tmpA :=
  interleave_tmp2 u tmpA dst hA hl (history_local tmpA dst modeA opsA)
    (fun y hy => localTo2_not_other tmpB dst tmpA hAB hA y (history_local tmpB dst modeB opsB y hy)) fs fs rfl

/-- **nothing else is touched, in any interleaving** -/
theorem two_histories_touch_nothing_else (u : Nat) (fs : FS) (tmpA tmpB dst q : Path) (hqA : q ≠ tmpA) (hqB : q ≠ tmpB)
    (hqd : q ≠ dst) (modeA modeB : Nat) (opsA opsB : List OpU) (l : List Act2)
    (hl : Interleave
      ((File.create tmpA dst modeA).2.map Act2.base ++ ((File.create tmpA dst modeA).1.stepsU opsA).2.2)
      ((File.create tmpB dst modeB).2.map Act2.base ++ ((File.create tmpB dst modeB).1.stepsU opsB).2.2) l)
    (k : Nat) : run2 u fs (l.take k) q = fs q := by
  apply run2_untouched
  intro x hx
  rcases hl.mem x (List.mem_of_mem_take hx) with h | h
  · exact localTo2_not_other tmpA dst q hqA hqd x (history_local tmpA dst modeA opsA x h)
  · exact localTo2_not_other tmpB dst q hqB hqd x (history_local tmpB dst modeB opsB x h)

/-- **no temporary file of either handle remains**: once a handle has called `Commit` or `Close` — and none of its unlinks
    was made to fail — its temporary file is gone at the end of every interleaving, whatever the other handle did or
    suffered (the other handle's failing unlink can only leave the OTHER temporary file behind) -/
theorem two_histories_no_temp_remains (u : Nat) (fs : FS) (tmpA tmpB dst : Path) (hA : tmpA ≠ dst) (hAB : tmpA ≠ tmpB)
    (modeA modeB : Nat) (opsA opsB : List OpU) (l : List Act2)
    (hl : Interleave
      ((File.create tmpA dst modeA).2.map Act2.base ++ ((File.create tmpA dst modeA).1.stepsU opsA).2.2)
      ((File.create tmpB dst modeB).2.map Act2.base ++ ((File.create tmpB dst modeB).1.stepsU opsB).2.2) l)
    (hclean : allClean opsA = true)
    (hdone : ∀ b, ((⟨.writing true, [], fs dst⟩ : Abs).steps (lessUmask modeA u) opsA).1.phase ≠ .writing b) :
    run2 u fs l tmpA = none := by
  rw [two_histories_temp_isolated u fs tmpA tmpB dst hA hAB modeA modeB opsA opsB l hl, run2_append, create_state]
  exact (history_refines_spec u modeA fs tmpA dst hA opsA).2.2.2.2 hclean hdone

/-! non-vacuity: A writes and commits while B, whose rename fails and whose unlink fails too, gives up in between -/
example : Interleave
    ((File.create 1 0 0o644).2.map Act2.base ++ ((File.create 1 0 0o644).1.stepsU [.write [1, 2] false, .commit false false false]).2.2)
    ((File.create 2 0 0o600).2.map Act2.base ++ ((File.create 2 0 0o600).1.stepsU [.write [9] false, .commit false true true]).2.2)
    [.base (.createExcl 1 0o644), .base (.createExcl 2 0o600), .base (.write 1 [1, 2]), .base (.write 2 [9]),
     .base (.close 2), .base (.renameFail 2 0), .base (.close 1), .unlinkFail 2, .base (.rename 1 0)] :=
  .left _ (.right _ (.left _ (.right _ (.right _ (.right _ (.left _ (.right _ (.left _ .nil))))))))

end C14
