import Props.C14
import Lemmas.SafeFileHist
/-! # C14, second part — every history of the `safe.File` API with a fault on every system call; several faults in one
    `WriteFileWithMode`; the code WITHOUT one of its mechanisms violates the property

Property theorems only (executable definitions: `Model/SafeFileHist.lean`, run by the model driver in the streams `hist`
and `multi`; helper lemmas: `Lemmas/SafeFileHist.lean`).

`File.stepsU f ops` runs any sequence `ops : List OpU` of `Write` / `Commit` / `Close` / embedded-`Close` calls on a handle;
every call carries one Boolean per system call it can issue (write, close, rename, unlink) saying whether that call fails.
`Abs` is the specification a user of the package has in mind — no temporary file, no system calls: a phase, the bytes
accepted so far, the content of the destination.  The theorems say that the action model REFINES this specification (same
result of every call, same destination, nothing else touched, temporary file gone) and that the destination is old-or-new
after every prefix of the system calls.  -/
namespace C14
open Safe

/-- **every history of the File API, every fault assignment, refines the abstract specification.**  For any sequence of
    `Write`/`Commit`/`Close`/embedded `Close` calls after `CreateWithMode`, each with any of its system calls failing:
    (1) every call returns what the specification says (nil, the errno, `ErrInvalid`, "file already closed");
    (2) at the end the destination is what the specification says: its old state unless the first `Commit`/`Close` was a
        `Commit` whose close and rename succeeded — then exactly the bytes accepted before it, requested mode less umask;
    (3) no other path of the directory has changed;
    (4) while the handle is open the temporary file holds exactly the bytes accepted so far;
    (5) once `Commit` or `Close` has been called the temporary file is gone — provided no `unlink` was made to fail
        (if one was, the code cannot remove the file; that case is `history_failed_unlink_only_the_temp_remains`). -/
theorem history_refines_spec (u mode : Nat) (fs : FS) (tmp dst : Path) (hne : tmp ≠ dst) (ops : List OpU) :
    ((File.create tmp dst mode).1.stepsU ops).2.1 =
      ((⟨.writing true, [], fs dst⟩ : Abs).steps (lessUmask mode u) ops).2 ∧
    run2 u (fs.set tmp (some ⟨[], lessUmask mode u⟩)) ((File.create tmp dst mode).1.stepsU ops).2.2 dst =
      ((⟨.writing true, [], fs dst⟩ : Abs).steps (lessUmask mode u) ops).1.dest ∧
    (∀ q, q ≠ tmp → q ≠ dst →
      run2 u (fs.set tmp (some ⟨[], lessUmask mode u⟩)) ((File.create tmp dst mode).1.stepsU ops).2.2 q = fs q) ∧
    (∀ b, ((⟨.writing true, [], fs dst⟩ : Abs).steps (lessUmask mode u) ops).1.phase = .writing b →
      run2 u (fs.set tmp (some ⟨[], lessUmask mode u⟩)) ((File.create tmp dst mode).1.stepsU ops).2.2 tmp =
        some ⟨((⟨.writing true, [], fs dst⟩ : Abs).steps (lessUmask mode u) ops).1.pending, lessUmask mode u⟩) ∧
    (allClean ops = true →
      (∀ b, ((⟨.writing true, [], fs dst⟩ : Abs).steps (lessUmask mode u) ops).1.phase ≠ .writing b) →
      run2 u (fs.set tmp (some ⟨[], lessUmask mode u⟩)) ((File.create tmp dst mode).1.stepsU ops).2.2 tmp = none) := by
  obtain ⟨R, hres⟩ := stepsU_sim u (lessUmask mode u) tmp dst hne fs ops true _ _ _ (rel_init u mode tmp dst hne fs)
  refine ⟨hres, R.dest, R.others, ?_, ?_⟩
  · intro b hb
    apply R.tmpc
    have hp := R.phase
    rw [hb] at hp
    exact phase_writing_not_closed _ b hp.symm
  · intro hclean hdone
    apply R.gone (by simp [hclean])
    apply phase_done_closed _ R.inv1
    intro b hb
    exact hdone b (by rw [R.phase, hb])

/-- **every history, every fault assignment, every kill point**: after any prefix of the system calls of
    `CreateWithMode` and of all calls of the history the destination is what it was before, or the history commits `p`
    (`committedU`: its first `Commit`/`Close` is a `Commit` whose close and rename succeed, `p` = the bytes accepted
    before it) and the destination holds exactly `p` with the requested mode less the umask.  A failing `unlink`,
    `close`, `rename` or `write` anywhere in the history changes nothing in this. -/
theorem history_every_kill_point (u mode : Nat) (fs : FS) (tmp dst : Path) (hne : tmp ≠ dst) (ops : List OpU) (k : Nat) :
    run2 u fs (((File.create tmp dst mode).2.map Act2.base ++ ((File.create tmp dst mode).1.stepsU ops).2.2).take k) dst =
      fs dst ∨
    ∃ p, committedU true ops = some p ∧
      run2 u fs (((File.create tmp dst mode).2.map Act2.base ++ ((File.create tmp dst mode).1.stepsU ops).2.2).take k) dst =
        some ⟨p, lessUmask mode u⟩ := by
  have hd : dst ≠ tmp := fun e => hne e.symm
  have hcreate : (File.create tmp dst mode).1 = ({ tmp := tmp, dst := dst } : File) := rfl
  rw [run2_take_append, hcreate]
  have hcr : (File.create tmp dst mode).2.map Act2.base = [.base (.createExcl tmp mode)] := rfl
  rw [hcr]
  match k with
  | 0 => left; simp [run2]
  | k + 1 =>
    have h1 : run2 u fs ([Act2.base (.createExcl tmp mode)].take (k + 1)) = fs.set tmp (some ⟨[], lessUmask mode u⟩) := by
      simp [run2, applyAct2, applyAct]
    rw [h1]
    have hdst : (fs.set tmp (some ⟨[], lessUmask mode u⟩)) dst = fs dst := by simp [FS.set, hd]
    rcases stepsU_prefix u (lessUmask mode u) tmp dst hne fs ops true _ _ _ (k + 1 - [Act2.base (.createExcl tmp mode)].length)
      (rel_init u mode tmp dst hne fs) with h | h
    · left; rw [h, hdst]
    · rw [Abs.steps_dest] at h
      cases hc : committedU true ops with
      | none => left; rw [h, hc]
      | some p => right; exact ⟨p, rfl, by rw [h, hc]; simp⟩

/-- **a failing unlink leaves the temporary file and nothing else**: whatever fails in a history, every path except the
    temporary file is, at the end, exactly what the specification says (the destination) or what it was (all others) —
    this is parts (2) and (3) of `history_refines_spec` without the proviso on `unlink`; and a history whose unlinks all
    succeed and which ends finished leaves the directory EQUAL to the old one except for the destination. -/
theorem history_failed_unlink_only_the_temp_remains (u mode : Nat) (fs : FS) (tmp dst : Path) (hne : tmp ≠ dst)
    (hfree : fs tmp = none) (ops : List OpU) :
    (∀ q, q ≠ tmp → q ≠ dst →
      run2 u (fs.set tmp (some ⟨[], lessUmask mode u⟩)) ((File.create tmp dst mode).1.stepsU ops).2.2 q = fs q) ∧
    (allClean ops = true →
      (∀ b, ((⟨.writing true, [], fs dst⟩ : Abs).steps (lessUmask mode u) ops).1.phase ≠ .writing b) →
      ∀ q, q ≠ dst →
        run2 u (fs.set tmp (some ⟨[], lessUmask mode u⟩)) ((File.create tmp dst mode).1.stepsU ops).2.2 q = fs q) := by
  obtain ⟨_, _, h3, _, h5⟩ := history_refines_spec u mode fs tmp dst hne ops
  refine ⟨h3, ?_⟩
  intro hclean hdone q hq
  by_cases hqt : q = tmp
  · rw [hqt, h5 hclean hdone, hfree]
  · exact h3 q hqt hq

/-- **the complete API** — `CreateWithMode` with its name check and the loop of `CreateTemp` (any collisions, any open
    faults), then any history with any faults: (1) old-or-committed at every kill point; (2) when `CreateWithMode`
    succeeds, every call returns what the abstract specification says and the destination ends as it says; (3) when it
    fails no call is made and the directory is unchanged.  Hypothesis as in `full_dest_old_or_new`: the destination
    exists, or no candidate name is the destination's own name. -/
theorem full_api_history (u : Nat) (code : Str → Path) (tmpdir filename c : Str) (mode : Nat) (ops : List OpU)
    (rands : Nat → Nat) (ofaults : Nat → Option OpenFault) (fs : FS) (k : Nat) (hv : validName filename = some c)
    (hclash : fs (code c) ≠ none ∨ ∀ j, code (tempName tmpdir (dirOf c) safePattern (rands j)) ≠ code c) :
    (run2 u fs ((apiRunFull code tmpdir filename mode ops rands ofaults fs).2.2.take k) (code c) = fs (code c) ∨
      ∃ p, committedU true ops = some p ∧
        run2 u fs ((apiRunFull code tmpdir filename mode ops rands ofaults fs).2.2.take k) (code c) =
          some ⟨p, lessUmask mode u⟩) ∧
    ((apiRunFull code tmpdir filename mode ops rands ofaults fs).1 = .res .ok →
      (apiRunFull code tmpdir filename mode ops rands ofaults fs).2.1 =
        ((⟨.writing true, [], fs (code c)⟩ : Abs).steps (lessUmask mode u) ops).2 ∧
      run2 u fs (apiRunFull code tmpdir filename mode ops rands ofaults fs).2.2 (code c) =
        ((⟨.writing true, [], fs (code c)⟩ : Abs).steps (lessUmask mode u) ops).1.dest) ∧
    ((apiRunFull code tmpdir filename mode ops rands ofaults fs).1 ≠ .res .ok →
      (apiRunFull code tmpdir filename mode ops rands ofaults fs).2.1 = [] ∧
      run2 u fs (apiRunFull code tmpdir filename mode ops rands ofaults fs).2.2 = fs) := by
  obtain ⟨fails, hfail, _, hcase⟩ := createWithMode_spec code tmpdir filename mode rands ofaults fs
  rcases hcase with ⟨c', j, hv', _, _, heq, hfree, _⟩ | ⟨hno, hacts⟩
  · rw [hv] at hv'; cases hv'
    have hne : code (tempName tmpdir (dirOf c) safePattern (rands j)) ≠ code c := by
      rcases hclash with h | h
      · intro e; rw [e] at hfree; exact h hfree
      · exact h j
    generalize code (tempName tmpdir (dirOf c) safePattern (rands j)) = tmp at heq hne hfree
    have hrun : apiRunFull code tmpdir filename mode ops rands ofaults fs =
        (.res .ok, ((File.create tmp (code c) mode).1.stepsU ops).2.1,
          (fails ++ (File.create tmp (code c) mode).2.map Act2.base) ++ ((File.create tmp (code c) mode).1.stepsU ops).2.2) := by
      unfold apiRunFull
      rw [heq]
      rfl
    rw [hrun]
    simp only
    refine ⟨?_, ?_, fun h => absurd rfl h⟩
    · rw [List.append_assoc, run2_take_fails_append u fs fails _ hfail]
      exact history_every_kill_point u mode fs tmp (code c) hne ops (k - fails.length)
    · intro _
      obtain ⟨h1, h2, _⟩ := history_refines_spec u mode fs tmp (code c) hne ops
      refine ⟨h1, ?_⟩
      rw [run2_append, run2_append, run2_fails u fs fails hfail, create_state]
      exact h2
  · have hrun : apiRunFull code tmpdir filename mode ops rands ofaults fs =
        ((createWithMode code tmpdir filename mode rands ofaults fs).1.err, [], fails) := by
      unfold apiRunFull
      generalize createWithMode code tmpdir filename mode rands ofaults fs = r at hno hacts
      obtain ⟨r1, r2⟩ := r
      simp only at hacts
      subst hacts
      cases r1 with
      | ok f => exact absurd rfl (hno f)
      | invalid => rfl
      | temp e => rfl
    rw [hrun]
    simp only
    refine ⟨Or.inl ?_, ?_, fun _ => ⟨trivial, run2_fails u fs fails hfail⟩⟩
    · rw [run2_fails u fs _ (fun a ha => hfail a (List.mem_of_mem_take ha))]
    · intro h
      exfalso
      generalize createWithMode code tmpdir filename mode rands ofaults fs = r at hno h
      obtain ⟨r1, r2⟩ := r
      cases r1 with
      | ok f => exact absurd rfl (hno f)
      | invalid => simp [CreateRes.err] at h
      | temp e => cases e <;> simp [CreateRes.err] at h <;> exact absurd rfl (hno _)

/-! ## several faults in one `WriteFileWithMode` -/

/-- **two and three faults in one run**: a primary fault (callback error or panic, a failing write anywhere, the close or
    the rename of `Commit`) TOGETHER WITH a failing close(2) in the deferred `Close` and/or a failing unlink of the
    cleanup — after every prefix of the system calls the destination holds its old state or the complete new content -/
theorem multi_fault_dest_old_or_new (u : Nat) (code : Str → Path) (tmpdir filename c : Str) (N mode : Nat)
    (pieces : List Bytes) (cb : CbMode) (fault : Fault) (rands : Nat → Nat) (ofaults : Nat → Option OpenFault)
    (closeFails2 unlinkFails : Bool) (fs : FS) (k : Nat) (hv : validName filename = some c)
    (hclash : fs (code c) ≠ none ∨ ∀ j, code (tempName tmpdir (dirOf c) safePattern (rands j)) ≠ code c) :
    run2 u fs ((writeFileMulti code tmpdir filename N mode pieces cb fault rands ofaults closeFails2 unlinkFails fs).2.take k)
      (code c) = fs (code c) ∨
    run2 u fs ((writeFileMulti code tmpdir filename N mode pieces cb fault rands ofaults closeFails2 unlinkFails fs).2.take k)
      (code c) = some (newFile mode u pieces) := by
  have hfull := full_dest_old_or_new u code tmpdir filename c N mode pieces cb fault rands ofaults unlinkFails fs k hv hclash
  rcases (writeFileMulti_rel code tmpdir filename N mode pieces cb fault rands ofaults closeFails2 unlinkFails fs).2 with h | h
  · rw [h]; exact hfull
  · rw [h, run2_take_map_failClose]; exact hfull

/-- **the primary error is what comes back**: the result of `WriteFileWithMode` does not depend on whether the close(2)
    of the deferred `Close` or the unlink of the cleanup fail as well -/
theorem multi_fault_result (code : Str → Path) (tmpdir filename : Str) (N mode : Nat) (pieces : List Bytes) (cb : CbMode)
    (fault : Fault) (rands : Nat → Nat) (ofaults : Nat → Option OpenFault) (closeFails2 unlinkFails : Bool) (fs : FS) :
    (writeFileMulti code tmpdir filename N mode pieces cb fault rands ofaults closeFails2 unlinkFails fs).1 =
      (writeFileFull code tmpdir filename N mode pieces cb fault rands ofaults false fs).1 := by
  rw [(writeFileMulti_rel code tmpdir filename N mode pieces cb fault rands ofaults closeFails2 unlinkFails fs).1]
  cases unlinkFails with
  | false => rfl
  | true => exact full_result_independent_of_unlink code tmpdir filename N mode pieces cb fault rands ofaults fs

/-- **what a run with several faults leaves behind**: if it fails, the destination and every path except the temporary
    file are exactly as before; without an unlink fault the whole directory is as before, whatever else failed -/
theorem multi_fault_failure_leaves_only_the_temp (u : Nat) (code : Str → Path) (tmpdir filename c : Str) (N mode : Nat)
    (pieces : List Bytes) (cb : CbMode) (fault : Fault) (rands : Nat → Nat) (ofaults : Nat → Option OpenFault)
    (closeFails2 unlinkFails : Bool) (fs : FS) (hv : validName filename = some c)
    (hclash : fs (code c) ≠ none ∨ ∀ j, code (tempName tmpdir (dirOf c) safePattern (rands j)) ≠ code c)
    (hf : (writeFileMulti code tmpdir filename N mode pieces cb fault rands ofaults closeFails2 unlinkFails fs).1 ≠ .res .ok) :
    run2 u fs (writeFileMulti code tmpdir filename N mode pieces cb fault rands ofaults closeFails2 unlinkFails fs).2 (code c) =
      fs (code c) ∧
    (∀ f, (createWithMode code tmpdir filename mode rands ofaults fs).1 = .ok f → ∀ q, q ≠ f.tmp →
      run2 u fs (writeFileMulti code tmpdir filename N mode pieces cb fault rands ofaults closeFails2 unlinkFails fs).2 q =
        fs q) ∧
    (unlinkFails = false →
      run2 u fs (writeFileMulti code tmpdir filename N mode pieces cb fault rands ofaults closeFails2 unlinkFails fs).2 = fs) := by
  obtain ⟨hres, hacts⟩ := writeFileMulti_rel code tmpdir filename N mode pieces cb fault rands ofaults closeFails2 unlinkFails fs
  rw [hres] at hf
  obtain ⟨h1, h2, h3⟩ := full_failure_leaves_only_the_temp u code tmpdir filename c N mode pieces cb fault rands ofaults
    unlinkFails fs hv hclash hf
  have hrun : run2 u fs (writeFileMulti code tmpdir filename N mode pieces cb fault rands ofaults closeFails2 unlinkFails fs).2 =
      run2 u fs (writeFileFull code tmpdir filename N mode pieces cb fault rands ofaults unlinkFails fs).2 := by
    rcases hacts with h | h
    · rw [h]
    · rw [h, run2_map_failClose]
  rw [hrun]
  refine ⟨h1, fun f hf' => (h3 f hf').1, ?_⟩
  intro hu
  by_cases hex : ∃ f, (createWithMode code tmpdir filename mode rands ofaults fs).1 = .ok f
  · obtain ⟨f, hf'⟩ := hex
    exact (h3 f hf').2 hu
  · exact h2 (fun f hf' => hex ⟨f, hf'⟩)

/-! ## contrast: the code WITHOUT one of its mechanisms violates the statement

Each definition below is the model of a seeded regression of the package (none is run against the unchanged code); for
each of them the corresponding clause of the property is shown to FAIL — so the clause is carried by the mechanism, not
by the shape of the model. -/

/-- WITHOUT the temporary file (write into the destination itself): right after the first system call a non-empty
    destination is an EMPTY file — neither its old content nor the new one.  Contrast of `dest_old_or_new_at_every_prefix`. -/
theorem contrast_in_place_exposes_an_empty_file (u : Nat) (fs : FS) (dst : Path) (N mode : Nat) (pieces : List Bytes)
    (d : FileData) (hold : fs dst = some d) (hd : d.content ≠ []) (hnew : pieces.flatten ≠ []) :
    runT u fs ((writeInPlace dst N mode pieces).take 1) dst = some ⟨[], d.mode⟩ ∧
    runT u fs ((writeInPlace dst N mode pieces).take 1) dst ≠ fs dst ∧
    runT u fs ((writeInPlace dst N mode pieces).take 1) dst ≠ some (newFile mode u pieces) := by
  have h : runT u fs ((writeInPlace dst N mode pieces).take 1) dst = some ⟨[], d.mode⟩ := by
    simp [writeInPlace, runT, applyActT, hold, FS.set]
  refine ⟨h, ?_, ?_⟩
  · rw [h, hold]
    intro e
    injection e with e
    exact hd (by rw [← e])
  · rw [h]
    intro e
    injection e with e
    have : ([] : Bytes) = pieces.flatten := by
      have := congrArg FileData.content e
      simpa [newFile] using this
    exact hnew this.symm

/-- WITH the "remove the destination and retry the rename" fallback (seeded regression ind6-c14-a): a `Commit` whose
    rename fails twice returns the error AND has destroyed the previous content; and even when the retry succeeds there
    is a kill point at which the destination is absent.  Contrast of `failure_leaves_dst` and of
    `dest_old_or_new_at_every_prefix`. -/
theorem contrast_retry_destroys_the_destination (u : Nat) (fs : FS) (f : File) (hne : f.tmp ≠ f.dst) (d : FileData)
    (hold : fs f.dst = some d) :
    (f.commitRetry true true).1 = .errno ∧ run u fs (f.commitRetry true true).2 f.dst = none ∧
    (f.commitRetry true false).1 = .ok ∧ run u fs ((f.commitRetry true false).2.take 3) f.dst = none ∧
    run u fs ((f.commitRetry true false).2.take 3) f.dst ≠ fs f.dst := by
  have hd : f.dst ≠ f.tmp := fun e => hne e.symm
  have h3 : run u fs ((f.commitRetry true false).2.take 3) f.dst = none := by
    simp [File.commitRetry, run, applyAct, FS.set]
  refine ⟨rfl, ?_, rfl, h3, ?_⟩
  · simp [File.commitRetry, run, applyAct, FS.set, hd]
  · rw [h3, hold]; simp

/-- WITHOUT the deferred `Remove` in `Commit`: after a failed `Commit` the temporary file is still there.  Contrast of
    `failure_removes_tmp`. -/
theorem contrast_no_cleanup_leaves_the_temp (u : Nat) (fs : FS) (f : File) (t : FileData) (htmp : fs f.tmp = some t)
    (a b : Bool) (hfail : a = true ∨ b = true) :
    (f.commitNoCleanup a b).1 = .errno ∧ run u fs (f.commitNoCleanup a b).2 f.tmp = some t := by
  cases a <;> cases b <;> simp at hfail <;> simp [File.commitNoCleanup, run, applyAct, htmp]

/-- WITHOUT `w.Flush()` before `Commit`: the call returns nil, yet the destination holds only the chunks that left the
    buffer during the callback — whenever anything is still buffered, a STRICT PREFIX of the bytes written.  Contrast of
    `commit_result`. -/
theorem contrast_no_flush_commits_a_prefix (u : Nat) (fs : FS) (tmp dst : Path) (hne : tmp ≠ dst) (N mode : Nat)
    (pieces : List Bytes) (hbuf : (feed N [] pieces).2 ≠ []) :
    (writeFileNoFlush tmp dst N mode pieces).1 = .ok ∧
    run u fs (writeFileNoFlush tmp dst N mode pieces).2 dst = some ⟨(feed N [] pieces).1.flatten, lessUmask mode u⟩ ∧
    (feed N [] pieces).1.flatten ≠ pieces.flatten ∧
    (feed N [] pieces).1.flatten <+: pieces.flatten := by
  have hc := feed_concat N [] pieces
  rw [List.nil_append] at hc
  refine ⟨rfl, (shape_commit u fs tmp dst hne mode (feed N [] pieces).1).1, ?_, ⟨(feed N [] pieces).2, hc⟩⟩
  intro e
  rw [e] at hc
  exact hbuf (List.append_right_eq_self.mp hc)

/-- WITH an `fchmod(perm)` after the open (seeded regression ind6-c14-b): the new file carries the requested mode
    verbatim, which differs from "the requested mode less the umask" as soon as the two have a bit in common.  Contrast
    of the mode clause of `commit_result`. -/
theorem contrast_chmod_ignores_the_umask (u mode : Nat) (fs : FS) (p : Path) (hbits : mode &&& u ≠ 0) :
    applyCreateChmod fs p mode p = some ⟨[], mode⟩ ∧
    applyCreateChmod fs p mode p ≠ applyAct u fs (.createExcl p mode) p := by
  have h1 : applyCreateChmod fs p mode p = some ⟨[], mode⟩ := by simp [applyCreateChmod, FS.set]
  refine ⟨h1, ?_⟩
  rw [h1]
  simp only [applyAct, FS.set, if_true]
  intro e
  injection e with e
  have hm : mode = lessUmask mode u := congrArg FileData.mode e
  unfold lessUmask at hm
  have h2 := congrArg (mode ^^^ ·) hm.symm
  simp [← Nat.xor_assoc] at h2
  exact hbits h2

/-- WITHOUT `O_EXCL`: an existing entry whose name is the first candidate is truncated.  Contrast of
    `create_touches_no_existing_entry`. -/
theorem contrast_no_excl_truncates_an_existing_entry (u mode : Nat) (fs : FS) (name : Path) (d : FileData)
    (hold : fs name = some d) (hd : d.content ≠ []) :
    runT u fs (createNoExcl mode name) name = some ⟨[], d.mode⟩ ∧ runT u fs (createNoExcl mode name) name ≠ fs name := by
  have h : runT u fs (createNoExcl mode name) name = some ⟨[], d.mode⟩ := by
    simp [createNoExcl, runT, applyActT, hold, FS.set]
  refine ⟨h, ?_⟩
  rw [h, hold]
  intro e
  injection e with e
  exact hd (by rw [← e])

/-! non-vacuity -/

/-- a history with every kind of fault: a failed write, a Commit whose rename and unlink fail, then Close and Commit again -/
example : ((File.create 1 0 0o644).1.stepsU
      [.write [1, 2] false, .write [3] true, .commit false true true, .close false false, .commit false false false]).2.1 =
    [.ok, .errno, .errno, .ok, .ok] := by decide

/-- … and the specification says the same -/
example : ((⟨.writing true, [], none⟩ : Abs).steps 0o644
      [.write [1, 2] false, .write [3] true, .commit false true true, .close false false, .commit false false false]).2 =
    [.ok, .errno, .errno, .ok, .ok] := by decide

/-- a history that commits: the bytes accepted before the Commit -/
example : committedU true [.write [1, 2] false, .write [3] true, .write [4] false, .commit false false true, .close true true] =
    some [1, 2, 4] := by decide

/-- the hypotheses of the contrast theorems are satisfiable -/
example : (feed 4 [] [[1, 2, 3], [4, 5, 6]]).2 ≠ [] := by decide
example : (0o666 : Nat) &&& 0o22 ≠ 0 := by decide

/-- two faults in one run: the callback fails AND the close of the deferred Close fails AND the unlink fails — the
    callback's error comes back, the temporary file (1 byte short of a buffer: nothing written) remains, nothing is renamed -/
example : writeFileMulti codeStr "/tmp".toList "/d/x".toList 4 0o644 [[1, 2, 3]] .propagate (.callback 1) (fun i => i)
      (fun _ => none) true true (fun _ => none) =
    (.res .cb, [.base (.createExcl (codeStr "/d/safe0".toList) 0o644), .base (.closeFail (codeStr "/d/safe0".toList)),
      .unlinkFail (codeStr "/d/safe0".toList)]) := by decide

end C14
