import Generated.Lock_tracelog
import Lemmas.LockSound

/-! # C13 — the two delivery protocols of `log/tracelog`, checked against the source of the working tree

`Props/C13.lean` proves "no torn lines" for two protocols: synchronous (the caller writes to the sink under the handler's
mutex) and buffered (the caller does one non-blocking send, a single background goroutine writes).  That the Go code IS
these protocols is decided here about `LockFacts.tracelogEvents`, regenerated from the typed SSA form of `log/tracelog`
on every run. -/
namespace C13Lock
open LockFacts

/-- a caller's goroutine writes to the sink only where no delivery channel exists, and then with the mutex held on
    every path: two synchronous `Handle` calls never interleave their bytes -/
theorem sync_writes_under_the_mutex : sinkWritesSerialized tracelogEvents = true := by decide

/-- where a delivery channel exists the caller's goroutine does nothing but a NON-BLOCKING send, holding no lock: a slow
    or blocked sink can never block `Handle` -/
theorem buffered_path_is_one_nonblocking_send : bufferedPathLockFree tracelogEvents = true := by decide

/-- every other write to the sink comes from a goroutine the package itself started -/
theorem background_writes_come_from_spawned_goroutines : backgroundWritesSpawned tracelogEvents = true := by decide

/-- exactly one `go` statement in the package: one delivery goroutine per handler, so buffered records reach the sink
    one after the other, in channel order -/
theorem one_delivery_goroutine : spawnCount tracelogEvents = 1 := by decide

/-- the mutex is never acquired on a path that already holds it -/
theorem no_reacquisition : noReacquire tracelogEvents = true := by decide

/-- the handler has no field that is written after construction (derived handlers are copies): nothing else to guard -/
theorem no_mutable_shared_state : tracelog.length = 0 := by decide

/-- non-vacuity: the table contains the synchronous sink write, the non-blocking send and the background sink write -/
theorem table_not_vacuous :
    (tracelogEvents.any (fun e => e.what == .sinkWrite && e.ctx == .api)) = true ∧
    (tracelogEvents.any (fun e => e.what == .sendNB)) = true ∧
    (tracelogEvents.any (fun e => e.what == .sinkWrite && e.ctx == .spawned)) = true ∧
    (tracelogEvents.any (fun e => e.what == .recv && e.ctx == .spawned)) = true := by decide

end C13Lock
