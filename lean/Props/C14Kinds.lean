import Lemmas.SafeFileKinds
import Props.C14
/-! # C14, fifth part — all-or-nothing for EVERY KIND of destination: regular file, absent, directory, symbolic link, dangling link

`Model/SafeFileKinds.lean`: a file system whose nodes are regular files, directories and symbolic links, with the KERNEL's
rules inside the model (`applyActK`: `rename` replaces the NAME — a link itself, never its target —, refuses a directory;
`O_EXCL` refuses every existing name; `unlink` refuses a directory) and the File API running against it (`File.stepsK`:
whether `Commit`'s rename fails is decided by the state, `kernelize`).  Until this step the driver supplied these rules as
flag bits and an injected rename fault; the stream `hist` now compares the code with THIS model on all five kinds.
The only hypotheses: the temporary name differs from the destination and was free (`O_EXCL` succeeded on it). -/
namespace C14
open Safe

/-- **every history, every fault assignment, every kind of destination, refines the abstract specification**:
    (1) every call returns what `AbsK` says — in particular a `Commit` onto a DIRECTORY returns an error;
    (2) at the end the destination NODE is what `AbsK` says: the old node (directory, link, file, absent) unless the
        history commits, then a regular file with exactly the accepted bytes and the requested mode less the umask —
        a symbolic link is REPLACED, not written through;
    (3) no other path changes — in particular the TARGET of a link destination;
    (4) while the handle is open the temporary file holds exactly the accepted bytes;
    (5) after `Commit`/`Close` the temporary file is gone unless an unlink was made to fail. -/
theorem kinds_history_refines_spec (u mode : Nat) (fs : KFS) (tmp dst : Path) (hne : tmp ≠ dst) (ops : List OpU) :
    (File.stepsK u (fs.set tmp (some (.file ⟨[], lessUmask mode u⟩))) { tmp := tmp, dst := dst } ops).2.1 =
      ((⟨.writing true, [], fs dst⟩ : AbsK).steps (lessUmask mode u) ops).2 ∧
    runK u (fs.set tmp (some (.file ⟨[], lessUmask mode u⟩)))
        (File.stepsK u (fs.set tmp (some (.file ⟨[], lessUmask mode u⟩))) { tmp := tmp, dst := dst } ops).2.2 dst =
      ((⟨.writing true, [], fs dst⟩ : AbsK).steps (lessUmask mode u) ops).1.dest ∧
    (∀ q, q ≠ tmp → q ≠ dst →
      runK u (fs.set tmp (some (.file ⟨[], lessUmask mode u⟩)))
        (File.stepsK u (fs.set tmp (some (.file ⟨[], lessUmask mode u⟩))) { tmp := tmp, dst := dst } ops).2.2 q = fs q) ∧
    (∀ b, ((⟨.writing true, [], fs dst⟩ : AbsK).steps (lessUmask mode u) ops).1.phase = .writing b →
      runK u (fs.set tmp (some (.file ⟨[], lessUmask mode u⟩)))
        (File.stepsK u (fs.set tmp (some (.file ⟨[], lessUmask mode u⟩))) { tmp := tmp, dst := dst } ops).2.2 tmp =
        some (.file ⟨((⟨.writing true, [], fs dst⟩ : AbsK).steps (lessUmask mode u) ops).1.pending, lessUmask mode u⟩)) ∧
    (allClean ops = true →
      (∀ b, ((⟨.writing true, [], fs dst⟩ : AbsK).steps (lessUmask mode u) ops).1.phase ≠ .writing b) →
      runK u (fs.set tmp (some (.file ⟨[], lessUmask mode u⟩)))
        (File.stepsK u (fs.set tmp (some (.file ⟨[], lessUmask mode u⟩))) { tmp := tmp, dst := dst } ops).2.2 tmp = none) := by
  obtain ⟨R, hres⟩ := stepsK_sim u (lessUmask mode u) tmp dst hne fs ops true _ _ _ (rel_initK u mode tmp dst hne fs)
  refine ⟨hres, R.dest, R.others, ?_, ?_⟩
  · intro b hb
    apply R.tmpc
    have hp := R.phase
    rw [hb] at hp
    exact phase_writing_not_closed _ b hp.symm
  · intro hclean hdone
    apply R.gone (by simp [hclean])
    apply phase_done_closed _ R.inv1
    intro b hb
    exact hdone b (by rw [R.phase, hb])

/-- **every kill point, every kind of destination**: after any prefix of the system calls of `CreateWithMode` (the
    temporary name was free) and of the whole history, the destination NODE is the old one, or the history commits `p`
    and the destination is a regular file holding exactly `p` with the requested mode less the umask; a history onto a
    directory commits nothing (`committedK`) -/
theorem kinds_history_every_kill_point (u mode : Nat) (fs : KFS) (tmp dst : Path) (hne : tmp ≠ dst) (hfree : fs tmp = none)
    (ops : List OpU) (k : Nat) :
    runK u fs ((Act2.base (.createExcl tmp mode) ::
      (File.stepsK u (fs.set tmp (some (.file ⟨[], lessUmask mode u⟩))) { tmp := tmp, dst := dst } ops).2.2).take k) dst = fs dst ∨
    ∃ p, committedK (decide (fs dst = some .dir)) true ops = some p ∧
      runK u fs ((Act2.base (.createExcl tmp mode) ::
        (File.stepsK u (fs.set tmp (some (.file ⟨[], lessUmask mode u⟩))) { tmp := tmp, dst := dst } ops).2.2).take k) dst =
        some (.file ⟨p, lessUmask mode u⟩) := by
  have hd : dst ≠ tmp := fun e => hne e.symm
  match k with
  | 0 => left; simp [runK]
  | k + 1 =>
    have h1 : applyActK u fs (.base (.createExcl tmp mode)) = fs.set tmp (some (.file ⟨[], lessUmask mode u⟩)) := by
      simp [applyActK, hfree]
    simp only [List.take_succ_cons, runK, h1]
    have hdst : (fs.set tmp (some (Node.file ⟨[], lessUmask mode u⟩))) dst = fs dst := by simp [KFS.set, hd]
    rcases stepsK_prefix u (lessUmask mode u) tmp dst hne fs ops true _ _ _ k (rel_initK u mode tmp dst hne fs) with h | h
    · left; rw [h, hdst]
    · rw [AbsK.steps_dest] at h
      cases hc : committedK (decide (fs dst = some Node.dir)) true ops with
      | none => left; rw [h, hc]
      | some p => right; exact ⟨p, rfl, by rw [h, hc]; simp⟩

/-- **a directory is never replaced, damaged or removed**: with a directory as destination, after every prefix of the
    system calls of any history the destination still IS that directory — `Commit` fails (previous theorem, part 1),
    the cleanup removes only the temporary file -/
theorem directory_destination_stays (u mode : Nat) (fs : KFS) (tmp dst : Path) (hne : tmp ≠ dst) (hfree : fs tmp = none)
    (hdir : fs dst = some .dir) (ops : List OpU) (k : Nat) :
    runK u fs ((Act2.base (.createExcl tmp mode) ::
      (File.stepsK u (fs.set tmp (some (.file ⟨[], lessUmask mode u⟩))) { tmp := tmp, dst := dst } ops).2.2).take k) dst =
      some .dir := by
  rcases kinds_history_every_kill_point u mode fs tmp dst hne hfree ops k with h | ⟨p, hp, _⟩
  · rw [h, hdir]
  · simp [committedK, hdir] at hp

/-- **a symbolic link as destination: the link's target is never touched, the link itself is what gets replaced** — at
    every kill point; and what a READER of the destination path finds (following the link) is the complete old content of
    the target (or nothing, for a dangling link) or the complete new content -/
theorem link_destination_target_untouched (u mode : Nat) (fs : KFS) (tmp dst t : Path) (hne : tmp ≠ dst)
    (hfree : fs tmp = none) (hlink : fs dst = some (.link t)) (ht : t ≠ tmp) (htd : t ≠ dst) (ops : List OpU) (k : Nat) :
    runK u fs ((Act2.base (.createExcl tmp mode) ::
      (File.stepsK u (fs.set tmp (some (.file ⟨[], lessUmask mode u⟩))) { tmp := tmp, dst := dst } ops).2.2).take k) t = fs t ∧
    ((runK u fs ((Act2.base (.createExcl tmp mode) ::
        (File.stepsK u (fs.set tmp (some (.file ⟨[], lessUmask mode u⟩))) { tmp := tmp, dst := dst } ops).2.2).take k)).read dst =
        fs.read dst ∨
     ∃ p, committedK false true ops = some p ∧
      (runK u fs ((Act2.base (.createExcl tmp mode) ::
        (File.stepsK u (fs.set tmp (some (.file ⟨[], lessUmask mode u⟩))) { tmp := tmp, dst := dst } ops).2.2).take k)).read dst =
        some (.file ⟨p, lessUmask mode u⟩)) := by
  have htgt : runK u fs ((Act2.base (.createExcl tmp mode) ::
      (File.stepsK u (fs.set tmp (some (.file ⟨[], lessUmask mode u⟩))) { tmp := tmp, dst := dst } ops).2.2).take k) t = fs t := by
    apply runK_untouched
    intro a ha
    have ha := List.mem_of_mem_take ha
    rcases List.mem_cons.mp ha with rfl | ha
    · simp [targets2, targets, ht]
    · exact localTo2_not_other tmp dst t ht htd a (stepsK_local u tmp dst ops _ _ rfl rfl a ha)
  refine ⟨htgt, ?_⟩
  rcases kinds_history_every_kill_point u mode fs tmp dst hne hfree ops k with h | ⟨p, hp, h⟩
  · left
    simp only [KFS.read, h, hlink, htgt]
  · right
    refine ⟨p, ?_, ?_⟩
    · simpa [hlink] using hp
    · simp only [KFS.read, h]

/-- **what strace shows has no further kill points**: Go's `os.Rename` refuses a directory destination itself (`Lstat`
    first, EEXIST) without issuing rename(2); the visible sequence `osRenameView` is the logical one minus those calls, and
    after every prefix of it the directory is in a state the logical sequence also passes through — so all kill-point
    theorems above hold for the sequence the stream `hist` compares with the real trace -/
theorem visible_sequence_kill_points (u : Nat) (fs : KFS) (l : List Act2) (k : Nat) :
    (∃ k', runK u fs ((osRenameView u fs l).take k) = runK u fs (l.take k')) ∧
    runK u fs (osRenameView u fs l) = runK u fs l :=
  ⟨osRenameView_prefix u l fs k, osRenameView_run u l fs⟩

/-- … and it really elides: a Commit onto a directory shows close and unlink only -/
example : osRenameView 0o22 (fun p => if p = 0 then some .dir else if p = 1 then some (.file ⟨[], 0o644⟩) else none)
      (File.stepsK 0o22 (fun p => if p = 0 then some .dir else if p = 1 then some (.file ⟨[], 0o644⟩) else none)
        { tmp := 1, dst := 0 } [.commit false false false]).2.2 =
    [.base (.close 1), .base (.unlink 1)] := by decide

/-- **an occupied temporary name is refused** (`O_EXCL`): on the file system with node kinds the exclusive create of a name
    that exists — as a file, a directory, or a (dangling) link — changes nothing, and `CreateWithMode` returns no handle.
    (The flat model of `Props/C14.lean` takes the temporary name as "the first name `O_EXCL` accepted"; its complete form
    `createWithMode` issues `createExcl` on free names only — `create_touches_no_existing_entry`.) -/
theorem occupied_temp_name_is_refused (u : Nat) (fs : KFS) (tmp dst par : Path) (mode : Nat) (h : (fs tmp).isSome = true) :
    applyActK u fs (.base (.createExcl tmp mode)) = fs ∧ (createK tmp dst par mode fs).1 = none ∧
    runK u fs (createK tmp dst par mode fs).2 = fs := by
  refine ⟨by simp [applyActK, h], ?_, ?_⟩
  · unfold createK; split <;> simp [h]
  · unfold createK; split <;> simp [h, runK, applyActK]

/-- **the destination's directory is missing (or is not a directory)**: `CreateWithMode` fails on its first system call,
    no handle comes back, nothing is created or changed; and when `CreateWithMode` does return a handle, the temporary name
    was free and the directory now holds it as an empty file — the starting point of the theorems above -/
theorem missing_parent_nothing_happens (u : Nat) (tmp dst par : Path) (mode : Nat) (fs : KFS) :
    (fs par ≠ some .dir →
      (createK tmp dst par mode fs).1 = none ∧ runK u fs (createK tmp dst par mode fs).2 = fs) ∧
    (∀ f, (createK tmp dst par mode fs).1 = some f →
      fs tmp = none ∧ f = { tmp := tmp, dst := dst } ∧
      runK u fs (createK tmp dst par mode fs).2 = fs.set tmp (some (.file ⟨[], lessUmask mode u⟩))) := by
  refine ⟨fun h => by simp [createK, h, runK, applyActK], ?_⟩
  intro f hf
  unfold createK at hf ⊢
  by_cases hp : fs par ≠ some Node.dir
  · simp [hp] at hf
  · cases ht : fs tmp with
    | some n => simp [hp, ht] at hf
    | none =>
      simp [hp, ht] at hf ⊢
      exact ⟨hf.symm, by simp [runK, applyActK, ht]⟩

example : (createK 1 0 9 0o644 (fun p => if p = 9 then some .dir else none)).1 = some { tmp := 1, dst := 0 } := by decide
example : (createK 1 0 9 0o644 (fun _ => none)).1 = none := by decide

/-- **the mode of the new file is `perm &^ umask`, bit by bit**: `lessUmask` (what `commit_result`,
    `history_refines_spec` and the theorems above put on the committed file) has bit `i` iff the requested mode has it
    and the umask does not — for every requested mode and every umask (contrast: `contrast_chmod_ignores_the_umask`) -/
theorem committed_mode_is_perm_and_not_umask (mode u i : Nat) :
    (lessUmask mode u).testBit i = (mode.testBit i && !u.testBit i) := by
  unfold lessUmask
  simp [Nat.testBit_xor, Nat.testBit_and]
  cases mode.testBit i <;> cases u.testBit i <;> rfl

/-- the sweep the `api` corpus runs against the code, decided in the model: perms × umasks -/
example : [0o600, 0o644, 0o664, 0o666, 0o777].map (fun p => [0o000, 0o022, 0o027, 0o077].map (lessUmask p)) =
    [[0o600, 0o600, 0o600, 0o600], [0o644, 0o644, 0o640, 0o600], [0o664, 0o644, 0o640, 0o600],
     [0o666, 0o644, 0o640, 0o600], [0o777, 0o755, 0o750, 0o700]] := by decide

/-! ## the one excluded case, modelled: the temporary name IS the (absent) destination

`full_dest_old_or_new` and its companions assume `hclash`: the destination exists, or no candidate name `safe<digits>` is
the destination's own name.  When that fails — an ABSENT destination literally called `safe123` and a random draw of 123 —
`O_EXCL` accepts the name and the code writes into the destination itself.  What happens then, exactly (the stream
`collide`, lines `selfcollide`, runs it against the real code with `crypto/rand.Reader` pinned): -/

/-- **self-collision**: (1) right after `CreateWithMode` the destination exists as an EMPTY file although nothing has
    been committed — the all-or-nothing guarantee is gone for the duration of the call; (2) but the END is right: a
    failing call leaves the destination absent again (its old state), (3) a successful one leaves exactly the bytes written
    with the requested mode less the umask (`rename x x` is a no-op) -/
theorem self_collision_window_but_right_end (u : Nat) (fs : FS) (t : Path) (N mode : Nat) (pieces : List Bytes)
    (cb : CbMode) (fault : Fault) (hfree : fs t = none) :
    run u fs ((writeFile t t N mode pieces cb fault).2.take 1) t = some ⟨[], lessUmask mode u⟩ ∧
    ((writeFile t t N mode pieces cb fault).1 ≠ .ok → run u fs (writeFile t t N mode pieces cb fault).2 t = fs t) ∧
    ((writeFile t t N mode pieces cb fault).1 = .ok →
      run u fs (writeFile t t N mode pieces cb fault).2 t = some (newFile mode u pieces)) := by
  refine ⟨?_, ?_, ?_⟩
  · rw [writeFile_closed]
    obtain ⟨ws, tl, hacts, _, _, _, _⟩ := writeFile_shape t t N mode pieces fault
    rw [hacts]
    simp [run, applyAct, set_same]
  · intro hf
    rw [failure_removes_tmp u fs t t N mode pieces cb fault hf, hfree]
  · intro hok
    rw [writeFile_closed] at hok ⊢
    obtain ⟨ws, tl, hacts, _, _, hiff, hcommit⟩ := writeFile_shape t t N mode pieces fault
    have htl := hiff.mp hok
    rw [hacts, htl, hcommit htl]
    have hsplit : [Act.createExcl t mode] ++ (chunks N pieces).map (Act.write t) ++ [Act.close t, Act.rename t t] =
        ([Act.createExcl t mode] ++ (chunks N pieces).map (Act.write t) ++ [Act.close t]) ++ [Act.rename t t] := by simp
    rw [hsplit, run_rename u fs _ t t _ (before_rename_tmp u fs t mode (chunks N pieces)), set_same, chunks_flatten]
    rfl

/-- the window is a real violation of the statement whenever something is written: the empty file is neither the old state
    (absent) nor the new content -/
example : run 0o22 (fun _ => none) ((writeFile 7 7 4 0o644 [[1, 2, 3]] .propagate .none).2.take 1) 7 ≠ none ∧
    run 0o22 (fun _ => none) ((writeFile 7 7 4 0o644 [[1, 2, 3]] .propagate .none).2.take 1) 7 ≠
      some (newFile 0o644 0o22 [[1, 2, 3]]) := by decide

/-! CONTRAST and non-vacuity -/

/-- CONTRAST — a kernel-unaware model (or a `Commit` that first removes whatever is in the way, seeded regression
    ind7-c14-b): removing the destination before the rename loses a link destination's node at a kill point — here the
    state after `unlink dst` is neither the old link nor the new file -/
example : runK 0 (fun p => if p = 0 then some (.link 5) else if p = 1 then some (.file ⟨[7], 0o644⟩) else none)
    [.base (.unlink 0)] 0 = none := by decide

/-- a Commit onto a directory: the result list says errno, the directory stays, the temporary file is removed -/
example : (File.stepsK 0o22 (fun p => if p = 0 then some .dir else if p = 1 then some (.file ⟨[], 0o644⟩) else none)
      { tmp := 1, dst := 0 } [.write [1, 2] false, .commit false false false, .close false false]).2.1 =
    [.ok, .errno, .ok] := by decide

/-- a Commit onto a link: the link is replaced by the regular file -/
example : runK 0o22 (fun p => if p = 0 then some (.link 5) else if p = 1 then some (.file ⟨[], 0o644⟩) else none)
      (File.stepsK 0o22 (fun p => if p = 0 then some (.link 5) else if p = 1 then some (.file ⟨[], 0o644⟩) else none)
        { tmp := 1, dst := 0 } [.write [1, 2] false, .commit false false false]).2.2 0 = some (.file ⟨[1, 2], 0o644⟩) := by decide

end C14
