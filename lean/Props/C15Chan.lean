import Lemmas.TaskQueueChan
import Generated.C15Facts
/-! # C15 — the channel protocol of the Go source is the channel protocol of the model

`Generated/C15Facts.lean` is written on every run by `go/cmd/c15facts` from the Go source of the working tree (package
`taskqueue` type-checked with go/types; `errs.Recovery` parsed): the channels by allocation site with their capacities,
every channel operation as (goroutine role, kind, channel), the `go` statements with their multiplicities, where values
of type `Task` are called and under which deferred recovery, and the recover frames of `errs.Recovery`.  Channels are
named by what the exported API does with them and goroutines by who starts them, so private names, element types and
the division of the dispatcher into functions do not matter.

The theorems below say that these tables are the ones the model is built on, and — `rules_do_what_they_declare`,
`only_declared_operations_fire` — that the model's rules perform exactly the declared operations with Go's blocking
conditions.  The confrontation theorems are decided by the kernel about the REGENERATED tables: when a change of the Go
code moves a channel operation to another goroutine, changes a kind (blocking ↔ non-blocking), a capacity, the number of
goroutines or a recover frame, the corresponding theorem no longer checks and the check reports it. -/
namespace C15Chan
open TQ TQW TQChan

/-- a `close(done)` by the dispatcher is the same signal as its send: `done` is unbuffered, carries one signal and is
    received exactly once, by `Shutdown` (seeded/control-ind5-c15 makes that change) -/
def norm : Role × Kind × Chan → Role × Kind × Chan
  | (.dispatcher, .close, .done) => (.dispatcher, .send, .done)
  | x => x

/-- **the rules of the model do what they declare** (`TQChan.tlabel_effect`): every firing of a rule of the executable
    threaded model changes the channel part of the state exactly as the operations declared for it in `tlabelOps` say — a
    send appends one element and is enabled only below the capacity `capOf`, a receive takes the head and is enabled
    only on a non-empty buffer (on `in` also when closed and drained), a close sets the flag, `done` moves only as the
    rendezvous of the dispatcher's send with `Shutdown`'s receive — and nothing else changes; rules without a declared
    operation (the end of a task, the recovery and handler steps, the dispatcher's bookkeeping) touch no channel -/
theorem rules_do_what_they_declare (v : Variant) (c : Cfg) (hv : Sound v) (s s' : TS) (l : TLabel) (hr : TReachable v c s)
    (h : tnext v c s l = some s') : effect c (tlabelOps l) (view s.q) (view s'.q) :=
  tlabel_effect v c hv s s' l hr h

/-- **and `modelOps` is all of them**: in the domain no rule fires that performs an operation outside `modelOps` -/
theorem only_declared_operations_fire (v : Variant) (c : Cfg) (hv : InDomain v) (s s' : TS) (l : TLabel)
    (hr : TReachable v c s) (h : tnext v c s l = some s') : ∀ o ∈ tlabelOps l, o ∈ modelOps :=
  fired_ops_in_modelOps v c hv s s' l hr h

/-- **the channel operations of the Go source are the channel operations of the model**, as sets of
    (goroutine role, kind, channel): `Submit` only sends on `in`; `Shutdown` closes `in` and receives from `done`; the
    dispatcher goroutine receives from `in` and `ready` in a two-way select, receives from `ready` alone, sends on `tasks`
    blocking, non-blocking (select with default) and in a select against `ready`, closes `tasks`, signals `done`; a worker
    goroutine ranges over `tasks` and sends on `ready`; `New` performs no channel operation; there is no other channel,
    no other goroutine kind and no unresolved operand -/
theorem source_ops_are_model_ops :
    (∀ o ∈ C15Facts.ops.map norm, o ∈ modelOps) ∧ (∀ o ∈ modelOps, o ∈ C15Facts.ops.map norm) ∧ C15Facts.problems = 0 := by
  decide

/-- the capacity of `in` found in the source -/
def inCapForm : Cap := (C15Facts.chans.lookup .in_).getD { ncpu := 0, workers := 0, const := 0, known := false }

/-- **the capacities the guards of the model use are the capacities of the allocation sites**: each of the four
    channels is made at exactly one site; `tasks` and `ready` with capacity `q.workers`, `done` unbuffered, `in` with a
    capacity `a·NumCPU + b` that is positive on every machine — the model's `inCap`, for which every theorem is proved
    whatever its value (seeded/control-c15-1 changes it) -/
theorem source_capacities :
    C15Facts.chans.map Prod.fst = [.done, .in_, .ready, .tasks] ∧
    (∀ p ∈ C15Facts.chans, p.2.known = true) ∧
    (∀ (c : Cfg) (n : Nat), 1 ≤ n → c.inCap = inCapForm.value n c.workers →
      1 ≤ c.inCap ∧ ∀ p ∈ C15Facts.chans, capOf c p.1 = p.2.value n c.workers) := by
  refine ⟨by decide, by decide, ?_⟩
  intro c n hn hc
  have hin : inCapForm.workers = 0 ∧ 1 ≤ inCapForm.ncpu + inCapForm.const := by decide
  have h1 : 1 ≤ c.inCap := by
    rw [hc]; unfold Cap.value
    rcases hin with ⟨_, h2⟩
    rcases Nat.eq_zero_or_pos inCapForm.ncpu with h0 | h0
    · rw [h0] at h2 ⊢; omega
    · have := Nat.mul_le_mul h0 hn; omega
  refine ⟨h1, ?_⟩
  have hall : ∀ p ∈ C15Facts.chans, p.1 = Chan.in_ ∧ p.2 = inCapForm ∨
      (p.1 = Chan.tasks ∨ p.1 = Chan.ready) ∧ p.2 = { ncpu := 0, workers := 1, const := 0, known := true } ∨
      p.1 = Chan.done ∧ p.2 = { ncpu := 0, workers := 0, const := 0, known := true } := by decide
  intro p hm
  obtain ⟨ch, cap⟩ := p
  rcases hall (ch, cap) hm with ⟨h2, h3⟩ | ⟨h2 | h2, h3⟩ | ⟨h2, h3⟩ <;> simp only at h2 h3 <;> subst h2 <;> subst h3
  · simp [capOf, hc]
  · simp [capOf, Cap.value]
  · simp [capOf, Cap.value]
  · simp [capOf, Cap.value]

/-- **the goroutines of the Go source are the threads of the model**: `New` starts exactly one goroutine (the
    dispatcher: one program counter `q.pc`), unconditionally; the dispatcher starts one worker goroutine per iteration of a
    loop that runs `q.workers` times (`init c` has `c.workers` idle threads); nothing else is started anywhere — neither
    by `Submit`/`Shutdown` (seeded/ind6-c15-a) nor by a worker.  Which role starts which is always decided; about the
    multiplicity of a `go` statement in a loop whose bound the extractor cannot classify nothing is claimed (the
    forced schedules count the workers: seeded/own-c15-8) -/
theorem source_goroutines (c : Cfg) :
    C15Facts.gos.map (fun g => (g.1, g.2.1)) = [(.dispatcher, .worker), (.new_, .dispatcher)] ∧
    (∀ g ∈ C15Facts.gos, g.2.2 = .unclassified ∨ g ∈ [(Role.dispatcher, Role.worker, Mult.perWorker), (.new_, .dispatcher, .once)]) ∧
    (init c).ws = List.replicate c.workers W.idle ∧ (init c).q.pc = .sel := by
  refine ⟨by decide, by decide, rfl, rfl⟩

/-- **the straight-line roles**: `Submit` is one send on `in` (rule `submit`); `Shutdown` is `close(in)` followed by the
    receive from `done` (rules `shutdown`, then `signalDone`: `shut` goes 0 → 1 → 2); the loop of a worker is: receive
    a task from `tasks`, call it under a deferred `errs.Recovery(<handler>)`, send on `ready` — the cycle
    idle → running → (recovery) → reporting → idle of a thread of the model -/
theorem source_sequences :
    C15Facts.submitSeq = [.op .send .in_] ∧ C15Facts.shutdownSeq = [.op .close .in_, .op .recv .done] ∧
    C15Facts.workerSeq = [.op .rangeRecv .tasks, .taskCall true, .op .send .ready] := by
  decide

/-- the program variant that the source exhibits: the recover is in place iff every task call of a worker is under a
    deferred `errs.Recovery` of the handler field and `errs.Recovery` calls `recover()` in its own frame; the dispatcher
    runs tasks iff a `Task` value is called on the dispatcher goroutine -/
def variantOfSource : Variant :=
  { recovers := decide (0 < C15Facts.taskCalls_worker ∧ C15Facts.taskCallsUnderRecovery_worker = C15Facts.taskCalls_worker ∧
                         C15Facts.recoveryFound = true ∧ 0 < C15Facts.recoverDirect),
    dispatcherRuns := decide (0 < C15Facts.taskCalls_dispatcher) }

/-- **the program the theorems of `Props/C15.lean` are about (`TQW.code`) is the program of the Go source**: tasks are
    called by worker goroutines only — never by the dispatcher (seeded/ind4-c15-a), `New`, `Submit` or `Shutdown` — and
    under the recover frame; so the source lies in the domain of every theorem (`contrast_no_recover_worker_dies`,
    `contrast_dispatcher_runs_exceeds_workers` show what happens outside) -/
theorem source_variant_is_code :
    variantOfSource = code ∧ InDomain variantOfSource ∧
    C15Facts.taskCalls_new + C15Facts.taskCalls_submit + C15Facts.taskCalls_shutdown + C15Facts.taskCalls_extra = 0 := by
  have h : variantOfSource = code := by
    unfold variantOfSource code
    congr 1
  exact ⟨h, h ▸ code_inDomain, by decide⟩

/-- **the recover frames of `errs.Recovery`**: `recover()` is called once, in the frame of the deferred function itself
    (a `recover()` inside a nested function literal would not stop the panic: seeded/ind2-c15-a), the handler is called
    at one place, and a deferred `Recovery` guard is installed before it — the thread states of the model:
    `unwinding → handling` (recover returned), `handling → reporting | unwindingH` (one handler call, `hcalls` grows by
    one), `unwindingH → reporting` (the guard) -/
theorem source_recovery_frames :
    C15Facts.recoveryFound = true ∧ C15Facts.recoverDirect = 1 ∧ C15Facts.recoverNested = 0 ∧ C15Facts.handlerCalls = 1 ∧
    C15Facts.guardBeforeHandler = true := by
  decide

/-- non-vacuity of `source_capacities`: a 16-CPU machine, 3 workers -/
example : ∃ c : Cfg, c.workers = 3 ∧ c.inCap = inCapForm.value 16 c.workers :=
  ⟨{ workers := 3, depth := -1, inCap := inCapForm.value 16 3 }, rfl, rfl⟩

end C15Chan
