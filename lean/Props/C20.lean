import Lemmas.NatSort
/-! # C20 — natural string ordering is a consistent total order

Property theorems only (helper lemmas live in `Lemmas/NatSort.lean`, the executable model in `Model/NatSort.lean`).
`naturalCmp a b ci : Int` is the model of `txt.NaturalCmp` on byte lists; it is run against the Go function on every
check.  All theorems quantify over all byte lists (bytes as `Nat`; no length bound) and both case modes. -/
namespace C20
open NatSort

/-- the result is always −1, 0 or 1 -/
theorem cmp_range (a b : List Nat) (ci : Bool) :
    naturalCmp a b ci = -1 ∨ naturalCmp a b ci = 0 ∨ naturalCmp a b ci = 1 := by
  unfold naturalCmp; cases ncmp a b ci <;> simp [ordInt]

/-- antisymmetry: swapping the arguments negates the result -/
theorem cmp_antisymm (a b : List Nat) (ci : Bool) : naturalCmp b a ci = - naturalCmp a b ci := by
  unfold naturalCmp; rw [ncmp_swap]; cases ncmp a b ci <;> simp [ordInt, Ordering.swap]

/-- 0 only for identical strings (and always for identical strings) -/
theorem cmp_zero_iff (a b : List Nat) (ci : Bool) : naturalCmp a b ci = 0 ↔ a = b := by
  rw [← ncmp_eq_iff a b ci]; unfold naturalCmp; cases ncmp a b ci <;> simp [ordInt]

/-- transitivity of `≤` -/
theorem cmp_trans (a b c : List Nat) (ci : Bool)
    (h1 : naturalCmp a b ci ≤ 0) (h2 : naturalCmp b c ci ≤ 0) : naturalCmp a c ci ≤ 0 := by
  have k1 : ncmp a b ci ≠ .gt := by
    intro h; unfold naturalCmp at h1; rw [h] at h1; simp [ordInt] at h1
  have k2 : ncmp b c ci ≠ .gt := by
    intro h; unfold naturalCmp at h2; rw [h] at h2; simp [ordInt] at h2
  have := ncmp_trans a b c ci k1 k2
  unfold naturalCmp; cases h : ncmp a c ci <;> simp_all [ordInt]

/-- transitivity of `<` -/
theorem cmp_lt_trans (a b c : List Nat) (ci : Bool)
    (h1 : naturalCmp a b ci < 0) (h2 : naturalCmp b c ci < 0) : naturalCmp a c ci < 0 := by
  have h := cmp_trans a b c ci (by omega) (by omega)
  rcases Int.lt_or_eq_of_le h with h | h
  · exact h
  · have hac := (cmp_zero_iff a c ci).mp h
    subst hac
    have := cmp_antisymm a b ci
    omega

/-- totality: any two strings are comparable -/
theorem cmp_total (a b : List Nat) (ci : Bool) : naturalCmp a b ci ≤ 0 ∨ naturalCmp b a ci ≤ 0 := by
  have := cmp_antisymm a b ci; omega

/-- the comparison is the lexicographic comparison of the chunk keys (digit run ↦ (digits without leading zeros,
    number of leading zeros), other byte ↦ itself, folded in case-insensitive mode), the exact keys breaking ties
    in case-insensitive mode -/
theorem cmp_key (a b : List Nat) (ci : Bool) :
    ncmp a b ci = (lexCmp (key ci a) (key ci b)).then (if ci then lexCmp (key false a) (key false b) else .eq) :=
  ncmp_lex a b ci

/-- `NaturalLess` agrees with `NaturalCmp` -/
theorem less_iff (a b : List Nat) (ci : Bool) : naturalLess a b ci = true ↔ naturalCmp a b ci < 0 := by
  simp [naturalLess]

/-- `SortStringsNaturalAscending` returns a permutation of its input … -/
theorem sortAsc_perm (l : List (List Nat)) : (sortAsc l).Perm l := List.mergeSort_perm l _

/-- … that is sorted -/
theorem sortAsc_sorted (l : List (List Nat)) : (sortAsc l).Pairwise (fun a b => naturalCmp a b true ≤ 0) := by
  have := List.pairwise_mergeSort (le := fun a b => decide (naturalCmp a b true ≤ 0))
    (by intro a b c h1 h2; simp only [decide_eq_true_eq] at *; exact cmp_trans a b c true h1 h2)
    (by intro a b; simp only [Bool.or_eq_true, decide_eq_true_eq]; exact cmp_total a b true) l
  simpa [sortAsc] using this

theorem sortDesc_perm (l : List (List Nat)) : (sortDesc l).Perm l := List.mergeSort_perm l _

theorem sortDesc_sorted (l : List (List Nat)) : (sortDesc l).Pairwise (fun a b => naturalCmp b a true ≤ 0) := by
  have := List.pairwise_mergeSort (le := fun a b => decide (naturalCmp b a true ≤ 0))
    (by intro a b c h1 h2; simp only [decide_eq_true_eq] at *; exact cmp_trans c b a true h2 h1)
    (by intro a b; simp only [Bool.or_eq_true, decide_eq_true_eq]; exact cmp_total b a true) l
  simpa [sortDesc] using this

/-- a sorted permutation under this order is unique, so sorting is deterministic: any two sorted permutations of the
    same input (e.g. Go's pdqsort result and the model's merge sort) are the same list -/
theorem sorted_perm_unique (l₁ l₂ : List (List Nat)) (hp : l₁.Perm l₂)
    (h₁ : l₁.Pairwise (fun a b => naturalCmp a b true ≤ 0)) (h₂ : l₂.Pairwise (fun a b => naturalCmp a b true ≤ 0)) :
    l₁ = l₂ := by
  apply List.Perm.eq_of_pairwise (le := fun a b => naturalCmp a b true ≤ 0) _ h₁ h₂ hp
  intro a b _ _ hab hba
  have := cmp_antisymm a b true
  exact (cmp_zero_iff a b true).mp (by omega)

/-! non-vacuity: the hypotheses of `cmp_trans` are met by concrete strings ("a2" ≤ "a12" ≤ "b") -/
example : naturalCmp [97, 50] [97, 49, 50] false ≤ 0 ∧ naturalCmp [97, 49, 50] [98] false ≤ 0 := by
  simp [naturalCmp, ncmp, ncmpLoop, isDigit, dg, zc, rs, dropZeros, takeDigits, fold, cmpNat, ordInt]

end C20
