import Lemmas.NatSortMore
/-! # C20 — natural string ordering is a consistent total order

Property theorems only (helper lemmas live in `Lemmas/NatSort*.lean`, the executable models in `Model/NatSort.lean` —
chunk level, `naturalCmp a b ci : Int` on byte lists — and `Model/NatSortGo.lean` — the index-level, statement-for-statement
transcription `naturalCmpA` of `txt.NaturalCmp`).  Both are run against the Go function on every check (`cmp` lines and
even columns of `row` lines: transcription; `less`, `sorta`, `sortd` lines and odd columns: chunk level) and are proved
equal (`go_transcription_refines`).  All theorems quantify over all byte lists (bytes as `Nat`; no length bound) and
both case modes. -/
namespace C20
open NatSort NatSortGo

/-- the result is always −1, 0 or 1 -/
theorem cmp_range (a b : List Nat) (ci : Bool) :
    naturalCmp a b ci = -1 ∨ naturalCmp a b ci = 0 ∨ naturalCmp a b ci = 1 := by
  unfold naturalCmp; cases ncmp a b ci <;> simp [ordInt]

/-- antisymmetry: swapping the arguments negates the result -/
theorem cmp_antisymm (a b : List Nat) (ci : Bool) : naturalCmp b a ci = - naturalCmp a b ci := by
  unfold naturalCmp; rw [ncmp_swap]; cases ncmp a b ci <;> simp [ordInt, Ordering.swap]

/-- 0 only for identical strings (and always for identical strings) -/
theorem cmp_zero_iff (a b : List Nat) (ci : Bool) : naturalCmp a b ci = 0 ↔ a = b := by
  rw [← ncmp_eq_iff a b ci]; unfold naturalCmp; cases ncmp a b ci <;> simp [ordInt]

/-- transitivity of `≤` -/
theorem cmp_trans (a b c : List Nat) (ci : Bool)
    (h1 : naturalCmp a b ci ≤ 0) (h2 : naturalCmp b c ci ≤ 0) : naturalCmp a c ci ≤ 0 := by
  have k1 : ncmp a b ci ≠ .gt := by
    intro h; unfold naturalCmp at h1; rw [h] at h1; simp [ordInt] at h1
  have k2 : ncmp b c ci ≠ .gt := by
    intro h; unfold naturalCmp at h2; rw [h] at h2; simp [ordInt] at h2
  have := ncmp_trans a b c ci k1 k2
  unfold naturalCmp; cases h : ncmp a c ci <;> simp_all [ordInt]

/-- transitivity of `<` -/
theorem cmp_lt_trans (a b c : List Nat) (ci : Bool)
    (h1 : naturalCmp a b ci < 0) (h2 : naturalCmp b c ci < 0) : naturalCmp a c ci < 0 := by
  have h := cmp_trans a b c ci (by omega) (by omega)
  rcases Int.lt_or_eq_of_le h with h | h
  · exact h
  · have hac := (cmp_zero_iff a c ci).mp h
    subst hac
    have := cmp_antisymm a b ci
    omega

/-- totality: any two strings are comparable -/
theorem cmp_total (a b : List Nat) (ci : Bool) : naturalCmp a b ci ≤ 0 ∨ naturalCmp b a ci ≤ 0 := by
  have := cmp_antisymm a b ci; omega

/-- the comparison is the lexicographic comparison of the chunk keys (digit run ↦ (digits without leading zeros,
    number of leading zeros), other byte ↦ itself, folded in case-insensitive mode), the exact keys breaking ties
    in case-insensitive mode -/
theorem cmp_key (a b : List Nat) (ci : Bool) :
    ncmp a b ci = (lexCmp (key ci a) (key ci b)).then (if ci then lexCmp (key false a) (key false b) else .eq) :=
  ncmp_lex a b ci

/-- `NaturalLess` agrees with `NaturalCmp` -/
theorem less_iff (a b : List Nat) (ci : Bool) : naturalLess a b ci = true ↔ naturalCmp a b ci < 0 := by
  simp [naturalLess]

/-- `SortStringsNaturalAscending` returns a permutation of its input … -/
theorem sortAsc_perm (l : List (List Nat)) : (sortAsc l).Perm l := List.mergeSort_perm l _

/-- … that is sorted -/
theorem sortAsc_sorted (l : List (List Nat)) : (sortAsc l).Pairwise (fun a b => naturalCmp a b true ≤ 0) := by
  have := List.pairwise_mergeSort (le := fun a b => decide (naturalCmp a b true ≤ 0))
    (by intro a b c h1 h2; simp only [decide_eq_true_eq] at *; exact cmp_trans a b c true h1 h2)
    (by intro a b; simp only [Bool.or_eq_true, decide_eq_true_eq]; exact cmp_total a b true) l
  simpa [sortAsc] using this

theorem sortDesc_perm (l : List (List Nat)) : (sortDesc l).Perm l := List.mergeSort_perm l _

theorem sortDesc_sorted (l : List (List Nat)) : (sortDesc l).Pairwise (fun a b => naturalCmp b a true ≤ 0) := by
  have := List.pairwise_mergeSort (le := fun a b => decide (naturalCmp b a true ≤ 0))
    (by intro a b c h1 h2; simp only [decide_eq_true_eq] at *; exact cmp_trans c b a true h2 h1)
    (by intro a b; simp only [Bool.or_eq_true, decide_eq_true_eq]; exact cmp_total b a true) l
  simpa [sortDesc] using this

/-- a sorted permutation under this order is unique, so sorting is deterministic: any two sorted permutations of the
    same input (e.g. Go's pdqsort result and the model's merge sort) are the same list -/
theorem sorted_perm_unique (l₁ l₂ : List (List Nat)) (hp : l₁.Perm l₂)
    (h₁ : l₁.Pairwise (fun a b => naturalCmp a b true ≤ 0)) (h₂ : l₂.Pairwise (fun a b => naturalCmp a b true ≤ 0)) :
    l₁ = l₂ := by
  apply List.Perm.eq_of_pairwise (le := fun a b => naturalCmp a b true ≤ 0) _ h₁ h₂ hp
  intro a b _ _ hab hba
  have := cmp_antisymm a b true
  exact (cmp_zero_iff a b true).mp (by omega)

/-! ## the descriptive clauses of the property

`val` is the decimal value of a list of digit bytes, `zc s` the number of leading `'0'` bytes of `s`, `dg s` the digit
run after them, `cmpBytes` the plain lexicographic byte comparison, `fold true` the ASCII upper-casing of `a`–`z`. -/

/-- "a proper prefix sorts first": for every string `a` and every non-empty extension `s`, in both case modes -/
theorem proper_prefix_first (a s : List Nat) (ci : Bool) (hs : s ≠ []) : naturalCmp a (a ++ s) ci = -1 := by
  unfold naturalCmp; rw [ncmp_prefix a s ci hs]; rfl

/-- "digits sort before non-digits": the first bytes differ in digit-ness, the digit side is smaller -/
theorem digit_before_nondigit (c1 c2 : Nat) (s t : List Nat) (ci : Bool)
    (h1 : isDigit c1 = true) (h2 : isDigit c2 = false) : naturalCmp (c1 :: s) (c2 :: t) ci = -1 := by
  unfold naturalCmp; rw [ncmp_digit_nondigit c1 c2 s t ci h1 h2]; rfl

/-- a common prefix that does not end in a digit (so that no digit run straddles the cut) does not influence the
    result … -/
theorem common_prefix_cancel (p a b : List Nat) (ci : Bool) (h : ∀ c, p.getLast? = some c → isDigit c = false) :
    naturalCmp (p ++ a) (p ++ b) ci = naturalCmp a b ci := by
  unfold naturalCmp; rw [ncmp_common_prefix p a b ci h]

/-- … hence "digits before non-digits" holds at every chunk boundary, not only at the start of the strings -/
theorem digit_before_nondigit_at (p : List Nat) (c1 c2 : Nat) (s t : List Nat) (ci : Bool)
    (hp : ∀ c, p.getLast? = some c → isDigit c = false)
    (h1 : isDigit c1 = true) (h2 : isDigit c2 = false) : naturalCmp (p ++ c1 :: s) (p ++ c2 :: t) ci = -1 := by
  rw [common_prefix_cancel p _ _ ci hp]; exact digit_before_nondigit c1 c2 s t ci h1 h2

/-- "other bytes compare bytewise": on strings without digits the case-sensitive comparison is the plain
    lexicographic byte comparison -/
theorem bytes_bytewise (a b : List Nat) (ha : ∀ c ∈ a, isDigit c = false) (hb : ∀ c ∈ b, isDigit c = false) :
    ncmp a b false = cmpBytes a b := by
  rw [ncmp_nodigit a b false ha hb]
  have f : ∀ l : List Nat, l.map (fold false) = l := by
    intro l; induction l with
    | nil => rfl
    | cons x l ih => simp [fold_false, ih]
  rw [f, f]; cases cmpBytes a b <;> rfl

/-- "ASCII letters folded in case-insensitive mode, the case-sensitive order breaking ties": on strings without
    digits the folded strings are compared bytewise first, the unfolded ones second -/
theorem bytes_bytewise_ci (a b : List Nat) (ha : ∀ c ∈ a, isDigit c = false) (hb : ∀ c ∈ b, isDigit c = false) :
    ncmp a b true = (cmpBytes (a.map (fold true)) (b.map (fold true))).then (cmpBytes a b) := by
  rw [ncmp_nodigit a b true ha hb]; rfl

/-- what folding is: `a`–`z` (97–122) are mapped to `A`–`Z`, every other byte (non-ASCII included) is left alone;
    without the flag nothing is folded -/
theorem fold_spec (c : Nat) :
    fold false c = c ∧ fold true c = (if 97 ≤ c ∧ c ≤ 122 then c - 32 else c) := by
  by_cases h1 : 97 ≤ c <;> by_cases h2 : c ≤ 122 <;> simp [fold, h1, h2]

/-- `cmpBytes` is the standard lexicographic order of byte lists -/
theorem cmpBytes_lex (a b : List Nat) :
    (cmpBytes a b = .lt ↔ a < b) ∧ (cmpBytes a b = .eq ↔ a = b) ∧ (cmpBytes a b = .gt ↔ b < a) := by
  refine ⟨cmpBytes_lt_iff a b, cmpBytes_eq_iff a b, ?_⟩
  rw [← cmpBytes_lt_iff b a, cmpBytes_swap a b]
  cases cmpBytes a b <;> simp [Ordering.swap]

/-- "digit runs compare by numeric value whatever their length (leading zeros only break ties, fewer zeros first)",
    chunk level: two number chunks whose digit lists have no leading zero compare by decimal value, then by zero count -/
theorem digits_numeric (n1 n2 : List Nat) (z1 z2 : Nat)
    (d1 : ∀ c ∈ n1, isDigit c = true) (d2 : ∀ c ∈ n2, isDigit c = true)
    (l1 : n1.head? ≠ some 48) (l2 : n2.head? ≠ some 48) :
    cmpChunk (.num n1 z1) (.num n2 z2) = (cmpNat (val n1) (val n2)).then (cmpNat z1 z2) :=
  cmpChunk_num_val n1 n2 z1 z2 d1 d2 l1 l2

/-- the hypotheses of `digits_numeric` hold for every number chunk of every key (so `cmp_key` + `digits_numeric`
    describe the whole comparison), and the chunk's zero count / digits are the leading zeros / the rest of the run -/
theorem key_num_wellformed (ci : Bool) (s : List Nat) (n : List Nat) (z : Nat) (h : Chunk.num n z ∈ key ci s) :
    (∀ c ∈ n, isDigit c = true) ∧ n.head? ≠ some 48 :=
  key_num_wf ci s n z h

/-- the pieces `zc`, `dg`, `rs` of a string: `zc s` zeros, then the digits `dg s` (all digits, no leading zero), then
    `rs s`, which does not start with a digit -/
theorem parts_spec (s : List Nat) :
    s = List.replicate (zc s) 48 ++ dg s ++ rs s ∧ (∀ c ∈ dg s, isDigit c = true) ∧ (dg s).head? ≠ some 48 ∧
      (∀ c, (rs s).head? = some c → isDigit c = false) := by
  refine ⟨(recon s).symm, dg_digits s, dg_head s, ?_⟩
  intro c hc
  unfold rs at hc
  generalize (dropZeros s).2 = l at hc
  cases l with
  | nil => simp [takeDigits] at hc
  | cons x t =>
    simp only [takeDigits] at hc
    split at hc
    · -- the rest after a maximal digit run starts with a non-digit
      have : ∀ l : List Nat, ∀ c, (takeDigits l).2.head? = some c → isDigit c = false := by
        intro l; induction l with
        | nil => simp [takeDigits]
        | cons y u ih =>
          intro c hc; simp only [takeDigits] at hc
          split at hc
          · exact ih c hc
          · simp at hc; subst hc; simpa using ‹¬isDigit y = true›
      exact this t c hc
    · simp at hc; subst hc; simpa using ‹¬isDigit x = true›

/-- numeric rule at the head of two strings that both start with a digit: compare the VALUES of the two maximal digit
    prefixes (any lengths, leading zeros included), then their numbers of leading zeros, then the remainders -/
theorem digits_numeric_head (c1 c2 : Nat) (t1 t2 : List Nat) (ci : Bool)
    (h1 : isDigit c1 = true) (h2 : isDigit c2 = true) :
    ncmp (c1 :: t1) (c2 :: t2) ci =
      ((cmpNat (val (takeDigits (c1 :: t1)).1) (val (takeDigits (c2 :: t2)).1)).then
        (cmpNat (zc (c1 :: t1)) (zc (c2 :: t2)))).then
        (ncmp (takeDigits (c1 :: t1)).2 (takeDigits (c2 :: t2)).2 ci) :=
  ncmp_digit_head c1 c2 t1 t2 ci h1 h2

/-- numeric rule for whole strings that are digit runs (any lengths, also empty): values first, then zero counts -/
theorem digits_numeric_strings (a b : List Nat) (ci : Bool)
    (ha : ∀ c ∈ a, isDigit c = true) (hb : ∀ c ∈ b, isDigit c = true) :
    naturalCmp a b ci = ordInt ((cmpNat (val a) (val b)).then (cmpNat (zc a) (zc b))) := by
  unfold naturalCmp; rw [ncmp_digits a b ci ha hb]

/-- … in particular a smaller value sorts first whatever the lengths … -/
theorem digits_value_lt (a b : List Nat) (ci : Bool)
    (ha : ∀ c ∈ a, isDigit c = true) (hb : ∀ c ∈ b, isDigit c = true) (h : val a < val b) :
    naturalCmp a b ci = -1 := by
  rw [digits_numeric_strings a b ci ha hb, (cmpNat_lt_iff _ _).mpr h]; rfl

/-- … and for equal values fewer leading zeros sort first ("2" < "02") -/
theorem digits_zeros_lt (a b : List Nat) (ci : Bool)
    (ha : ∀ c ∈ a, isDigit c = true) (hb : ∀ c ∈ b, isDigit c = true) (hv : val a = val b) (hz : zc a < zc b) :
    naturalCmp a b ci = -1 := by
  rw [digits_numeric_strings a b ci ha hb, hv, (cmpNat_eq_iff _ _).mpr rfl, (cmpNat_lt_iff _ _).mpr hz]; rfl

/-- `val` is the usual decimal value: appending a digit is "times ten plus the digit" -/
theorem val_horner (l : List Nat) (c : Nat) : val [] = 0 ∧ val (l ++ [c]) = val l * 10 + (c - 48) :=
  ⟨rfl, val_snoc l c⟩

/-! non-vacuity of the new clauses: "9" < "10", "2" < "02", "a" < "a0", "a1" < "ab", val "0123" = 123 -/
example : naturalCmp [57] [49, 48] true = -1 :=
  digits_value_lt _ _ _ (by simp [isDigit]) (by simp [isDigit]) (by simp [val])
example : naturalCmp [50] [48, 50] false = -1 :=
  digits_zeros_lt _ _ _ (by simp [isDigit]) (by simp [isDigit]) (by simp [val]) (by simp [zc, dropZeros])
example : naturalCmp [97] ([97] ++ [48]) true = -1 := proper_prefix_first _ _ _ (by simp)
example : naturalCmp ([97] ++ 49 :: []) ([97] ++ 98 :: []) true = -1 :=
  digit_before_nondigit_at _ _ _ _ _ _ (by simp [isDigit]) (by simp [isDigit]) (by simp [isDigit])
example : val [48, 49, 50, 51] = 123 := by simp [val]

/-! non-vacuity: the hypotheses of `cmp_trans` are met by concrete strings ("a2" ≤ "a12" ≤ "b") -/
example : naturalCmp [97, 50] [97, 49, 50] false ≤ 0 ∧ naturalCmp [97, 49, 50] [98] false ≤ 0 := by
  simp [naturalCmp, ncmp, ncmpLoop, isDigit, dg, zc, rs, dropZeros, takeDigits, fold, cmpNat, ordInt]

/-! ## the index-level transcription of the Go function (Model/NatSortGo.lean) -/

/-- the statement-for-statement transcription of `NaturalCmp` with the two scan indices, the (duplicated) zero-skipping
    loops, the comparison of the POSITIONS `nz1`, `nz2` and the recursive tail computes the chunk-level model on which
    all order theorems are stated — for all byte strings, both modes, no bound; `g1`, `g2` are any accessors that read
    the bytes of the two strings -/
theorem go_transcription_refines (ci : Bool) (l1 l2 : List Nat) (g1 g2 : Nat → Nat)
    (h1 : Reads g1 l1) (h2 : Reads g2 l2) : goCmp ci l1.length l2.length g1 g2 = naturalCmp l1 l2 ci :=
  goCmp_spec ci l1 l2 g1 g2 h1 h2

/-- … in the form the driver runs (`cmp` lines: byte arrays) -/
theorem go_transcription_arrays (a b : Array Nat) (ci : Bool) : naturalCmpA a b ci = naturalCmp a.toList b.toList ci := by
  have := goCmp_spec ci a.toList b.toList _ _ (reads_array a) (reads_array b)
  simpa [naturalCmpA] using this

/-- hence every order theorem holds of the transcription itself, e.g. "0 only for identical strings" -/
theorem go_transcription_zero_iff (a b : Array Nat) (ci : Bool) : naturalCmpA a b ci = 0 ↔ a = b := by
  rw [go_transcription_arrays, cmp_zero_iff]
  constructor
  · intro h; cases a; cases b; simp_all
  · intro h; rw [h]

/-- the source's "comparing the index after the zeros is sufficient": the loop invariant `i1 = i2` at every loop head is
    what makes comparing positions the same as comparing zero counts (`goLoop_spec` is proved for equal indices); the
    second zero-skipping loop for `s1` is dead code -/
theorem go_second_zero_loop_dead (n : Nat) (g : Nat → Nat) (i : Nat) :
    skipZeros n g (skipZeros n g i) = skipZeros n g i := skipZeros_idem n g i

/-! ## the sort helpers, specification level (independent of the sorting algorithm) -/

/-- ANY procedure whose result is a permutation of its input that is ascending with respect to `NaturalCmp(·,·,true)`
    returns exactly the list the model returns — whatever algorithm `slices.SortFunc` uses, stable or not (stability is
    void: `cmp_zero_iff`, two elements that compare 0 are the same string) -/
theorem sort_spec_asc (l out : List (List Nat)) (hp : out.Perm l)
    (hs : out.Pairwise (fun a b => naturalCmp a b true ≤ 0)) : out = sortAsc l :=
  sorted_perm_unique out (sortAsc l) (hp.trans (sortAsc_perm l).symm) hs (sortAsc_sorted l)

/-- the same for the descending helper -/
theorem sort_spec_desc (l out : List (List Nat)) (hp : out.Perm l)
    (hs : out.Pairwise (fun a b => naturalCmp b a true ≤ 0)) : out = sortDesc l := by
  apply List.Perm.eq_of_pairwise (le := fun a b => naturalCmp b a true ≤ 0) _ hs (sortDesc_sorted l)
    (hp.trans (sortDesc_perm l).symm)
  intro a b _ _ hab hba
  have := cmp_antisymm a b true
  exact (cmp_zero_iff a b true).mp (by omega)

/-- as functions: a sorting function is determined by its specification -/
theorem sort_fn_unique (f : List (List Nat) → List (List Nat)) (hp : ∀ l, (f l).Perm l)
    (hs : ∀ l, (f l).Pairwise (fun a b => naturalCmp a b true ≤ 0)) : f = sortAsc :=
  funext fun l => sort_spec_asc l (f l) (hp l) (hs l)

/-- "sorting with it is deterministic": the result does not depend on the order in which the input arrives -/
theorem sort_input_order_irrelevant (l₁ l₂ : List (List Nat)) (h : l₁.Perm l₂) : sortAsc l₁ = sortAsc l₂ :=
  sort_spec_asc l₂ (sortAsc l₁) ((sortAsc_perm l₁).trans h) (sortAsc_sorted l₁)

/-- descending is the reverse of ascending -/
theorem sortDesc_eq_reverse (l : List (List Nat)) : sortDesc l = (sortAsc l).reverse := by
  symm
  apply sort_spec_desc l
  · exact (List.reverse_perm _).trans (sortAsc_perm l)
  · rw [List.pairwise_reverse]; exact sortAsc_sorted l

/-- sorting a sorted list changes nothing -/
theorem sortAsc_idem (l : List (List Nat)) : sortAsc (sortAsc l) = sortAsc l :=
  (sort_spec_asc (sortAsc l) (sortAsc l) (List.Perm.refl _) (sortAsc_sorted l)).symm

/-- the helpers agree with `NaturalLess`: no later element of the result is less than an earlier one, and when the
    input has no duplicates every earlier element IS less than every later one -/
theorem sortAsc_less (l : List (List Nat)) :
    (sortAsc l).Pairwise (fun a b => naturalLess b a true = false) ∧
      (l.Nodup → (sortAsc l).Pairwise (fun a b => naturalLess a b true = true)) := by
  constructor
  · refine (sortAsc_sorted l).imp ?_
    intro a b h
    have := cmp_antisymm a b true
    simp [naturalLess]; omega
  · intro hn
    have hn' : (sortAsc l).Nodup := (sortAsc_perm l).nodup_iff.mpr hn
    refine ((sortAsc_sorted l).and hn').imp ?_
    intro a b ⟨h, hne⟩
    have hz := cmp_zero_iff a b true
    simp only [naturalLess, decide_eq_true_eq]
    rcases Int.lt_or_eq_of_le h with h | h
    · exact h
    · exact absurd (hz.mp h) hne

/-- `NaturalLess` is a strict total order: exactly one of `a < b`, `a = b`, `b < a` -/
theorem less_trichotomy (a b : List Nat) (ci : Bool) :
    (naturalLess a b ci = true ∧ a ≠ b ∧ naturalLess b a ci = false) ∨
    (naturalLess a b ci = false ∧ a = b ∧ naturalLess b a ci = false) ∨
    (naturalLess a b ci = false ∧ a ≠ b ∧ naturalLess b a ci = true) := by
  have h1 := cmp_antisymm a b ci
  have h2 := cmp_zero_iff a b ci
  have h3 := cmp_range a b ci
  simp only [naturalLess, decide_eq_true_eq, decide_eq_false_iff_not]
  by_cases hab : a = b
  · right; left; have := h2.mpr hab; exact ⟨by omega, hab, by omega⟩
  · have : naturalCmp a b ci ≠ 0 := fun h => hab (h2.mp h)
    rcases h3 with h | h | h
    · left; exact ⟨by omega, hab, by omega⟩
    · exact absurd h this
    · right; right; exact ⟨by omega, hab, by omega⟩

/-- CONTRAST: with the folded scan alone (no case-sensitive second pass) two different strings compare 0 and a sorted
    permutation is no longer unique — the class of change in which the helpers sort with the inner scan -/
theorem scan_only_not_deterministic :
    scanOnlyCmp [97] [65] = 0 ∧ scanOnlyCmp [65] [97] = 0 ∧
    ∃ l₁ l₂ : List (List Nat), l₁.Perm l₂ ∧ l₁.Pairwise (fun a b => scanOnlyCmp a b ≤ 0) ∧
      l₂.Pairwise (fun a b => scanOnlyCmp a b ≤ 0) ∧ l₁ ≠ l₂ := by
  have e1 : scanOnlyCmp [97] [65] = 0 := by
    simp [scanOnlyCmp, ncmpLoop, isDigit, fold, cmpNat, ordInt]
  have e2 : scanOnlyCmp [65] [97] = 0 := by
    simp [scanOnlyCmp, ncmpLoop, isDigit, fold, cmpNat, ordInt]
  refine ⟨e1, e2, [[97], [65]], [[65], [97]], List.Perm.swap _ _ _, ?_, ?_, by simp⟩
  · simp [e1]
  · simp [e2]

/-! ## numbers beyond a machine word -/

/-- two digit strings whose values agree modulo 2^64 but differ are still ordered by their true values; a comparison
    through a 64-bit accumulator (`wordVal`) cannot tell them apart -/
theorem no_word_wrap (a b : List Nat) (ci : Bool)
    (ha : ∀ c ∈ a, isDigit c = true) (hb : ∀ c ∈ b, isDigit c = true) (h : val a < val b) :
    naturalCmp a b ci = -1 ∧ naturalCmp b a ci = 1 := by
  have := digits_value_lt a b ci ha hb h
  have := cmp_antisymm a b ci
  omega

/-- the witnesses of the contrast: "0" and "18446744073709551616" = 2^64 have the same 64-bit accumulator value -/
theorem word_wrap_witness :
    wordVal [48] = wordVal [49,56,52,52,54,55,52,52,48,55,51,55,48,57,53,53,49,54,49,54] ∧
    naturalCmp [48] [49,56,52,52,54,55,52,52,48,55,51,55,48,57,53,53,49,54,49,54] true = -1 := by
  constructor
  · simp [wordVal]
  · exact (no_word_wrap _ _ _ (by simp [isDigit]) (by simp [isDigit]) (by simp [val])).1

/-! ## ASCII-only case folding, non-ASCII bytes, invalid UTF-8

The model is on raw bytes: nothing is decoded, so every statement above already covers byte strings that are not valid
UTF-8.  The following make the treatment of bytes ≥ 0x80 explicit. -/

/-- every byte ≥ 0x80 — all bytes of multi-byte UTF-8 sequences and all bytes that cannot occur in UTF-8 (0xC0, 0xC1,
    0xF5–0xFF, stray continuation bytes) — is a non-digit, is never folded, and is a chunk of its own -/
theorem nonascii_byte (c : Nat) (t : List Nat) (ci : Bool) (h : 128 ≤ c) :
    isDigit c = false ∧ fold ci c = c ∧ key ci (c :: t) = Chunk.byte c :: key ci t := by
  have hd : isDigit c = false := by
    simp only [isDigit, Bool.and_eq_false_iff, decide_eq_false_iff_not]; right; omega
  have hf : fold ci c = c := by
    unfold fold
    have : (decide (c ≤ 122)) = false := by simp; omega
    simp [this]
  refine ⟨hd, hf, ?_⟩
  rw [key]; simp [hd, hf]

/-- folding changes exactly the 26 bytes `a`–`z`, maps them onto `A`–`Z`, and never produces or removes a byte ≥ 0x80 -/
theorem fold_exact (c : Nat) :
    (fold true c ≠ c ↔ 97 ≤ c ∧ c ≤ 122) ∧ (97 ≤ c ∧ c ≤ 122 → 65 ≤ fold true c ∧ fold true c ≤ 90) ∧
      (128 ≤ fold true c ↔ 128 ≤ c) := by
  have := (fold_spec c).2
  by_cases h : 97 ≤ c ∧ c ≤ 122
  · rw [this, if_pos h]; omega
  · rw [this, if_neg h]; simp [h]

/-- strings made of bytes ≥ 0x80 only (any mixture of valid and invalid UTF-8) compare bytewise in BOTH modes: "É" and
    "é" are not case variants of each other for `NaturalCmp` -/
theorem nonascii_bytewise (a b : List Nat) (ci : Bool) (ha : ∀ c ∈ a, 128 ≤ c) (hb : ∀ c ∈ b, 128 ≤ c) :
    ncmp a b ci = cmpBytes a b := by
  have da : ∀ c ∈ a, isDigit c = false := fun c hc => (nonascii_byte c [] ci (ha c hc)).1
  have db : ∀ c ∈ b, isDigit c = false := fun c hc => (nonascii_byte c [] ci (hb c hc)).1
  have e : ncmp a b ci = ncmp a b false := by
    cases ci
    · rfl
    · exact ncmp_ci_eq_cs a b (fun c hc => by have := ha c hc; omega) (fun c hc => by have := hb c hc; omega)
  rw [e, bytes_bytewise a b da db]

/-- the case mode matters only through lower-case ASCII letters: without `a`–`z` in either string both modes agree -/
theorem modes_agree_without_lowercase (a b : List Nat)
    (ha : ∀ c ∈ a, ¬ (97 ≤ c ∧ c ≤ 122)) (hb : ∀ c ∈ b, ¬ (97 ≤ c ∧ c ≤ 122)) :
    naturalCmp a b true = naturalCmp a b false := by
  unfold naturalCmp; rw [ncmp_ci_eq_cs a b ha hb]

/-! non-vacuity: "É" (c3 89) < "é" (c3 a9) in case-insensitive mode, an invalid sequence (ff) sorts after both -/
example : ncmp [0xc3, 0x89] [0xc3, 0xa9] true = .lt := by
  rw [nonascii_bytewise _ _ _ (by simp) (by simp)]; simp [cmpBytes]
example : ncmp [0xc3, 0xa9] [0xff] true = .lt := by
  rw [nonascii_bytewise _ _ _ (by simp) (by simp)]; simp [cmpBytes]
example : sortAsc [[98], [97]] = [[97], [98]] := by
  symm; apply sort_spec_asc
  · exact List.Perm.swap _ _ _
  · simp [naturalCmp, ncmp, ncmpLoop, isDigit, fold, cmpNat, ordInt]


/-! ## the case-insensitive mode for ALL strings -/

/-- "ASCII letters folded in case-insensitive mode, the case-sensitive order breaking ties", for all byte strings (digit
    runs, leading zeros, non-ASCII bytes included): the case-insensitive comparison is the case-sensitive comparison of
    the two upper-cased strings and, only when that is 0, the case-sensitive comparison of the strings themselves -/
theorem ci_is_fold_then_cs (a b : List Nat) :
    naturalCmp a b true =
      (if naturalCmp (foldStr a) (foldStr b) false ≠ 0 then naturalCmp (foldStr a) (foldStr b) false
       else naturalCmp a b false) := by
  unfold naturalCmp
  rw [ncmp_ci_fold a b]
  cases ncmp (foldStr a) (foldStr b) false <;> simp [ordInt, Ordering.then]

/-- … so the two modes can disagree only on strings that are equal after folding or ordered differently by it; when
    the folded strings differ the case of the letters has no influence at all -/
theorem ci_ignores_case (a a' b b' : List Nat) (ha : foldStr a = foldStr a') (hb : foldStr b = foldStr b')
    (hne : foldStr a ≠ foldStr b) : naturalCmp a b true = naturalCmp a' b' true := by
  have hz : naturalCmp (foldStr a) (foldStr b) false ≠ 0 := fun h => hne ((cmp_zero_iff _ _ false).mp h)
  rw [ci_is_fold_then_cs a b, ci_is_fold_then_cs a' b', ← ha, ← hb, if_pos hz, if_pos hz]

/-- `foldStr` is what it says: byte by byte, `a`–`z` to `A`–`Z`, everything else unchanged, same length -/
theorem foldStr_spec (s : List Nat) :
    (foldStr s).length = s.length ∧
      ∀ i (h : i < s.length), (foldStr s)[i]? = some (if 97 ≤ s[i] ∧ s[i] ≤ 122 then s[i] - 32 else s[i]) := by
  refine ⟨by simp [foldStr], ?_⟩
  intro i h
  simp [foldStr, h, (fold_spec s[i]).2]

/-- the chunk key is faithful: different strings have different case-sensitive keys (so `cmp_key` loses nothing) -/
theorem key_faithful (a b : List Nat) : key false a = key false b ↔ a = b :=
  ⟨key_injective a b, fun h => by rw [h]⟩

/-! ## the numeric rule at every chunk boundary -/

/-- "digit runs compare by numeric value whatever their length (leading zeros only break ties, fewer zeros first)" at any
    position that starts a number in both strings (common prefix `p` that does not end in a digit): values of the two
    maximal digit runs first, then their numbers of leading zeros, then the remainders -/
theorem digits_numeric_at (p : List Nat) (c1 c2 : Nat) (t1 t2 : List Nat) (ci : Bool)
    (hp : ∀ c, p.getLast? = some c → isDigit c = false) (h1 : isDigit c1 = true) (h2 : isDigit c2 = true) :
    ncmp (p ++ c1 :: t1) (p ++ c2 :: t2) ci =
      ((cmpNat (val (takeDigits (c1 :: t1)).1) (val (takeDigits (c2 :: t2)).1)).then
        (cmpNat (zc (c1 :: t1)) (zc (c2 :: t2)))).then
        (ncmp (takeDigits (c1 :: t1)).2 (takeDigits (c2 :: t2)).2 ci) := by
  rw [ncmp_common_prefix p _ _ ci hp]; exact ncmp_digit_head c1 c2 t1 t2 ci h1 h2

/-- … in particular the smaller VALUE decides, whatever the lengths of the runs, the numbers of leading zeros and
    whatever follows -/
theorem digits_value_lt_at (p : List Nat) (c1 c2 : Nat) (t1 t2 : List Nat) (ci : Bool)
    (hp : ∀ c, p.getLast? = some c → isDigit c = false) (h1 : isDigit c1 = true) (h2 : isDigit c2 = true)
    (hv : val (takeDigits (c1 :: t1)).1 < val (takeDigits (c2 :: t2)).1) :
    naturalCmp (p ++ c1 :: t1) (p ++ c2 :: t2) ci = -1 := by
  unfold naturalCmp
  rw [digits_numeric_at p c1 c2 t1 t2 ci hp h1 h2, (cmpNat_lt_iff _ _).mpr hv]; rfl

/-! ## the order theorems, stated for the index-level transcription the driver runs on `cmp` lines -/

/-- antisymmetry of the transcription -/
theorem go_transcription_antisymm (a b : Array Nat) (ci : Bool) : naturalCmpA b a ci = - naturalCmpA a b ci := by
  rw [go_transcription_arrays, go_transcription_arrays]; exact cmp_antisymm _ _ ci

/-- transitivity of the transcription -/
theorem go_transcription_trans (a b c : Array Nat) (ci : Bool)
    (h1 : naturalCmpA a b ci ≤ 0) (h2 : naturalCmpA b c ci ≤ 0) : naturalCmpA a c ci ≤ 0 := by
  rw [go_transcription_arrays] at *; exact cmp_trans _ _ _ ci h1 h2

/-- the transcription of `NaturalLess` agrees with the chunk-level one (the driver runs the latter on `less` lines) -/
theorem go_less_agrees (a b : Array Nat) (ci : Bool) : naturalLessA a b ci = naturalLess a.toList b.toList ci := by
  simp [naturalLessA, naturalLess, go_transcription_arrays]

/-- the transcription never reads outside the strings: replacing the accessors by any others that agree below the
    lengths does not change the result (so the default value of the driver's `getD` is irrelevant) -/
theorem go_reads_in_bounds_only (ci : Bool) (l1 l2 : List Nat) (g1 g1' g2 g2' : Nat → Nat)
    (h1 : Reads g1 l1) (h1' : Reads g1' l1) (h2 : Reads g2 l2) (h2' : Reads g2' l2) :
    goCmp ci l1.length l2.length g1 g2 = goCmp ci l1.length l2.length g1' g2' := by
  rw [goCmp_spec ci l1 l2 g1 g2 h1 h2, goCmp_spec ci l1 l2 g1' g2' h1' h2']

/-! ## natural-number arithmetic of the transcription vs `int`/`byte` arithmetic of the code -/

/-- the transcription computes with natural numbers where the Go code computes with `int`: the only subtractions,
    `len1 := i1 - nz1` and `len2 := i2 - nz2`, never go below zero (the index after the digits is not before the index
    after the zeros, which is not before the start of the run, and none passes the end of the string), so truncated and
    exact subtraction agree and every slice `s[nz:i]` is well-formed -/
theorem go_indices_ordered (n : Nat) (g : Nat → Nat) (i : Nat) (hi : i ≤ n) :
    i ≤ skipZeros n g i ∧ skipZeros n g i ≤ skipDigits n g (skipZeros n g i) ∧ skipDigits n g (skipZeros n g i) ≤ n :=
  ⟨skipZeros_ge n g i, skipDigits_ge n g _, skipDigits_le n g _ (skipZeros_le n g i hi)⟩

/-- the byte arithmetic of the folding, `c -= 'a' - 'A'` on a `byte`, never wraps: it is applied to 97..122 only -/
theorem go_fold_no_wrap (c : Nat) (h : 97 ≤ c ∧ c ≤ 122) : fold true c + 32 = c ∧ fold true c < 256 := by
  rw [(fold_spec c).2, if_pos h]; omega

/-! ## `NaturalLess` as a strict order -/

theorem less_irrefl (a : List Nat) (ci : Bool) : naturalLess a a ci = false := by
  have := (cmp_zero_iff a a ci).mpr rfl
  simp [naturalLess, this]

theorem less_trans (a b c : List Nat) (ci : Bool) (h1 : naturalLess a b ci = true) (h2 : naturalLess b c ci = true) :
    naturalLess a c ci = true := by
  simp only [naturalLess, decide_eq_true_eq] at *
  exact cmp_lt_trans a b c ci h1 h2

/-- `NaturalLess` in the other direction is the negation, except on identical strings -/
theorem less_flip (a b : List Nat) (ci : Bool) (h : a ≠ b) : naturalLess b a ci = !naturalLess a b ci := by
  rcases less_trichotomy a b ci with ⟨x, _, y⟩ | ⟨_, e, _⟩ | ⟨x, _, y⟩
  · rw [x, y]; rfl
  · exact absurd e h
  · rw [x, y]; rfl

/-! ## CONTRAST: the three steps of the digit comparison are all needed -/

/-- without the comparison of the significant lengths "10" sorts before "9" -/
theorem contrast_no_length_check :
    cmpNumNoLen [49, 48] [57] 0 0 = .lt ∧ val [57] < val [49, 48] ∧ naturalCmp [57] [49, 48] false = -1 := by
  refine ⟨by simp [cmpNumNoLen, cmpBytes], by simp [val], ?_⟩
  exact digits_value_lt _ _ _ (by simp [isDigit]) (by simp [isDigit]) (by simp [val])

/-- with the zero counts compared first "2" sorts before "01" although 1 < 2: zeros would not "only break ties" -/
theorem contrast_zeros_first :
    cmpNumZerosFirst [50] [49] 0 1 = .lt ∧ val [48, 49] < val [50] ∧ naturalCmp [48, 49] [50] false = -1 := by
  refine ⟨by simp [cmpNumZerosFirst, cmpNat], by simp [val], ?_⟩
  exact digits_value_lt _ _ _ (by simp [isDigit]) (by simp [isDigit]) (by simp [val])

/-- without the tie-break on the zero counts "1" and "01" compare equal: 0 for non-identical strings -/
theorem contrast_no_zero_tiebreak :
    cmpNumNoZeros [49] [49] = .eq ∧ naturalCmp [49] [48, 49] false = -1 ∧ ([49] : List Nat) ≠ [48, 49] := by
  refine ⟨by simp [cmpNumNoZeros, cmpBytes], ?_, by simp⟩
  exact digits_zeros_lt _ _ _ (by simp [isDigit]) (by simp [isDigit]) (by simp [val]) (by simp [zc, dropZeros])

/-- a comparison through a 64-bit accumulator is not even antisymmetric-consistent with the order: it calls
    "18446744073709551617" (2^64+1) and "1" equal, the real order does not -/
theorem contrast_word_accumulator :
    wordVal [49,56,52,52,54,55,52,52,48,55,51,55,48,57,53,53,49,54,49,55] = wordVal [49] ∧
    naturalCmp [49] [49,56,52,52,54,55,52,52,48,55,51,55,48,57,53,53,49,54,49,55] false = -1 := by
  constructor
  · simp [wordVal]
  · exact (no_word_wrap _ _ _ (by simp [isDigit]) (by simp [isDigit]) (by simp [val])).1

/-! non-vacuity: "aB" vs "Ab" (equal after folding: the case-sensitive order decides), "ab" vs "AC" (it does not) -/
example : naturalCmp [97, 66] [65, 98] true = 1 := by
  rw [ci_is_fold_then_cs]
  simp [foldStr, fold, naturalCmp, ncmp, ncmpLoop, isDigit, cmpNat, ordInt]
example : naturalCmp [97, 98] [65, 67] true = naturalCmp [65, 66] [97, 99] true :=
  ci_ignores_case _ _ _ _ (by simp [foldStr, fold]) (by simp [foldStr, fold]) (by simp [foldStr, fold])
example : naturalCmp ([120] ++ 57 :: [121]) ([120] ++ 48 :: [49, 48]) true = -1 :=
  digits_value_lt_at _ _ _ _ _ _ (by simp [isDigit]) (by simp [isDigit]) (by simp [isDigit])
    (by simp [takeDigits, isDigit, val])


/-! ## what `slices.SortFunc` asks of its comparison function -/

/-- `slices.SortFunc` "requires that cmp is a strict weak ordering"; both comparison functions handed to it — the
    ascending `NaturalCmp(a, b, true)` and the descending `NaturalCmp(b, a, true)` — are strict TOTAL orders:
    irreflexive, transitive, and two strings neither of which is before the other are identical (so incomparability is
    equality, trivially transitive).  This is the only fact about the comparison the trusted sort needs. -/
theorem sortfunc_precondition (desc : Bool) :
    let c := fun a b : List Nat => if desc then naturalCmp b a true else naturalCmp a b true
    (∀ a, ¬ c a a < 0) ∧ (∀ a b d, c a b < 0 → c b d < 0 → c a d < 0) ∧
      (∀ a b, ¬ c a b < 0 → ¬ c b a < 0 → a = b) ∧ (∀ a b, c a b = - c b a) := by
  intro c
  refine ⟨?_, ?_, ?_, ?_⟩
  · intro a
    have := (cmp_zero_iff a a true).mpr rfl
    cases desc <;> simp [c, this]
  · intro a b d h1 h2
    cases desc
    · simp only [c, Bool.false_eq_true, if_false] at *; exact cmp_lt_trans a b d true h1 h2
    · simp only [c, if_true] at *; exact cmp_lt_trans d b a true h2 h1
  · intro a b h1 h2
    have an := cmp_antisymm a b true
    cases desc
    · simp only [c, Bool.false_eq_true, if_false] at *
      exact (cmp_zero_iff a b true).mp (by omega)
    · simp only [c, if_true] at *
      exact (cmp_zero_iff a b true).mp (by omega)
  · intro a b
    have an := cmp_antisymm a b true
    cases desc
    · simp only [c, Bool.false_eq_true, if_false]; omega
    · simp only [c, if_true]; omega

end C20
