import Generated.C03Conv
import Model.FixedFloat
/-! # C03 — regenerated tie for the conversion constants of `From` / `As`

`Generated/C03Conv.lean` is rewritten from the working tree by `go/cmd/c03facts` on every run of `./check C03` (inside the
Lean lock, next to `Generated/Facts.lean`).  Each theorem says that a constant or kind list found in the Go source is the
one the definitions of `Model/Fixed.lean` / `Model/FixedFloat.lean` that the driver executes are written with.  A fact the
generator does not find in the expected syntactic shape is `none`: the theorem about it is then vacuous (no alarm), and
the check lists it in the evidence (`conv_facts_absent`).  A fact that is found and differs breaks the proof. -/
namespace C03Conv
open Fixed

/-- `f128.As`: every `SetPrec(p)` of the quotient and of the divisor is the precision of the model's quotient
    (`F128.quo128` = `roundPrec 128`) -/
theorem f128_as_precision_tie : ∀ l, ConvFacts.f128AsPrec = some l → ∀ p ∈ l, ∀ a d : Nat,
    F128.quo128 a d =
      (GoSem.F64.num (roundPrec p a d).1 (roundPrec p a d).2, GoSem.F64.den (roundPrec p a d).2) := by
  intro l h
  unfold ConvFacts.f128AsPrec at h
  cases h
  all_goals
    intro p hp a d
    simp only [List.mem_cons, List.not_mem_nil, or_false, or_self] at hp
    subst hp
    rfl

/-- with another precision the statement is false (so the tie can fail): 1/3 at 64 bits -/
example : F128.quo128 1 3 ≠
    (GoSem.F64.num (roundPrec 64 1 3).1 (roundPrec 64 1 3).2, GoSem.F64.den (roundPrec 64 1 3).2) := by decide

/-- `f128.From`: the `big.Float` the argument is loaded into has at least the 53 bits of a float64, so `SetFloat64` is
    exact — what `F128.fromFloat` assumes when it expands the float itself -/
theorem f128_from_precision_tie : ∀ l, ConvFacts.f128FromPrec = some l → ∀ p ∈ l, 53 ≤ p := by
  intro l h
  unfold ConvFacts.f128FromPrec at h
  cases h
  all_goals decide

/-- `f128.From`: the text is in fixed notation with `D + n` fraction digits, `n` as in the model's `F128.textDigits` -/
theorem f128_from_text_tie :
    (∀ f, ConvFacts.f128FromTextFormat = some f → f = "f") ∧
    (∀ n, ConvFacts.f128FromExtraDigits = some n → ∀ (places m : Nat) (e : Int),
      F128.textDigits places m e =
        GoSem.F64.roundQ (GoSem.F64.num m e * 10 ^ (places + n) / GoSem.F64.den e)
          (GoSem.F64.num m e * 10 ^ (places + n) % GoSem.F64.den e) (GoSem.F64.den e)) := by
  constructor
  · intro f h
    unfold ConvFacts.f128FromTextFormat at h
    cases h
    all_goals rfl
  · intro n h
    unfold ConvFacts.f128FromExtraDigits at h
    cases h
    all_goals
      intro places m e
      rfl

/-- with `D + 0` digits the text is another one (so the tie can fail): 0.25 at one place -/
example : F128.textDigits 1 1 (-2) ≠
    GoSem.F64.roundQ (GoSem.F64.num 1 (-2) * 10 ^ (1 + 0) / GoSem.F64.den (-2))
      (GoSem.F64.num 1 (-2) * 10 ^ (1 + 0) % GoSem.F64.den (-2)) (GoSem.F64.den (-2)) := by decide

/-- `f128.From`: the reflect kinds of the `Int128FromUint64` case are exactly the integer kinds the model treats as
    unsigned (`F128.fromInt` branches on `Kind.signed`; `kind?` names the kinds as the harness does) -/
theorem f128_from_unsigned_kinds_tie : ∀ l, ConvFacts.f128FromUnsignedKinds = some l →
    ∀ s k, kind? s = some k → (s ∈ l ↔ k.signed = false) := by
  intro l h
  unfold ConvFacts.f128FromUnsignedKinds at h
  cases h
  all_goals
    intro s k hk
    unfold kind? at hk
    split at hk <;> first | (cases hk; decide) | cases hk

/-- the float path of all four generic functions is taken by exactly the kinds `float32` and `float64`, none of which is
    an integer kind of the model -/
theorem float_kinds_tie :
    ∀ l, (ConvFacts.f64FromFloatKinds = some l ∨ ConvFacts.f64AsFloatKinds = some l ∨
          ConvFacts.f128FromFloatKinds = some l ∨ ConvFacts.f128AsFloatKinds = some l) →
      l = ["float32", "float64"] ∧ ∀ s ∈ l, kind? s = none := by
  intro l h
  unfold ConvFacts.f64FromFloatKinds ConvFacts.f64AsFloatKinds ConvFacts.f128FromFloatKinds
    ConvFacts.f128AsFloatKinds at h
  rcases h with h | h | h | h <;> cases h <;> exact ⟨rfl, by decide⟩

/-- `f64.asFloat` parses the decimal text at the requested bit size, so `As[float32]` rounds once to 24 bits
    (`F64.asFloat32 = round32` of the exact quotient) -/
theorem f64_as_float_size_tie : ∀ b, ConvFacts.f64AsFloatParsesAtRequestedSize = some b → b = true := by
  intro b h
  unfold ConvFacts.f64AsFloatParsesAtRequestedSize at h
  cases h
  all_goals rfl

end C03Conv
