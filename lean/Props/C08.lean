import Model.BitSet
namespace C08
open BS

/-- the constants of the source are the ones the proofs are about -/
theorem consts : abpw = 6 ∧ dbpw = 64 ∧ bim = 63 := by decide

end C08
