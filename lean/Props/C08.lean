import Lemmas.BitSetHist
import Lemmas.BitSetSearch
import Lemmas.BitSetBounds
import Lemmas.BitSetHeapLemmas
import Lemmas.BitSetMasks
import Lemmas.BitSetMachineLemmas
import Lemmas.BitSetLaws
import Lemmas.BitSetCap
/-! # C08 — BitSet is observationally a finite set of non-negative integers

Property theorems only.  The executable model is `Model/BitSet.lean` (`BS.*`, run against `xmath.BitSet` on every
check through `BS.applyOp` and the query functions); helper lemmas are in `Lemmas/BitSet*.lean`.

* abstraction: `BS.mem b i` — index `i` is a member of the set the words of `b` denote (absent words are empty);
* specification: a pair of predicates `Nat → Bool` (`BS.NSet`) subjected to the same calls (`BS.specOp`);
* `BS.Inv b` — the cached count `b.set` equals the number of one bits of the storage (`BS.card`), which is the number
  of members (`count_is_cardinality`).

Sections: State/Count; single-index and range mutators; histories (`run_refines`, `count_card`); the six searches;
storage calls, `Load`, `Equal`; the property for histories on the mathematical set alone (`history_observations`,
`history_equal`); no out-of-range access (`Model/BitSetChecked.lean`); no shared storage (`Model/BitSetHeap.lean`, with the
spare-capacity contrast of `Lemmas/BitSetCap.lean`); range masks; no `int` wrap (`Model/BitSetMachine.lean`);
observational laws (`Lemmas/BitSetLaws.lean`).  The driver executes the heap form and the machine-`int` form of every line.

Everything is proved outright.  Whatever speaks about `Count` after a range operation goes through the whole-word fast
path, which calls the repository's SWAR routine `countSetBits`; that this routine is the population count on every
64-bit word is `countSetBits_eq_popcount` below (kernel-only proof by byte lanes, `Lemmas/BitSetSwar.lean`: the 256
byte values are evaluated by the kernel, the lane algebra is linear arithmetic), and it is also compared with the real
`countSetBits` on every run (area `popcnt`). -/
namespace C08
open BS

/-- the constants the proofs are about are the constants of the source (regenerated on every run) -/
theorem consts : abpw = 6 ∧ dbpw = 64 ∧ bim = 63 := by decide

/-- `bitIndexForMask(wordMask(x)) = x & 63`: the `atexit.Exit(1)` branch of `bitIndexForMask` is unreachable -/
theorem bitIndexForMask_total (x : Nat) : bitIndexForMask (wordMask x) = x % 64 := bitIndexForMask_wordMask x

/-! ## State, Count -/

/-- **State(i)** is true exactly for the members -/
theorem state_spec (b : T) (i : Nat) : state b i = mem b i := state_eq_mem b i

/-- the driver's `State` scan (lines `mem`, `obs`: 66 words, bit by bit through `state`) runs on the first 66 words of the
    storage only — a window of the storage answers `State` like the whole storage for every index inside the window -/
theorem state_scan_window (b : T) (n i : Nat) (h : i < n * 64) :
    state { b with data := b.data.take n } i = state b i := by
  rw [state_eq_mem, state_eq_mem]
  unfold mem bit
  simp only
  rw [getW_take, if_pos (by omega)]
/-- members lie below the capacity: the set is finite -/
theorem mem_finite (b : T) (x : Nat) (h : mem b x = true) : x < b.data.length * 64 := bit_lt _ _ h

/-- **Count** is the cardinality: under the invariant, the number of members below any bound covering the set -/
theorem count_is_cardinality (b : T) (hinv : Inv b) (N : Nat) (hN : ∀ x, mem b x = true → x < N) :
    count b = Int.ofNat ((List.range N).filter (mem b)).length := count_eq_members b hinv N hN

/-! ## single-index mutators (no assumption) -/

/-- **Set** -/
theorem set_spec (b : T) (i : Nat) :
    (∀ x, mem (setBit b i) x = (mem b x || decide (x = i))) ∧ (Inv b → Inv (setBit b i)) :=
  ⟨setBit_mem b i, setBit_inv b i⟩

/-- **Clear** (also beyond the capacity) -/
theorem clear_spec (b : T) (i : Nat) :
    (∀ x, mem (clearBit b i) x = (mem b x && !decide (x = i))) ∧ (Inv b → Inv (clearBit b i)) :=
  ⟨clearBit_mem b i, clearBit_inv b i⟩

/-- **Flip** -/
theorem flip_spec (b : T) (i : Nat) :
    (∀ x, mem (flipBit b i) x = (mem b x ^^ decide (x = i))) ∧ (Inv b → Inv (flipBit b i)) :=
  ⟨flipBit_mem b i, flipBit_inv b i⟩

/-! ## range mutators: reversed ranges, ranges inside a word, across words, beyond the capacity -/

/-- **SetRange**: members afterwards = members before ∪ [min, max] (no assumption) -/
theorem setRange_mem_spec (b : T) (s e x : Nat) :
    mem (setRange b s e) x = (mem b x || decide (min s e ≤ x ∧ x ≤ max s e)) := setRange_mem b s e x

/-- **ClearRange**: members afterwards = members before \ [min, max], also past the capacity (no assumption) -/
theorem clearRange_mem_spec (b : T) (s e x : Nat) :
    mem (clearRange b s e) x = (mem b x && !decide (min s e ≤ x ∧ x ≤ max s e)) := clearRange_mem b s e x

/-- **FlipRange**: members afterwards = members before Δ [min, max] (no assumption) -/
theorem flipRange_mem_spec (b : T) (s e x : Nat) :
    mem (flipRange b s e) x = (mem b x ^^ decide (min s e ≤ x ∧ x ≤ max s e)) := flipRange_mem b s e x

/-- the repository's SWAR routine `countSetBits` (x − ((x>>1) & 0x55…), 2-bit sums, nibble sums, mask 0x0f…, multiply by
    0x01…, >> 56) **is the population count, on every 64-bit word** -/
theorem countSetBits_eq_popcount (x : W) : countSetBits x = Int.ofNat (popcount x) := BS.countSetBits_eq_popcount x

/-- **SetRange / ClearRange / FlipRange** keep `Count` equal to the cardinality (whole-word fast path included) -/
theorem range_count (b : T) (s e : Nat) (h : Inv b) :
    Inv (setRange b s e) ∧ Inv (clearRange b s e) ∧ Inv (flipRange b s e) :=
  ⟨(setRange_spec b s e).2 h, (clearRange_spec b s e).2 h, (flipRange_spec b s e).2 h⟩

set_option maxRecDepth 200000 in
/-- a direct kernel evaluation of the routine on every byte pattern replicated into all eight byte lanes (kept as an
    independent cross-check of the transcription; the general theorem is `countSetBits_eq_popcount`) -/
theorem swar_bytes : ∀ n, n < 256 →
    countSetBits (BitVec.ofNat 64 (n * 0x0101010101010101))
      = Int.ofNat (popcount (BitVec.ofNat 64 (n * 0x0101010101010101))) := by decide

/-- the per-bit loops (first and last word of every range) keep the count exact — the
    change of `set` is the change of the word's population count -/
theorem bitLoop_count (w : W) (s : Int) (j n : Nat) (h : j + n ≤ 64) :
    (bitLoop bitSet w s j n).2 = s + popcount (bitLoop bitSet w s j n).1 - popcount w
    ∧ (bitLoop bitClear w s j n).2 = s + popcount (bitLoop bitClear w s j n).1 - popcount w
    ∧ (bitLoop bitFlip w s j n).2 = s + popcount (bitLoop bitFlip w s j n).1 - popcount w :=
  ⟨(bitLoop_spec bitSet_spec n w s j h).2, (bitLoop_spec bitClear_spec n w s j h).2,
   (bitLoop_spec bitFlip_spec n w s j h).2⟩

/-! ## histories -/

/-- **after any sequence of calls** on two bit sets (Set, Clear, Flip, the three range forms, Load, Copy, Clone, Trim,
    EnsureCapacity, Reset, Data, Load(Data())) the members of each are exactly those of a mathematical set subjected
    to the same operations (no assumption) -/
theorem run_refines (ops : List Op) (r : Reg) (x : Nat) : mem ((run ops).get r) x = (specRun ops).get r x :=
  run_mem ops r x

/-- **after any sequence of calls** `Count` equals the cardinality, for both bit sets of the history -/
theorem count_card (ops : List Op) (r : Reg) : Inv ((run ops).get r) := (run_rel ops r).1

/-- one step of any history keeps the invariant and the agreement with the specification -/
theorem step_spec (p : Pair) (sp : SPair) (h : Rel p sp) (op : Op) :
    Rel (applyOp p op) (specOp sp op) := step_refines p sp h op

/-- `Count` after a history without range operations is the cardinality — proved without going through
    `countSetBits` at all (independent of `countSetBits_eq_popcount`) -/
theorem count_card_norange (ops : List Op)
    (hno : ∀ op ∈ ops, match op with | .setRange .. | .clearRange .. | .flipRange .. => False | _ => True)
    (r : Reg) : Inv ((run ops).get r) := by
  have key : ∀ (l : List Op), (∀ op ∈ l, match op with | .setRange .. | .clearRange .. | .flipRange .. => False | _ => True) →
      ∀ p : Pair, (∀ r, Inv (p.get r)) → ∀ r, Inv ((l.foldl applyOp p).get r) := by
    intro l
    induction l with
    | nil => intro _ p hp; exact hp
    | cons op l ih =>
      intro hl p hp
      apply ih (fun o ho => hl o (List.mem_cons_of_mem _ ho))
      have hop := hl op (List.mem_cons_self ..)
      intro r'
      cases op with
      | setRange _ _ _ => exact absurd hop id
      | clearRange _ _ _ => exact absurd hop id
      | flipRange _ _ _ => exact absurd hop id
      | set q i => show Inv ((p.put q _).get r'); rw [get_put]; split; exact setBit_inv _ _ (hp q); exact hp r'
      | clear q i => show Inv ((p.put q _).get r'); rw [get_put]; split; exact clearBit_inv _ _ (hp q); exact hp r'
      | flip q i => show Inv ((p.put q _).get r'); rw [get_put]; split; exact flipBit_inv _ _ (hp q); exact hp r'
      | load q ws => show Inv ((p.put q _).get r'); rw [get_put]; split; exact load_inv _ _; exact hp r'
      | copy q q' => show Inv ((p.put q _).get r'); rw [get_put]; split; exact hp q'; exact hp r'
      | clone q q' => show Inv ((p.put q _).get r'); rw [get_put]; split; exact hp q'; exact hp r'
      | trim q => show Inv ((p.put q _).get r'); rw [get_put]; split; exact trim_inv _ (hp q); exact hp r'
      | ensure q n => show Inv ((p.put q _).get r'); rw [get_put]; split; exact ensure_inv _ _ (hp q); exact hp r'
      | reset q => show Inv ((p.put q _).get r'); rw [get_put]; split; exact reset_inv _; exact hp r'
      | data q => show Inv ((p.put q (trim (p.get q))).get r'); rw [get_put]; split; exact trim_inv _ (hp q); exact hp r'
      | loadData q q' =>
        show Inv (((p.put q' (trim (p.get q'))).put q _).get r')
        rw [get_put]; split
        · exact load_inv _ _
        · rw [get_put]; split; exact trim_inv _ (hp q'); exact hp r'
  exact key ops hno {} (fun r => by cases r <;> rfl) r

/-! ## the six searches: the extreme matching index or the documented sentinel -/


/-- **NextSet** -/
theorem nextSet_spec (b : T) (s : Nat) :
    (nextSet b s = -1 ∧ ∀ x, s ≤ x → mem b x = false)
    ∨ ∃ r : Nat, nextSet b s = Int.ofNat r ∧ s ≤ r ∧ mem b r = true ∧ ∀ x, s ≤ x → x < r → mem b x = false :=
  BS.nextSet_spec b s

/-- **PreviousSet** (start positions beyond the capacity included) -/
theorem previousSet_spec (b : T) (s : Nat) :
    (previousSet b s = -1 ∧ ∀ x, x ≤ s → mem b x = false)
    ∨ ∃ r : Nat, previousSet b s = Int.ofNat r ∧ r ≤ s ∧ mem b r = true ∧ ∀ x, r < x → x ≤ s → mem b x = false :=
  BS.previousSet_spec b s

/-- **FirstSet**: `-1` for the empty set, else the least member -/
theorem firstSet_spec (b : T) :
    (firstSet b = -1 ∧ ∀ x, mem b x = false)
    ∨ ∃ r : Nat, firstSet b = Int.ofNat r ∧ mem b r = true ∧ ∀ x, x < r → mem b x = false :=
  BS.firstSet_spec b

/-- **LastSet**: `-1` for the empty set, else the greatest member -/
theorem lastSet_spec (b : T) :
    (lastSet b = -1 ∧ ∀ x, mem b x = false)
    ∨ ∃ r : Nat, lastSet b = Int.ofNat r ∧ mem b r = true ∧ ∀ x, r < x → mem b x = false :=
  BS.lastSet_spec b

/-- **NextClear**: the least non-member at or after `start` (it always exists; beyond the capacity it is
    `max(capacity, start)`, which is what the formula of the source returns) -/
theorem nextClear_spec (b : T) (s : Nat) :
    ∃ r : Nat, nextClear b s = Int.ofNat r ∧ s ≤ r ∧ mem b r = false ∧ ∀ x, s ≤ x → x < r → mem b x = true :=
  BS.nextClear_spec b s

/-- **PreviousClear**: `-1` when every index up to `start` is a member, else the greatest non-member `≤ start` -/
theorem previousClear_spec (b : T) (s : Nat) :
    (previousClear b s = -1 ∧ ∀ x, x ≤ s → mem b x = true)
    ∨ ∃ r : Nat, previousClear b s = Int.ofNat r ∧ r ≤ s ∧ mem b r = false ∧ ∀ x, r < x → x ≤ s → mem b x = true :=
  BS.previousClear_spec b s

/-! ## Trim, Data, EnsureCapacity, Clone, Copy, Reset never change the set; Load -/

/-- **Trim** keeps members and count, and leaves the minimum storage (empty or ending in a non-zero word) -/
theorem trim_spec (b : T) :
    (∀ x, mem (trim b) x = mem b x) ∧ count (trim b) = count b ∧ (Inv b → Inv (trim b))
    ∧ ((trim b).data = [] ∨ getW (trim b).data ((trim b).data.length - 1) ≠ 0#64) :=
  ⟨trim_bit b, trim_set b, trim_inv b, trim_minimal b⟩

/-- **Data** returns the trimmed words — they denote exactly the members — and leaves the set unchanged -/
theorem data_spec (b : T) :
    (∀ x, bit (data b).2 x = mem b x) ∧ (∀ x, mem (data b).1 x = mem b x) ∧ count (data b).1 = count b
    ∧ ((data b).2 = [] ∨ getW (data b).2 ((data b).2.length - 1) ≠ 0#64) :=
  ⟨trim_bit b, trim_bit b, trim_set b, trim_minimal b⟩

/-- **EnsureCapacity** keeps members and count and provides the capacity -/
theorem ensureCapacity_spec (b : T) (n : Nat) :
    (∀ x, mem (ensureCapacity b n) x = mem b x) ∧ count (ensureCapacity b n) = count b
    ∧ n ≤ (ensureCapacity b n).data.length :=
  ⟨ensure_bit b n, ensure_set b n, ensure_length b n⟩

/-- **EnsureCapacity** with a zero, negative or any other Go `int` argument is `ensureCapacity` of the clamped value
    (the driver executes `applyOp (.ensure r words.toNat)`); in particular a request `≤ 0` changes nothing -/
theorem ensureCapacity_int (b : T) (words : Int) :
    ensureCapacityInt b words = ensureCapacity b words.toNat ∧ (words ≤ 0 → ensureCapacityInt b words = b) := by
  unfold ensureCapacityInt ensureCapacity
  refine ⟨?_, fun h => ?_⟩
  · simp only
    split
    · rfl
    · rename_i hn
      have : ¬ words.toNat > b.data.length := by simp only [Int.ofNat_eq_natCast] at hn; omega
      simp [this]
  · simp only
    have : ¬ words > Int.ofNat b.data.length := by simp only [Int.ofNat_eq_natCast]; omega
    rw [if_neg this]

/-- **Clone** / **Copy** produce the same set with the same count -/
theorem clone_copy_spec (b o : T) :
    (∀ x, mem (clone b) x = mem b x) ∧ count (clone b) = count b
    ∧ (∀ x, mem (copy b o) x = mem o x) ∧ count (copy b o) = count o :=
  ⟨fun _ => rfl, rfl, fun _ => rfl, rfl⟩

/-- **Copy** of a bit set onto itself (`b.Copy(b)`) is the identity — on the bit set and on a whole history state -/
theorem copy_self (b : T) (p : Pair) (r : Reg) : copy b b = b ∧ applyOp p (.copy r r) = p := by
  refine ⟨rfl, ?_⟩
  cases r <;> rfl

/-- **Reset** gives the empty set with count 0 -/
theorem reset_spec (b : T) : (∀ x, mem (reset b) x = false) ∧ count (reset b) = 0 :=
  ⟨reset_mem b, rfl⟩

/-- **Load** installs exactly the members denoted by the words and recomputes the count (whatever was there before) -/
theorem load_spec (b : T) (ws : List W) : (∀ x, mem (load b ws) x = bit ws x) ∧ Inv (load b ws) :=
  ⟨load_bit b ws, load_inv b ws⟩

/-- **Load(Data())** reproduces the set: same members, same count, equal in the sense of `Equal` -/
theorem load_data (b c : T) (hb : Inv b) :
    (∀ x, mem (load c (data b).2) x = mem b x) ∧ count (load c (data b).2) = count b
    ∧ equal (load c (data b).2) b = true := by
  have hm : ∀ x, mem (load c (data b).2) x = mem b x := fun x => by
    unfold mem; rw [load_bit]; exact trim_bit b x
  have hi := load_inv c (data b).2
  refine ⟨hm, ?_, (BS.equal_iff _ _ hi hb).mpr hm⟩
  unfold count; unfold BS.Inv at hi hb
  rw [hi, hb, card_congr _ _ hm]

/-! ## Equal -/

/-- **Equal** is true exactly when the two bit sets contain the same indexes — capacities play no role
    (for bit sets whose count is the cardinality, which every history guarantees) -/
theorem equal_iff (a b : T) (ha : Inv a) (hb : Inv b) : equal a b = true ↔ ∀ x, mem a x = mem b x :=
  BS.equal_iff a b ha hb

/-- `Equal` as written, with no invariant assumed: same cached count and same members -/
theorem equal_iff_raw (a b : T) : equal a b = true ↔ (a.set = b.set ∧ ∀ x, mem a x = mem b x) :=
  BS.equal_iff_raw a b

/-! ## the property for histories, stated on the mathematical set alone -/

/-- **the first sentence of the property, for histories, in terms of the mathematical set alone** -/
theorem history_observations (ops : List Op) (r : Reg) :
    let b := (run ops).get r
    let S := (specRun ops).get r
    (∀ i, state b i = S i)
    ∧ (∀ N, (∀ x, S x = true → x < N) → count b = Int.ofNat ((List.range N).filter S).length)
    ∧ (∀ s, (nextSet b s = -1 ∧ ∀ x, s ≤ x → S x = false)
          ∨ ∃ m : Nat, nextSet b s = Int.ofNat m ∧ s ≤ m ∧ S m = true ∧ ∀ x, s ≤ x → x < m → S x = false)
    ∧ (∀ s, (previousSet b s = -1 ∧ ∀ x, x ≤ s → S x = false)
          ∨ ∃ m : Nat, previousSet b s = Int.ofNat m ∧ m ≤ s ∧ S m = true ∧ ∀ x, m < x → x ≤ s → S x = false)
    ∧ ((firstSet b = -1 ∧ ∀ x, S x = false) ∨ ∃ m : Nat, firstSet b = Int.ofNat m ∧ S m = true ∧ ∀ x, x < m → S x = false)
    ∧ ((lastSet b = -1 ∧ ∀ x, S x = false) ∨ ∃ m : Nat, lastSet b = Int.ofNat m ∧ S m = true ∧ ∀ x, m < x → S x = false)
    ∧ (∀ s, ∃ m : Nat, nextClear b s = Int.ofNat m ∧ s ≤ m ∧ S m = false ∧ ∀ x, s ≤ x → x < m → S x = true)
    ∧ (∀ s, (previousClear b s = -1 ∧ ∀ x, x ≤ s → S x = true)
          ∨ ∃ m : Nat, previousClear b s = Int.ofNat m ∧ m ≤ s ∧ S m = false ∧ ∀ x, m < x → x ≤ s → S x = true)
    ∧ (∀ x, bit (data b).2 x = S x) := by
  intro b S
  have e : mem b = S := funext (run_mem ops r)
  refine ⟨fun i => by rw [state_eq_mem, e], fun N hN => ?_, fun s => ?_, fun s => ?_, ?_, ?_, fun s => ?_, fun s => ?_, fun x => ?_⟩
  · rw [← e] at hN ⊢; exact count_eq_members b (run_rel ops r).1 N hN
  · have := BS.nextSet_spec b s; rwa [e] at this
  · have := BS.previousSet_spec b s; rwa [e] at this
  · have := BS.firstSet_spec b; rwa [e] at this
  · have := BS.lastSet_spec b; rwa [e] at this
  · have := BS.nextClear_spec b s; rwa [e] at this
  · have := BS.previousClear_spec b s; rwa [e] at this
  · rw [← e]; exact trim_bit b x

/-- **Equal** between the bit sets of any two histories is equality of the mathematical sets -/
theorem history_equal (ops ops' : List Op) (r r' : Reg) :
    equal ((run ops).get r) ((run ops').get r') = true ↔ ∀ x, (specRun ops).get r x = (specRun ops').get r' x := by
  rw [BS.equal_iff _ _ (run_rel ops r).1 (run_rel ops' r').1]
  constructor
  · intro h x; rw [← run_mem ops r x, ← run_mem ops' r' x]; exact h x
  · intro h x; rw [run_mem ops r x, run_mem ops' r' x]; exact h x
/-! ## no index-out-of-range panic: every word access of every operation is in bounds

`Model/BitSetChecked.lean` repeats the transcription with checked accesses: `b.data[i]` is `none` (Go: run-time panic
"index out of range") unless `i < len(b.data)`, a write likewise, a slice expression `s[n:]` unless `n ≤ len(s)`.  The
total model reads absent words as zero and ignores writes past the end; these theorems show that it never relies on that. -/

/-- **every mutating call, on EVERY state** (a fortiori every state reached from the empty set): the checked execution
    does not fail and computes what the total model computes -/
theorem all_accesses_in_bounds (p : Pair) (op : Op) : applyOpC p op = some (applyOp p op) := applyOpC_eq p op

/-- … hence every history from two zero-value bit sets runs without an out-of-range access -/
theorem all_accesses_in_bounds_run (ops : List Op) : runC ops = some (run ops) := runC_eq ops

/-- … and so do all queries, for every bit set and every non-negative argument -/
theorem all_accesses_in_bounds_queries (b o : T) (i : Nat) :
    stateC b i = some (state b i) ∧ nextSetC b i = some (nextSet b i) ∧ previousSetC b i = some (previousSet b i)
    ∧ nextClearC b i = some (nextClear b i) ∧ previousClearC b i = some (previousClear b i)
    ∧ firstSetC b = some (firstSet b) ∧ lastSetC b = some (lastSet b) ∧ equalC b o = some (equal b o) :=
  ⟨stateC_eq b i, nextSetC_eq b i, previousSetC_eq b i, nextClearC_eq b i, previousClearC_eq b i, firstSetC_eq b,
   lastSetC_eq b, equalC_eq b o⟩

/-- CONTRAST: the checked semantics does see a missing guard — `Set` without `EnsureCapacity`, `ClearRange` without the
    clamp to the last word, `PreviousSet` without the clamp, `Equal` without the swap to (shorter, longer) all index out
    of range on small inputs -/
theorem bounds_contrast :
    setBitNoEnsureC {} 70 = none
    ∧ clearRangeNoClampC (setBit {} 5) 0 200 = none
    ∧ previousSetNoClampC (setBit {} 5) 200 = none
    ∧ equalNoSwapC (ensureCapacity (setBit {} 5) 2) (setBit {} 5) = none := by decide

/-! ## no shared storage: the heap model

`Model/BitSetHeap.lean` models a bit set as a slice header into a heap of arrays: in-place statements write into the
array the receiver points to, `make` + `copy` allocates, the caller's slices (arguments of `Load`, results of `Data`)
live in the same heap and may be scribbled on.  The driver executes this model. -/

/-- **after every session** (calls of the API interleaved with the caller scribbling on slices it holds) the heap is
    separated — the two bit sets share no array and none with the caller — and it denotes exactly what the value model
    computes from the calls alone: the scribbles have no effect and no call leaks into another bit set -/
theorem heap_refines (evs : List Ev) : Sep (runH evs) ∧ (runH evs).denote = run (opsOf evs) :=
  foldl_heap evs {} sep_init

/-- **no aliasing**: on every state reached by a session, a call changes only the bit sets it is a call on (the receiver;
    for `r.Load(q.Data())` also `q`, which `Data` trims) — the other bit set keeps its words and its count — and every
    slice the caller holds keeps its content -/
theorem no_aliasing (evs : List Ev) (op : Op) :
    (∀ r', r' ∉ opWrites op → (applyOpH (runH evs) op).view r' = (runH evs).view r')
    ∧ (∀ a, a ∈ (runH evs).ext → arrAt (applyOpH (runH evs) op).mem a = arrAt (runH evs).mem a) := by
  obtain ⟨hs, _⟩ := heap_refines evs
  obtain ⟨d, _, e⟩ := applyOpH_spec (runH evs) hs op
  refine ⟨fun r' hr' => ?_, e.2⟩
  rw [← denote_get, d, applyOp_get_other _ _ _ hr', denote_get]

/-- one step, for any separated heap: refinement of the value model, separation kept, caller's slices kept -/
theorem heap_step (h : Heap) (hs : Sep h) (op : Op) :
    (applyOpH h op).denote = applyOp h.denote op ∧ Sep (applyOpH h op) ∧ ExtStable h (applyOpH h op) :=
  applyOpH_spec h hs op

/-- the caller scribbling on a slice it holds changes neither bit set -/
theorem scribble_harmless (evs : List Ev) (a : Nat) (ha : a ∈ (runH evs).ext) :
    (scribbleH (runH evs) a).denote = (runH evs).denote :=
  (scribbleH_spec _ (heap_refines evs).1 a ha).1

/-- CONTRAST: the heap model does see sharing.  `Clone` that shares the slice: a later `Set` on the original shows in
    the clone.  `Data` that returns the receiver's slice: the caller's scribble changes the bit set.  `Copy` as it
    was before the fix aa1f799: copying a bit set onto itself zeroes its words and keeps the count -/
theorem aliasing_contrast :
    (let h := cloneShareH (runH [.op (.set .A 3), .op (.set .A 70)]) .B .A
     ((applyOpH h (.set .A 4)).view .B).data ≠ (h.view .B).data)
    ∧ (let h := dataShareH (runH [.op (.set .A 3)]) .A
       ((scribbleH h h.lastExt).view .A).data ≠ (h.view .A).data)
    ∧ (let h := runH [.op (.set .A 5), .op (.set .A 70)]
       (copyOldH h .A .A).view .A = { data := [0#64, 0#64], set := 2 }
       ∧ (applyOpH h (.copy .A .A)).view .A = h.view .A) := by decide

/-- CONTRAST (spare capacity, the two cooperating sites of ind6-c08-b): the heap model treats a slice as a whole array
    because the code makes every slice with `len == cap` and never reslices.  On slices WITH spare capacity
    (`Lemmas/BitSetCap.lean`): (1) a `Copy` that reuses the receiver's backing array denotes the right bit set, and
    (2) stays right under the code's `EnsureCapacity`, which copies `len` words into a zeroed array; (3) an
    `EnsureCapacity` that reslices within the capacity is the code's on every tight slice; (4) together they are wrong:
    after `Copy` from a shorter set, growing again resurrects a member (130) that the mathematical set does not
    contain, and the count is no longer the cardinality — while edit 1 with the code's `EnsureCapacity` is right -/
theorem reslice_contrast :
    (∀ c o, (copyReuse c o).view = copy c.view o)
    ∧ (∀ c n, c.len ≤ c.arr.length → (ensureFresh c n).view = ensureCapacity c.view n)
    ∧ (∀ c n, c.Tight → ensureReslice c n = ensureFresh c n)
    ∧ (let c : CapT := { arr := [1#64, 0#64, 4#64], len := 3, set := 2 }
       let c2 := ensureReslice (copyReuse c (setBit {} 1)) 3
       mem c2.view 130 = true ∧ mem (ensureCapacity (copy c.view (setBit {} 1)) 3) 130 = false
       ∧ c2.view.set ≠ Int.ofNat (card c2.view.data)
       ∧ (ensureFresh (copyReuse c (setBit {} 1)) 3).view = ensureCapacity (copy c.view (setBit {} 1)) 3) :=
  ⟨copyReuse_view, fun c n h => (ensureFresh_view c n h).1, ensureReslice_tight, by decide⟩

/-! ## range masks: a word-at-a-time implementation computes what the per-bit loops compute

Groundwork and documentation (`Lemmas/BitSetMasks.lean`): the shape `MaxUint64 << startBit`, `MaxUint64 >> (63 - endBit)`
is the one of the silent control control-ind5-c08 and, with a defect, of ind4-c08-a / ind5-c08-a. -/

/-- the bit patterns of the two shifts and of their conjunction -/
theorem range_masks (s e k : Nat) (he : e < 64) (hk : k < 64) :
    (maskFrom s).getLsbD k = decide (s ≤ k) ∧ (maskTo e).getLsbD k = decide (k ≤ e)
    ∧ (rangeMask s e).getLsbD k = decide (s ≤ k ∧ k ≤ e) :=
  ⟨maskFrom_bit s k hk, maskTo_bit e k he hk, rangeMask_bit s e k he hk⟩

/-- one word: the per-bit loop over the bits `j … j+n−1` IS `w | m`, `w &^ m`, `w ^ m` with `m` the range mask, and it
    changes the count by the population count of the bits that really change -/
theorem bit_loops_are_masks (w : W) (s : Int) (j n : Nat) (hn : 0 < n) (h : j + n ≤ 64) :
    bitLoop bitSet w s j n = (w ||| rangeMask j (j + n - 1), s + popcount (rangeMask j (j + n - 1) &&& ~~~w))
    ∧ bitLoop bitClear w s j n = (w &&& ~~~rangeMask j (j + n - 1), s - popcount (w &&& rangeMask j (j + n - 1)))
    ∧ bitLoop bitFlip w s j n
        = (w ^^^ rangeMask j (j + n - 1), s + popcount (rangeMask j (j + n - 1)) - 2 * popcount (w &&& rangeMask j (j + n - 1))) :=
  ⟨bitLoop_maskSet w s j n hn h, bitLoop_maskClear w s j n hn h, bitLoop_maskFlip w s j n hn h⟩

/-- **any word-at-a-time range loop** whose body agrees with the whole-word fast path on the full mask and with the bit
    loop on a range mask equals the loop of the source, words and count; a single-word range takes BOTH bounds -/
theorem word_at_a_time_loop {whole : W → Int → W × Int} {act : W → Int → Nat → W × Int} {app : W → Int → W → W × Int}
    (hwhole : ∀ w s, whole w s = app w s (BitVec.allOnes 64))
    (hbits : ∀ w s j n, 0 < n → j + n ≤ 64 → bitLoop act w s j n = app w s (rangeMask j (j + n - 1)))
    (i1 i2 sb eb : Nat) (hsb : sb < 64) (heb : eb < 64) (h12 : i1 ≤ i2) (hse : i1 = i2 → sb ≤ eb) (d : List W) (s : Int) :
    rangeLoopW app i1 i2 sb eb d s i1 (i2 + 1 - i1) = rangeLoop whole act i1 i2 eb d s i1 sb (i2 + 1 - i1) := by
  have := rangeLoopW_eq hwhole hbits i1 i2 sb eb hsb heb h12 hse (i2 + 1 - i1) d s i1 (Nat.le_refl _) (by omega)
  simpa using this

/-- **SetRange / ClearRange / FlipRange written word at a time** (same swap, same `EnsureCapacity`, same clamp) are the
    operations of the source, for all arguments -/
theorem word_at_a_time_ops (b : T) (s e : Nat) :
    setRangeW b s e = setRange b s e ∧ clearRangeW b s e = clearRange b s e ∧ flipRangeW b s e = flipRange b s e :=
  ⟨setRangeW_eq b s e, clearRangeW_eq b s e, flipRangeW_eq b s e⟩

/-- CONTRAST: (1) a single-word range that uses only the start mask sets bits past `end`; (2) only the end mask sets bits
    before `start`; (3) a flip whose count is updated by the population count of the mask, ignoring the bits that were
    already set, drifts (the defect class of ind4-c08-a) -/
theorem mask_contrast :
    (0#64 ||| maskFrom 3) ≠ (bitLoop bitSet 0#64 0 3 3).1
    ∧ (0#64 ||| maskTo 5) ≠ (bitLoop bitSet 0#64 0 3 3).1
    ∧ (0#64 ||| rangeMask 3 5) = (bitLoop bitSet 0#64 0 3 3).1
    ∧ (5 : Int) + popcount (rangeMask 0 3) ≠ (bitLoop bitFlip 0x3#64 5 0 4).2
    ∧ (maskFlip 0x3#64 5 (rangeMask 0 3)).2 = (bitLoop bitFlip 0x3#64 5 0 4).2 := by decide

/-! ## no `int` overflow: the index arithmetic of the source never wraps

`Model/BitSetMachine.lean` repeats the checked transcription with Go's 64-bit `int` made explicit: every `int` expression
of the source that can grow (`i + 1`, `i2 + 1`, `size * 2`, `len(b.data) << 6`, `(maximum+1)<<6 - 1`, `i<<6 + j`,
`maximum * 64`, every `i++`) is `none` when its mathematical value exceeds `math.MaxInt`.  The driver executes these
forms (a wrapped index would print `overflow`), with arguments up to `math.MaxInt` for the calls that never allocate. -/

/-- **every mutating call**: on two bit sets whose storage is addressable with an `int` (`Fits`: `len(b.data)*64 ≤
    math.MaxInt`, i.e. fewer than 2^57 words) and for every argument up to `math.MaxInt`, no index expression wraps and
    no word access is out of range; the checked execution computes what the total model computes -/
theorem no_int_overflow (p : Pair) (op : Op) (hp : ∀ r, Fits (p.get r)) (ha : ∀ a ∈ op.args, a ≤ maxInt) :
    applyOpM p op = some (applyOp p op) := applyOpM_eq p op hp ha

/-- **every history** from two zero-value bit sets whose storing calls are `Small` (`Set`/`Flip`/`SetRange`/`FlipRange`
    below index 2^61, `EnsureCapacity` up to 2^55 words, `Load` of up to 2^56 words; `Clear`/`ClearRange` with any
    argument up to `math.MaxInt`) runs without a wrapped `int`, and both storages stay within 2^56 words (so `Fits` is
    kept: the hypothesis of `no_int_overflow` is an invariant of such histories, not an assumption about them) -/
theorem no_int_overflow_run (ops : List Op) (h : ∀ op ∈ ops, op.Small) :
    runM ops = some (run ops) ∧ ∀ r, ((run ops).get r).data.length ≤ 2 ^ 56 ∧ Fits ((run ops).get r) :=
  ⟨runM_eq ops h, fun r => ⟨by have := run_lenB ops h r; unfold LenB at this; rw [lenBound_eq] at this; exact this,
    lenB_fits _ (run_lenB ops h r)⟩⟩

/-- **every search**, every start position (no bound on `i`): `i<<6 + j`, `len(b.data) << 6` (`LastSet`) and
    `maximum * 64` (`NextClear`) do not wrap on a storage that `Fits` -/
theorem no_int_overflow_queries (b : T) (i : Nat) (h : Fits b) :
    nextSetM b i = some (nextSet b i) ∧ previousSetM b i = some (previousSet b i)
    ∧ nextClearM b i = some (nextClear b i) ∧ previousClearM b i = some (previousClear b i)
    ∧ firstSetM b = some (firstSet b) ∧ lastSetM b = some (lastSet b) :=
  ⟨nextSetM_eq b i h, previousSetM_eq b i h, nextClearM_eq b i h, previousClearM_eq b i h, firstSetM_eq b h, lastSetM_eq b h⟩

/-- the cached count lies in `[0, 64·len(b.data)]` whenever it is the cardinality: it fits an `int` when the storage does
    (this is why `set` may stay an unbounded `Int` in the checked model) -/
theorem count_bounds (b : T) (h : Inv b) : 0 ≤ count b ∧ count b ≤ Int.ofNat (b.data.length * 64) := BS.count_bounds b h

/-- CONTRAST: the checked arithmetic does see a wrap.  (1) `ClearRange` rewritten over the half-open range
    `[start, min(end+1, len<<6))` (the shape of ind6-c08-a) wraps at `end = math.MaxInt` on EVERY bit set, while (2) the
    code's inclusive, word-clamped form does not; (3) the hypothesis `Fits` is sharp: on a storage of 2^57 words or more
    `LastSet` wraps; (4) `EnsureCapacity` wraps (`size *= 2`) once the storage has 2^62 words -/
theorem int_overflow_contrast (b : T) (s : Nat) (hs : s ≤ maxInt) :
    clearRangeHalfOpenM b s maxInt = none
    ∧ (Fits b → clearRangeM b s maxInt = some (clearRange b s maxInt))
    ∧ (¬ Fits b → lastSetM b = none)
    ∧ (∀ n, maxInt < b.data.length * 2 → b.data.length < n → ensureCapacityM b n = none) :=
  ⟨clearRangeHalfOpenM_overflow b s hs, clearRangeM_eq b s maxInt, lastSetM_overflow b, fun n => ensureCapacityM_overflow b n⟩

/-- **what the driver executes, line by line**: on the state reached by any session of `Small` calls (the caller's
    scribbles included), the machine-`int`, access-checked execution of the next call on the bit sets the heap DENOTES
    succeeds and yields exactly what the heap execution of that call denotes — so the driver's `panic` / `overflow`
    outputs are unreachable, and its two executions of a line can never disagree -/
theorem checked_agrees_with_heap (evs : List Ev) (op : Op) (h : ∀ o ∈ opsOf evs, o.Small) (ho : op.Small) :
    applyOpM (runH evs).denote op = some (applyOpH (runH evs) op).denote := by
  obtain ⟨hs, hd⟩ := heap_refines evs
  rw [(applyOpH_spec _ hs op).1, hd]
  exact applyOpM_eq _ _ (fun r => lenB_fits _ (run_lenB _ h r)) (small_args op ho)
/-! ## observational: a bit set is its set of members and nothing else

The storage of a bit set depends on its whole history (doubling growth, `Trim`, `Copy` of a longer or shorter set).
These theorems say that none of it can be observed. -/

/-- **Data() is a canonical form**: two bit sets have the same members exactly when `Data()` returns the same words
    (no invariant needed) -/
theorem data_canonical (a b : T) : (∀ x, mem a x = mem b x) ↔ (data a).2 = (data b).2 := BS.data_canonical a b

/-- **Trim** (and the trimming inside `Data`) is idempotent, and leaves a minimal storage alone -/
theorem trim_idempotent (b : T) :
    trim (trim b) = trim b ∧ (data (data b).1).2 = (data b).2
    ∧ ((b.data = [] ∨ getW b.data (b.data.length - 1) ≠ 0#64) → trim b = b) :=
  ⟨trim_idem b, congrArg T.data (trim_idem b), trim_of_minimal b⟩

/-- **the range forms are the single-index forms iterated** over `min(start,end) … max(start,end)`: same members and
    same `Count` (whole-word fast path, reversal and clamping included) -/
theorem ranges_are_iterated_singles (b : T) (s e : Nat) (hb : Inv b) :
    ((∀ x, mem (setRange b s e) x = mem ((rangeIdx s e).foldl setBit b) x)
      ∧ count (setRange b s e) = count ((rangeIdx s e).foldl setBit b))
    ∧ ((∀ x, mem (clearRange b s e) x = mem ((rangeIdx s e).foldl clearBit b) x)
      ∧ count (clearRange b s e) = count ((rangeIdx s e).foldl clearBit b))
    ∧ ((∀ x, mem (flipRange b s e) x = mem ((rangeIdx s e).foldl flipBit b) x)
      ∧ count (flipRange b s e) = count ((rangeIdx s e).foldl flipBit b)) :=
  ⟨setRange_iterated b s e hb, clearRange_iterated b s e hb, flipRange_iterated b s e hb⟩

/-- **Equal** is an equivalence relation (as written, no invariant needed) -/
theorem equal_equivalence (a b c : T) :
    equal a a = true ∧ equal a b = equal b a ∧ (equal a b = true → equal b c = true → equal a c = true) :=
  ⟨equal_refl a, equal_symm a b, equal_trans a b c⟩

/-- **every observation is a function of the members**: two bit sets with the same members (and exact counts) answer
    `State`, `Count`, `FirstSet`, `LastSet`, the four searches from every start, `Data` and `Equal` (either side, against
    any third bit set) identically — whatever their capacities (`ObsEq` is that conjunction, `Lemmas/BitSetLaws.lean`) -/
theorem observational (a b : T) (ha : Inv a) (hb : Inv b) (h : ∀ x, mem a x = mem b x) : ObsEq a b :=
  obsEq_of_mem a b ha hb h

/-- **Data, Trim, EnsureCapacity never change the set — anywhere in a history**: erasing every such call from a history
    changes no answer of any later observation (although it does change the storage, see the `example` below) -/
theorem storage_calls_unobservable (ops : List Op) (r : Reg) :
    ObsEq ((run ops).get r) ((run (ops.filter (fun o => !o.isStorageOnly))).get r) :=
  obsEq_of_mem _ _ (run_rel ops r).1 (run_rel _ r).1 (run_erase_mem ops r)

/-- two histories (of either bit set) that denote the same mathematical set are indistinguishable -/
theorem histories_observational (ops ops' : List Op) (r r' : Reg)
    (h : ∀ x, (specRun ops).get r x = (specRun ops').get r' x) : ObsEq ((run ops).get r) ((run ops').get r') :=
  obsEq_of_mem _ _ (run_rel ops r).1 (run_rel ops' r').1 (fun x => by rw [run_mem ops r x, run_mem ops' r' x, h])

/-- **the set algebra of the single-index calls, as observed**: `Set`/`Clear` are idempotent, `Flip` is an involution,
    `Clear` undoes `Set` up to a prior membership, and calls on two indexes commute — every later answer (State, Count,
    the searches, Data, Equal) agrees, whatever capacity the two orders left behind -/
theorem single_index_algebra (b : T) (i j : Nat) (hb : Inv b) :
    ObsEq (setBit (setBit b i) i) (setBit b i)
    ∧ ObsEq (clearBit (clearBit b i) i) (clearBit b i)
    ∧ ObsEq (flipBit (flipBit b i) i) b
    ∧ ObsEq (clearBit (setBit b i) i) (clearBit b i)
    ∧ ObsEq (setBit (clearBit b i) i) (setBit b i)
    ∧ ObsEq (setBit (setBit b i) j) (setBit (setBit b j) i)
    ∧ ObsEq (clearBit (clearBit b i) j) (clearBit (clearBit b j) i)
    ∧ ObsEq (flipBit (flipBit b i) j) (flipBit (flipBit b j) i)
    ∧ (i ≠ j → ObsEq (clearBit (setBit b i) j) (setBit (clearBit b j) i)) := by
  have s := fun b i => setBit_inv b i
  have c := fun b i => clearBit_inv b i
  have f := fun b i => flipBit_inv b i
  refine ⟨?_, ?_, ?_, ?_, ?_, ?_, ?_, ?_, fun hij => ?_⟩
  all_goals
    apply obsEq_of_mem
    · first | exact s _ _ (s _ _ hb) | exact c _ _ (c _ _ hb) | exact f _ _ (f _ _ hb) | exact c _ _ (s _ _ hb) | exact s _ _ (c _ _ hb)
    · first | exact hb | exact s _ _ hb | exact c _ _ hb | exact f _ _ hb | exact s _ _ (s _ _ hb) | exact c _ _ (c _ _ hb) | exact f _ _ (f _ _ hb) | exact s _ _ (c _ _ hb)
    · intro x
      simp only [setBit_mem, clearBit_mem, flipBit_mem]
      by_cases h1 : x = i <;> by_cases h2 : x = j <;> cases mem b x <;> simp_all

/-- **the range calls obey the same algebra** (reversed and clamped ranges included): `SetRange`/`ClearRange` idempotent,
    `FlipRange` an involution, `ClearRange` after `SetRange` of the same range is `ClearRange`, and vice versa;
    `FlipRange` of a range is `SetRange` of it on a set that has none of it -/
theorem range_algebra (b : T) (s e : Nat) (hb : Inv b) :
    ObsEq (setRange (setRange b s e) s e) (setRange b s e)
    ∧ ObsEq (clearRange (clearRange b s e) s e) (clearRange b s e)
    ∧ ObsEq (flipRange (flipRange b s e) s e) b
    ∧ ObsEq (clearRange (setRange b s e) s e) (clearRange b s e)
    ∧ ObsEq (setRange (clearRange b s e) s e) (setRange b s e)
    ∧ ObsEq (flipRange (clearRange b s e) s e) (setRange b s e)
    ∧ ObsEq (setRange b s e) (setRange b e s) := by
  have S := fun (b : T) (h : BS.Inv b) => (range_count b s e h).1
  have C := fun (b : T) (h : BS.Inv b) => (range_count b s e h).2.1
  have F := fun (b : T) (h : BS.Inv b) => (range_count b s e h).2.2
  refine ⟨?_, ?_, ?_, ?_, ?_, ?_, ?_⟩
  all_goals
    apply obsEq_of_mem
    · first | exact S _ (S _ hb) | exact C _ (C _ hb) | exact F _ (F _ hb) | exact C _ (S _ hb) | exact S _ (C _ hb) | exact F _ (C _ hb) | exact S _ hb
    · first | exact hb | exact S _ hb | exact C _ hb | exact (range_count b e s hb).1
    · intro x
      simp only [setRange_mem, clearRange_mem, flipRange_mem, Nat.min_comm e s, Nat.max_comm e s]
      first | done | (cases mem b x <;> cases decide (min s e ≤ x ∧ x ≤ max s e) <;> rfl)

set_option maxRecDepth 100000 in
example : count (flipRange (clearRange (setBit {} 70) 9 3) 3 9) = 8 := by decide

/-! non-vacuity: the invariant holds for the zero value and a concrete history; `countSetBits` evaluated at sample
    words; `equal` sees through different capacities -/
example : BS.Inv ({} : T) := rfl
example : countSetBits 0xdeadbeef12345678#64 = Int.ofNat (popcount 0xdeadbeef12345678#64) := by decide
example : countSetBits (BitVec.allOnes 64) = 64 := by decide
example : equal (ensureCapacity (setBit {} 5) 8) (setBit {} 5) = true := by decide
example : (run [.set .A 5, .copy .B .A, .ensure .B 8]).b.data.length = 8 := by decide

/-- the storage does depend on the storage-only calls that `storage_calls_unobservable` erases -/
example : (run [.set .A 5, .ensure .A 40, .set .A 700, .clear .A 700, .trim .A, .data .A]).a.data.length
    ≠ (run [.set .A 5, .set .A 700, .clear .A 700]).a.data.length := by decide
/-- `Small` is satisfiable, with the non-allocating calls at `math.MaxInt` -/
example : ∀ op ∈ [Op.set .A 5, .setRange .B 70 2000000000000000000, .clearRange .A 0 maxInt], op.Small := by
  simp [Op.Small, maxInt]
example : Fits (setBit {} 100) := by unfold Fits; decide

end C08
